"""
qlift: execute the *real* source of pygyro's pyccel-subset kernel modules on exact rationals.

The current file under /repo is parsed; imports (module level and function level), decorators and
annotations are dropped; float literals become Fraction(<decimal literal>); `/` becomes exact
division when both operands are exact; `empty`/`empty_like`/`zeros` allocate object arrays; the
transcendental names (pi, exp, tanh, sqrt, cos, real, abs) are bound to caller-supplied rational
stand-ins that are passed unchanged to the Coq model.  The statements executed are the code's own.
"""
import ast
import os
from fractions import Fraction as F

import numpy as np

import core


class _Lift(ast.NodeTransformer):
    def visit_Constant(self, n):
        if isinstance(n.value, float):
            return ast.copy_location(
                ast.Call(func=ast.Name('__F', ast.Load()), args=[ast.Constant(repr(n.value))], keywords=[]), n)
        return n

    def visit_arg(self, n):
        n.annotation = None
        return n

    def visit_AnnAssign(self, n):
        self.generic_visit(n)
        if n.value is None:
            return None
        return ast.copy_location(ast.Assign(targets=[n.target], value=n.value), n)

    def visit_FunctionDef(self, n):
        n.returns = None
        n.decorator_list = []
        self.generic_visit(n)
        n.body = [s for s in n.body if not isinstance(s, (ast.Import, ast.ImportFrom))] or [ast.Pass()]
        return n

    def visit_BinOp(self, n):
        self.generic_visit(n)
        if isinstance(n.op, ast.Div):
            return ast.copy_location(
                ast.Call(func=ast.Name('__div', ast.Load()), args=[n.left, n.right], keywords=[]), n)
        return n


def _div(a, b):
    if isinstance(a, (int, np.integer)) and isinstance(b, (int, np.integer)):
        return F(int(a), int(b))
    return a / b


def _empty(shape, dtype=None, **kw):
    return np.empty(shape, dtype=object)


def _empty_like(a, dtype=None, **kw):
    return np.empty(np.shape(a), dtype=object)


def _zeros(shape, dtype=None, **kw):
    z = np.empty(shape, dtype=object)
    z[...] = F(0)
    return z


def default_env():
    return {'__F': F, '__div': _div, 'empty': _empty, 'empty_like': _empty_like, 'zeros': _zeros,
            'real': lambda x: x, 'abs': abs, 'TypeVar': lambda *a, **k: None, 'Final': None}


def load(relpath, extra=None, prior=None):
    """exec the lifted module /repo/<relpath>; `prior` = namespaces of modules it imports from"""
    import warnings
    path = os.path.join(core.REPO, relpath)
    with warnings.catch_warnings():
        warnings.simplefilter('ignore')           # docstrings with '\i' etc.
        tree = ast.parse(open(path).read(), filename=path)
    tree.body = [s for s in tree.body if not isinstance(s, (ast.Import, ast.ImportFrom))]
    tree = ast.fix_missing_locations(_Lift().visit(tree))
    ns = default_env()
    for p in (prior or []):
        for k, v in p.items():
            if callable(v) and not k.startswith('__'):
                ns.setdefault(k, v)
    if extra:
        ns.update(extra)
    with warnings.catch_warnings():
        warnings.simplefilter('ignore')
        exec(compile(tree, path, 'exec'), ns)
    return ns


def arr(xs):
    """object array of Fractions from nested lists"""
    a = np.empty(np.shape(xs), dtype=object)
    it = np.nditer(np.empty(np.shape(xs)), flags=['multi_index'])
    for _ in it:
        v = xs
        for i in it.multi_index:
            v = v[i]
        a[it.multi_index] = v if isinstance(v, F) else F(v)
    return a


def frac_of_float(x):
    """every finite double is a rational"""
    return F(*float(x).as_integer_ratio())


def qstr(q):
    """wire format of a rational for modelrun: hexnum/hexden"""
    q = F(q)
    n, d = q.numerator, q.denominator
    return ('-' if n < 0 else '') + format(abs(n), 'x') + '/' + format(d, 'x')


def qparse(s):
    n, d = s.split('/')
    return F(int(n, 16), int(d, 16))
