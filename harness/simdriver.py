"""
Drivers that run pygyro's real simulation objects under the simulated MPI with a chosen process
grid (compute_2d_process_grid is overridden so that every admissible grid can be exercised, not only
the one the search would pick), and return local blocks with their global placement.
"""
import os
import numpy as np


def exact_field(gidx, salt=0):
    """deterministic field value from the global linear index: a small dyadic rational, so that the
    same global field is produced bit-for-bit whatever the decomposition"""
    return ((gidx * 7919 + salt * 104729) % 1009).astype(float) / 1024.0


def global_index(layout, npts):
    idx = np.indices(layout.shape)
    d = len(npts)
    gl = [None] * d
    for a in range(d):
        gl[layout.dims_order[a]] = idx[a] + layout.starts[a]
    v = np.zeros(layout.shape, dtype=np.int64)
    for e in range(d):
        v = v * npts[e] + gl[e]
    return v


def block_info(grid):
    L = grid.getLayout(grid.currentLayout)
    return {'dims': [int(x) for x in L.dims_order], 'starts': [int(x) for x in L.starts], 'shape': [int(x) for x in L.shape],
            'data': np.array(grid.getAllData(), copy=True)}


def assemble(blocks, npts):
    """global array (eta order) from per-rank block_info; returns (array, coverage count array)"""
    d = len(blocks[0]['dims'])
    dims = blocks[0]['dims']
    full = np.zeros([npts[e] for e in dims], dtype=blocks[0]['data'].dtype)
    cnt = np.zeros([npts[e] for e in dims], dtype=np.int64)
    for b in blocks:
        sl = tuple(slice(s, s + n) for s, n in zip(b['starts'], b['shape']))
        full[sl] = b['data']
        cnt[sl] += 1
    return np.transpose(full, [dims.index(e) for e in range(d)]), np.transpose(cnt, [dims.index(e) for e in range(d)])


# physical constants in which the sibling constants (ion / electron / density profiles) all differ: the defaults have
# deltaRTe = deltaRTi, kTe = kTi, CTe = CTi, deltaRN0 = 2 deltaRTe, under which a profile built from the wrong sibling is the same
DISTINCT_CONSTANTS = {'deltaRTi': 1.6, 'deltaRTe': 0.8, 'kTi': 0.2, 'kTe': 0.31, 'CTi': 0.9, 'CTe': 1.3, 'kN0': 0.07, 'deltaRN0': 2.4}


class Sim:
    """everything fullSimulation.py builds before its loop, for a given process grid"""

    def __init__(self, comm, npts, nprocs, iota=0.8, dt=2.0, layout='v_parallel', pol_explicit=True, extra=None):
        import pygyro.initialisation.setups as setups
        from pygyro.poisson.poisson_solver import DensityFinder, QuasiNeutralitySolver
        from pygyro.advection.advection import FluxSurfaceAdvection, VParallelAdvection, PoloidalAdvection, ParallelGradient
        from pygyro.model.grid import Grid
        from pygyro.model.layout import LayoutSwapper, getLayoutHandler
        setups.compute_2d_process_grid = lambda n, m, _g=tuple(nprocs): _g
        kw = dict(npts=list(npts), iotaVal=iota, dt=dt)
        extra = dict(extra or {})
        slope = extra.pop('iota_slope', None)
        kw.update(extra)
        self.comm = comm
        self.npts = list(npts)
        f, constants, t = setups.setupCylindricalGrid(layout=layout, comm=comm, allocateSaveMemory=True, **kw)
        self.f, self.constants = f, constants
        if slope is not None:
            # a rotational transform that depends on r (the code supports it: rIdx / iota(r) everywhere)
            constants.iota = lambda r=constants.rp, _v=iota, _s=slope: np.full_like(r, _v, dtype=float) * (1.0 + _s * np.asarray(r, dtype=float))
        self.half, self.full = constants.dt * 0.5, constants.dt
        self.fluxAdv = FluxSurfaceAdvection(f.eta_grid, f.get2DSpline() if layout == 'flux_surface' else
                                            [f.getSpline(1), f.getSpline(2)], f.getLayout('flux_surface'), self.half, constants)
        self.vParAdv = VParallelAdvection(f.eta_grid, f.getSpline(3), constants)
        self.polAdv = PoloidalAdvection(f.eta_grid, f.getSpline(slice(1, None, -1)), constants, explicitTrap=pol_explicit)
        self.parGradVals = np.empty([f.getLayout('v_parallel').shape[0], constants.npts[2], constants.npts[1]])
        layout_poisson = {'v_parallel_2d': [0, 2, 1], 'mode_solve': [1, 2, 0]}
        layout_vpar = {'v_parallel_1d': [0, 2, 1]}
        layout_poloidal = {'poloidal': [2, 1, 0]}
        np2 = f.getLayout(f.currentLayout).nprocs[:2]
        self.remapperPhi = LayoutSwapper(comm, [layout_poisson, layout_vpar, layout_poloidal], [np2, np2[0], np2[1]], f.eta_grid[:3], 'mode_solve')
        self.remapperRho = getLayoutHandler(comm, layout_poisson, np2, f.eta_grid[:3])
        self.phi = Grid(f.eta_grid[:3], f.getSpline(slice(0, 3)), self.remapperPhi, 'mode_solve', comm, dtype=np.complex128)
        self.rho = Grid(f.eta_grid[:3], f.getSpline(slice(0, 3)), self.remapperRho, 'v_parallel_2d', comm, dtype=np.complex128)
        self.density = DensityFinder(6, f.getSpline(3), f.eta_grid, constants)
        self.QN = QuasiNeutralitySolver(f.eta_grid[:3], 7, f.getSpline(0), constants, chi=0)
        self.parGrad = ParallelGradient(f.getSpline(1), f.eta_grid, self.remapperPhi.getLayout('v_parallel_1d'), constants)

    # -- pieces of the time loop, exactly in the order fullSimulation.py calls them
    def solve_qn(self):
        f, rho, phi = self.f, self.rho, self.phi
        f.setLayout('v_parallel')
        self.density.getPerturbedRho(f, rho)
        self.QN.getModes(rho)
        rho.setLayout('mode_solve')
        phi.setLayout('mode_solve')
        self.QN.solveEquation(phi, rho)
        phi.setLayout('v_parallel_2d')
        rho.setLayout('v_parallel_2d')
        self.QN.findPotential(phi)

    def strang_step(self):
        f, phi = self.f, self.phi
        f.setLayout('flux_surface')
        f.saveGridValues()
        self.fluxAdv.gridStep(f)
        f.setLayout('v_parallel')
        phi.setLayout('v_parallel_1d')
        self.vParAdv.gridStep(f, phi, self.parGrad, self.parGradVals, self.half)
        f.setLayout('poloidal')
        phi.setLayout('poloidal')
        self.polAdv.gridStep(f, phi, self.half)
        self.solve_qn()
        f.restoreGridValues()
        self.fluxAdv.gridStep(f)
        f.setLayout('v_parallel')
        phi.setLayout('v_parallel_1d')
        self.vParAdv.gridStep(f, phi, self.parGrad, self.parGradVals, self.half)
        f.setLayout('poloidal')
        phi.setLayout('poloidal')
        self.polAdv.gridStep(f, phi, self.full)
        f.setLayout('v_parallel')
        self.vParAdv.gridStepKeepGradient(f, self.parGradVals, self.half)
        f.setLayout('flux_surface')
        self.fluxAdv.gridStep(f)
        self.solve_qn()

    def set_f(self, salt=0, scale=1.0):
        L = self.f.getLayout(self.f.currentLayout)
        self.f.getAllData()[:] = self.f.getAllData() * 0 + scale * exact_field(global_index(L, self.npts), salt)

    def set_phi(self, layout, salt=1, scale=1.0):
        self.phi.setLayout(layout)
        L = self.phi.getLayout(layout)
        self.phi.getAllData()[:] = scale * exact_field(global_index(L, self.npts[:3]), salt)
