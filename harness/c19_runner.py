"""
Runs every exported kernel of the five accelerated modules on seeded inputs and dumps all outputs and
in-place updated arrays.  Executed twice by harness/props/c19.py: once with the scratch tree that holds
the pyccel-compiled extension modules first on sys.path, once with /repo (pure Python).  Inputs depend
only on the seed, so both runs see identical arguments.
usage: c19_runner.py <root> <shims> <seed> <n> <out.pkl>
"""
import pickle
import sys
import warnings

root, shims, seed, n, outp = sys.argv[1], sys.argv[2], int(sys.argv[3]), int(sys.argv[4]), sys.argv[5]
part = sys.argv[6] if len(sys.argv) > 6 else 'all'     # 'main': everything but the implicit poloidal iteration; 'impl': only that
sys.path.insert(0, root)
sys.path.insert(0, shims)
warnings.simplefilter('ignore')
import numpy as np                                                         # noqa
import pygyro.splines.spline_eval_funcs as SE                               # noqa
import pygyro.splines.cubic_uniform_spline_eval_funcs as CU                 # noqa
import pygyro.advection.accelerated_advection_steps as AA                   # noqa
import pygyro.poisson.poisson_tools as PT                                   # noqa
import pygyro.initialisation.initialiser_funcs as IF                        # noqa
from pygyro.splines.splines import make_knots, BSplines, Spline1D, Spline2D  # noqa
from pygyro.splines.spline_interpolators import SplineInterpolator1D, SplineInterpolator2D  # noqa

rng = np.random.RandomState(seed)
res = {}
skipped = {}
files = {m.__name__: m.__file__ for m in (SE, CU, AA, PT, IF)}

# which array arguments a kernel writes to: recorded for every direct call (an argument the interpreted source leaves alone
# must not be written by the compiled one, e.g. a rebinding `x = ...` of an array argument that becomes `x(:) = ...`)
modified = {}


def _watch(M, fname, fn):
    def w(*a, **k):
        if sys._getframe(1).f_globals.get('__name__') != '__main__':
            return fn(*a, **k)          # a kernel called by another kernel or by a class: internal to the interpreted source
        pre = [(i, np.array(x, copy=True)) for i, x in enumerate(a) if isinstance(x, np.ndarray)]
        r = fn(*a, **k)
        for i, x0 in pre:
            if x0.tobytes() != np.ascontiguousarray(a[i]).tobytes():
                modified.setdefault('%s.%s' % (M.__name__.split('.')[-1], fname), set()).add(i)
        return r
    return w


for _M in (SE, CU, AA, PT, IF):
    for _n in dir(_M):
        _f = getattr(_M, _n)
        if not _n.startswith('_') and callable(_f) and not isinstance(_f, type) and getattr(_f, '__module__', None) in (_M.__name__, None):
            try:
                setattr(_M, _n, _watch(_M, _n, _f))
            except Exception:
                pass


def put(name, *arrs):
    res[name] = [np.array(a, copy=True) for a in arrs]


def space(deg, ncells, periodic, uniform, lo=0.0, hi=1.0):
    if uniform:
        br = np.linspace(lo, hi, ncells + 1)
    else:
        br = np.concatenate(([lo], np.sort(lo + (hi - lo) * rng.rand(ncells - 1)), [hi]))
        for k in range(1, len(br)):                       # keep cells from collapsing
            if br[k] - br[k - 1] < 1e-3 * (hi - lo):
                br[k] = br[k - 1] + 1e-3 * (hi - lo)
        br[-1] = max(br[-1], hi)
    kn = make_knots(br, deg, periodic)
    return br, kn


def xs_for(br, m):
    lo, hi = br[0], br[-1]
    pts = list(br) + [0.5 * (a + b) for a, b in zip(br[:-1], br[1:])]
    pts += [np.nextafter(b, lo) for b in br[1:]] + [np.nextafter(b, hi) for b in br[:-1]]
    pts += list(lo + (hi - lo) * rng.rand(m))
    return np.array(pts)


# ---------------------------------------------------------------- spline kernels, direct
k = 0
for deg in range(1, 6):
    for periodic in (False, True):
        for uniform in (True, False):
            ncells = int(rng.randint(deg + 1, deg + 6))
            br, kn = space(deg, ncells, periodic, uniform)
            nb = len(kn) - deg - 1
            x = xs_for(br, n)
            c = rng.randn(nb)
            if periodic:
                c[nb - deg:] = c[:deg]
            tag = 'd%d_%s_%s' % (deg, 'per' if periodic else 'clamp', 'uni' if uniform else 'non')
            spans = np.array([SE.nu_find_span(kn, deg, xi) for xi in x])
            vals = np.zeros((len(x), deg + 1))
            ders = np.zeros((len(x), deg + 1))
            s0 = np.zeros(len(x))
            s1 = np.zeros(len(x))
            for i, xi in enumerate(x):
                SE.nu_basis_funs(kn, deg, xi, int(spans[i]), vals[i])
                SE.nu_basis_funs_1st_der(kn, deg, xi, int(spans[i]), ders[i])
                s0[i] = SE.nu_eval_spline_1d_scalar(xi, kn, deg, c, 0)
                s1[i] = SE.nu_eval_spline_1d_scalar(xi, kn, deg, c, 1)
            y0 = np.zeros(len(x))
            y1 = np.zeros(len(x))
            SE.nu_eval_spline_1d_vector(x, kn, deg, c, y0, 0)
            SE.nu_eval_spline_1d_vector(x, kn, deg, c, y1, 1)
            put('nu1d_' + tag, spans, vals, ders, s0, s1, y0, y1)
            # 2-D with a second space
            deg2 = int(rng.randint(1, 6))
            br2, kn2 = space(deg2, int(rng.randint(deg2 + 1, deg2 + 5)), bool(rng.randint(2)), bool(rng.randint(2)), -1.0, 2.0)
            nb2 = len(kn2) - deg2 - 1
            C = rng.randn(nb, nb2)
            X = x[::3]
            Y = xs_for(br2, max(2, n // 4))[::3]
            outs = []
            for d1 in (0, 1):
                for d2 in (0, 1):
                    z = np.zeros((len(X), len(Y)))
                    SE.nu_eval_spline_2d_cross(X, Y, kn, deg, kn2, deg2, C, z, d1, d2)
                    m = min(len(X), len(Y))
                    zv = np.zeros(m)
                    SE.nu_eval_spline_2d_vector(X[:m].copy(), Y[:m].copy(), kn, deg, kn2, deg2, C, zv, d1, d2)
                    zs = np.array([SE.nu_eval_spline_2d_scalar(X[i], Y[i], kn, deg, kn2, deg2, C, d1, d2) for i in range(m)])
                    outs += [z, zv, zs]
            put('nu2d_' + tag, *outs)

# uniform cubic path
for periodic in (False, True):
    for rep in range(3):
        ncells = int(rng.randint(4, 12))
        lo, hi = -1.0 + rng.rand(), 2.0 + rng.rand()
        br = np.linspace(lo, hi, ncells + 1)
        kn_true = make_knots(br, 3, periodic)
        nb = len(kn_true) - 4
        # the uniform-cubic kernels take [xmin, xmax, dx, ncells] in place of the knot vector (BSplines.knots when cubic_uniform)
        kn = BSplines(kn_true, 3, periodic, True).knots
        x = xs_for(br, n)
        x = np.clip(x, lo, hi)
        c = rng.randn(nb)
        if periodic:
            c[nb - 3:] = c[:3]
        dx = br[1] - br[0]
        tag = 'cu_%s_%d' % ('per' if periodic else 'clamp', rep)
        if periodic:
            sp = [CU.cu_find_span(br[0], br[-1], dx, xi, ncells) for xi in x]
            spans = np.array([s[0] for s in sp])
            offs = np.array([s[1] for s in sp])
            vals = np.zeros((len(x), 4))
            ders = np.zeros((len(x), 4))
            for i in range(len(x)):
                CU.cu_basis_funs(int(spans[i]), offs[i], vals[i])
                CU.cu_basis_funs_1st_der(int(spans[i]), offs[i], dx, ders[i])
            put(tag + '_basis', spans, offs, vals, ders)
        s0 = np.array([CU.cu_eval_spline_1d_scalar(xi, kn, 3, c, 0) for xi in x])
        s1 = np.array([CU.cu_eval_spline_1d_scalar(xi, kn, 3, c, 1) for xi in x])
        y0 = np.zeros(len(x))
        y1 = np.zeros(len(x))
        CU.cu_eval_spline_1d_vector(x, kn, 3, c, y0, 0)
        CU.cu_eval_spline_1d_vector(x, kn, 3, c, y1, 1)
        nc2 = int(rng.randint(4, 9))
        br2 = np.linspace(0.0, 2 * np.pi, nc2 + 1)
        kn2_true = make_knots(br2, 3, True)
        nb2 = len(kn2_true) - 4
        kn2 = BSplines(kn2_true, 3, True, True).knots
        C = rng.randn(nb, nb2)
        X = x[::3]
        Y = np.clip(xs_for(br2, 4), 0, 2 * np.pi)[::2]
        outs = []
        for d1 in (0, 1):
            for d2 in (0, 1):
                z = np.zeros((len(X), len(Y)))
                CU.cu_eval_spline_2d_cross(X, Y, kn, 3, kn2, 3, C, z, d1, d2)
                m = min(len(X), len(Y))
                zv = np.zeros(m)
                CU.cu_eval_spline_2d_vector(X[:m].copy(), Y[:m].copy(), kn, 3, kn2, 3, C, zv, d1, d2)
                zs = np.array([CU.cu_eval_spline_2d_scalar(X[i], Y[i], kn, 3, kn2, 3, C, d1, d2) for i in range(m)])
                outs += [z, zv, zs]
        put(tag, s0, s1, y0, y1, *outs)

# ---------------------------------------------------------------- initialiser functions
P = dict(CN0=0.147, kN0=0.055, deltaRN0=4.0, rp=7.3, CTi=1.0, kTi=0.27586, deltaRTi=1.45, CTe=1.0, kTe=0.27586, deltaRTe=1.45, deltaR=13.4, R0=239.8, eps=1e-3)
rs = 0.1 + 14.4 * rng.rand(n)
vs = -7.0 + 14.0 * rng.rand(n)
sc = []
for r, v in zip(rs, vs):
    th, z = 2 * np.pi * rng.rand(), 1506.0 * rng.rand()
    sc.append([IF.n0(r, P['CN0'], P['kN0'], P['deltaRN0'], P['rp']), IF.Ti(r, P['CTi'], P['kTi'], P['deltaRTi'], P['rp']),
               IF.perturbation(r, th, z, 15, 1, P['rp'], P['deltaR'], P['R0']),
               IF.f_eq(r, v, P['CN0'], P['kN0'], P['deltaRN0'], P['rp'], P['CTi'], P['kTi'], P['deltaRTi']),
               IF.n0deriv_normalised(r, P['kN0'], P['rp'], P['deltaRN0']), IF.Te(r, P['CTe'], P['kTe'], P['deltaRTe'], P['rp']),
               IF.init_f(r, th, z, v, 15, 1, P['eps'], P['CN0'], P['kN0'], P['deltaRN0'], P['rp'], P['CTi'], P['kTi'], P['deltaRTi'], P['deltaR'], P['R0'])])
put('init_scalars', np.array(sc))
thv = np.linspace(0, 2 * np.pi, 7, endpoint=False)
zv = np.linspace(0, 1506.0, 6, endpoint=False)
rv = np.linspace(0.1, 14.5, 5)
vv = np.linspace(-7, 7, 8)
a1 = np.zeros((len(thv), len(zv)))
IF.init_f_flux(a1, rv[2], thv, zv, vv[3], 15, 1, P['eps'], P['CN0'], P['kN0'], P['deltaRN0'], P['rp'], P['CTi'], P['kTi'], P['deltaRTi'], P['deltaR'], P['R0'])
a2 = np.zeros((len(thv), len(rv)))
IF.init_f_pol(a2, rv, thv, zv[2], vv[1], 15, 1, P['eps'], P['CN0'], P['kN0'], P['deltaRN0'], P['rp'], P['CTi'], P['kTi'], P['deltaRTi'], P['deltaR'], P['R0'])
a3 = np.zeros((len(thv), len(vv)))
IF.init_f_vpar(a3, rv[1], thv, zv[4], vv, 15, 1, P['eps'], P['CN0'], P['kN0'], P['deltaRN0'], P['rp'], P['CTi'], P['kTi'], P['deltaRTi'], P['deltaR'], P['R0'])
a4 = np.zeros((len(rv), len(vv)))
IF.feq_vector(a4, rv, vv, P['CN0'], P['kN0'], P['deltaRN0'], P['rp'], P['CTi'], P['kTi'], P['deltaRTi'])
put('init_arrays', a1, a2, a3, a4)

# ---------------------------------------------------------------- density integration
for cplx in (False, True):
    g = rng.randn(4, 3, 5, 9)
    feq = rng.randn(4, 9)
    q = rng.rand(9)
    rho = np.zeros((4, 3, 5), dtype=complex if cplx else float)
    rho2 = np.zeros((4, 3, 5), dtype=complex if cplx else float)
    PT.get_perturbed_rho(rho, feq, g, q)
    PT.get_rho(rho2, g, q)
    put('density_%s' % ('c' if cplx else 'f'), rho, rho2)

# ---------------------------------------------------------------- advection kernels, direct and through the classes
nth, nzz = 9, 8
br_t = np.linspace(0, 2 * np.pi, nth + 1)
for cubic in (True, False):
    kn_t = make_knots(br_t, 3, True)
    bs = BSplines(kn_t, 3, True, cubic)
    qv = bs.greville
    sp = Spline1D(bs)
    it = SplineInterpolator1D(bs)
    fth = rng.rand(nth)
    it.compute_interpolant(fth, sp)
    # stencils several periods away in either direction (the plane index is wrapped by an integer modulo of a
    # negative or large number: Python and Fortran/C agree only if the wrap is written as one)
    for off in (2 * nzz + 3, -3 * nzz - 1, -nzz - 2):
        sh2 = np.array([-3, -2, -1, 0, 1, 2]) + off
        v2 = np.zeros((nzz, nth, 6))
        for i in range(nzz):
            AA.get_lagrange_vals(i, sh2, v2, qv, 0.3 * rng.randn(6), sp.basis.knots, 3, sp.coeffs, cubic)
        put('lagrange_vals_far_%s_%d' % (cubic, off), v2)
    shifts = np.array([-3, -2, -1, 0, 1, 2]) + int(rng.randint(-9, 9))
    tsh = 0.3 * rng.randn(6)
    vals = np.zeros((nzz, nth, 6))
    for i in range(nzz):
        AA.get_lagrange_vals(i, shifts, vals, qv, tsh, sp.basis.knots, 3, sp.coeffs, cubic)
    put('lagrange_vals_%s' % cubic, vals)
    fz = np.zeros((nth, nzz))
    lc = rng.randn(6)
    AA.flux_advection(nth, nzz, fz, lc, vals)
    put('flux_advection_%s' % cubic, fz)
    # v-parallel step, three boundary modes
    nv = 11
    br_v = np.linspace(-7.0, 7.0, nv - 2) if cubic else np.sort(np.concatenate(([-7.0, 7.0], -7 + 14 * rng.rand(nv - 4))))
    kn_v = make_knots(br_v, 3, False)
    bv = BSplines(kn_v, 3, False, cubic)
    spv = Spline1D(bv)
    itv = SplineInterpolator1D(bv)
    pts = bv.greville
    fv = np.exp(-pts ** 2 / 8)
    itv.compute_interpolant(fv, spv)
    for bound in (0, 1, 2):
        for cdt in (0.0, 0.37, -0.81, 3.3, -16.9):
            feet = pts - cdt
            if np.min(np.abs(np.concatenate((feet - pts[0], feet - pts[-1])))) < 1e-9 and cdt != 0.0:
                skipped['vpar'] = skipped.get('vpar', 0) + 1
                continue
            if cdt == 0.0 and bound != 2:
                pass
            out = np.zeros(len(pts))
            AA.v_parallel_advection_eval_step(out, feet, 5.0, pts[0], pts[-1], spv.basis.knots, 3, spv.coeffs,
                                              P['CN0'], P['kN0'], P['deltaRN0'], P['rp'], P['CTi'], P['kTi'], P['deltaRTi'], bound, cubic)
            put('vpar_%s_%d_%s' % (cubic, bound, cdt), out)
    # poloidal steps through the class (the argument list has 34 entries)
    from pygyro.initialisation.constants import Constants
    from pygyro.advection.advection import PoloidalAdvection
    consts = Constants()
    nr = 10
    br_r = np.linspace(0.1, 14.5, nr - 2)
    kn_r = make_knots(br_r, 3, False)
    b_r = BSplines(kn_r, 3, False, cubic)
    b_q = BSplines(make_knots(np.linspace(0, 2 * np.pi, nth + 1), 3, True), 3, True, cubic)
    eta = [b_r.greville, b_q.greville, np.linspace(0, 1, 4), np.linspace(-7, 7, 5)]
    for explicit in ((True,) if part == 'main' else (False,) if part == 'impl' else (True, False)):
        for nul in (False, True):
            pa = PoloidalAdvection(eta, [b_q, b_r], consts, nulEdge=nul, explicitTrap=explicit, tol=1e-10)
            phi = Spline2D(b_q, b_r)
            phiv = 0.05 * np.sin(eta[1])[:, None] * (eta[0][None, :] - 7.0) ** 2 / 50 + 0.02 * np.cos(2 * eta[1])[:, None]
            SplineInterpolator2D(b_q, b_r).compute_interpolant(phiv, phi)
            fp = np.exp(-((eta[0][None, :] - 7.0) ** 2) / 10) * (1 + 0.1 * np.cos(eta[1])[:, None])
            for dt in (0.5, -1.3):
                f2 = fp.copy()
                pa.step(f2, dt, phi, 0.4)
                rr = pa._endPts_k2_r
                if np.min(np.abs(np.concatenate(((rr - eta[0][0]).ravel(), (rr - eta[0][-1]).ravel())))) < 1e-9:
                    skipped['pol'] = skipped.get('pol', 0) + 1
                    continue
                put('pol_%s_%s_%s_%s' % (cubic, explicit, nul, dt), f2, pa._endPts_k2_q.copy(), pa._endPts_k2_r.copy())

pickle.dump({'files': files, 'results': res, 'skipped': skipped, 'modified': {k: sorted(v) for k, v in modified.items()}}, open(outp, 'wb'))
