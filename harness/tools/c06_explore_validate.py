# usage: PYTHONHASHSEED=<s> /venv/bin/python c06_explore_validate.py <rng seed> <count>   (C06_EXPLORE = path of the compiled c06_explore.c)
# compare the C re-implementation (table mode, given iteration order) with the real _makeConnectionMap,
# using the actual iteration order of the set in this interpreter
import sys, random, subprocess, os
sys.path.insert(0, os.path.join(os.path.dirname(os.path.abspath(__file__)), '..', 'shims')); sys.path.insert(1, os.environ.get('PGV_REPO', '/repo'))
from pygyro.model.layout import LayoutManager
class D(LayoutManager):
    pass
rng = random.Random(int(sys.argv[1]))
N = int(sys.argv[2])
pool = ['flux_surface', 'v_parallel', 'poloidal', 'mode_solve', 'v_parallel_2d', 'v_parallel_1d', 'a', 'B', 'zeta', 'Alpha', 'm', 'x9', 'x10', 'q', 'Zz', 'k2']
lines = []; expect = []
for _ in range(N):
    n = rng.randint(2, 8)
    names = rng.sample(pool, n)
    p = rng.choice([0.15, 0.3, 0.5, 0.8])
    edges = [(a, b) for b in range(n) for a in range(b) if rng.random() < p]
    conn = [(nm, []) for nm in names]
    for a, b in edges:
        conn[a][1].append(names[b]); conn[b][1].append(names[a])
    dc = dict(conn)
    d = D()
    d._makeConnectionMap(dc)
    if n == 1: continue
    rm = d._route_map
    order = [names.index(x) for x in set(dc.keys())]
    srt = sorted(names)
    lines.append('%d | %s | %s | %s' % (n, ' '.join('%d %d' % e for e in edges), ' '.join(str(srt.index(x)) for x in names), ' '.join(map(str, order))))
    expect.append(' ; '.join(' , '.join(' '.join(str(names.index(x)) for x in rm[names[a]][names[b]]) if a != b else '' for b in range(n)) for a in range(n)))
out = subprocess.run([os.environ.get('C06_EXPLORE', '/tmp/c06_explore'), 'table'], input='\n'.join(lines) + '\n', capture_output=True, text=True).stdout.split('\n')[:-1]
norm = lambda s: ' '.join(s.split())
bad = [i for i in range(len(lines)) if norm(out[i]) != norm(expect[i])]
print('seed', os.environ.get('PYTHONHASHSEED'), 'cases', len(lines), 'mismatches', len(bad))
for i in bad[:3]:
    print(lines[i]); print(out[i]); print(expect[i])
