/* Counterexample search that preceded the general proof RoutesGeneral.routes_order_independent (C06).
   Not part of bin/check; kept so that the search can be repeated:  gcc -O2 -o /tmp/c06_explore c06_explore.c

   Nondeterministic tie-branching explorer for LayoutManager._makeConnectionMap (pygyro/model/layout.py).
   For one (graph, name ranking) it follows EVERY choice min() could make among tied unvisited layouts, pass after
   pass, and reports when two choices lead to different (distance, route) tables: it decides order independence of
   that instance exactly (a superset of what any fixed set iteration order can do).
   Nodes 0..n-1 in dict order, conn[x] in insertion order (edges met as for b, for a<b), nrank = alphabetical rank.
   The deterministic mode `table` was compared with the real _makeConnectionMap (c06_explore_validate.py: 4 hash seeds x
   3000 random graphs on 2-8 layouts, using the interpreter's actual set order) and with the extracted Coq model
   (`modelrun routes`, 1500 graphs): no mismatch.
   Modes:
     table            : read lines "n | a b a b ... | nrank... | order..." print the route table (format of modelrun routes)
     exh n k m        : all graphs on n nodes with index = k mod m, all nranks, all tie-break choices (branching)
     exhr n k m nr seed : all graphs of the slice, nr random nranks each
     rnd n seed count p1000 nr : random graphs (edge prob p/1000), nr random nranks each
     graphs n nr seed nrel : read edge lists on stdin (one graph per line "a b a b ..."), nrel random relabelings each,
                        nr random nranks each (nr=0: all nranks)
   Results recorded on 2026-09-26 (order_dependent=0 everywhere):
     exh 4, exh 5, exh 6 : every graph (64 / 1024 / 32768) x every name ranking (24 / 120 / 720) = 1536 / 122880 / 23592960 instances
     exhr 7 (16 slices, 40 rankings each) : all 2097152 graphs, 83886080 instances
     graphs 7 0 <seed> 40 : 18 tie-rich graphs (cycles, paths, complete bipartite, wheel, star, complete, complements, theta graphs, prism,
                        disconnected unions) x 40 relabelings x all 5040 rankings = 3628800 instances
     graphs 8 0 <seed> 4  : 25 such graphs (also cube, Moebius ladder, 2x4 grid, K8 minus a perfect matching, C4+C4, K4+K4) x 4 relabelings
                        x all 40320 rankings = 4032000 instances
     rnd 8 : edge probability 0.25 / 0.35 / 0.5, 4 seeds each, 400000 graphs x 5 rankings = 24000000 instances; probability 0.15: 800000 instances
*/
#include <stdio.h>
#include <stdlib.h>
#include <string.h>
#include <stdint.h>
#define MAXN 8
typedef struct { uint8_t len; uint8_t v[MAXN+1]; } route_t;
typedef struct { uint8_t D[MAXN][MAXN]; route_t R[MAXN][MAXN]; } state_t;
static int n, conn[MAXN][MAXN*MAXN], nconn[MAXN], nrank[MAXN];
static unsigned long long leaves = 0, instances = 0, tiesteps = 0, multi = 0;

static int lex_lt(const route_t *a, const route_t *b) {
  int i = 0;
  for (;; i++) {
    if (i >= a->len) return i < b->len;
    if (i >= b->len) return 0;
    if (nrank[a->v[i]] < nrank[b->v[i]]) return 1;
    if (nrank[b->v[i]] < nrank[a->v[i]]) return 0;
  }
}
static route_t cat(const route_t *a, const route_t *b) {
  route_t r; memset(&r, 0, sizeof r);
  if (a->len + b->len > MAXN) { fprintf(stderr, "route overflow\n"); exit(3); }
  memcpy(r.v, a->v, a->len); memcpy(r.v + a->len, b->v, b->len); r.len = a->len + b->len; return r;
}
static void init_state(state_t *st) {
  memset(st, 0, sizeof *st);
  for (int a = 0; a < n; a++) for (int b = 0; b < n; b++) st->D[a][b] = n + 1;
  for (int a = 0; a < n; a++) for (int i = 0; i < nconn[a]; i++) { int b = conn[a][i];
    st->D[a][b] = 1; if (st->R[a][b].len == 0) { st->R[a][b].len = 1; st->R[a][b].v[0] = b; } }
}
static void visit_node(state_t *st, int s, int via, unsigned unv) {
  for (int i = 0; i < nconn[via]; i++) {
    int aim = conn[via][i];
    if (!((unv >> aim) & 1)) continue;
    int dnew = st->D[s][via] + st->D[via][aim];
    if (dnew < st->D[s][aim]) {
      st->D[s][aim] = dnew;
      st->D[aim][s] = st->D[via][s] + st->D[aim][via];
      st->R[s][aim] = cat(&st->R[s][via], &st->R[via][aim]);
      st->R[aim][s] = cat(&st->R[aim][via], &st->R[via][s]);
    } else if (dnew == st->D[s][aim]) {
      route_t c = cat(&st->R[s][via], &st->R[via][aim]);
      if (lex_lt(&c, &st->R[s][aim])) {
        st->R[s][aim] = c;
        st->R[aim][s] = cat(&st->R[aim][via], &st->R[via][s]);
      }
    }
  }
}
#define MAXRES 64
static state_t res[MAXRES]; static int nres;
static void add_result(const state_t *st) {
  for (int i = 0; i < nres; i++) if (!memcmp(&res[i], st, sizeof *st)) return;
  if (nres < MAXRES) res[nres++] = *st;
}
static void dfs(state_t *st, int s, unsigned unv) {
  while (unv) {
    int m = 1000, cnt = 0;
    for (int x = 0; x < n; x++) if ((unv >> x) & 1) { int d = st->D[s][x]; if (d < m) { m = d; cnt = 1; } else if (d == m) cnt++; }
    if (cnt == 1) {
      int via = -1; for (int x = 0; x < n; x++) if (((unv >> x) & 1) && st->D[s][x] == m) via = x;
      unv &= ~(1u << via); visit_node(st, s, via, unv);
    } else {
      tiesteps++;
      for (int x = 0; x < n; x++) if (((unv >> x) & 1) && st->D[s][x] == m) {
        state_t c = *st; unsigned u2 = unv & ~(1u << x); visit_node(&c, s, x, u2); dfs(&c, s, u2);
      }
      return;
    }
  }
  leaves++; add_result(st);
}
static void print_table(const state_t *st) {
  for (int a = 0; a < n; a++) { if (a) printf(" ; ");
    for (int b = 0; b < n; b++) { if (b) printf(" , ");
      for (int i = 0; i < st->R[a][b].len; i++) printf(i ? " %d" : "%d", st->R[a][b].v[i]); } }
  printf("\n");
}
static void print_instance(void) {
  printf("n=%d edges:", n);
  for (int b = 0; b < n; b++) for (int i = 0; i < nconn[b]; i++) if (conn[b][i] < b) printf(" %d %d", conn[b][i], b);
  printf(" | nrank:"); for (int x = 0; x < n; x++) printf(" %d", nrank[x]); printf("\n");
}
/* returns number of distinct final states (1 = order independent under every tie-break choice) */
static int explore(void) {
  static state_t cur[MAXRES]; int ncur = 1; init_state(&cur[0]); instances++;
  for (int s = 0; s < n; s++) {
    nres = 0;
    for (int i = 0; i < ncur; i++) { state_t c = cur[i]; dfs(&c, s, ((1u << n) - 1) & ~(1u << s)); }
    if (nres > 1) { multi++; printf("DIFF after pass source=%d: %d distinct states\n", s, nres); print_instance();
      for (int i = 0; i < nres && i < 4; i++) print_table(&res[i]); fflush(stdout); }
    ncur = nres; memcpy(cur, res, sizeof(state_t) * nres);
  }
  return ncur;
}
static void set_graph_mask(unsigned long long mask) { /* bit index over pairs (a,b), a<b, ordered for b, for a<b */
  for (int x = 0; x < n; x++) nconn[x] = 0; int k = 0;
  for (int b = 0; b < n; b++) for (int a = 0; a < b; a++, k++) if ((mask >> k) & 1) { conn[a][nconn[a]++] = b; conn[b][nconn[b]++] = a; }
}
static int next_perm(int *p, int len) {
  int i = len - 2; while (i >= 0 && p[i] > p[i+1]) i--; if (i < 0) return 0;
  int j = len - 1; while (p[j] < p[i]) j--; int t = p[i]; p[i] = p[j]; p[j] = t;
  for (int a = i + 1, b = len - 1; a < b; a++, b--) { t = p[a]; p[a] = p[b]; p[b] = t; } return 1;
}
static uint64_t rs = 88172645463325252ULL;
static uint64_t rnd(void) { rs ^= rs << 13; rs ^= rs >> 7; rs ^= rs << 17; return rs; }
static void rand_perm(int *p, int len) { for (int i = 0; i < len; i++) p[i] = i; for (int i = len - 1; i > 0; i--) { int j = rnd() % (i + 1); int t = p[i]; p[i] = p[j]; p[j] = t; } }

/* deterministic run with a fixed iteration order (first minimal element of the unvisited set in that order) */
static void run_order(state_t *st, const int *order) {
  init_state(st);
  for (int s = 0; s < n; s++) { unsigned unv = ((1u << n) - 1) & ~(1u << s);
    while (unv) { int via = -1; for (int i = 0; i < n; i++) { int x = order[i]; if (((unv >> x) & 1) && (via < 0 || st->D[s][x] < st->D[s][via])) via = x; }
      unv &= ~(1u << via); visit_node(st, s, via, unv); } }
}
int main(int argc, char **argv) {
  if (argc < 2) return 2;
  if (!strcmp(argv[1], "table")) {
    char line[4096];
    while (fgets(line, sizeof line, stdin)) {
      char *parts[4]; int np = 0; char *p = strtok(line, "|"); while (p && np < 4) { parts[np++] = p; p = strtok(NULL, "|"); }
      if (np != 4) { printf("?\n"); continue; }
      n = atoi(parts[0]); for (int x = 0; x < n; x++) nconn[x] = 0;
      int e[256], ne = 0; char *q = parts[1]; int v, off; while (sscanf(q, "%d%n", &v, &off) == 1) { e[ne++] = v; q += off; }
      for (int i = 0; i + 1 < ne; i += 2) { int a = e[i], b = e[i+1]; conn[a][nconn[a]++] = b; conn[b][nconn[b]++] = a; }
      q = parts[2]; for (int x = 0; x < n; x++) { sscanf(q, "%d%n", &nrank[x], &off); q += off; }
      int order[MAXN]; q = parts[3]; for (int x = 0; x < n; x++) { sscanf(q, "%d%n", &order[x], &off); q += off; }
      state_t st; run_order(&st, order); print_table(&st);
    }
    return 0;
  }
  if (!strcmp(argv[1], "exh")) {
    n = atoi(argv[2]); int k = atoi(argv[3]), m = atoi(argv[4]); int np = n * (n - 1) / 2; unsigned long long bad = 0;
    for (unsigned long long g = 0; g < (1ULL << np); g++) { if ((int)(g % m) != k) continue;
      set_graph_mask(g); for (int x = 0; x < n; x++) nrank[x] = x;
      do { if (explore() != 1) bad++; } while (next_perm(nrank, n)); }
    printf("exh n=%d slice %d/%d instances=%llu leaves=%llu tiesteps=%llu order_dependent=%llu\n", n, k, m, instances, leaves, tiesteps, bad);
    return bad ? 1 : 0;
  }
  if (!strcmp(argv[1], "exhr")) {   /* all graphs of the slice, nr random nranks each */
    n = atoi(argv[2]); int k = atoi(argv[3]), m = atoi(argv[4]); int nr = atoi(argv[5]); rs ^= (strtoull(argv[6], 0, 10) + 1000 * k) * 0x9E3779B97F4A7C15ULL;
    for (int i = 0; i < 10; i++) rnd();
    int np = n * (n - 1) / 2; unsigned long long bad = 0;
    for (unsigned long long g = 0; g < (1ULL << np); g++) { if ((int)(g % m) != k) continue;
      set_graph_mask(g); for (int r = 0; r < nr; r++) { rand_perm(nrank, n); if (explore() != 1) bad++; } }
    printf("exhr n=%d slice %d/%d nr=%d instances=%llu leaves=%llu tiesteps=%llu order_dependent=%llu\n", n, k, m, nr, instances, leaves, tiesteps, bad);
    return bad ? 1 : 0;
  }
  if (!strcmp(argv[1], "rnd")) {
    n = atoi(argv[2]); rs ^= strtoull(argv[3], 0, 10) * 0x9E3779B97F4A7C15ULL; for (int i = 0; i < 10; i++) rnd();
    long count = atol(argv[4]); int p1000 = atoi(argv[5]); int nr = atoi(argv[6]); int np = n * (n - 1) / 2; unsigned long long bad = 0;
    for (long c = 0; c < count; c++) { unsigned long long g = 0; for (int i = 0; i < np; i++) if ((int)(rnd() % 1000) < p1000) g |= 1ULL << i;
      set_graph_mask(g); for (int r = 0; r < nr; r++) { rand_perm(nrank, n); if (explore() != 1) bad++; } }
    printf("rnd n=%d p=%d instances=%llu leaves=%llu tiesteps=%llu order_dependent=%llu\n", n, p1000, instances, leaves, tiesteps, bad);
    return bad ? 1 : 0;
  }
  if (!strcmp(argv[1], "graphs")) {   /* each graph: random relabelings x nranks */
    n = atoi(argv[2]); int nr = atoi(argv[3]); rs ^= strtoull(argv[4], 0, 10) * 0x9E3779B97F4A7C15ULL; int nrel = atoi(argv[5]);
    char line[4096]; unsigned long long bad = 0;
    while (fgets(line, sizeof line, stdin)) {
      int e[256], ne = 0; char *q = line; int v, off; while (sscanf(q, "%d%n", &v, &off) == 1) { e[ne++] = v; q += off; }
      for (int rel = 0; rel < nrel; rel++) { int lab[MAXN]; if (rel == 0) for (int i = 0; i < n; i++) lab[i] = i; else rand_perm(lab, n);
        unsigned long long g = 0;
        for (int i = 0; i + 1 < ne; i += 2) { int a = lab[e[i]], b = lab[e[i+1]]; if (a > b) { int t = a; a = b; b = t; } g |= 1ULL << (b * (b - 1) / 2 + a); }
        set_graph_mask(g);
        if (nr == 0) { for (int x = 0; x < n; x++) nrank[x] = x; do { if (explore() != 1) bad++; } while (next_perm(nrank, n)); }
        else for (int r = 0; r < nr; r++) { rand_perm(nrank, n); if (explore() != 1) bad++; } }
    }
    printf("graphs n=%d instances=%llu leaves=%llu tiesteps=%llu order_dependent=%llu\n", n, instances, leaves, tiesteps, bad);
    return bad ? 1 : 0;
  }
  return 2;
}
