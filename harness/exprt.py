"""
ExprT: a small fail-closed translator from Python integer/float *expressions* (ast) to Coq terms.
Used for closed-form fragments of the source that are re-translated and re-proved equal to the
model on every run (a universal tie, not a sampled one).  Anything outside the supported subset
raises Untranslatable, which the caller treats as a broken tie (it then searches for a failing
input with the sampled differential).
"""
import ast


class Untranslatable(Exception):
    pass


_BIN = {ast.Add: '+', ast.Sub: '-', ast.Mult: '*'}


def expr(node, env, mode='Z'):
    """env: python name -> coq name.  mode 'Z': // and % are Z./ and Z.modulo (floor, as Python);
    mode 'F': a field, with / the field division (operands must be field-valued)"""
    if isinstance(node, ast.Name):
        if node.id not in env:
            raise Untranslatable('free name %s' % node.id)
        return env[node.id]
    if isinstance(node, ast.Constant):
        if isinstance(node.value, bool) or not isinstance(node.value, (int, float)):
            raise Untranslatable('constant %r' % (node.value,))
        if isinstance(node.value, int):
            return ('(%d)' % node.value) if mode == 'Z' else ('(fz (%d))' % node.value)
        if mode != 'F':
            raise Untranslatable('float literal in integer expression')
        from fractions import Fraction
        q = Fraction(repr(node.value))
        return '(fq (%d) (%d))' % (q.numerator, q.denominator)
    if isinstance(node, ast.UnaryOp) and isinstance(node.op, ast.USub):
        return '(- %s)' % expr(node.operand, env, mode)
    if isinstance(node, ast.BinOp):
        a = expr(node.left, env, mode)
        b = expr(node.right, env, mode)
        t = type(node.op)
        if t in _BIN:
            return '(%s %s %s)' % (a, _BIN[t], b)
        if t is ast.FloorDiv and mode == 'Z':
            return '(%s / %s)' % (a, b)
        if t is ast.Mod and mode == 'Z':
            return '(%s mod %s)' % (a, b)
        if t is ast.Div and mode == 'F':
            return '(%s / %s)' % (a, b)
        if t is ast.Pow and isinstance(node.right, ast.Constant) and node.right.value in (2, 3):
            return '(' + ' * '.join([a] * node.right.value) + ')'
        raise Untranslatable('operator %s' % t.__name__)
    if isinstance(node, ast.IfExp) and mode == 'Z':
        c = node.test
        if isinstance(c, ast.Compare) and len(c.ops) == 1:
            l = expr(c.left, env, mode)
            r = expr(c.comparators[0], env, mode)
            op = {ast.Gt: '>?', ast.Lt: '<?', ast.GtE: '>=?', ast.LtE: '<=?', ast.Eq: '=?'}.get(type(c.ops[0]))
            if op is None:
                raise Untranslatable('comparison')
            return '(if (%s %s %s) then %s else %s)' % (l, op, r, expr(node.body, env, mode), expr(node.orelse, env, mode))
        raise Untranslatable('condition')
    raise Untranslatable(type(node).__name__)


def find_function(tree, path):
    """path like ['Layout', '__init__'] or ['cu_basis_funs']"""
    body = tree.body
    node = None
    for name in path:
        node = None
        for s in body:
            if isinstance(s, (ast.ClassDef, ast.FunctionDef)) and s.name == name:
                node = s
                break
        if node is None:
            raise Untranslatable('no definition %s' % '.'.join(path))
        body = node.body
    return node


def simple_assignments(stmts):
    """ordered (target-name-or-subscript-text, value-node) of plain assignments, descending into for-loops"""
    out = []
    for s in stmts:
        if isinstance(s, ast.Assign) and len(s.targets) == 1:
            out.append((ast.unparse(s.targets[0]), s.value))
        elif isinstance(s, ast.For):
            out += simple_assignments(s.body)
    return out
