#!/usr/bin/env python3
"""Regenerate the table of DESIGN.md 12.3 from coq/theories/Props/Cxx.v and MANIFEST.json (in place)."""
import json
import os
import re
V = os.path.dirname(os.path.dirname(os.path.abspath(__file__)))
man = json.load(open(os.path.join(V, 'MANIFEST.json')))
rows = ['| id | Coq modules imported by Props/Cxx.v | theorems (Print Assumptions) | level | deciding technique |', '|----|----|----|----|----|']
for c in sorted(man['checks'], key=lambda c: c['property_id']):
    pid = c['property_id']
    src = open(os.path.join(V, 'coq', 'theories', 'Props', pid + '.v')).read()
    mods = []
    for m in re.finditer(r'From PGV Require (?:Import )?([^.]*)\.', src):
        for w in m.group(1).split():
            if w not in mods:
                mods.append(w)
    n = len(re.findall(r'^\s*Print Assumptions', src, re.M))
    rows.append('| %s | %s | %d | %s | %s |' % (pid, ', '.join(mods), n, c['level_claimed']['category'], c['technique'].replace('|', '/')))
d = open(os.path.join(V, 'DESIGN.md')).read()
i = d.index('| id | Coq modules imported by Props/Cxx.v')
j = d.index('\n\n', i)
open(os.path.join(V, 'DESIGN.md'), 'w').write(d[:i] + '\n'.join(rows) + d[j:])
print('table: %d rows' % (len(rows) - 2))
