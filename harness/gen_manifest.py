"""writes MANIFEST.json from the table below (kept in one place so it is always schema-valid)"""
import json
import os

VERIF = os.path.dirname(os.path.dirname(os.path.abspath(__file__)))
ALL = ['C%02d' % i for i in range(1, 21)]

CLAIMED = {}
for _p in sorted(os.listdir(os.path.join(VERIF, 'harness', 'claims'))):
    if _p.endswith('.json'):
        CLAIMED[_p[:-5]] = json.load(open(os.path.join(VERIF, 'harness', 'claims', _p)))
NA = {}
_na = os.path.join(VERIF, 'harness', 'claims', 'not_applicable.txt')
if os.path.exists(_na):
    for _l in open(_na):
        if _l.strip() and not _l.startswith('#'):
            _k, _r = _l.strip().split(None, 1)
            NA[_k] = _r

NOT_YET = 'check not built yet in this snapshot of /verif (see DESIGN.md section 10 for the order of work)'


def main():
    checks = []
    for pid in ALL:
        if pid in CLAIMED:
            c = CLAIMED[pid]
            checks.append({
                'property_id': pid,
                'quick_cmd': 'bin/check %s --tier quick' % pid,
                'thorough_cmd': 'bin/check %s --tier thorough' % pid,
                'evidence_file': '/verif/evidence/%s.json' % pid,
                'replay_cmd_template': 'bin/check %s --replay {path}' % pid,
                'engine': 'coq-model',
                'level_claimed': {'category': c['cat'], 'text': c['text'], 'design_ref': c['ref']},
                'level_note': c['note'],
                'technique': c['tech'],
            })
    man = {
        'version': 1,
        'setup_cmd': 'make -C /verif setup',
        'hooks': {'guard': 'PYGYRO_VERIF', 'enable': 'no source hooks are needed: MPI and parallel HDF5 are replaced by '
                  'import precedence (harness/shims first on PYTHONPATH); the guard variable is declared and unused',
                  'baseline_off_cmd': 'cd /repo && /venv/bin/python -m pytest -ra -q -p no:cacheprovider --timeout=900 '
                                      '--continue-on-collection-errors',
                  'source_commits': [], 'add_only': True},
        'engines': [{'name': 'coq-model', 'path': '/verif/coq', 'serves_properties': sorted(CLAIMED),
                     'kind_free_text': 'Coq 8.16 development (theories/, Props/), extracted to OCaml (ocaml/modelrun) and '
                                       'tied to /repo by harness/props/*.py'}],
        'checks': checks,
        'notes': '25 minimal fix: commits in /repo repair the genuine defects found while building (DESIGN.md 12.2; each is recorded as a '
                 '`fixed:` line in KNOWN_FINDINGS.txt and suppresses nothing); three defects are listed as findings (C12 implicit iteration without a '
                 'bound, C18 rp round trip, C19 numba copy lacks five functions). No source hooks: MPI and parallel HDF5 are replaced by import '
                 'precedence. seeded/ holds 179 independently produced breaking changes with the check that catches each (DESIGN.md 12.4).',
        'not_applicable': [{'property_id': p, 'reason': NA.get(p, NOT_YET)} for p in ALL if p not in CLAIMED],
    }
    with open(os.path.join(VERIF, 'MANIFEST.json'), 'w') as f:
        json.dump(man, f, indent=1)


if __name__ == '__main__':
    main()
