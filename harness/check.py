import argparse
import importlib
import os
import sys
import traceback

sys.path.insert(0, os.path.dirname(os.path.abspath(__file__)))
import core  # noqa


def main():
    ap = argparse.ArgumentParser()
    ap.add_argument('prop')
    ap.add_argument('--tier', default=os.environ.get('VERIF_TIER', 'quick'))
    ap.add_argument('--replay', default=None)
    a = ap.parse_args()
    if a.tier not in ('quick', 'thorough'):
        a.tier = 'quick'
    os.environ['VERIF_TIER'] = a.tier
    core.setup_paths()
    mod = importlib.import_module('props.' + a.prop.lower())
    if a.replay:
        sys.exit(mod.replay(a.replay))
    try:
        rc = mod.run()
    except core.BrokenCheck as e:
        print('BROKEN-CHECK %s: %s' % (a.prop, e))
        sys.exit(2)
    except Exception:
        traceback.print_exc()
        print('BROKEN-CHECK %s: harness exception' % a.prop)
        sys.exit(2)
    sys.exit(rc)


if __name__ == '__main__':
    main()
