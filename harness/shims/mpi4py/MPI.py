"""
Simulated MPI for the verification harness (import-precedence replacement of
mpi4py.MPI; the sandbox has no MPI library).

Ranks are threads of one interpreter.  A scheduler owns all blocking: exactly
one rank runs at a time, a rank runs until it reaches a collective (or ends),
and the order in which runnable ranks are resumed is a seeded choice -- this is
the "arrival order of ranks at collectives".  A collective fires when every
member of its communicator waits on that communicator; the members' call
signatures are compared first (operation, root, counts, datatypes) and a
disagreement is reported as outcome "mismatch".  When no rank can run and no
communicator is complete the outcome is "deadlock".  An exception in one rank
aborts all others (outcome "exception").  Every outcome is a value returned by
run(); nothing hangs.

Every collective call is recorded per rank as (op, comm_id, root, count, dtype)
for the trace checks of C06.
"""
import threading
import random as _random
import time as _time
import numpy as np

DOUBLE = 'DOUBLE'
SUM = 'SUM'
MIN = 'MIN'
MAX = 'MAX'
LAND = 'LAND'
ANY_SOURCE = -1
ANY_TAG = -1

_tls = threading.local()


class SimAbort(BaseException):
    """raised inside a rank thread when the run is being torn down"""


class SimMPIError(Exception):
    """an error the MPI library itself would raise (truncation, bad arguments)"""


def _red(op, vals):
    if op == SUM:
        r = vals[0]
        for v in vals[1:]:
            r = r + v
        return r
    if op == MIN:
        r = vals[0]
        for v in vals[1:]:
            r = np.minimum(r, v) if isinstance(r, np.ndarray) else min(r, v)
        return r
    if op == MAX:
        r = vals[0]
        for v in vals[1:]:
            r = np.maximum(r, v) if isinstance(r, np.ndarray) else max(r, v)
        return r
    if op == LAND:
        return all(bool(v) for v in vals)
    raise SimMPIError("unsupported reduction %r" % (op,))


class _Shared:
    """the communicator object shared by its members"""

    def __init__(self, sim, members, dims=None, key=()):
        self.sim = sim
        self.members = list(members)       # world ranks, in communicator order
        self.n = len(self.members)
        self.dims = dims
        # schedule-independent identity: (parent key, index of the creating collective on the parent, group)
        self.key = key
        self.id = key
        self.nfires = 0
        sim._all_comms.append(self)
        self.waiting = {}                  # comm rank -> (op, sig, payload)


class Comm:
    def __init__(self, shared, rank):
        self._s = shared
        self._r = rank

    # ---- identity -------------------------------------------------------
    def __eq__(self, o):
        if isinstance(o, _World):
            o = o._get()
        return isinstance(o, Comm) and o._s is self._s

    def __ne__(self, o):
        return not self.__eq__(o)

    def __hash__(self):
        return id(self._s)

    def Get_rank(self):
        return self._r

    def Get_size(self):
        return self._s.n
    rank = property(Get_rank)
    size = property(Get_size)

    def Free(self):
        pass

    # ---- the one blocking primitive ------------------------------------
    def _coll(self, op, sig, payload, root=None, count=None, dtype=None):
        sim = self._s.sim
        return sim._collective(self, op, sig, payload, root, count, dtype)

    # ---- communicator constructors -------------------------------------
    def Split(self, color=0, key=0):
        return self._coll('Split', (), (int(color), int(key)))

    def Create_cart(self, dims, periods=None, reorder=False):
        dims = [int(d) for d in dims]
        return self._coll('Create_cart', (tuple(dims),), tuple(dims))

    def Get_coords(self, rank):
        if self._s.dims is None:
            raise SimMPIError("Get_coords on a non-cartesian communicator")
        co = []
        for d in reversed(self._s.dims):
            co.append(rank % d)
            rank //= d
        return list(reversed(co))

    def Sub(self, remain_dims):
        remain = tuple(bool(x) for x in remain_dims)
        if self._s.dims is None or len(remain) != len(self._s.dims):
            raise SimMPIError("Sub: bad remain_dims")
        return self._coll('Sub', (remain,), remain)

    # ---- collectives -----------------------------------------------------
    def Barrier(self):
        self._coll('Barrier', (), None)
    barrier = Barrier

    @staticmethod
    def _buf(spec):
        if isinstance(spec, (tuple, list)):
            return spec[0]
        return spec

    def Alltoall(self, sendbuf, recvbuf):
        send = self._buf(sendbuf)
        recv = self._buf(recvbuf)
        n = self._s.n
        if send.size % n != 0:
            raise SimMPIError("Alltoall: send size %d not divisible by %d" % (send.size, n))
        m = send.size // n
        if recv.size < m * n:
            raise SimMPIError("Alltoall: message truncated")
        vals = self._coll('Alltoall', (m, str(send.dtype)), np.array(send, copy=True).reshape(-1),
                          count=m, dtype=str(send.dtype))
        flat = recv.reshape(-1)
        for q in range(n):
            flat[q * m:(q + 1) * m] = vals[q][self._r * m:(self._r + 1) * m]

    def Allgather(self, sendbuf, recvbuf):
        send = self._buf(sendbuf)
        recv = self._buf(recvbuf)
        n = self._s.n
        m = send.size
        if recv.size < m * n:
            raise SimMPIError("Allgather: message truncated")
        vals = self._coll('Allgather', (m, str(send.dtype)), np.array(send, copy=True).reshape(-1),
                          count=m, dtype=str(send.dtype))
        flat = recv.reshape(-1)
        for q in range(n):
            flat[q * m:(q + 1) * m] = vals[q]

    def allgather(self, v):
        return list(self._coll('allgather', (), v))

    def gather(self, v, root=0):
        vals = self._coll('gather', (root,), v, root=root)
        return list(vals) if self._r == root else None

    def bcast(self, v=None, root=0):
        vals = self._coll('bcast', (root,), v, root=root)
        return vals[root]

    def Bcast(self, buf, root=0):
        b = self._buf(buf)
        vals = self._coll('Bcast', (root, b.size, str(b.dtype)), np.array(b, copy=True),
                          root=root, count=b.size, dtype=str(b.dtype))
        if self._r != root:
            b[...] = vals[root]

    def reduce(self, v, op=SUM, root=0):
        vals = self._coll('reduce', (op, root), v, root=root)
        if self._r != root:
            return None
        return _red(op, list(vals))

    def allreduce(self, v, op=SUM):
        vals = self._coll('allreduce', (op,), v)
        return _red(op, list(vals))

    def Reduce(self, sendbuf, recvbuf, op=SUM, root=0):
        send = self._buf(sendbuf)
        vals = self._coll('Reduce', (op, root, send.size, str(send.dtype)),
                          np.array(send, copy=True), root=root, count=send.size,
                          dtype=str(send.dtype))
        if self._r == root:
            recv = self._buf(recvbuf)
            if recv.size < send.size:
                raise SimMPIError("Reduce: receive buffer too small")
            recv[...] = _red(op, [np.asarray(v) for v in vals]).reshape(recv.shape)

    def Gatherv(self, sendbuf, recvbuf, root=0):
        send = self._buf(sendbuf)
        vals = self._coll('Gatherv', (root,), np.array(send, copy=True).reshape(-1),
                          root=root, count=send.size, dtype=str(send.dtype))
        if self._r == root:
            recv, sizes, starts = recvbuf[0], recvbuf[1], recvbuf[2]
            for q in range(self._s.n):
                if len(vals[q]) and np.asarray(vals[q]).dtype.itemsize != np.asarray(recv).dtype.itemsize:
                    raise SimMPIError("Gatherv: message truncated: rank %d sent %s, root receives %s"
                                      % (q, np.asarray(vals[q]).dtype, np.asarray(recv).dtype))
                if len(vals[q]) != sizes[q]:
                    raise SimMPIError("Gatherv: rank %d sent %d, root expected %d"
                                      % (q, len(vals[q]), sizes[q]))
                recv[starts[q]:starts[q] + sizes[q]] = vals[q]


class _World:
    """pure proxy for the calling thread's world communicator"""

    def _get(self):
        return _tls.world

    def __getattr__(self, name):
        return getattr(_tls.world, name)

    def __eq__(self, o):
        return _tls.world == o

    def __ne__(self, o):
        return not (_tls.world == o)

    def __hash__(self):
        return hash(_tls.world)


COMM_WORLD = _World()


class Result:
    def __init__(self):
        self.outcome = 'ok'        # ok | exception | deadlock | mismatch | timeout
        self.detail = ''
        self.results = None
        self.errors = None         # per rank: None or (exception type name, message, traceback)
        self.trace = None          # per rank list of (op, comm_id, root, count, dtype)
        self.fires = None          # global list of (comm_id, op, members)
        self.comms = None          # comm_id -> member world ranks

    def ok(self):
        return self.outcome == 'ok'


class _Sim:
    def __init__(self, n, seed, order, timeout):
        self.n = n
        self.rng = _random.Random(seed)
        self.order = order
        self.timeout = timeout
        self.cv = threading.Condition()
        self.state = ['new'] * n        # new | runnable | running | blocked | done | error
        self.current = None
        self.abort = False
        self.blocked_on = [None] * n    # (_Shared, comm_rank)
        self.wake_val = [None] * n
        self.trace = [[] for _ in range(n)]
        self.fires = []
        self.comms = {}
        self._cid = 0
        self._all_comms = []
        self.res = [None] * n
        self.errs = [None] * n
        self.outcome = 'ok'
        self.detail = ''
        self.world = _Shared(self, range(n))

    def _new_comm_id(self):
        c = self._cid
        self._cid += 1
        return c

    # -- called from rank threads -------------------------------------------
    def _collective(self, comm, op, sig, payload, root, count, dtype):
        me = _tls.wrank
        sh = comm._s
        with self.cv:
            if self.abort:
                raise SimAbort()
            self.trace[me].append((op, sh.id, root, count, dtype))
            sh.waiting[comm._r] = (op, sig, payload)
            self.blocked_on[me] = (sh, comm._r)
            self.state[me] = 'blocked'
            self.current = None
            self.cv.notify_all()
            while self.state[me] != 'running':
                self.cv.wait()
            if self.abort:
                raise SimAbort()
            v = self.wake_val[me]
            self.wake_val[me] = None
        return v

    def _thread(self, r, fn, args):
        _tls.world = Comm(self.world, r)
        _tls.wrank = r
        with self.cv:
            self.state[r] = 'runnable'
            self.cv.notify_all()
            while self.state[r] != 'running':
                self.cv.wait()
            if self.abort:
                self.state[r] = 'done'
                self.current = None
                self.cv.notify_all()
                return
        try:
            self.res[r] = fn(Comm(self.world, r), *args)
            st = 'done'
        except SimAbort:
            st = 'done'
        except BaseException as e:      # noqa
            import traceback
            self.errs[r] = (type(e).__name__, str(e), traceback.format_exc())
            st = 'error'
        with self.cv:
            self.state[r] = st
            self.current = None
            self.cv.notify_all()

    # -- scheduler ------------------------------------------------------------
    def _fire(self, sh):
        ops = set(w[0] for w in sh.waiting.values())
        sigs = set(w[1] for w in sh.waiting.values())
        if len(ops) != 1 or len(sigs) != 1:
            self.outcome = 'mismatch'
            self.detail = 'comm %r members %r wait with %r' % (
                sh.id, sh.members, {sh.members[k]: (w[0], w[1]) for k, w in sh.waiting.items()})
            return False
        op = next(iter(ops))
        pay = [sh.waiting[k][2] for k in range(sh.n)]
        self.fires.append((sh.id, op, tuple(sh.members)))
        fire_no = sh.nfires
        sh.nfires += 1
        if op == 'Split':
            groups = {}
            for k, (c, key) in enumerate(pay):
                groups.setdefault(c, []).append((key, k))
            out = [None] * sh.n
            for gi, c in enumerate(sorted(groups)):
                mem = [k for key, k in sorted(groups[c])]
                nsh = _Shared(self, [sh.members[k] for k in mem], key=sh.key + ((fire_no, gi),))
                for pos, k in enumerate(mem):
                    out[k] = Comm(nsh, pos)
        elif op == 'Create_cart':
            dims = list(pay[0])
            prod = 1
            for d in dims:
                prod *= d
            if prod != sh.n:
                self.outcome = 'exception'
                self.detail = 'Create_cart dims %r on %d ranks' % (dims, sh.n)
                return False
            nsh = _Shared(self, sh.members, dims=dims, key=sh.key + ((fire_no, 0),))
            out = [Comm(nsh, k) for k in range(sh.n)]
        elif op == 'Sub':
            remain = pay[0]
            tmp = Comm(sh, 0)
            groups = {}
            for k in range(sh.n):
                co = tmp.Get_coords(k)
                color = tuple(c for c, kp in zip(co, remain) if not kp)
                key = tuple(c for c, kp in zip(co, remain) if kp)
                groups.setdefault(color, []).append((key, k))
            out = [None] * sh.n
            for gi, color in enumerate(sorted(groups)):
                mem = [k for key, k in sorted(groups[color])]
                nd = [d for d, kp in zip(sh.dims, remain) if kp]
                nsh = _Shared(self, [sh.members[k] for k in mem], dims=nd, key=sh.key + ((fire_no, gi),))
                for pos, k in enumerate(mem):
                    out[k] = Comm(nsh, pos)
        else:
            out = [pay] * sh.n
        for k in range(sh.n):
            w = sh.members[k]
            self.wake_val[w] = out[k]
            self.blocked_on[w] = None
            self.state[w] = 'runnable'
        sh.waiting = {}
        return True

    def run(self, fn, args):
        ths = [threading.Thread(target=self._thread, args=(r, fn, args), daemon=True)
               for r in range(self.n)]
        for t in ths:
            t.start()
        t0 = _time.time()
        with self.cv:
            while True:
                # wait for the running rank to yield and for all threads to be born
                while self.current is not None or any(s == 'new' for s in self.state):
                    if not self.cv.wait(timeout=1.0):
                        if _time.time() - t0 > self.timeout:
                            self.outcome = 'timeout'
                            self.detail = 'rank %r did not yield within %ss' % (self.current, self.timeout)
                            break
                if self.outcome == 'timeout':
                    break
                if any(s == 'error' for s in self.state):
                    self.outcome = 'exception'
                    break
                # fire every complete communicator
                progressed = True
                bad = False
                while progressed and not bad:
                    progressed = False
                    seen = []
                    for r in range(self.n):
                        if self.state[r] == 'blocked':
                            sh = self.blocked_on[r][0]
                            if sh not in seen:
                                seen.append(sh)
                    for sh in seen:
                        if len(sh.waiting) == sh.n:
                            if not self._fire(sh):
                                bad = True
                                break
                            progressed = True
                if bad:
                    break
                runnable = [r for r in range(self.n) if self.state[r] == 'runnable']
                if not runnable:
                    if all(s == 'done' for s in self.state):
                        break
                    self.outcome = 'deadlock'
                    self.detail = 'blocked: %r; done: %r' % (
                        {r: (self.blocked_on[r][0].id, self.blocked_on[r][0].waiting[self.blocked_on[r][1]][0])
                         for r in range(self.n) if self.state[r] == 'blocked'},
                        [r for r in range(self.n) if self.state[r] == 'done'])
                    break
                if self.order is not None:
                    nxt = min(runnable, key=lambda r: self.order.index(r))
                else:
                    nxt = self.rng.choice(runnable)
                self.state[nxt] = 'running'
                self.current = nxt
                self.cv.notify_all()
            # tear down
            if self.outcome != 'ok' or any(s not in ('done',) for s in self.state):
                self.abort = True
                for r in range(self.n):
                    if self.state[r] in ('blocked', 'runnable'):
                        self.state[r] = 'running'
                self.cv.notify_all()
        for t in ths:
            t.join(timeout=5.0)
        R = Result()
        R.outcome, R.detail = self.outcome, self.detail
        # canonical small communicator ids, independent of the schedule
        canon = {k: i for i, k in enumerate(sorted(c.key for c in self._all_comms))}
        R.results, R.errors = self.res, self.errs
        R.trace = [[(op, canon[cid], root, count, dtype) for (op, cid, root, count, dtype) in tr] for tr in self.trace]
        R.fires = [(canon[cid], op, mem) for (cid, op, mem) in self.fires]
        R.comms = {canon[c.key]: list(c.members) for c in self._all_comms}
        if R.outcome == 'exception' and not R.detail:
            for r, e in enumerate(self.errs):
                if e is not None:
                    R.detail = 'rank %d: %s: %s' % (r, e[0], e[1])
                    break
        return R


def run(n, fn, *args, seed=0, order=None, timeout=120.0):
    """run fn(comm, *args) on n simulated ranks; returns a Result"""
    return _Sim(n, seed, order, timeout).run(fn, args)
