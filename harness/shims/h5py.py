"""
Emulation of h5py's driver='mpio' for thread-simulated ranks (the sandbox's h5py
is serial): all ranks of the communicator share one real serial file handle;
File(...) with driver='mpio' and close() are collective (a Barrier on the
communicator, as the real open/close are collective).  Everything else is the
real h5py.
"""
import sys
import os
import threading

_here = os.path.dirname(os.path.abspath(__file__))


def _load_real():
    me = sys.modules.pop('h5py')
    saved = list(sys.path)
    sys.path[:] = [p for p in sys.path if os.path.abspath(p or '.') != _here]
    try:
        import h5py as real
    finally:
        sys.path[:] = saved
        sys.modules['h5py'] = me
    sys.modules['_real_h5py'] = real
    return real


_real = _load_real()
h5t = _real.h5t
Dataset = _real.Dataset
Group = _real.Group
__version__ = _real.__version__

_lock = threading.RLock()
_open = {}


class _SharedFile:
    def __init__(self, f, n, key):
        self.f = f
        self.n = n
        self.key = key
        self.dsets = {}
        self.closed = 0


class _DS:
    def __init__(self, sh, name):
        self._sh = sh
        self._name = name

    def __setitem__(self, k, v):
        with _lock:
            self._sh.dsets[self._name][k] = v

    def __getitem__(self, k):
        with _lock:
            return self._sh.dsets[self._name][k]

    @property
    def attrs(self):
        return self._sh.dsets[self._name].attrs

    @property
    def shape(self):
        return self._sh.dsets[self._name].shape

    @property
    def dtype(self):
        return self._sh.dsets[self._name].dtype


class _MPIOFile:
    def __init__(self, sh, comm):
        self._sh = sh
        self._comm = comm

    def create_dataset(self, name, shape, dtype=None, **kw):
        with _lock:
            if name not in self._sh.dsets:
                self._sh.dsets[name] = self._sh.f.create_dataset(name, shape, dtype=dtype, **kw)
        return _DS(self._sh, name)

    def __getitem__(self, name):
        with _lock:
            name = name.lstrip('/')
            if name not in self._sh.dsets:
                self._sh.dsets[name] = self._sh.f[name]
        return _DS(self._sh, name)

    def close(self):
        with _lock:
            self._sh.closed += 1
            if self._sh.closed == self._sh.n:
                self._sh.f.close()
                _open.pop(self._sh.key, None)
        self._comm.Barrier()


def File(name, mode='r', driver=None, comm=None, **kw):
    if driver != 'mpio':
        return _real.File(name, mode, **kw)
    n = comm.Get_size()
    key = os.path.abspath(name)
    with _lock:
        sh = _open.get(key)
        if sh is None:
            sh = _SharedFile(_real.File(name, mode), n, key)
            _open[key] = sh
    comm.Barrier()
    return _MPIOFile(sh, comm)
