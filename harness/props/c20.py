"""
C20 - process-grid selection.  Proof: Props/C20.v (ProcGrid.v).  Tie: the extracted model
with the binary64 ratio test vs pygyro.model.process_grid on an exhaustive box and random
cases far beyond it; direct oracle = brute-force divisor enumeration; the hypothesis of
pg_float_spec (the float comparison rejects the non-divisor candidate max_proc1) is evaluated
on every case; a sample is re-evaluated inside Coq (PrimFloat, vm_compute).
"""
import json
import random
import core
import implrun


def impl_case(c):
    from pygyro.model.process_grid import compute_2d_process_grid_from_max, compute_2d_process_grid
    if c[0] == 'max':
        _, m1, m2, mpi = c
        a, b = compute_2d_process_grid_from_max(m1, m2, mpi)
        return ('ok', int(a), int(b))
    _, n0, n1, n2, n3, mpi = c
    a, b = compute_2d_process_grid([n0, n1, n2, n3], mpi)
    return ('ok', int(a), int(b))


def oracle_exists(m1, m2, mpi):
    d = 1
    while d * d <= mpi:
        if mpi % d == 0:
            for a in (d, mpi // d):
                if a <= m1 and mpi // a <= m2:
                    return True
        d += 1
    return False


def divisors(n):
    out = []
    d = 1
    while d * d <= n:
        if n % d == 0:
            out.append(d)
            if d != n // d:
                out.append(n // d)
        d += 1
    return sorted(out)


def float_hypothesis_ok(m1, m2, mpi):
    """hypothesis of pg_float_spec on this instance: for every valid pair (n1,n2) with n1 < m1,
    if m1 <= mpi does not divide mpi then the binary64 ratio test does not prefer (m1, mpi//m1)"""
    if m1 > mpi or mpi % m1 == 0:
        return True
    new1, new2 = m1, mpi // m1

    def ratio(a, b):
        d1 = m1 / a
        d2 = m2 / b
        return max(d1, d2) / min(d1, d2)
    for n1 in divisors(mpi):
        n2 = mpi // n1
        if n1 < m1 and n2 <= m2:
            if ratio(new1, new2) < ratio(n1, n2):
                return False
    return True


def stratum(m1, m2, mpi):
    ex = oracle_exists(m1, m2, mpi)
    if not ex:
        return 'no-factorisation'
    if mpi == 1:
        return 'one-process'
    if mpi <= m2:
        return 'first-guess-valid'
    if m1 <= mpi and mpi % m1 != 0:
        return 'nondivisor-candidate-reachable'
    return 'search-needed'


def gen_cases(chk):
    rng = random.Random(chk.seed)
    box = 40 if chk.tier == 'quick' else 96
    nrand = 3000 if chk.tier == 'quick' else 100000
    cases = [('max', a, b, c) for a in range(1, box + 1) for b in range(1, box + 1) for c in range(1, box + 1)]
    for _ in range(nrand):
        k = rng.random()
        if k < 0.4:
            mpi = rng.randint(1, 10 ** 6)
            m1 = rng.randint(1, 2000)
            m2 = rng.randint(1, 2000)
        elif k < 0.7:   # highly composite process counts, maxima near divisors
            mpi = rng.choice([2, 3, 4, 6]) ** rng.randint(1, 8) * rng.choice([1, 5, 7, 9, 10])
            ds = [d for d in divisors(mpi) if d <= 3000]     # model fuel is a unary nat of size max_proc1
            m1 = max(1, rng.choice(ds) + rng.randint(-1, 1))
            m2 = max(1, rng.choice(ds) + rng.randint(-1, 1))
        else:
            mpi = rng.randint(1, 4096)
            m1 = rng.randint(1, 300)
            m2 = rng.randint(1, 300)
        cases.append(('max', m1, m2, mpi))
    npts_cases = []
    for _ in range(nrand // 5):
        n = [rng.randint(1, 64) for _ in range(4)]
        npts_cases.append(('npts', n[0], n[1], n[2], n[3], rng.randint(1, 128)))
    return cases, npts_cases, box


def check_layouts(chk, npts, a, b):
    """every rank gets >= 1 point in every distributed dimension and the three standard layouts
    can be built and connected on the returned grid (real Layout / LayoutHandler classes)"""
    import numpy as np
    import warnings
    from mpi4py import MPI
    from pygyro.model.layout import getLayoutHandler
    eta = [np.arange(n, dtype=float) for n in npts]
    layouts = {'flux_surface': [0, 3, 1, 2], 'v_parallel': [0, 2, 1, 3], 'poloidal': [3, 2, 1, 0]}

    def work(comm):
        with warnings.catch_warnings():
            warnings.simplefilter('ignore')
            h = getLayoutHandler(comm, layouts, [a, b], eta)
        ok = True
        for nm in layouts:
            ok = ok and all(int(s) >= 1 for s in h.getLayout(nm).shape)
        return ok
    R = MPI.run(a * b, work, seed=chk.seed)
    return R.outcome == 'ok' and all(R.results), R.outcome + ' ' + R.detail[:200]


def setup_case(c):
    """the glue in pygyro/initialisation/setups.py: the real setupCylindricalGrid on `n` simulated ranks, with or without a
    plotting process; returns per rank (is_drawing_rank, process grid of the layouts, {layout: (starts, shape)})"""
    import numpy as np
    import warnings
    from mpi4py import MPI
    npts, n, plot, draw = c

    def work(comm):
        from pygyro.initialisation.setups import setupCylindricalGrid
        with warnings.catch_warnings():
            warnings.simplefilter('ignore')
            kw = dict(plotThread=True, drawRank=draw) if plot else {}
            grid, constants, t = setupCylindricalGrid(layout='v_parallel', npts=list(npts), comm=comm, **kw)
        out = {}
        for nm in ('flux_surface', 'v_parallel', 'poloidal'):
            L = grid.getLayout(nm)
            out[nm] = ([int(x) for x in L.dims_order], [int(x) for x in L.starts], [int(x) for x in L.shape])
        L = grid.getLayout('v_parallel')
        return (bool(plot and comm.Get_rank() == draw), [int(x) for x in L.nprocs[:2]], out)
    R = MPI.run(n, work, seed=7, timeout=300)
    if R.outcome != 'ok':
        return ('fail', R.outcome, R.detail[:300])
    return ('ok', R.results)


def setup_stage(chk):
    """on every rank count: the grid used by the set-up multiplies to the number of COMPUTING processes (the plotting
    process is not one of them), every computing process owns >= 1 point of every dimension in every standard layout and the
    blocks tile the index space exactly once; an error is raised exactly when no factorisation exists"""
    import numpy as np
    quick = chk.tier == 'quick'
    cases = []
    for npts in ([8, 8, 4, 6], [4, 8, 4, 4], [8, 8, 8, 8]) if quick else ([8, 8, 4, 6], [4, 8, 4, 4], [8, 8, 8, 8], [5, 6, 7, 9], [16, 8, 6, 12]):
        for n in range(1, 8 if quick else 11):
            cases.append((npts, n, False, 0))
            if n >= 2:
                cases.append((npts, n, True, 0))
                cases.append((npts, n, True, n - 1))
    res = implrun.run_cases('props.c20', 'setup_case', cases, tmo=600.0, chunk=1)
    _judge_setup(chk, cases, res)


def _judge_setup(chk, cases, res):
    import numpy as np
    for c, r in zip(cases, res):
        npts, n, plot, draw = c
        ncomp = n - 1 if plot else n
        chk.count(('setup', tuple(npts), n, plot, draw), nontrivial=n > 1, stratum='setup/%s' % ('plotThread' if plot else 'all-compute'),
                  sample={'npts': npts, 'ranks': n, 'plotThread': plot, 'drawRank': draw})
        exists = oracle_exists(min(npts[0], npts[3]), min(npts[2], npts[3]), ncomp)
        rep = {'kind': 'setup', 'case': [npts, n, plot, draw]}
        if not isinstance(r, tuple) or r[0] != 'ok':
            if exists:
                chk.violation('setups.setupCylindricalGrid:grid', 'npts=%r on %d ranks (plotThread=%r, drawRank=%d): %d computing processes '
                              'admit a process grid but the set-up ends with %r' % (npts, n, plot, draw, ncomp, r), rep)
            continue
        if not exists:
            chk.violation('setups.setupCylindricalGrid:no-error', 'npts=%r on %d ranks (plotThread=%r): no factorisation of %d computing '
                          'processes exists but the set-up returned' % (npts, n, plot, ncomp), rep)
            continue
        comp = [x for x in r[1] if not x[0]]
        grids = set(tuple(x[1]) for x in comp)
        bad = None
        if len(comp) != ncomp or len(grids) != 1:
            bad = '%d computing ranks report grids %r' % (len(comp), sorted(grids))
        else:
            g = list(grids)[0]
            if g[0] * g[1] != ncomp:
                bad = 'process grid %r does not multiply to the %d computing processes' % (g, ncomp)
            else:
                for nm in ('flux_surface', 'v_parallel', 'poloidal'):
                    dims = comp[0][2][nm][0]
                    cnt = np.zeros([npts[e] for e in dims], dtype=int)
                    for x in comp:
                        _, st, sh = x[2][nm]
                        if min(sh) < 1:
                            bad = 'a computing process owns no point in layout %s (shape %r)' % (nm, sh)
                        cnt[tuple(slice(a, a + b) for a, b in zip(st, sh))] += 1
                    if bad is None and not (cnt == 1).all():
                        bad = 'the blocks of layout %s do not tile the index space (cells owned %d..%d times)' % (nm, cnt.min(), cnt.max())
        if bad:
            chk.violation('setups.setupCylindricalGrid:grid', 'npts=%r on %d ranks (plotThread=%r, drawRank=%d): %s'
                          % (npts, n, plot, draw, bad), rep)


def run():
    chk = core.Check('C20', 'proof')
    proof = core.proof_stage('C20')
    setup_stage(chk)
    cases, npts_cases, box = gen_cases(chk)
    impl = implrun.run_cases('props.c20', 'impl_case', cases, tmo=5.0)
    mod = core.model_parallel(['pg %d %d %d' % (c[3], c[1], c[2]) for c in cases])
    modx = core.model_parallel(['pgx %d %d %d' % (c[3], c[1], c[2]) for c in cases])
    hyp_fail = 0
    exact_vs_float_differ = 0
    for c, r, m, mx in zip(cases, impl, mod, modx):
        _, m1, m2, mpi = c
        st = stratum(m1, m2, mpi)
        chk.count(c, nontrivial=(st not in ('one-process',)), stratum=st,
                  sample={'max_proc1': m1, 'max_proc2': m2, 'mpi_size': mpi, 'impl': list(r), 'model': m})
        if r[0] == 'ok':
            rs = 'ok %d %d' % (r[1], r[2])
        elif r[0] == 'exc' and r[1] == 'RuntimeError':
            rs = 'err'
        elif r[0] == 'timeout':
            rs = 'timeout'
        else:
            rs = 'exc ' + r[1]
        # direct oracle (independent of the model)
        ex = oracle_exists(m1, m2, mpi)
        bad = None
        if rs == 'timeout':
            bad = 'search does not terminate'
        elif rs.startswith('exc'):
            bad = 'unexpected exception ' + rs
        elif rs == 'err' and ex:
            bad = 'error raised although a valid factorisation exists'
        elif rs.startswith('ok'):
            a, b = r[1], r[2]
            if not ex:
                bad = 'grid returned although no valid factorisation exists'
            elif not (a * b == mpi and 1 <= a <= m1 and 1 <= b <= m2):
                bad = 'returned grid (%d,%d) is not a valid factorisation' % (a, b)
        if bad:
            chk.violation('process_grid:' + bad.split(' ')[0], 'max_proc1=%d max_proc2=%d mpi_size=%d: %s (impl %s, model %s)'
                          % (m1, m2, mpi, bad, rs, m),
                          {'kind': 'impl', 'case': list(c), 'observed': rs, 'model': m, 'oracle_exists': ex})
        elif rs != m:
            chk.cov['disagreements_checked'] += 1
            chk.violation('process_grid:model-mismatch',
                          'max_proc1=%d max_proc2=%d mpi_size=%d: implementation %s, model %s; both satisfy the '
                          'validity oracle - correspondence ProcGrid.compute_float no longer checks' % (m1, m2, mpi, rs, m),
                          {'kind': 'correspondence', 'theorem': 'pg_float_spec / ProcGrid.compute_float',
                           'case': list(c), 'observed': rs, 'model': m}, no_input=True)
        if not float_hypothesis_ok(m1, m2, mpi):
            hyp_fail += 1
            chk.violation('process_grid:float-hypothesis',
                          'binary64 ratio test prefers the non-divisor candidate max_proc1: %r' % (c,),
                          {'kind': 'hypothesis', 'case': list(c)})
        chk.cov['certificates_checked'] += 1
        if m != mx:
            exact_vs_float_differ += 1
    # wrapper: npts -> maxima, and buildability of the standard layouts on the returned grid
    impl2 = implrun.run_cases('props.c20', 'impl_case', npts_cases, tmo=5.0)
    mod2 = core.model_parallel(['pg %d %d %d' % (c[5], min(c[1], c[4]), min(c[3], c[4])) for c in npts_cases])
    built = 0
    for c, r, m in zip(npts_cases, impl2, mod2):
        npts = list(c[1:5])
        rs = 'ok %d %d' % (r[1], r[2]) if r[0] == 'ok' else ('err' if r[0] == 'exc' and r[1] == 'RuntimeError' else repr(r))
        chk.count(c, stratum='npts-wrapper', sample={'npts': npts, 'mpi_size': c[5], 'impl': rs})
        if rs != m:
            ex = oracle_exists(min(c[1], c[4]), min(c[3], c[4]), c[5])
            valid = (rs == 'err' and not ex) or (r[0] == 'ok' and ex and r[1] * r[2] == c[5]
                                                 and r[1] <= min(c[1], c[4]) and r[2] <= min(c[3], c[4]))
            chk.violation('process_grid:npts-wrapper', 'npts=%r mpi=%d: impl %s model %s' % (npts, c[5], rs, m),
                          {'kind': 'impl', 'case': list(c), 'observed': rs, 'model': m}, no_input=valid)
        elif r[0] == 'ok' and r[1] * r[2] <= 12 and built < (60 if chk.tier == 'quick' else 400):
            built += 1
            ok, why = check_layouts(chk, npts, r[1], r[2])
            if not ok:
                chk.violation('process_grid:layouts-not-buildable', 'npts=%r grid=(%d,%d): %s' % (npts, r[1], r[2], why),
                              {'kind': 'impl', 'case': list(c), 'grid': [r[1], r[2]], 'why': why})
    # cross-check of the extraction: a sample re-evaluated inside Coq with PrimFloat
    rng = random.Random(chk.seed + 1)
    samp = rng.sample(range(len(cases)), 200 if chk.tier == 'quick' else 1000)
    terms = ['compute_float %d %d %d' % (cases[i][3], cases[i][1], cases[i][2]) for i in samp]
    vals = core.coq_eval(terms, 'From Coq Require Import ZArith. From PGV Require Import ProcGrid. Open Scope Z_scope.', tag='c20')
    xfail = 0
    for i, v in zip(samp, vals):
        v = v.replace('%Z', '').replace('(', '').replace(')', '')
        exp = mod[i].replace('ok', 'Ok').replace('err', 'Err')
        if ' '.join(v.split()) != exp:
            xfail += 1
    if xfail:
        raise core.BrokenCheck('extracted model and vm_compute disagree on %d of %d sampled cases' % (xfail, len(samp)))
    chk.assumptions += ['binary64 division and comparison of OCaml/Coq PrimFloat are those of CPython (IEEE 754)',
                        'hypothesis of pg_float_spec is checked per instance (all %d cases), not proved for floats' % len(cases)]
    return chk.finish(proof,
                      rule='exhaustive (max_proc1,max_proc2,mpi_size) in [1,%d]^3 plus seeded random cases up to 10^6 '
                           '(composite process counts, maxima next to divisors) plus npts wrapper cases; '
                           'non-trivial = mpi_size > 1; distinct = distinct triple' % box,
                      extra={'exhaustive_box': box, 'coq_vm_compute_crosschecked': len(samp),
                             'exact_vs_float_model_differ': exact_vs_float_differ,
                             'float_hypothesis_failures': hyp_fail, 'layout_handlers_built': built},
                      uncovered=['rounding analysis of the ratio test for mpi_size beyond the sampled range is not proved '
                                 '(hypothesis of pg_float_spec, checked per instance)'])


def replay(path):
    core.setup_paths()
    body = json.load(open(path))
    if body['replay'].get('kind') == 'setup':
        class _C:
            tier, seed = 'quick', 0
            bad = []
            def count(self, *a, **k): pass
            def violation(self, key, what, rep, no_input=False): self.bad.append(what)
        npts, n, plot, draw = body['replay']['case']
        r = setup_case((npts, n, plot, draw))
        print('set-up on %d ranks, plotThread=%r:' % (n, plot), str(r)[:600])
        # re-judge with the stage's own rules
        import types
        fake = _C()
        orig = implrun.run_cases
        implrun.run_cases = lambda *a, **k: [r]
        try:
            globals()['_replay_cases'] = [(npts, n, plot, draw)]
            _judge_setup(fake, [(npts, n, plot, draw)], [r])
        finally:
            implrun.run_cases = orig
        print('\n'.join(fake.bad) or 'holds')
        return 1 if fake.bad else 0
    c = tuple(body['replay']['case'])
    r = implrun.run_cases('props.c20', 'impl_case', [c], tmo=5.0)[0]
    if c[0] == 'max':
        m = core.model(['pg %d %d %d' % (c[3], c[1], c[2])])[0]
        ex = oracle_exists(c[1], c[2], c[3])
    else:
        m = core.model(['pg %d %d %d' % (c[5], min(c[1], c[4]), min(c[3], c[4]))])[0]
        ex = oracle_exists(min(c[1], c[4]), min(c[3], c[4]), c[5])
    print('case', c, 'implementation', r, 'model', m, 'valid factorisation exists:', ex)
    rs = 'ok %d %d' % (r[1], r[2]) if r[0] == 'ok' else ('err' if r[0] == 'exc' and r[1] == 'RuntimeError' else repr(r))
    return 0 if rs == m else 1
