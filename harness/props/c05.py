"""
C05 - simulation results do not depend on the process decomposition.
Proof: Props/C05.v (GridSteps.v).  Tie:
 (a) spies replace every slice kernel (flux step, v-parallel step, poloidal step, density kernel, per-mode
     solve) during the real grid-level loops on real Grid / LayoutSwapper objects under simulated MPI; each
     record = (operator, global coordinates of the slice decoded from its contents, digest of the
     parameters / table rows the code passed, raw local indices and block starts).  The union over ranks
     must equal the serial run's records (hypothesis Hparams of c05_assembled_eq_serial, checked for the
     implementation), and the raw indices must resolve, through the model's lookup kinds, to the slice's
     own global coordinate.
 (b) direct oracle: the global fields after the initialisers, after each real operator and after a
     complete Strang step (with the quasi-neutrality solves) are BITWISE equal between the serial run and
     every process grid tried.
"""
import hashlib
import json
import random

import numpy as np

import core
import implrun


def _dg(*xs):
    h = hashlib.sha1()
    for x in xs:
        if hasattr(x, 'toarray'):
            x = x.toarray()
        a = np.ascontiguousarray(np.asarray(x))
        h.update(str(a.dtype).encode() + str(a.shape).encode() + a.tobytes())
    return h.hexdigest()[:16]


def _unravel(g, npts):
    out = []
    for n in reversed(npts):
        out.append(int(g % n))
        g //= n
    return tuple(reversed(out))


def case(c):
    """c = (mode, npts, nprocs, iota, seed, extra)"""
    import warnings
    from mpi4py import MPI
    import simdriver
    import threading
    mode, npts, nprocs, iota, seed, extra = c
    nranks = nprocs[0] * nprocs[1]
    if mode == 'main':
        return main_case(c)
    tl = threading.local()      # the spies are installed once on shared classes/modules; their state is per rank (thread)
    n3 = npts[:3]

    def spy_flux(self, fs, cIdx, rIdx=0):
        R, Th, Z, V = _unravel(int(fs[0, 0]), npts)
        L = tl.f.getLayout(tl.f.currentLayout)
        tl.rec.append(('flux', (R, V), _dg(self._shifts[rIdx, cIdx], self._thetaShifts[rIdx, cIdx], self._lagrangeCoeffs[rIdx, cIdx]),
                       (int(rIdx), int(cIdx), int(L.starts[0]), int(L.starts[1]))))

    def spy_vpar(self, fs, dt, cc, r):
        R, Th, Z, V = _unravel(int(fs[0]), npts)
        tl.rec.append(('vpar', (R, Z, Th), _dg(np.float64(cc), np.float64(r), np.float64(dt)), None))

    def spy_pol(self, fs, dt, phispl, v):
        R, Th, Z, V = _unravel(int(fs[0, 0]), npts)
        tl.rec.append(('pol', (V, Z), _dg(np.float64(v), np.float64(dt), phispl.coeffs), None))

    def spy_density(rho_arr, feq, grid_arr, quad):
        Lf = tl.f.getLayout(tl.f.currentLayout)
        for i in range(grid_arr.shape[0]):
            R, Th, Z, V = _unravel(int(grid_arr[i, 0, 0, 0]), npts)
            tl.rec.append(('density', (R,), _dg(feq[i], quad), (i, int(Lf.starts[0]))))
        rho_arr[:] = 0

    def spy_mode(self, phi_g, rho_g, stiff, i, I):
        v = rho_g.get1DSlice(i, 0)[0]
        R, Th, Z = _unravel(int(round(v.real)), n3)
        Lr = rho_g.getLayout(rho_g.currentLayout)
        tl.rec.append(('qn', (Th,), _dg(np.float64(self._mVals[I]), stiff, self._massMatrix[self._stiffness_range[I], :],
                                        np.array([self._coeff_range[I].start or 0, self._coeff_range[I].stop or -1])),
                       (int(i), int(I), int(Lr.starts[0]))))

    def work(comm):
        warnings.simplefilter('ignore')
        import pygyro.advection.advection as adv
        import pygyro.poisson.poisson_solver as ps
        if mode.startswith('init:'):
            lay = mode.split(':')[1]
            S = simdriver.Sim(comm, npts, nprocs, iota=iota, layout=lay, extra=extra)
            return {'f': simdriver.block_info(S.f)}
        S = simdriver.Sim(comm, npts, nprocs, iota=iota, extra=extra, pol_explicit=(mode != 'step-impl'))
        f, phi, rho = S.f, S.phi, S.rho
        if mode in ('step', 'step-impl'):
            # random-looking perturbation on top of the initial condition, identical for every decomposition
            L = f.getLayout(f.currentLayout)
            f.getAllData()[:] += 1e-3 * simdriver.exact_field(simdriver.global_index(L, npts), seed)
            S.solve_qn()
            S.strang_step()
            f.setLayout('v_parallel')
            return {'f': simdriver.block_info(f), 'phi': simdriver.block_info(phi)}
        if mode.startswith('op:'):
            op = mode.split(':')[1]
            if op == 'flux':
                f.setLayout('flux_surface')
                S.set_f(seed)
                S.fluxAdv.gridStep(f)
            elif op == 'vpar':
                f.setLayout('v_parallel')
                S.set_f(seed)
                S.set_phi('v_parallel_1d', seed + 1, 0.01)
                S.vParAdv.gridStep(f, phi, S.parGrad, S.parGradVals, S.half)
                S.vParAdv.gridStepKeepGradient(f, S.parGradVals, S.half)
            elif op == 'pol':
                f.setLayout('poloidal')
                S.set_f(seed)
                S.set_phi('poloidal', seed + 1, 0.01)
                S.polAdv.gridStep(f, phi, S.half)
            elif op == 'qn':
                f.setLayout('v_parallel')
                S.set_f(seed)
                S.solve_qn()
                out = {'f': simdriver.block_info(f), 'phi': simdriver.block_info(phi), 'rho': simdriver.block_info(rho)}
                # the density finder and the solver of this simulation then serve a second one that lives on the transposed
                # process grid (other radial blocks on the same ranks): still the serial result
                g2 = (nprocs[1], nprocs[0])
                if not (g2[0] <= min(npts[0], npts[3], npts[1]) and g2[1] <= min(npts[2], npts[3])):
                    g2 = tuple(nprocs)
                comm.Barrier()
                S2 = simdriver.Sim(comm, npts, g2, iota=iota, extra=extra)
                comm.Barrier()
                S2.f.setLayout('v_parallel')
                S2.set_f(seed)
                S2.density, S2.QN = S.density, S.QN
                S2.solve_qn()
                out['phi_reuse'], out['rho_reuse'] = simdriver.block_info(S2.phi), simdriver.block_info(S2.rho)
                return out
            return {'f': simdriver.block_info(f)}
        # ---- spy mode
        tl.rec = []
        tl.f = f

        def fill_f():
            L = f.getLayout(f.currentLayout)
            f.getAllData()[:] = simdriver.global_index(L, npts).astype(float)

        f.setLayout('flux_surface')
        fill_f()
        S.fluxAdv.gridStep(f)
        f.setLayout('v_parallel')
        S.set_phi('v_parallel_1d', seed + 1, 0.01)
        S.vParAdv.gridStep(f, phi, S.parGrad, S.parGradVals, S.half)
        S.vParAdv.gridStepKeepGradient(f, S.parGradVals, S.half)
        f.setLayout('poloidal')
        phi.setLayout('poloidal')
        S.polAdv.gridStep(f, phi, S.half)
        f.setLayout('v_parallel')
        S.density.getPerturbedRho(f, rho)
        rho.setLayout('mode_solve')
        Lr = rho.getLayout('mode_solve')
        rho.getAllData()[:] = simdriver.global_index(Lr, n3).astype(complex)
        phi.setLayout('mode_solve')
        S.QN.solveEquation(phi, rho)
        return {'rec': tl.rec}

    # the spies are installed on the classes: restore them afterwards (worker processes are reused)
    import pygyro.advection.advection as adv0
    import pygyro.poisson.poisson_solver as ps0
    saved = (adv0.FluxSurfaceAdvection.step, adv0.VParallelAdvection.step, adv0.PoloidalAdvection.step,
             ps0.get_perturbed_rho, ps0.DiffEqSolver._solveMode)
    try:
        if mode == 'spy':
            adv0.FluxSurfaceAdvection.step = spy_flux
            adv0.VParallelAdvection.step = spy_vpar
            adv0.PoloidalAdvection.step = spy_pol
            ps0.get_perturbed_rho = spy_density
            ps0.DiffEqSolver._solveMode = spy_mode
        R = MPI.run(nranks, work, seed=seed, timeout=900)
    finally:
        (adv0.FluxSurfaceAdvection.step, adv0.VParallelAdvection.step, adv0.PoloidalAdvection.step,
         ps0.get_perturbed_rho, ps0.DiffEqSolver._solveMode) = saved
    if R.outcome != 'ok':
        return ('fail', R.outcome, R.detail[:500])
    if mode == 'spy':
        allrec = [x for r in R.results for x in r['rec']]
        return ('ok', 'spy', allrec)
    out = {}
    for k in R.results[0]:
        n = npts if k == 'f' else npts[:3]
        arr, cnt = simdriver.assemble([r[k] for r in R.results], n)
        out[k] = (hashlib.sha1(np.ascontiguousarray(arr).tobytes()).hexdigest(), int(cnt.min()), int(cnt.max()),
                  float(np.abs(arr).max()), arr if arr.size <= 20000 else None)
    return ('ok', 'fields', out)


def main_case(c):
    """the real driver fullSimulation.main() for a few steps on nranks simulated ranks; returns digests of the checkpoints"""
    import os
    import sys
    import io
    import shutil
    import tempfile
    import contextlib
    import warnings
    from mpi4py import MPI
    mode, npts, nprocs, iota, seed, extra = c
    nranks = nprocs[0] * nprocs[1]
    tmp = tempfile.mkdtemp(dir='/var/tmp', prefix='pgv_c05_')
    cwd = os.getcwd()
    try:
        os.chdir(tmp)
        json.dump({'npts': list(npts), 'dt': 2, 'iotaVal': iota}, open('consts.json', 'w'))
        argv = ['fullSimulation.py', '4', '100000', '-c', os.path.join(tmp, 'consts.json'), '-f', os.path.join(tmp, 'out'), '-s', '2']

        # earlier cases in this worker may have overridden the process-grid search: the driver uses the real one
        import pygyro.initialisation.setups as setups
        from pygyro.model.process_grid import compute_2d_process_grid as real_search
        setups.compute_2d_process_grid = real_search

        def work(comm):
            warnings.simplefilter('ignore')
            import fullSimulation
            fullSimulation.main()
            return True
        old = sys.argv
        sys.argv = argv
        buf = io.StringIO()
        try:
            with contextlib.redirect_stdout(buf):
                R = MPI.run(nranks, work, seed=seed, timeout=900)
        finally:
            sys.argv = old
        if R.outcome != 'ok':
            return ('fail', R.outcome, R.detail[:500])
        import h5py
        out = {}
        for fn in sorted(os.listdir(os.path.join(tmp, 'out'))):
            if fn.endswith('.h5'):
                with h5py.File(os.path.join(tmp, 'out', fn), 'r') as h:
                    a = np.array(h['dset'])
                    out[fn] = (hashlib.sha1(np.ascontiguousarray(a).tobytes()).hexdigest(), 1, 1, float(np.abs(a).max()), None)
        return ('ok', 'fields', out)
    finally:
        os.chdir(cwd)
        shutil.rmtree(tmp, ignore_errors=True)


def run():
    chk = core.Check('C05', 'proof')
    proof = core.proof_stage('C05')
    rng = random.Random(chk.seed)
    quick = chk.tier == 'quick'
    shapes = [[8, 8, 8, 8], [9, 8, 10, 7]] if quick else [[8, 8, 8, 8], [9, 8, 10, 7], [10, 12, 9, 11], [7, 10, 8, 9]]
    grids_q = [(1, 2), (2, 1), (2, 2), (1, 3), (2, 3), (3, 2)]
    grids_t = grids_q + [(3, 1), (1, 4), (4, 1), (4, 2), (2, 4), (3, 3), (1, 7), (7, 1)]
    cases = []
    groups = []
    for npts in shapes:
        grids = [g for g in (grids_q if quick else grids_t) if g[0] <= min(npts[0], npts[3]) and g[1] <= min(npts[2], npts[3])]
        for iota in ([0.8] if quick and npts != shapes[0] else [0.0, 0.8]):
            seed = rng.randrange(1000)
            modes = ['spy', 'step'] + (['init:flux_surface', 'init:v_parallel', 'init:poloidal'] if iota == 0.8 else [])
            if not quick or npts == shapes[0]:
                modes += ['op:flux', 'op:vpar', 'op:pol', 'op:qn']
            if not quick and npts == shapes[0]:
                modes += ['step-impl']
            for mode in modes:
                gl = grids if (not quick or mode in ('spy', 'step')) else grids[:3]
                # a rotational transform varying with r for the non-zero case (the tables are indexed by radius)
                ex = {'iota_slope': 0.05} if iota else None
                grp = [(mode, npts, (1, 1), iota, seed, ex)] + [(mode, npts, g, iota, seed, ex) for g in gl]
                groups.append((len(cases), len(grp)))
                cases += grp
    # the real driver: serial vs 2 / 4 (6 thorough) ranks with the grid its own search picks
    grp = [('main', [8, 8, 8, 8], (1, 1), 0.8, 1, None)] + [('main', [8, 8, 8, 8], (1, n), 0.8, 1, None) for n in ((2, 4) if quick else (2, 3, 4, 6, 8))]
    groups.append((len(cases), len(grp)))
    cases += grp
    res = implrun.run_cases('props.c05', 'case', cases, tmo=900.0, chunk=1)
    resolve_lines = []
    resolve_exp = []
    opkinds = {}
    for k, nm in enumerate(['flux', 'vpar', 'pol', 'density', 'qn', 'init']):
        a0, a1, ok = core.model(['opspec %d' % k])[0].split(';')
        opkinds[nm] = (a0.split(), a1.split(), ok.strip())
    for start, n in groups:
        ref_c, ref = cases[start], res[start]
        mode, npts, _, iota, seed, _ = ref_c
        if ref[0] != 'ok':
            chk.violation('c05:%s:serial-run-failed' % mode.split(':')[0], 'serial run %r failed: %r' % (ref_c, ref), {'kind': 'impl', 'case': list(ref_c), 'observed': list(ref)})
            continue
        for k in range(1, n):
            c, r = cases[start + k], res[start + k]
            nprocs = c[2]
            chk.count((mode, tuple(npts), nprocs, iota), nontrivial=True, stratum='%s:%s' % (mode, 'twist' if iota else 'notwist'),
                      sample={'mode': mode, 'npts': npts, 'process_grid': list(nprocs), 'iota': iota, 'seed': seed})
            if r[0] != 'ok':
                chk.violation('c05:%s:%s' % (mode, r[1]), '%s npts=%r grid=%r iota=%s: run ends in %s: %s' % (mode, npts, nprocs, iota, r[1], r[2]),
                              {'kind': 'impl', 'case': [mode, npts, list(nprocs), iota, seed, c[5]], 'outcome': r[1], 'detail': r[2]})
                continue
            if mode == 'spy':
                serial = {}
                for op, coords, dg, raw in ref[2]:
                    serial[(op, tuple(coords))] = dg
                par = {}
                dup = None
                for op, coords, dg, raw in r[2]:
                    key = (op, tuple(coords))
                    # vpar runs twice (gridStep, gridStepKeepGradient); a mode is solved once per z block
                    if key in par and (par[key] != dg or op in ('flux', 'pol')):
                        dup = key
                    par[key] = dg
                    # raw indices -> model lookups must resolve to the slice's own global coordinate
                    if raw is not None and op == 'flux':
                        rI, cI, s0, s1 = raw
                        p0, p1 = nprocs
                        n0, n1 = npts[0], npts[3]
                        # rank coordinates from the starts
                        resolve_lines.append(('flux', c, coords, 0, n0, p0, s0, rI))
                        resolve_lines.append(('flux', c, coords, 1, n1, p1, s1, cI))
                    elif raw is not None and op == 'density':
                        i, s0 = raw
                        resolve_lines.append(('density', c, coords, 0, npts[0], nprocs[0], s0, i))
                    elif raw is not None and op == 'qn':
                        i, I, s0 = raw
                        resolve_lines.append(('qn', c, coords, 0, npts[1], nprocs[0], s0, i))
                        if I != coords[0]:
                            chk.violation('c05:qn:mode-index', 'grid %r: mode loop passes I=%d for the slice of mode %d' % (nprocs, I, coords[0]),
                                          {'kind': 'impl', 'case': [mode, npts, list(nprocs), iota, seed, c[5]]})
                bad = None
                if dup:
                    bad = 'slice %r handled twice with different parameters' % (dup,)
                elif set(par) != set(serial):
                    miss = sorted(set(serial) - set(par))[:3]
                    extra = sorted(set(par) - set(serial))[:3]
                    bad = 'slices missing %r / unexpected %r' % (miss, extra)
                else:
                    diff = sorted(k2 for k2 in serial if serial[k2] != par[k2])
                    if diff:
                        ops = sorted(set(k2[0] for k2 in diff))
                        bad = '%d slices receive parameters that differ from those of their own global coordinates (operators %r, e.g. %r)' % (len(diff), ops, diff[0])
                if bad:
                    op0 = bad.split('operators ')[1].split(',')[0].strip("[]' ") if 'operators' in bad else 'slices'
                    chk.violation('c05:spy:%s' % op0, 'npts=%r grid=%r iota=%s: %s' % (npts, nprocs, iota, bad),
                                  {'kind': 'impl', 'case': ['spy', npts, list(nprocs), iota, seed, c[5]], 'what': bad})
                chk.cov['certificates_checked'] += len(par)
            else:
                for fld in ref[2]:
                    h0, c0, c1, m0, a0 = ref[2][fld]
                    h1, d0, d1, m1, a1 = r[2][fld]
                    if (d0, d1) != (1, 1):
                        chk.violation('c05:%s:coverage' % mode, '%s grid %r: blocks of %s cover cells %d..%d times' % (mode, nprocs, fld, d0, d1),
                                      {'kind': 'impl', 'case': [mode, npts, list(nprocs), iota, seed, c[5]]})
                    elif h0 != h1:
                        dmax = float(np.abs(a0 - a1).max()) if a0 is not None and a1 is not None else None
                        chk.violation('c05:%s:%s-differs-from-serial' % (mode.split(':')[0] + (':' + mode.split(':')[1] if ':' in mode else ''), fld),
                                      '%s npts=%r iota=%s: global %s on grid %r is not bitwise equal to the serial run (max abs diff %r, field scale %g)'
                                      % (mode, npts, iota, fld, nprocs, dmax, m0),
                                      {'kind': 'impl', 'case': [mode, npts, list(nprocs), iota, seed, c[5]], 'field': fld, 'max_abs_diff': dmax})
    # raw indices through the model
    rl = []
    for (op, c, coords, axis, n, p, s, i) in resolve_lines:
        # the rank coordinate a along this axis is the one whose block starts at s
        rl.append((op, c, coords, axis, n, p, s, i))
    uniq = sorted(set((op, axis, n, p, s, i, coords[axis] if op != 'flux' else coords[axis]) for (op, c, coords, axis, n, p, s, i) in rl))
    starts_cache = {}
    lines = []
    meta = []
    for (op, axis, n, p, s, i, g) in uniq:
        if (n, p) not in starts_cache:
            starts_cache[(n, p)] = [int(x) for x in core.model(['starts %d %d' % (n, p)])[0].split()]
        st = starts_cache[(n, p)]
        a = max(k for k in range(p) if st[k] == s and st[k + 1] > s + i) if any(st[k] == s and st[k + 1] > s + i for k in range(p)) else None
        if a is None:
            chk.violation('c05:spy:start-not-a-block-start', 'operator %s: block start %d / local index %d is not a block of %d points on %d processes' % (op, s, i, n, p), {'kind': 'impl'})
            continue
        kinds = opkinds[op][0] if axis == 0 else opkinds[op][1]
        for kd in kinds:
            lines.append('resolve %s %d %d %d %d' % (kd, n, p, a, i))
            meta.append((op, axis, n, p, a, i, g, kd))
    for m, ans in zip(meta, core.model_parallel(lines)):
        chk.cov['evaluations'] += 0
        if int(ans) != m[6]:
            chk.violation('c05:model:lookup-kind', 'operator %s axis %d: model lookup %s on rank coordinate %d, local index %d selects global index %s, '
                          'the slice has global coordinate %d' % (m[0], m[1], m[7], m[4], m[5], ans, m[6]),
                          {'kind': 'correspondence', 'theorem': 'c05_sound_lookup / GridSteps.all_ops', 'detail': list(m)}, no_input=True)
    vals = core.coq_eval(['resolve nat 0 LocalTab (seq 0 9) (bstart 9 2 1) (blen 9 2 1) 2', 'resolve nat 0 GlobalTab (seq 0 9) (bstart 9 2 1) (blen 9 2 1) 2'],
                         'From Coq Require Import List. From PGV Require Import Blocks GridSteps.', tag='c05')
    if vals != core.model(['resolve L 9 2 1 2', 'resolve G 9 2 1 2']):
        raise core.BrokenCheck('extraction and vm_compute disagree on resolve')
    chk.assumptions += ['each slice kernel is a function of the slice contents and of the parameters it is passed (identical per-slice arithmetic on every '
                        'rank; there are no cross-rank reductions inside the operators)', 'simulated MPI; compute_2d_process_grid overridden to reach every admissible grid']
    return chk.finish(proof,
                      rule='for each of %d grid sizes x rotational transform {0, 0.8}: spy run, real Strang step (with QN solves), initialisers in all three '
                           'layouts and each operator alone, on the serial grid and on %d process grids; non-trivial = a non-serial grid; distinct = (mode, size, grid, iota)'
                           % (len(shapes), len(grids_q if quick else grids_t)),
                      extra={'model_lookups_checked': len(lines)},
                      uncovered=['that the slice kernels themselves are deterministic functions of (slice, parameters) is an assumption (bitwise oracle supports it)',
                                 'the lookup kinds of GridSteps.all_ops are tied to the code by the recorded raw indices of the flux, density and per-mode loops and by the '
                                 'parameter digests of all five spied kernels, not by a translator of advection.py'])


def replay(path):
    core.setup_paths()
    body = json.load(open(path))
    c = body['replay']['case']
    mode, npts, nprocs, iota, seed, extra = c
    a = case((mode, npts, (1, 1), iota, seed, extra))
    b = case((mode, npts, tuple(nprocs), iota, seed, extra))
    if a[0] != 'ok' or b[0] != 'ok':
        print('serial', a[:2], 'parallel', b[:3])
        return 1
    if mode == 'spy':
        sa = {(o, tuple(cc)): d for o, cc, d, r in a[2]}
        sb = {(o, tuple(cc)): d for o, cc, d, r in b[2]}
        diff = [k for k in sa if sb.get(k) != sa[k]]
        print('slices with parameters differing from the serial run:', len(diff), diff[:5])
        return 1 if diff or set(sa) != set(sb) else 0
    bad = 0
    for fld in a[2]:
        same = a[2][fld][0] == b[2][fld][0]
        print(fld, 'bitwise equal to serial:', same)
        bad += (not same)
    return 1 if bad else 0
