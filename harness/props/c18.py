"""
C18 - checkpoints round-trip exactly and a restarted run continues the original one.
Proof: Props/C18.v (Checkpoint.v, Driver.v, CkNames.v).  Tie (all on the real classes under the
simulated MPI and the mpio-emulating h5py layer):

 (a) Grid.writeH5Dataset on P ranks, then Grid.loadFromFile / setupFromFile on P' ranks (other process
     grids, all three layouts at save time), cells carrying random 64-bit patterns tagged with their
     global index, compared bit for bit with the global array (direct oracle) and, through the tags, with
     the extracted hyperslab model; several checkpoints with times of different digit counts, the
     latest one chosen by the code compared with the numeric maximum and with the lexicographic model.
 (b) constants: file -> get_constants -> setupSave/print -> get_constants, keys shuffled, symbolic
     expressions (two-level chains, non-default roots); all public attributes compared exactly with a direct
     oracle and with the extracted parser model of ConstantsIO.v (ckparse; fail-closed translator).
 (c) the REAL fullSimulation.main() with the physics classes replaced by element-wise integer maps
     (props/c18_driver.py): many (tEnd, saveStep, dt, stop point, restart, rank count) histories; files,
     rows of phiDat.txt and checkpoint contents against the Driver model and against direct oracles (every time
     0..T exactly one row, also after restarts off the save steps).
 (d) thorough tier: split vs unsplit runs with the true physics at 8^4 points, final checkpoints bit for bit.
"""
import glob
import json
import os
import random
import shutil
import tempfile

import core
import implrun

LAYOUTS = {'flux_surface': [0, 3, 1, 2], 'v_parallel': [0, 2, 1, 3], 'poloidal': [3, 2, 1, 0]}
K_RP = 'constants:rp-not-roundtripped'


def bstart(n, p, k):
    return (n // p) * k + ((n % p) * k) // p


def coords_of(rank, grid):
    """row-major cartesian coordinates (MPI_Cart_create without reordering)"""
    return [rank // grid[1], rank % grid[1]]


# ------------------------------------------------------------------------------------------------
# (a) checkpoint round trip
# ------------------------------------------------------------------------------------------------
def _global_bits(npts, seed, tidx):
    """64-bit payload of every cell of the global (r,theta,z,v) array at checkpoint number tidx:
    random high bits | tidx << 20 | linear index (so a cell identifies itself)"""
    import numpy as np
    n = int(np.prod(npts))
    rng = np.random.default_rng([seed, tidx])
    hi = rng.integers(0, 2 ** 40, size=n, dtype=np.uint64) << np.uint64(24)
    bits = hi | (np.uint64(tidx) << np.uint64(20)) | np.arange(n, dtype=np.uint64)
    return bits.reshape(npts)


def ckpt_case(c):
    """returns dict: file checks, per reading rank (coords, starts, shape, tags, time index loaded, exact)"""
    import numpy as np
    import warnings
    from mpi4py import MPI
    from pygyro.model.layout import getLayoutHandler
    from pygyro.model.grid import Grid
    warnings.simplefilter('ignore')
    npts = c['npts']
    order = LAYOUTS[c['layout']]
    times = c['times']
    eta = [np.arange(n, dtype=float) for n in npts]
    d = tempfile.mkdtemp(dir='/var/tmp', prefix='c18a_')
    out = {'write': None, 'files': {}, 'read': None}
    try:
        GT = [np.ascontiguousarray(_global_bits(npts, c['seed'], i).transpose(order)) for i in range(len(times))]
        g1 = c['grid']

        def wr(comm):
            h = getLayoutHandler(comm, LAYOUTS, list(g1), eta)
            hist = c.get('history', 'constructed')
            other = [nm for nm in ('flux_surface', 'v_parallel', 'poloidal') if nm != c['layout']][c['seed'] % 2]
            if hist == 'via-setLayout':
                # the grid reaches the layout it is written in by a layout change
                g = Grid(eta, [None] * 4, h, other, comm, dtype=float)
                g._f[:] = np.nan
                g.setLayout(c['layout'])
            else:
                g = Grid(eta, [None] * 4, h, c['layout'], comm, dtype=float, allocateSaveMemory=(hist == 'save-restore'))
            lay = g.getLayout(c['layout'])
            crd = coords_of(comm.Get_rank(), g1)
            mine = tuple(slice(bstart(GT[0].shape[a], p, k), bstart(GT[0].shape[a], p, k + 1))
                         for a, (p, k) in enumerate(zip(list(g1) + [1, 1], crd + [0, 0])))
            for i, t in enumerate(times):
                g._f[:] = GT[i][mine].view(np.float64)
                if hist == 'save-restore':
                    # a rolled-back step: the values are saved, the grid moves on to another layout, the values are restored
                    g.saveGridValues()
                    g.setLayout(other)
                    g._f[:] = np.nan
                    g.restoreGridValues()
                g.writeH5Dataset(d, t)
            return [int(x) for x in lay.starts], [int(x) for x in lay.shape]
        R = MPI.run(g1[0] * g1[1], wr, seed=c['seed'])
        out['write'] = (R.outcome, R.detail[:300], R.results if R.outcome == 'ok' else None)
        if R.outcome != 'ok':
            return out
        import h5py
        out['names'] = sorted(os.path.basename(p) for p in glob.glob(os.path.join(d, '*')))
        for i, t in enumerate(times):
            p = os.path.join(d, 'grid_{:06}.h5'.format(t))
            if not os.path.exists(p):
                out['files'][str(t)] = 'missing'
                continue
            f = h5py.File(p, 'r')
            ds = f['/dset']
            arr = np.array(ds[...])
            lay_attr = [int(x) for x in ds.attrs['Layout']]
            f.close()
            ok = (arr.shape == GT[i].shape and arr.dtype == np.float64
                  and bool((arr.view(np.uint64) == GT[i]).all()) and lay_attr == list(order))
            out['files'][str(t)] = 'ok' if ok else 'differs'
        g2 = c['grid2']
        nr2 = g2[0] * g2[1] if c['loader'] == 'load' else c['nranks2']
        if c['loader'] == 'setup':
            json.dump({'npts': list(npts), 'splineDegrees': c.get('degrees', [3, 3, 3, 3]), 'dt': 2},
                      open(os.path.join(d, 'initParams.json'), 'w'))

        def rd(comm):
            if c['loader'] == 'load':
                h = getLayoutHandler(comm, LAYOUTS, list(g2), eta)
                hist = c.get('history', 'constructed')
                g = Grid(eta, [None] * 4, h, c['layout'], comm, dtype=float, allocateSaveMemory=(hist == 'save-restore'))
                g._f[:] = np.nan
                if hist == 'save-restore':
                    g.saveGridValues()
                    g.setLayout([nm for nm in ('flux_surface', 'v_parallel', 'poloidal') if nm != c['layout']][c['seed'] % 2])
                    g.restoreGridValues()
                if c.get('time') is None:
                    g.loadFromFile(d)
                else:
                    g.loadFromFile(d, c['time'])
                tret = None
                name = c['layout']
            else:
                from pygyro.initialisation.setups import setupFromFile
                kw = {'comm': comm}
                if c.get('time') is not None:
                    kw['timepoint'] = c['time']
                if c.get('want'):
                    kw['layout'] = c['want']
                g, consts, tret = setupFromFile(d, **kw)
                name = g.currentLayout
            lay = g.getLayout(name)
            bits = np.ascontiguousarray(g._f).view(np.uint64).copy()
            # the loaded grid is then used: a layout change and back must leave the loaded field where it was (the field
            # must live in the grid's own memory blocks, not only in the array the accessors show)
            other = [nm for nm in ('flux_surface', 'v_parallel', 'poloidal') if nm != name][c['seed'] % 2]
            g.setLayout(other)
            g.setLayout(name)
            bits2 = np.ascontiguousarray(g._f).view(np.uint64).copy()
            same_after = bool(bits2.shape == bits.shape and (bits2 == bits).all())
            return (name, [int(x) for x in lay.starts], [int(x) for x in lay.shape],
                    [int(x) for x in lay.nprocs], bits, None if tret is None else (type(tret).__name__, float(tret)), same_after)
        R2 = MPI.run(nr2, rd, seed=c['seed'] + 1)
        if R2.outcome != 'ok':
            out['read'] = (R2.outcome, R2.detail[:300], None)
            return out
        # expected checkpoint: the requested one, else the numerically largest time
        want_t = c['time'] if c.get('time') is not None else max(times)
        ie = times.index(want_t)
        ranks = []
        for r, (name, starts, shape, nprocs, bits, tret, same_after) in enumerate(R2.results):
            ordr = LAYOUTS[name]
            # oracle block: from the global array of the expected time, in the loaded layout's dims order
            G = _global_bits(npts, c['seed'], ie).transpose(ordr)
            sl = tuple(slice(s, s + n) for s, n in zip(starts, shape))
            exact = bool(bits.shape == G[sl].shape and (bits == G[sl]).all())
            tags = [int(x) for x in (bits.ravel() & np.uint64(0xFFFFF))]
            tsel = sorted(set(int(x) for x in ((bits.ravel() >> np.uint64(20)) & np.uint64(0xF))))
            ranks.append({'rank': r, 'layout': name, 'starts': starts, 'shape': shape, 'nprocs': nprocs,
                          'exact': exact, 'tags': tags, 'tsel': tsel, 'tret': tret, 'same_after': same_after})
        out['read'] = ('ok', '', ranks)
        return out
    finally:
        shutil.rmtree(d, ignore_errors=True)


def factor_pairs(p):
    return [(a, p // a) for a in range(1, p + 1) if p % a == 0]


def valid_grid(npts, g):
    # every rank must own at least one point in every distributed dimension of the three layouts
    return g[0] <= min(npts[0], npts[3]) and g[1] <= min(npts[2], npts[3], npts[1])


def gen_ckpt_cases(chk, rng):
    n = 70 if chk.tier == 'quick' else 2000
    cases = []
    time_sets = [[0], [5], [5, 40], [40, 100, 5], [999999, 5, 100], [100, 999999, 40, 5], [7, 123456, 99999, 100000],
                 [0, 5, 10], [0, 40]]
    big_sets = [[999999, 1000000], [5, 1000000, 40], [2000000, 10000000, 999998], [999999.5, 1000000, 999999],
                [0.5, 1, 1.5], [2.0, 10.5, 3, 0], [12.0], [99999.5, 100000.0, 7], [1000000.0, 999999, 20.5]]
    for i in range(n):
        npts = [rng.randint(3, 7) for _ in range(4)]
        if rng.random() < 0.3:
            npts = [rng.choice([4, 6, 8]) for _ in range(4)]
        lay = ['flux_surface', 'v_parallel', 'poloidal'][i % 3]
        grids = [g for p in range(1, 9) for g in factor_pairs(p) if valid_grid(npts, g)]
        g1 = rng.choice(grids)
        g2 = rng.choice(grids)
        if i % 7 == 0:
            g1 = (1, 1)
        if i % 7 == 1:
            g2 = g1
        loader = 'setup' if i % 4 == 3 else 'load'
        times = list(rng.choice(time_sets))
        if i % 5 == 4:
            times = list(rng.choice(big_sets))
        c = {'kind': 'ckpt', 'npts': npts, 'layout': lay, 'grid': list(g1), 'grid2': list(g2), 'loader': loader,
             'times': times, 'seed': rng.randint(0, 10 ** 6), 'time': None}
        if rng.random() < 0.2:
            c['time'] = rng.choice(times)
        if i % 8 == 3 or i % 8 == 6:
            # a requested checkpoint that is not the latest one, the initial one (t = 0, a falsy value) in particular
            c['times'] = times = list(rng.choice([[0, 5, 10], [0, 40], [10, 0, 2], [5, 40, 100]]))
            c['time'] = min(times)
        c['history'] = ['constructed', 'save-restore', 'via-setLayout', 'constructed'][(i // 3) % 4]
        if loader == 'setup':
            c['nranks2'] = g2[0] * g2[1]
            c['npts'] = npts = [max(4, x) for x in npts]
            c['degrees'] = [rng.randint(1, 3) for _ in range(4)]
            if rng.random() < 0.5:
                c['want'] = rng.choice(list(LAYOUTS))
            if not valid_grid(npts, g1):
                c['grid'] = [1, 1]
        cases.append(c)
    return cases


def ckpt_stratum(c):
    p1 = c['grid'][0] * c['grid'][1]
    p2 = c['grid2'][0] * c['grid2'][1]
    s = 'save1' if p1 == 1 else 'saveN'
    s += '-same' if c['grid'] == c['grid2'] else ('-load1' if p2 == 1 else '-other')
    s += '-' + c['loader']
    if c.get('history', 'constructed') != 'constructed':
        s += '-' + c['history']
    if any(isinstance(t, float) for t in c['times']):
        s += '-floattimes'
    elif max(c['times']) >= 10 ** 6 and c['time'] is None:
        s += '-t>=1e6'
    elif len(c['times']) > 1:
        s += '-multi'
    return s


def model_cells(npts, order):
    """tags of the file cells in file order: linear (r,theta,z,v) index of the cell at each position"""
    import numpy as np
    lin = np.arange(int(np.prod(npts))).reshape(npts).transpose(order)
    return [int(x) for x in np.ascontiguousarray(lin).ravel()], list(lin.shape)


def check_ckpt(chk, cases, results):
    req = []
    idx = []
    for ci, (c, r) in enumerate(zip(cases, results)):
        st = ckpt_stratum(c)
        p1 = c['grid'][0] * c['grid'][1]
        p2 = c['grid2'][0] * c['grid2'][1]
        chk.count(('ckpt', json.dumps(c, sort_keys=True)), nontrivial=(p1 > 1 or p2 > 1), stratum='ckpt-' + st,
                  sample={k: c[k] for k in ('npts', 'layout', 'grid', 'grid2', 'loader', 'times', 'time')})
        rep = {'kind': 'ckpt', 'case': c}
        if not isinstance(r, dict):
            chk.violation('checkpoint:exception', 'checkpoint case raised %r: %r' % (r, c), rep)
            continue
        if r['write'][0] != 'ok':
            chk.violation('grid.writeH5Dataset:' + r['write'][0], 'write failed %r on %r' % (r['write'][:2], c), rep)
            continue
        # model of the writer's hyperslabs vs Layout.starts/shape
        cells, fshape = model_cells(c['npts'], LAYOUTS[c['layout']])
        for rk, (starts, shape) in enumerate(r['write'][2]):
            crd = coords_of(rk, c['grid']) + [0, 0]
            req.append('ckslab | %s | %s | %s' % (' '.join(map(str, fshape)), ' '.join(map(str, c['grid'] + [1, 1])),
                                                  ' '.join(map(str, crd))))
            idx.append((ci, 'slab', starts, shape))
        bad_files = {t: v for t, v in r['files'].items() if v != 'ok'}
        if bad_files:
            chk.violation('grid.writeH5Dataset:file-content',
                          'file is not the global array in layout order: %r for %r' % (bad_files, c), rep)
        if r['read'][0] != 'ok':
            chk.violation('checkpoint-load:' + r['read'][0], 'load failed %r on %r' % (r['read'][:2], c), rep)
            continue
        want_t = c['time'] if c['time'] is not None else max(c['times'])
        for rr in r['read'][2]:
            key = None
            if not rr['exact']:
                loaded_t = [c['times'][i] for i in rr['tsel'] if i < len(c['times'])]
                key = 'checkpoint-load:block-differs'
                what = ('rank %d of %r loaded a block that is not its block of the global field at t=%r '
                        '(loaded checkpoint(s) %r; the latest / requested one is expected) case %r'
                        % (rr['rank'], rr['nprocs'], want_t, loaded_t, c))
                chk.violation(key, what, rep)
            if key is None and not rr.get('same_after', True):
                chk.violation('checkpoint-load:field-lost-at-layout-change',
                              'rank %d of %r: the block loaded from the checkpoint is exact, but after setLayout to another layout and back '
                              'the grid no longer holds it (case %r)' % (rr['rank'], rr['nprocs'], c), rep)
            if c['loader'] == 'setup' and key is None:
                # a time read from a file name is an int when integral (a4e5b38); a requested timepoint is returned as given
                if c['time'] is not None:
                    exp_t = (type(c['time']).__name__, float(c['time']))
                else:
                    exp_t = ('int', float(want_t)) if float(want_t) == int(want_t) else ('float', float(want_t))
                if tuple(rr['tret']) != exp_t:
                    chk.violation('setups.setupFromFile:time', 'returned t=%r, expected %r: %r' % (rr['tret'], exp_t, c), rep)
            if c['loader'] == 'setup' and c.get('want') and rr['layout'] != c['want']:
                chk.violation('setups.setupFromFile:layout', 'requested layout %s, got %s' % (c['want'], rr['layout']), rep)
            # model: what this rank reads, as tags
            if key is None:
                cells2, fshape2 = model_cells(c['npts'], LAYOUTS[rr['layout']])
                if rr['layout'] == c['layout']:
                    g2 = rr['nprocs']
                    crd = [s for s in rr['starts']]
                    # coordinates from the starts: smallest k with bstart = start (blocks are non-empty here)
                    crd = []
                    for a in range(4):
                        ks = [k for k in range(g2[a]) if bstart(fshape2[a], g2[a], k) == rr['starts'][a]]
                        crd.append(ks[0] if ks else 0)
                    req.append('ckrt | %s | %s | %s | %s | %s' % (
                        ' '.join(map(str, fshape)), ' '.join(map(str, c['grid'] + [1, 1])),
                        ' '.join(map(str, g2)), ' '.join(map(str, crd)), ' '.join(map(str, cells))))
                    idx.append((ci, 'rt', rr['tags'], rr['rank']))
        # the model's choice of the latest file
        def stamp(t):
            return 'i%d' % t if isinstance(t, int) else 'f%d' % int(round(2 * t))
        if c['time'] is None and all(x['exact'] for x in r['read'][2]):
            # the file the code chose (identified by the payload) against the model's choice by time key
            req.append('cklatest ' + ' '.join(stamp(t) for t in c['times']))
            idx.append((ci, 'latest', [ord(ch) for ch in 'grid_{:06}.h5'.format(max(c['times']))], None))
        for t in c['times']:
            # the names written by writeH5Dataset against the model's names
            req.append('ckstamp ' + stamp(t))
            idx.append((ci, 'latest', [ord(ch) for ch in 'grid_{:06}.h5'.format(t)], 'grid_{:06}.h5'.format(t) in r.get('names', [])))
    ans = core.model_parallel(req) if req else []
    for (ci, what, a, b), m in zip(idx, ans):
        c = cases[ci]
        rep = {'kind': 'ckpt', 'case': c, 'model_request': what}
        chk.cov['certificates_checked'] += 1
        if what == 'slab':
            exp = '%s | %s' % (' '.join(map(str, a)), ' '.join(map(str, b)))
            if m != exp:
                chk.violation('checkpoint:slab-model-mismatch', 'Layout starts/shape %s, model %s for %r' % (exp, m, c),
                              rep, no_input=True)
        elif what == 'rt':
            if m != ' '.join(map(str, a)):
                chk.violation('checkpoint:read-model-mismatch',
                              'rank %d read tags that differ from ck_roundtrip although the direct oracle passes: %r' % (b, c),
                              rep, no_input=True)
        elif what == 'latest':
            if m != ' '.join(map(str, a)) or b is False:
                chk.violation('checkpoint:latest-model-mismatch', 'python max() of names %r, model %s' % (a, m), rep,
                              no_input=True)


# ------------------------------------------------------------------------------------------------
# (b) constants
# ------------------------------------------------------------------------------------------------
PUBLIC = ['B0', 'CN0', 'CTe', 'CTi', 'R0', 'deltaR', 'deltaRN0', 'deltaRTe', 'deltaRTi', 'dt', 'eps', 'eps0',
          'iotaVal', 'kN0', 'kTe', 'kTi', 'm', 'n', 'npts', 'rMax', 'rMin', 'rp', 'splineDegrees', 'vMax', 'vMin',
          'zMax', 'zMin']
SCALARS = ['B0', 'R0', 'zMin', 'vMax', 'eps', 'eps0', 'kN0', 'kTi', 'deltaRTi', 'CTi', 'iotaVal', 'zMax', 'vMin',
           'deltaRTe', 'kTe', 'deltaRN0', 'deltaR', 'CTe']


def attrs_of(cst):
    out = {}
    for f in dir(cst):
        v = getattr(cst, f)
        if not callable(v) and f[0] != '_':
            out[f] = (type(v).__name__, repr(v))
    return out


def gen_const_file(rng, mode):
    """a constants file: literal values, and (mode 'expr') symbolic expressions over other keys, numbers
    (no exponent notation: eval_expr splits on '-') and pi.  Returns (dict in file order, oracle values)"""
    from math import pi
    vals = {}
    text = {}
    rmin = round(rng.uniform(0.05, 2.0), rng.randint(1, 6))
    rmax = round(rmin + rng.uniform(1.0, 20.0), rng.randint(1, 6))
    text['rMin'] = vals['rMin'] = rmin
    text['rMax'] = vals['rMax'] = rmax
    names = list(SCALARS)
    rng.shuffle(names)
    defined = []
    give_cn0 = rng.random() < 0.6
    for nm in names:
        if not give_cn0 and nm in ('kN0', 'deltaRN0'):
            # CN0 will be integrated by getCN0: keep exp(-kN0*deltaRN0*tanh(..)) in range
            text[nm] = vals[nm] = round(rng.uniform(0.01, 2.0), 4)
        elif mode == 'expr' and defined and rng.random() < 0.5:
            a = rng.choice(defined)
            b = rng.choice(defined + ['pi', '2', '0.5', '4.0', '3'])
            op = rng.choice(['*', '+', '-', '/'])
            form = rng.random()
            env = dict(vals)
            env['pi'] = pi
            if form < 0.2:
                e = '-' + a
            elif form < 0.7:
                e = '%s%s%s' % (a, op, b)
            else:
                cname = rng.choice(defined)
                e = '%s %s (%s %s %s)' % (a, rng.choice(['*', '+', '-']), b, rng.choice(['+', '*']), cname)
            try:
                v = eval(e, {'__builtins__': {}}, env)
            except ZeroDivisionError:
                continue
            if v != v or v in (float('inf'), float('-inf')):
                continue
            text[nm] = e
            vals[nm] = v
        else:
            v = rng.choice([round(rng.uniform(-50, 50), rng.randint(0, 8)), rng.uniform(1e-12, 1e-3),
                            float(rng.randint(1, 9)), rng.uniform(1, 1e6)])
            if nm in ('deltaRTi', 'deltaRTe', 'deltaRN0', 'kN0') and v == 0:
                v = 1.5
            text[nm] = vals[nm] = v
        defined.append(nm)
    text['m'] = vals['m'] = rng.randint(1, 30)
    text['n'] = vals['n'] = rng.randint(1, 5)
    text['npts'] = vals['npts'] = [rng.randint(4, 64) for _ in range(4)]
    text['splineDegrees'] = vals['splineDegrees'] = [rng.randint(1, 5) for _ in range(4)]
    text['dt'] = vals['dt'] = rng.choice([1, 2, 3, 0.5, 2.0])
    if mode == 'rp':
        text['rp'] = vals['rp'] = round(rng.uniform(rmin, rmax), 3)
    if give_cn0:
        text['CN0'] = vals['CN0'] = rng.uniform(0.05, 0.5)
    keys = list(text)
    rng.shuffle(keys)
    return {k: text[k] for k in keys}, vals


def const_case(c):
    """file -> get_constants (c1) ; print via setupSave -> get_constants (c2) ; shuffled keys (c3);
    returns the list of differences"""
    import warnings
    from mpi4py import MPI
    from pygyro.initialisation.constants import get_constants, Constants
    from pygyro.utilities.savingTools import setupSave
    warnings.simplefilter('ignore')
    rng = random.Random(c['seed'])
    d = tempfile.mkdtemp(dir='/var/tmp', prefix='c18b_')
    diffs = []
    try:
        if c['mode'] == 'object':
            # a Constants object modified through its public attributes, as setupCylindricalGrid(**kwargs) does
            c1 = Constants()
            for nm in rng.sample(SCALARS, rng.randint(1, 8)):
                setattr(c1, nm, round(rng.uniform(0.1, 9.0), rng.randint(0, 10)))
            c1.npts = [rng.randint(4, 64) for _ in range(4)]
            c1.dt = rng.choice([1, 2, 3])
            if c.get('rp'):
                c1.rMin = 0.5
                c1.rMax = 9.5
                c1.rp = 3.0
            vals = None
        else:
            text, vals = gen_const_file(rng, c['mode'])
            p0 = os.path.join(d, 'in.json')
            json.dump(text, open(p0, 'w'))
            c1 = get_constants(p0)
            a1 = attrs_of(c1)
            # order independence / expressions: against the oracle values
            for k, v in vals.items():
                if k == 'rp':
                    continue
                if a1.get(k) != (type(v).__name__, repr(v)):
                    diffs.append(('parse', k, a1.get(k), (type(v).__name__, repr(v))))
            if 'rp' in vals and a1.get('rp') != ('float', repr(vals['rp'])):
                diffs.append(('parse-rp', 'rp', a1.get('rp'), ('float', repr(vals['rp']))))
            diffs.append(('__attrs__', dict(a1), None, None))
        a1 = attrs_of(c1)

        def sv(comm):
            return setupSave(c1, os.path.join(d, 'sim'), comm=comm)
        R = MPI.run(c.get('nranks', 1), sv, seed=c['seed'])
        if R.outcome != 'ok':
            return [('setupSave', R.outcome, R.detail[:200], None)]
        p1 = os.path.join(d, 'sim', 'initParams.json')
        c2 = get_constants(p1)
        a2 = attrs_of(c2)
        for k in sorted(set(a1) | set(a2)):
            if a1.get(k) != a2.get(k):
                diffs.append(('roundtrip', k, a1.get(k), a2.get(k)))
        # the same file with its keys in another order
        items = list(json.load(open(p1)).items())
        rng.shuffle(items)
        p2 = os.path.join(d, 'shuffled.json')
        json.dump(dict(items), open(p2, 'w'))
        c3 = get_constants(p2)
        a3 = attrs_of(c3)
        for k in sorted(set(a1) | set(a3)):
            if a1.get(k) != a3.get(k):
                diffs.append(('roundtrip-shuffled', k, a1.get(k), a3.get(k)))
        missing = [k for k in PUBLIC if k not in a2]
        if missing:
            diffs.append(('missing', missing, None, None))
        return diffs
    finally:
        shutil.rmtree(d, ignore_errors=True)


def gen_const_cases(chk, rng):
    n = 120 if chk.tier == 'quick' else 4000
    cases = []
    for i in range(n):
        mode = ['literal', 'expr', 'expr', 'object', 'rp', 'object'][i % 6]
        c = {'kind': 'const', 'mode': mode, 'seed': rng.randint(0, 10 ** 9), 'nranks': 1 + (i % 3)}
        if mode == 'object' and i % 12 == 5:
            c['rp'] = True
        cases.append(c)
    return cases


MODEL_KEYS = ['rMin', 'rMax', 'rp'] + SCALARS + ['CN0', 'm', 'n', 'npts', 'splineDegrees', 'dt']
FLOAT_KEYS = ['rMin', 'rMax', 'rp'] + SCALARS + ['CN0']


def _bits(x):
    import struct
    return '%x' % struct.unpack('<Q', struct.pack('<d', float(x)))[0]


class Untranslatable(Exception):
    pass


def expr_to_model(text):
    """fail-closed translation of an expression string to the prefix form of the ckparse handler: only
    identifiers that are modelled keys, numeric literals, pi, unary minus, + - * / and parentheses"""
    import ast
    import math
    ids = []

    def go(n):
        if isinstance(n, ast.BinOp) and type(n.op) in (ast.Add, ast.Sub, ast.Mult, ast.Div):
            return [{ast.Add: '+', ast.Sub: '-', ast.Mult: '*', ast.Div: '/'}[type(n.op)]] + go(n.left) + go(n.right)
        if isinstance(n, ast.UnaryOp) and isinstance(n.op, ast.USub):
            return ['n'] + go(n.operand)
        if isinstance(n, ast.Name):
            if n.id == 'pi':
                return ['l' + _bits(math.pi)]
            if n.id in FLOAT_KEYS:
                ids.append(n.id)
                return ['i%d' % MODEL_KEYS.index(n.id)]
            raise Untranslatable('name ' + n.id)
        if isinstance(n, ast.Constant) and type(n.value) in (int, float) and 'e' not in repr(n.value).lower():
            return ['l' + _bits(n.value)]
        raise Untranslatable(ast.dump(n))
    try:
        toks = go(ast.parse(text, mode='eval').body)
    except SyntaxError as e:
        raise Untranslatable(str(e))
    return toks, ids


def const_model_request(text):
    """the ckparse request of a constants file (dict in file order): entries, a rank certificate, defaults"""
    from pygyro.initialisation.default_constants import defaults
    ents, deps = [], {}
    for k, v in text.items():
        i = MODEL_KEYS.index(k)
        if isinstance(v, str):
            toks, ids = expr_to_model(v)
            ents.append('%d E %s' % (i, ' '.join(toks)))
            deps[k] = ids
        else:
            ents.append('%d N %s' % (i, _bits(v) if k in FLOAT_KEYS else _bits(0.0)))
            deps[k] = []
    rank = {}

    def rk(k, seen=()):
        if k in seen or k not in deps:
            return 0              # cycle / undefined: the model's boolean check rejects the certificate
        if k not in rank:
            rank[k] = 0 if not deps[k] else 1 + max(rk(j, seen + (k,)) for j in deps[k])
        return rank[k]
    ranks = [rk(k) for k in MODEL_KEYS]
    dfl = ['%d:%s' % (MODEL_KEYS.index(k), _bits(v)) for k, v in defaults.items()
           if k in MODEL_KEYS and isinstance(v, (int, float))]
    return 'ckparse | %d 0 1 2 | %s | %s | %s' % (len(MODEL_KEYS), ' '.join(map(str, ranks)), ' '.join(dfl), ' ; '.join(ents))


def check_const_model(chk, cases, results):
    """implementation vs the extracted parser model (ConstantsIO.v) on the generated files"""
    req, who = [], []
    for c, r in zip(cases, results):
        if c['mode'] == 'object' or not isinstance(r, list):
            continue
        at = [x for x in r if x[0] == '__attrs__']
        if not at:
            continue
        text, vals = gen_const_file(random.Random(c['seed']), c['mode'])
        try:
            req.append(const_model_request(text))
        except Untranslatable as e:
            chk.violation('constants:translator', 'generated file outside the modelled expression subset: %s (%r)' % (e, text),
                          {'kind': 'const', 'case': c}, no_input=True)
            continue
        who.append((c, text, at[0][1]))
    answers = core.model_parallel(req) if req else []
    check_const_model.sample = list(zip(req, answers))[:6 if chk.tier == 'quick' else 30]
    for (c, text, a1), ans in zip(who, answers):
        chk.cov['certificates_checked'] += 1
        rep = {'kind': 'const', 'case': c, 'model': ans[:200]}
        parts = ans.split()
        wf_expected = 'wf=0' if 'rp' in text else 'wf=1'
        if parts[0] != wf_expected:
            chk.violation('constants:wf-hypothesis', 'cp_wfb gives %s, expected %s for %r' % (parts[0], wf_expected, text),
                          rep, no_input=True)
        if parts[1] != 'ok':
            chk.violation('constants:model-mismatch', 'implementation parsed the file, the model answers %s: %r' % (parts[1], text), rep)
            continue
        bad = []
        for k in FLOAT_KEYS:
            if k == 'CN0' and 'CN0' not in text:
                continue          # integrated numerically by getCN0: outside the model
            mv = parts[2 + MODEL_KEYS.index(k)]
            iv = a1.get(k)
            ib = _bits(float(iv[1])) if iv and iv[0] in ('float', 'int') else '-'
            if mv != ib:
                bad.append((k, iv, mv))
        if bad:
            chk.violation('constants:model-mismatch', 'implementation and parser model differ on %r for file %r' % (bad[:3], text), rep)
    return len(who)


def check_const(chk, cases, results):
    for c, r in zip(cases, results):
        custom_rp = c['mode'] == 'rp' or c.get('rp')
        chk.count(('const', c['mode'], c['seed'], c.get('rp')), stratum='const-' + c['mode'] + ('-rp' if c.get('rp') else ''),
                  sample=c)
        rep = {'kind': 'const', 'case': c}
        if not isinstance(r, list):
            chk.violation('constants:exception', 'constants case raised %r: %r' % (r, c), rep)
            continue
        r = [x for x in r if x[0] != '__attrs__']
        other = [x for x in r if not (x[1] == 'rp' and custom_rp)]
        rp = [x for x in r if x[1] == 'rp' and custom_rp]
        if rp:
            chk.violation(K_RP, 'a customised rp is not reproduced (depends on key order; the rMin/rMax setters reset it): %r' % (rp[:2],),
                          dict(rep, diffs=rp))
        if other:
            chk.violation('constants:roundtrip', 'constants differ after print/parse: %r (case %r)' % (other[:3], c),
                          dict(rep, diffs=other))


# ------------------------------------------------------------------------------------------------
# (c) the driver with stand-in physics
# ------------------------------------------------------------------------------------------------
def ckpt_name(prefix, k, dt, start=0):
    """file name of the checkpoint of step k written by a run that started at step `start`: the driver's t
    is an int at start-up (0, or an integral time read from a checkpoint name) and start*dt + (k-start)*dt after"""
    t = t_of(k, dt)
    if k == start and float(t) == int(t):
        t = int(t)
    return '{0}_{1:06}.h5'.format(prefix, t)


def t_of(k, dt):
    """the driver's time after k steps: the int 0, then t += dt k times (binary64 accumulation; a restart reads
    the accumulated value back exactly from the checkpoint name, so restarts do not change the sequence)"""
    if isinstance(dt, int):
        return k * dt
    t = 0
    for _ in range(k):
        t += dt
    return t


def short_step(k, dt):
    """does the floor t // dt of the pinned tree miss step k ?"""
    return int(t_of(k, dt) // dt) != k


def steps_of(files, dt):
    """set of (prefix, step) of a list of checkpoint file names"""
    return set((f.split('_', 1)[0], step_of_name(f, dt)) for f in files)


def step_of_name(name, dt):
    """step index of a checkpoint file name (None if its time is not a multiple of dt)"""
    t = float(os.path.basename(name).split('_', 1)[1][:-3])
    k = t / dt
    return int(round(k)) if abs(k - round(k)) < 1e-6 else None


def _snapshot(folder, dt):
    files = sorted(os.path.basename(p) for p in glob.glob(os.path.join(folder, '*.h5')))
    rows = []
    p = os.path.join(folder, 'phiDat.txt')
    if os.path.exists(p):
        rows = [l.rstrip('\n') for l in open(p)]
    return files, rows


def _row_key(row, dt):
    cols = row.split()
    t = float(cols[0])
    if all(float(x) == 0.0 for x in cols[1:]):
        return '-'
    k = t / dt
    return str(int(round(k))) if abs(k - round(k)) < 1e-4 else 'bad:' + cols[0]


def _check_folder(folder, npts, dt):
    """direct oracle on every checkpoint of a folder: grid_t holds step^(t/dt)(initial field) in the
    v_parallel layout; phi_t holds the stand-in potential.  returns list of problems"""
    import numpy as np
    from props import c18_driver as D
    bad = []
    n = int(np.prod(npts))
    lin = np.arange(n, dtype=np.int64).reshape(npts)
    cache = {0: (lin * 17 + 5) % D.M}

    def field(k):
        j = max(x for x in cache if x <= k)
        x = cache[j]
        while j < k:
            for (a, b) in ((3, 1), (5, 2), (7, 3), (11, 4), (3, 1)):
                x = (x * a + b) % D.M
            j += 1
            cache[j] = x
        return cache[k]
    for p in sorted(glob.glob(os.path.join(folder, 'grid_*.h5'))):
        k = step_of_name(p, dt)
        arr, order = D.read_dataset(p)
        if k is None:
            bad.append((os.path.basename(p), 'time not a multiple of dt'))
            continue
        exp = field(k).transpose(order).astype(np.float64)
        if order != [0, 2, 1, 3] or arr.shape != exp.shape or not (arr == exp).all():
            bad.append((os.path.basename(p), 'content is not step^%d of the initial field (layout %r)' % (k, order)))
        q = os.path.join(folder, 'phi_' + os.path.basename(p)[len('grid_'):])
        if not os.path.exists(q):
            bad.append((os.path.basename(q), 'missing'))
        else:
            parr, porder = D.read_dataset(q)
            idx = np.indices(parr.shape)
            exp = ((idx[0] * 64 + idx[1]) * 64 + idx[2]).astype(np.complex128)
            if porder != [0, 2, 1] or not (parr == exp).all():
                bad.append((os.path.basename(q), 'phi content'))
    return bad


def driver_case(c):
    import warnings
    import numpy as np
    from props import c18_driver as D
    warnings.simplefilter('ignore')
    d = tempfile.mkdtemp(dir='/var/tmp', prefix='c18c_')
    du = tempfile.mkdtemp(dir='/var/tmp', prefix='c18u_')
    out = {'segs': [], 'unsplit': None}
    try:
        for dd in (d, du):
            D.write_constants(os.path.join(dd, 'c.json'), c['npts'], dt=c['dt'])
        for i, (nr, tEnd, stop) in enumerate(c['segs']):
            r = D.run_driver(nr, d, tEnd, c['S'], const_file='c.json' if i == 0 else None,
                             folder=None if i == 0 else 'simulation_0', stop_after=stop, seed=c['seed'] + i)
            files, rows = _snapshot(os.path.join(d, 'simulation_0'), c['dt'])
            out['segs'].append({'outcome': r['outcome'], 'detail': r['detail'][:300], 'files': files, 'rows': rows})
            if r['outcome'] != 'ok':
                return out
        out['bad_files'] = _check_folder(os.path.join(d, 'simulation_0'), c['npts'], c['dt'])
        gfiles = [f for f in out['segs'][-1]['files'] if f.startswith('grid_')]
        kfin = max((step_of_name(f, c['dt']) or 0) for f in gfiles)
        out['k_final'] = kfin
        if c.get('unsplit_ranks'):
            # the uninterrupted run to the same step: same tEnd arithmetic, stopped by the wall clock if needed
            tEnd_u = max(sg[1] for sg in c['segs']) if kfin > 0 else 0
            stop_u = kfin if 1 <= kfin < int(tEnd_u // c['dt']) else None
            r = D.run_driver(c['unsplit_ranks'], du, tEnd_u, c['S'], const_file='c.json', stop_after=stop_u,
                             seed=c['seed'] + 77)
            files, rows = _snapshot(os.path.join(du, 'simulation_0'), c['dt'])
            out['unsplit'] = {'outcome': r['outcome'], 'detail': r['detail'][:300], 'files': files, 'rows': rows}
            if r['outcome'] == 'ok':
                out['unsplit']['bad_files'] = _check_folder(os.path.join(du, 'simulation_0'), c['npts'], c['dt'])
                def final_file(folder):
                    cand = [p for p in sorted(glob.glob(os.path.join(folder, 'grid_*.h5')))
                            if step_of_name(p, c['dt']) == kfin]
                    return cand[-1] if cand else None
                same = False
                pa, pb = final_file(os.path.join(d, 'simulation_0')), final_file(os.path.join(du, 'simulation_0'))
                if pa and pb:
                    a, oa = D.read_dataset(pa)
                    b, ob = D.read_dataset(pb)
                    same = oa == ob and a.shape == b.shape and a.tobytes() == b.tobytes()
                out['unsplit']['final_same'] = same
        return out
    finally:
        shutil.rmtree(d, ignore_errors=True)
        shutil.rmtree(du, ignore_errors=True)


def gen_driver_cases(chk, rng):
    n = 90 if chk.tier == 'quick' else 3000
    cases = []
    for i in range(n):
        S = rng.choice([1, 1, 2, 3, 3, 4, 5, 7])
        dt = rng.choice([1, 2, 2, 3])
        fdt = i % 7 == 3
        ndy = i % 7 == 5                       # non-dyadic float dt: accumulated times, t // dt can be one short
        if fdt:
            dt = rng.choice([0.5, 2.0])
        if ndy:
            dt = rng.choice([0.1, 0.1, 0.3, 0.7])
        keep_aligned = fdt and rng.random() < 0.6
        npts = rng.choice([[4, 4, 4, 4], [5, 4, 6, 4], [6, 6, 4, 7]])
        nseg = rng.choice([1, 2, 2, 2, 3])
        segs = []
        cur = 0
        for s in range(nseg):
            add = rng.randint(0, 2 * S + 2) if s else rng.randint(0, 3 * S + 1)
            if (i % 5 == 0 and s == 0 and S > 1) or keep_aligned:
                add = S * rng.randint(0, 2)            # aligned stop
            if ndy and s + 1 < nseg and rng.random() < 0.7:
                shorts = [k for k in range(cur + 1, cur + 3 * S + 8) if short_step(k, dt)]
                if shorts:
                    add = rng.choice(shorts[:3]) - cur  # stop where t // dt is one short
            target = cur + add
            stop = None
            tEnd = int(target * dt) + (rng.randint(0, dt - 1) if isinstance(dt, int) else 0)
            if add >= 1 and (rng.random() < 0.35 or int(int(target * dt) // dt) != target):
                # the wall clock stops the run after `add` iterations although tEnd is later
                stop = add
                tEnd = int((target + rng.randint(1, 4)) * dt) + 1
            nr = rng.choice([1, 1, 2, 2, 3, 4, 6, 8])
            grids_ok = [p for p in (1, 2, 3, 4, 6, 8) if any(valid_grid(npts, g) for g in factor_pairs(p))]
            if nr not in grids_ok:
                nr = rng.choice(grids_ok)
            segs.append([nr, tEnd, stop])
            cur = target
        c = {'kind': 'driver', 'S': S, 'dt': dt, 'npts': npts, 'segs': segs, 'seed': rng.randint(0, 10 ** 6),
             'unsplit_ranks': rng.choice([1, 2, 4]) if nseg > 1 else None, 'ends': None}
        cases.append(c)
    return cases


def driver_model_requests(c):
    """one ckrun request per segment; the start of a restarted segment is the model's previous end"""
    reqs = []
    for i, (nr, tEnd, stop) in enumerate(c['segs']):
        tN = int(tEnd // c['dt'])
        orc = '-' if stop is None else '1' * (stop - 1) + '0'
        reqs.append((c['S'], tN, orc))
    return reqs


def check_driver(chk, cases, results):
    # the model is run segment by segment (the start index of segment i+1 comes from segment i)
    ends = [None] * len(cases)
    model = [[] for _ in cases]
    for seg in range(3):
        req, who = [], []
        for ci, c in enumerate(cases):
            if seg < len(c['segs']):
                S, tN, orc = driver_model_requests(c)[seg]
                start = -1 if seg == 0 else ends[ci]
                req.append('ckrun %d %d %d %s' % (S, tN, start, orc))
                who.append(ci)
        for ci, a in zip(who, core.model_parallel(req) if req else []):
            st, files, lines = [x.strip() for x in a.split('|')]
            ti, fld, nl = map(int, st.split())
            ends[ci] = ti
            model[ci].append({'ti': ti, 'fld': fld, 'files': [int(x.split(':')[0]) for x in files.split()],
                              'lines': lines.split()})
    # start index of every restart with a float dt: the exact nearest-step formula of Driver.v on the exact
    # (binary64) values of the accumulated checkpoint time and of dt must give the step the model resumes at
    from fractions import Fraction
    nreq, nwho = [], []
    for ci, c in enumerate(cases):
        if isinstance(c['dt'], float):
            for N in [m['ti'] for m in model[ci]][:-1]:
                ft, fd = Fraction(t_of(N, c['dt'])), Fraction(c['dt'])
                den = max(ft.denominator, fd.denominator)
                nreq.append('cknear %x %x' % (int(fd * den), int(ft * den)))
                nwho.append((ci, N, short_step(N, c['dt'])))
    for (ci, N, short), a in zip(nwho, core.model_parallel(nreq) if nreq else []):
        near, flo = [int(x, 16) for x in a.split()]
        chk.cov['certificates_checked'] += 1
        if near != N or (flo != N) != short:
            chk.violation('fullSimulation:nearest-step-hypothesis',
                          'step %d, dt %r: exact nearest step %d, exact floor %d (harness float floor short: %r)'
                          % (N, cases[ci]['dt'], near, flo, short), {'kind': 'driver', 'case': cases[ci]}, no_input=True)
    for ci, (c, r) in enumerate(zip(cases, results)):
        S, dt = c['S'], c['dt']
        fdt = not isinstance(dt, int)
        stops = [m['ti'] for m in model[ci]]
        aligned = all(s % S == 0 for s in stops[:-1])
        st = 'driver-%dseg-%s-%s' % (len(c['segs']), 'aligned' if aligned else 'unaligned',
                                     'S1' if S == 1 else ('endsave' if stops[-1] % S == 0 else 'endpartial'))
        if any(s[2] is not None for s in c['segs']):
            st += '-wallclock'
        if fdt:
            st += '-floatdt' if dt in (0.5, 2.0) else '-nondyadicdt'
            if any(short_step(N, dt) for N in stops[:-1]):
                st += '-shortfloor'
        chk.count(('driver', json.dumps(c, sort_keys=True)), nontrivial=(stops[-1] > 0), stratum=st,
                  sample={'saveStep': S, 'dt': dt, 'npts': c['npts'], 'segments(nranks,tEnd,stop_after)': c['segs'],
                          'model_stop_points': stops})
        rep = {'kind': 'driver', 'case': c}
        problems = []
        mismatch = None
        if not isinstance(r, dict):
            problems.append(('fullSimulation:exception', 'driver case raised %r' % (r,)))
        else:
            bad_seg = [s for s in r['segs'] if s['outcome'] != 'ok']
            if bad_seg:
                problems.append(('fullSimulation:' + bad_seg[0]['outcome'],
                                 'driver run failed: %s %s' % (bad_seg[0]['outcome'], bad_seg[0]['detail'])))
        if not problems:
            # --- model comparison, segment by segment
            mfiles = set()
            prev_rows = 0
            for si, (sg, m) in enumerate(zip(r['segs'], model[ci])):
                start = 0 if si == 0 else stops[si - 1]
                for k in m['files']:
                    mfiles.add(ckpt_name('grid', k, dt, start))
                    mfiles.add(ckpt_name('phi', k, dt, start))
                if set(sg['files']) != mfiles:
                    mismatch = ('files after segment %d: impl %r, model %r' % (si, sg['files'], sorted(mfiles)))
                    break
                new = [_row_key(x, dt) for x in sg['rows'][prev_rows:]]
                prev_rows = len(sg['rows'])
                if new != m['lines']:
                    mismatch = ('rows of phiDat.txt appended by segment %d: impl %r, model %r' % (si, new, m['lines']))
                    break
            # --- direct oracles (independent of the model)
            T = stops[-1]
            if r.get('bad_files'):
                problems.append(('fullSimulation:checkpoint-content', 'checkpoint contents: %r' % (r['bad_files'][:3],)))
            # the run must end at the step the arguments ask for: min(tEnd // dt, wall-clock stop), and resume where it stopped
            e = 0
            seen_stops = []
            for (nr, tEnd, stop) in c['segs']:
                tN = int(tEnd // dt)
                e = max(e, tN) if stop is None else max(e, min(tN, e + stop))
                seen_stops.append(e)
            exp_end = e
            if r['k_final'] != exp_end:
                problems.append(('fullSimulation:final-time', 'final checkpoint at step %d, expected %d' % (r['k_final'], exp_end)))
            # files: t = 0, every multiple of saveStep up to the end, every stop point
            exp_files = set()
            for k in [0] + [k for k in range(1, exp_end + 1) if k % S == 0] + seen_stops:
                exp_files.add(('grid', k))
                exp_files.add(('phi', k))
            if steps_of(r['segs'][-1]['files'], dt) != exp_files:
                problems.append(('fullSimulation:checkpoint-set', 'checkpoints %r, expected %r'
                                 % (r['segs'][-1]['files'], sorted(exp_files))))
            u = r.get('unsplit')
            if u:
                if u['outcome'] != 'ok':
                    problems.append(('fullSimulation:' + u['outcome'], 'unsplit run failed ' + u['detail']))
                else:
                    if not u['final_same'] or u.get('bad_files'):
                        problems.append(('fullSimulation:restart-state', 'final checkpoint of the restarted run differs from '
                                         'the uninterrupted run'))
                    extra = steps_of(r['segs'][-1]['files'], dt) - steps_of(u['files'], dt)
                    lost = steps_of(u['files'], dt) - steps_of(r['segs'][-1]['files'], dt)
                    stop_names = set()
                    for k in seen_stops[:-1]:
                        stop_names.add(('grid', k))
                        stop_names.add(('phi', k))
                    if lost or not extra <= stop_names:
                        problems.append(('fullSimulation:restart-files', 'restarted folder lacks %r / has unexpected %r'
                                         % (sorted(lost), sorted(extra - stop_names))))
            # rows: every time 0..T exactly once, no zero rows; and split rows == unsplit rows
            keys = sorted(_row_key(x, dt) for x in r['segs'][-1]['rows'])
            want = sorted(str(k) for k in range(T + 1))
            rows_ok = keys == want
            if not rows_ok:
                problems.append(('fullSimulation:rows', 'phiDat.txt has rows for times %r; expected one row per step 0..%d (saveStep %d, stop '
                                     'points %r)' % (keys, T, S, stops)))
            same_ranks = len(set([s[0] for s in c['segs']] + [c.get('unsplit_ranks')])) == 1
            if u and u['outcome'] == 'ok':
                # full text when all runs used the same number of ranks (same reduction order), else the time column
                ra = sorted(r['segs'][-1]['rows']) if same_ranks else keys
                rb = sorted(u['rows']) if same_ranks else sorted(_row_key(x, dt) for x in u['rows'])
                if ra != rb:
                    problems.append(('fullSimulation:restart-rows',
                                     'rows of the restarted run differ (as a multiset) from those of the uninterrupted run'))
        for key, what in problems:
            chk.violation(key, what + ' | case %r' % (c,), dict(rep, oracle=key))
        if mismatch:
            chk.cov['disagreements_checked'] += 1
            chk.violation('fullSimulation:model-mismatch', mismatch + ' | case %r' % (c,), dict(rep, mismatch=mismatch),
                          no_input=False)
    return model


# ------------------------------------------------------------------------------------------------
# (d) true physics, thorough tier
# ------------------------------------------------------------------------------------------------
def real_case(c):
    import warnings
    from props import c18_driver as D
    warnings.simplefilter('ignore')
    d = tempfile.mkdtemp(dir='/var/tmp', prefix='c18d_')
    du = tempfile.mkdtemp(dir='/var/tmp', prefix='c18e_')
    try:
        for dd in (d, du):
            json.dump({'npts': [8, 8, 8, 8], 'dt': 2, 'iotaVal': c['iota'], 'eps': 1e-3}, open(os.path.join(dd, 'c.json'), 'w'))
        outs = []
        for i, steps in enumerate(c['stops']):
            r = D.run_driver(c['nranks'], d, 2 * steps, c['S'], const_file='c.json' if i == 0 else None,
                             folder=None if i == 0 else 'simulation_0', stub=False, timeout=600.0)
            outs.append(r['outcome'] + ' ' + r['detail'][:200])
            if r['outcome'] != 'ok':
                return {'outs': outs}
        r = D.run_driver(c['nranks'], du, 2 * c['stops'][-1], c['S'], const_file='c.json', stub=False, timeout=600.0)
        outs.append(r['outcome'] + ' ' + r['detail'][:200])
        res = {'outs': outs, 'same': {}}
        if r['outcome'] == 'ok':
            T = 2 * c['stops'][-1]
            for nm in ('grid', 'phi'):
                pa = os.path.join(d, 'simulation_0', '%s_%06d.h5' % (nm, T))
                pb = os.path.join(du, 'simulation_0', '%s_%06d.h5' % (nm, T))
                if not (os.path.exists(pa) and os.path.exists(pb)):
                    res['same'][nm] = 'missing'
                    continue
                a, oa = D.read_dataset(pa)
                b, ob = D.read_dataset(pb)
                res['same'][nm] = 'ok' if (oa == ob and a.tobytes() == b.tobytes()) else 'differs'
            res['files'] = sorted(os.listdir(os.path.join(d, 'simulation_0')))
            res['files_unsplit'] = sorted(os.listdir(os.path.join(du, 'simulation_0')))
        return res
    finally:
        shutil.rmtree(d, ignore_errors=True)
        shutil.rmtree(du, ignore_errors=True)


# ------------------------------------------------------------------------------------------------
def const_coq_terms(sample):
    """ckparse requests re-written as Coq terms on primitive floats; expected answers as float lists"""
    import struct

    def fl(h):
        x = struct.unpack('<d', struct.pack('<Q', int(h, 16)))[0]
        return '(%s)%%float' % x.hex() if x == x and abs(x) != float('inf') else None

    def expr(toks):
        t = toks.pop(0)
        if t[0] == 'i':
            return '(EId float %s)' % t[1:]
        if t[0] == 'l':
            return '(ELit float %s)' % fl(t[1:])
        if t == 'n':
            return '(ENeg float %s)' % expr(toks)
        a = expr(toks)
        b = expr(toks)
        return '(EBin float %s %s %s)' % ({'+': 'OAdd', '-': 'OSub', '*': 'OMul', '/': 'ODiv'}[t], a, b)
    terms, exp = [], []
    for req, ans in sample:
        parts = [x.split() for x in req.split('|')]
        if ans.split()[1] != 'ok':
            continue
        n = int(parts[1][0])
        dfl = '; '.join('(%s%%nat, %s)' % (d.split(':')[0], fl(d.split(':')[1])) for d in parts[3])
        ents = []
        for e in ' '.join(parts[4]).split(';'):
            t = e.split()
            if t[1] == 'N':
                ents.append('(%s%%nat, CNum float %s)' % (t[0], fl(t[2])))
            else:
                ents.append('(%s%%nat, CExpr float %s)' % (t[0], expr(t[2:])))
        term = 'cp_get_float [%s] [%s] %d' % (dfl, '; '.join(ents), n)
        if 'None)' in term or 'None;' in term or ' None' in term:
            continue
        terms.append(term)
        exp.append([None if v == '-' else struct.unpack('<d', struct.pack('<Q', int(v, 16)))[0] for v in ans.split()[2:]])
    return terms, exp


def coq_crosscheck(chk, rng, dcases, model):
    """a sample of driver histories and hyperslab reads re-evaluated by vm_compute"""
    terms, exp = [], []
    pick = rng.sample(range(len(dcases)), min(12 if chk.tier == 'quick' else 60, len(dcases)))
    for ci in pick:
        c = dcases[ci]
        start = None
        for (S, tN, orc), m in zip(driver_model_requests(c), model[ci]):
            if tN > 60:
                break
            o = '[' + ';'.join('true' if ch == '1' else 'false' for ch in (orc if orc != '-' else '')) + ']'
            terms.append('let r := ck_run_nat %d %d %s %s in (fst (fst (fst (fst r))), map fst (snd (fst r)), map ck_line_time (snd r))'
                         % (S, tN, 'None' if start is None else '(Some %d)' % start, o))
            exp.append('(%d, [%s], [%s])' % (m['ti'], '; '.join(map(str, m['files'])),
                                             '; '.join('None' if x == '-' else 'Some %s' % x for x in m['lines'])))
            start = m['ti']
    # hyperslab reads
    small = [([3, 4], [2, 1], [1, 3], [0, 2]), ([5, 3], [2, 3], [5, 1], [3, 0]), ([2, 3, 2], [2, 1, 1], [1, 3, 1], [0, 1, 0])]
    reqs = []
    for shp, g, g2, crd in small:
        n = 1
        for x in shp:
            n *= x
        cells = [rng.randint(0, 999) for _ in range(n)]
        terms.append('ck_roundtrip [%s] [%s] [%s] [%s] [%s]' % tuple('; '.join(map(str, l)) for l in (shp, g, g2, crd, cells)))
        reqs.append('ckrt | %s | %s | %s | %s | %s' % tuple(' '.join(map(str, l)) for l in (shp, g, g2, crd, cells)))
    for a in core.model(reqs):
        exp.append('[' + '; '.join('None' if x == '-' else 'Some %s' % x for x in a.split()) + ']')
    cterms, cexp = const_coq_terms(getattr(check_const_model, 'sample', []))
    vals = core.coq_eval(terms + cterms, 'From Coq Require Import List Floats. Import ListNotations. '
                         'From PGV Require Import Checkpoint Driver ConstantsIO.', tag='c18')
    import re as _re
    for t, v, e in zip(cterms, vals[len(terms):], cexp):
        got = [None if x == 'None' else float(x[5:]) for x in _re.findall(r'None|Some -?[0-9.e+-]+|Some nan|Some -?infinity', v.replace('(', '').replace(')', ''))]
        if len(got) != len(e) or any((a is None) != (b is None) or (a is not None and a != b and not (a != a and b != b))
                                     for a, b in zip(got, e)):
            raise core.BrokenCheck('extracted constants parser and vm_compute (PrimFloat) disagree: %r vs %r' % (got, e))
    vals = vals[:len(terms)]
    bad = [(t, v, e) for t, v, e in zip(terms, vals, exp) if v.replace(' ', '') != e.replace(' ', '')]
    if bad:
        raise core.BrokenCheck('extracted model and vm_compute disagree: %r' % (bad[:2],))
    return len(terms) + len(cterms)


def run():
    chk = core.Check('C18', 'proof')
    proof = core.proof_stage('C18')
    rng = random.Random(chk.seed)
    acases = gen_ckpt_cases(chk, rng)
    bcases = gen_const_cases(chk, rng)
    dcases = gen_driver_cases(chk, rng)
    ares = implrun.run_cases('props.c18', 'ckpt_case', acases, tmo=120.0, chunk=4)
    check_ckpt(chk, acases, ares)
    bres = implrun.run_cases('props.c18', 'const_case', bcases, tmo=60.0, chunk=10)
    check_const(chk, bcases, bres)
    nconst_model = check_const_model(chk, bcases, bres)
    dres = implrun.run_cases('props.c18', 'driver_case', dcases, tmo=300.0, chunk=3)
    model = check_driver(chk, dcases, dres)
    nreal = 0
    if chk.tier == 'thorough':
        rcases = [{'kind': 'real', 'nranks': 2, 'S': 2, 'stops': [2, 3], 'iota': 0.0},
                  {'kind': 'real', 'nranks': 4, 'S': 2, 'stops': [1, 3], 'iota': 0.8},
                  {'kind': 'real', 'nranks': 3, 'S': 3, 'stops': [2, 4], 'iota': 0.8},
                  {'kind': 'real', 'nranks': 1, 'S': 1, 'stops': [1, 2, 3], 'iota': 0.0}]
        rres = implrun.run_cases('props.c18', 'real_case', rcases, tmo=840.0, chunk=1)
        for c, r in zip(rcases, rres):
            nreal += 1
            chk.count(('real', json.dumps(c, sort_keys=True)), stratum='real-physics-split-vs-unsplit', sample=c)
            rep = {'kind': 'real', 'case': c}
            if not isinstance(r, dict) or 'same' not in r:
                chk.violation('fullSimulation:real-run-failed', 'true-physics run failed: %r (%r)' % (r, c), rep)
            elif any(v != 'ok' for v in r['same'].values()):
                chk.violation('fullSimulation:real-restart-state',
                              'final checkpoints of N steps + restart + M steps differ from N+M steps: %r (%r)' % (r['same'], c), rep)
    ncoq = coq_crosscheck(chk, random.Random(chk.seed + 1), dcases, model)
    chk.assumptions += [
        'HDF5 / the file system store what is written (no crash, no partial write); the mpio driver is emulated by '
        'harness/shims/h5py.py on the serial library, real MPI-IO is not exercised',
        'the physics of one loop iteration is a deterministic function of the global field (Driver.v: step); the '
        'stand-in physics of part (c) is such a function by construction, the true physics is sampled in the thorough tier only',
        'Python str.format "{:06}" and string comparison are modelled by CkNames.v (ck_fmt06, ck_lex_lt) and compared with '
        'Python on every multi-checkpoint case',
        'constants parser model (ConstantsIO.v): arithmetic is abstract in the theorems and IEEE binary64 of OCaml / '
        'PrimFloat in the executed instances, taken to be that of CPython',
        'Driver.v counts time in steps; histories with a float dt are compared with the same model through the '
        'accumulated binary64 time of step k; restart_time_index_nearest is instantiated on the exact values of every '
        'float restart time (cknear), the float evaluation of t/dt + 0.5 itself is not modelled']
    return chk.finish(
        proof,
        rule='(a) seeded checkpoint cases: npts in [3,8]^4, save grid x load grid over all factorisations of 1..8 ranks, 3 layouts, '
             'loadFromFile / setupFromFile, 1-4 checkpoints with times of 1-8 digits; non-trivial = more than one rank on either side. '
             '(b) constants files: literal / symbolic / modified objects, shuffled keys. (c) driver histories with stand-in physics: '
             'saveStep 1..7, dt 1..3 (float 0.5 / 2.0 in one history of seven, non-dyadic 0.1 / 0.3 / 0.7 with stop points where t // dt is one short in another), 1-3 segments, stop by tEnd or by the wall-clock oracle, 1-8 ranks per segment; non-trivial = at '
             'least one step. distinct = distinct case description',
        extra={'coq_vm_compute_crosschecked': ncoq, 'constants_files_vs_parser_model': nconst_model, 'real_physics_runs': nreal,
               'parts': {'checkpoint_cases': len(acases), 'constants_cases': len(bcases), 'driver_histories': len(dcases)}},
        uncovered=['HDF5 / file-system crash behaviour and real MPI-IO are outside the model',
                   'constants: eval_expr accepts more than the modelled expression subset (** through the empty split, any '
                   'name of the math module, attribute names that are methods, exponent literals break the split); the '
                   'harness translator is fail-closed on the generated files. Textual substitution + eval is modelled as '
                   'evaluation of the syntax tree; ZeroDivisionError, lists (npts, splineDegrees), int-valued results and the '
                   'numerical integration of CN0 are outside the model',
                   'true-physics split-vs-unsplit equality is sampled (thorough tier), the model takes step as a function'])


def replay(path):
    core.setup_paths()
    body = json.load(open(path))
    rp = body['replay']
    c = rp['case']
    chk = core.Check('C18', 'proof')
    chk.known = []          # a replay reports everything
    if rp['kind'] == 'ckpt':
        r = implrun.run_cases('props.c18', 'ckpt_case', [c], tmo=120.0)[0]
        print('case', c)
        print('files', r.get('files') if isinstance(r, dict) else r)
        if isinstance(r, dict) and r.get('read') and r['read'][2]:
            for rr in r['read'][2]:
                print(' rank', rr['rank'], rr['layout'], 'starts', rr['starts'], 'shape', rr['shape'], 'exact', rr['exact'],
                      'checkpoint index loaded', rr['tsel'], 't returned', rr['tret'])
        check_ckpt(chk, [c], [r])
    elif rp['kind'] == 'const':
        r = implrun.run_cases('props.c18', 'const_case', [c], tmo=60.0)[0]
        print('case', c, '\ndifferences', r)
        check_const(chk, [c], [r])
        check_const_model(chk, [c], [r])
    elif rp['kind'] == 'driver':
        r = implrun.run_cases('props.c18', 'driver_case', [c], tmo=300.0)[0]
        print('case', c)
        if isinstance(r, dict):
            for i, s in enumerate(r['segs']):
                print(' segment', i, s['outcome'], s['detail'], 'files', s['files'])
                print('   row times', [_row_key(x, c['dt']) for x in s['rows']])
            if r.get('unsplit'):
                print(' unsplit', r['unsplit']['outcome'], 'files', r['unsplit']['files'])
                print('   row times', [_row_key(x, c['dt']) for x in r['unsplit']['rows']], 'final field identical:',
                      r['unsplit'].get('final_same'))
        m = check_driver(chk, [c], [r])
        print(' model', m[0])
    elif rp['kind'] == 'real':
        r = implrun.run_cases('props.c18', 'real_case', [c], tmo=840.0)[0]
        print('case', c, r)
        return 0 if isinstance(r, dict) and all(v == 'ok' for v in r.get('same', {'x': 'no'}).values()) else 1
    bad = [v for v in chk.violations if v is not None]
    for path_, no_input, what in bad:
        print('  ' + what[:400])
        try:
            os.remove(path_)
        except OSError:
            pass
    return 1 if bad else 0
