"""
C03 - LayoutSwapper: redistribution across differently distributed layout groups preserves data.
Proof: Props/C03.v (ScatterStep.v, GatherStep.v/GatherValid.v, SwapperExec.v, SwapperRoute.v).
Tie: the real LayoutSwapper under simulated MPI - the fullSimulation grouping on every 2-D process grid,
upstream's other groupings, random groupings accepted by the constructor (3-D and 4-D) - random walks of
transposes with or without a spare buffer, real and complex payloads whose value is the global linear
index.  After every transpose, on every world rank: destination prefix vs the extracted model
(sw_run_route over the implementation's own route, topology axes of every handler recovered from its
communicators, every step validated by sw_route_ok_b = the hypothesis of c03_route_correct) and vs the
direct oracle (slice of the global array); replicas pairwise; moving back reproduces the source blocks;
source untouched when a buffer is given; nProcs / mpiCoords / nDistributedDirections follow the destination.
The constructor's choice (largest handler, topology, topology axis of every distribution direction) is compared
with the extracted model sw_ctor on every configuration the constructor accepts.  Failures whose route contains a
direct transition between two handlers with the same communicators but different distributed dimensions are the
_compatibleLayout finding (KNOWN_FINDINGS.txt); every other exception / deadlock / wrong block is a violation.
"""
import json
import random

import core
import implrun

FULLSIM = [{'v_parallel_2d': [0, 2, 1], 'mode_solve': [1, 2, 0]}, {'v_parallel_1d': [0, 2, 1]}, {'poloidal': [2, 1, 0]}]


def bstart(n, p, k):
    return (n // p) * k + ((n % p) * k) // p


def gfield(N, dims, starts, shape):
    """global linear index (eta order) of every local cell of a block, as an int array"""
    import numpy as np
    d = len(N)
    if not all(s > 0 for s in shape):
        return np.zeros(shape, dtype=np.int64)
    idx = np.indices(shape)
    gl = [None] * d
    for a in range(d):
        gl[dims[a]] = idx[a] + starts[a]
    v = np.zeros(shape, dtype=np.int64)
    for e in range(d):
        v = v * N[e] + gl[e]
    return v


MEM_CELLS = 3000    # whole-array comparison only when all ranks' arrays together have at most this many cells


def impl_case(c):
    """c = (N, layouts, nprocs, start, walk, dtype, seed); walk = [(dest name, use_buf, back_buf)]"""
    import numpy as np
    import warnings
    from mpi4py import MPI
    from pygyro.model.layout import LayoutSwapper
    N, layouts, nprocs, start, walk, dt, seed = c
    eta = [np.arange(n, dtype=float) for n in N]
    nranks = 1
    big = max(nprocs, key=lambda x: 1 if isinstance(x, int) else max(len(x) - list(x).count(1), 1))
    for p in ([big] if isinstance(big, int) else big):
        nranks *= p
    dtype = {'f': np.float64, 'c': np.complex128}[dt]

    def fill(arr, L):
        g = gfield(N, L.dims_order, L.starts, L.shape)
        val = g.astype(dtype)
        if dt == 'c':
            val = val + 1j * (2 * g + 1)
        arr[:L.size] = val.reshape(-1)
        return g

    def ints(a):
        if dt == 'c':
            return [int(x) for x in a.real], bool((a.imag == 2 * a.real + 1).all())
        return [int(x) for x in a], True

    def work(comm):
        with warnings.catch_warnings():
            warnings.simplefilter('ignore')
            try:
                sw = LayoutSwapper(comm, [dict(h) for h in layouts], [p if isinstance(p, int) else list(p) for p in nprocs], eta, start)
            except (AssertionError, RuntimeError, IndexError, ValueError, KeyError) as e:
                return {'rejected': '%s: %s' % (type(e).__name__, str(e)[:80])}
            mans = sw._managers
            bigm = mans[sw._largestLayoutManager]
            bigc = list(bigm.communicators)
            info = {'topo': [int(x) for x in sw._nprocs[sw._largestLayoutManager]],
                    'axes': [[bigc.index(cm) if cm in bigc else -1 for cm in m.communicators] for m in mans],
                    'hprocs': [[int(x) for x in m.nProcs] for m in mans],
                    'hcoords': [[int(x) for x in m.mpiCoords] for m in mans],
                    'handler': {n: int(h) for n, h in sw._handlers.items()},
                    'sroute': {a: {b: list(v) for b, v in dd.items()} for a, dd in sw._route_map.items()},
                    'hroute': [{a: {b: list(v) for b, v in dd.items()} for a, dd in m._route_map.items()} if m.nLayouts > 1 else {}
                               for m in mans],
                    'starts': {n: [int(x) for x in sw.getLayout(n).starts] for n in sw._handlers},
                    'shape': {n: [int(x) for x in sw.getLayout(n).shape] for n in sw._handlers},
                    'bs': int(sw.bufferSize), 'wrank': int(comm.Get_rank()), 'largest': int(sw._largestLayoutManager),
                    # what the constructor's memory computation saw: the handlers' sizes and the enumerated cross-handler pairs
                    'hbs': [int(m.bufferSize) for m in mans],
                    'cpairs': [(n1, n2) for k1, n1 in enumerate(sw._layouts) for n2 in sw._layouts[:k1]
                               if sw._handlers[n1] != sw._handlers[n2] and sw._compatibleLayout(n1, n2)]}
            bs = int(sw.bufferSize)
            cur = start
            src = np.full(bs, -7, dtype=dtype)
            fill(src, sw.getLayout(cur))
            out = []
            for (nxt, use_buf, back_buf) in walk:
                la, lb = sw.getLayout(cur), sw.getLayout(nxt)
                dst = np.full(bs, -8, dtype=dtype)
                buf = np.full(bs, -9, dtype=dtype) if use_buf else None
                before = src[:la.size].copy()
                mem0 = [int(x) for x in np.real(src)] if bs * nranks <= MEM_CELLS else None
                src_arr = src
                sw.transpose(src, dst, cur, nxt, buf)
                man = mans[sw._handlers[nxt]]
                cur_ok = (list(sw.nProcs) == list(man.nProcs) and list(sw.mpiCoords) == list(man.mpiCoords)
                          and sw.nDistributedDirections == man.nDistributedDirections)
                got, okc = ints(dst[:lb.size])
                sb, _ = ints(before)
                rec = {'src': sb, 'dest': got, 'cplx_ok': okc, 'cur_ok': bool(cur_ok),
                       'src_same': bool((src[:la.size] == before).all()) if use_buf else True,
                       'expect': [int(x) for x in gfield(N, lb.dims_order, lb.starts, lb.shape).reshape(-1)]}
                # move back (on copies): the original distributed blocks must reappear
                d2 = dst.copy()
                back = np.full(bs, -6, dtype=dtype)
                sw.transpose(d2, back, nxt, cur, np.full(bs, -5, dtype=dtype) if back_buf else None)
                bk, okb = ints(back[:la.size])
                rec['back'] = bk
                if mem0 is not None:
                    # complete arrays before / after (real parts) for the whole-memory model (frame theorems)
                    rec['mem0'] = mem0
                    rec['mem'] = [[int(x) for x in np.real(arr)] if arr is not None else None for arr in (src_arr, dst, buf)]
                rec['cplx_ok'] = rec['cplx_ok'] and okb
                out.append(rec)
                src = dst
                cur = nxt
            info['out'] = out
            return info
    R = MPI.run(nranks, work, seed=seed, timeout=240)
    if R.outcome != 'ok':
        # what the constructor built (axes, routes), so that the failure can be classified
        info = None
        if walk:
            r0 = impl_case((N, layouts, nprocs, start, [], dt, seed))
            if r0[0] == 'ok':
                info = r0[1][0]
        return ('fail', R.outcome, R.detail[:400], info)
    if any('rejected' in r for r in R.results):
        rej = [r.get('rejected') for r in R.results]
        if all(x == rej[0] for x in rej):
            return ('rejected', rej[0])
        return ('fail', 'constructor-inconsistent', repr(rej)[:400])
    return ('ok', R.results)


# ---------------------------------------------------------------------------------------------------
# generators

def _extents(rng, d, need, emax):
    """need[e] = smallest admissible extent of dimension e (largest process count it is distributed over)"""
    N = []
    for e in range(d):
        lo = max(1, need[e])
        if lo > emax:
            return None
        r = rng.random()
        if r < 0.3:
            N.append(lo)                      # extent equal to the process count (or 1)
        else:
            N.append(rng.randint(lo, emax))
    return N


def _need(d, layouts, nprocs):
    need = [1] * d
    for h, p in zip(layouts, nprocs):
        pl = [p] if isinstance(p, int) else list(p)
        for dims in h.values():
            if len(pl) == 1 and len(dims) > 1:
                # which topology axis is used is the constructor's choice; only axis 0 of the layout is distributed
                need[dims[0]] = max(need[dims[0]], pl[0])
            else:
                for a, q in enumerate(pl):
                    need[dims[a]] = max(need[dims[a]], q)
    return need


def fullsim_case(rng, n0, n1, emax=7):
    nprocs = [[n0, n1], n0, n1]
    N = _extents(rng, 3, _need(3, FULLSIM, nprocs), emax)
    return N, FULLSIM, nprocs, rng.choice(['v_parallel_2d', 'mode_solve', 'v_parallel_1d', 'poloidal'])


UPSTREAM = [
    # test_layout.py: poisson / poloidal(+twist) / v_parallel with nprocs [g, g[1], g[0]]
    (3, lambda n0, n1: ([{'v_parallel_2d': [0, 2, 1], 'mode_solve': [1, 2, 0]}, {'poloidal': [2, 1, 0], 'poloidalTwist': [2, 0, 1]},
                          {'v_parallel_1d': [0, 2, 1]}], [[n0, n1], n1, n0])),
    # test_grid.py / test_poisson_solver.py: mode_find / mode_solve + dphi / poloidal
    (3, lambda n0, n1: ([{'mode_find': [2, 0, 1], 'mode_solve': [2, 1, 0]}, {'dphi': [0, 1, 2], 'poloidal': [2, 1, 0]}],
                         [[n0, n1], n0])),
    # test_layout.py test_LayoutSwapper: the 4-D two-handler family
    (4, lambda n0, n1: ([{'flux_surface2': [0, 3, 1, 2], 'v_parallel': [0, 2, 1, 3], 'poloidal': [3, 2, 1, 0]},
                          {'flux_surface1': [0, 3, 1, 2], 'z_surface': [2, 3, 1, 0], 'vr_contig1': [2, 1, 3, 0]}], [[n0, n1], n0])),
    # the same family with the second handler on the other grid extent
    (4, lambda n0, n1: ([{'flux_surface2': [0, 3, 1, 2], 'v_parallel': [0, 2, 1, 3], 'poloidal': [3, 2, 1, 0]},
                          {'v_par_1d': [3, 2, 1, 0], 'pol_1d': [3, 1, 2, 0]}], [[n0, n1], n1])),
]


def upstream_case(rng, k, n0, n1, emax=7):
    d, f = UPSTREAM[k]
    layouts, nprocs = f(n0, n1)
    N = _extents(rng, d, _need(d, layouts, nprocs), emax if (d == 3 or rng.random() < 0.2) else min(emax, 5))
    if N is None:
        return None
    names = [n for h in layouts for n in h]
    return N, layouts, nprocs, rng.choice(names)


def random_grouping(rng, n0, n1, emax=7):
    """a 2-D handler, one or two 1-D handlers hooked to one of its layouts, sometimes a serial handler"""
    d = rng.choice([3, 3, 4])
    first = list(range(d))
    rng.shuffle(first)
    h0 = [first]
    for _ in range(rng.randint(0, 2)):
        base = rng.choice(h0)
        l = list(base)
        a = rng.randrange(d)
        b = rng.randrange(d)
        if a == b or (a < 2 and b < 2):
            continue
        l[a], l[b] = l[b], l[a]
        if l not in h0:
            h0.append(l)
    layouts = [{'A%d' % i: l for i, l in enumerate(h0)}]
    nprocs = [[n0, n1]]
    for hi in range(rng.randint(1, 2)):
        h = {}
        ax = rng.randrange(2) if hi == 0 or rng.random() < 0.25 else 1 - prev_ax
        prev_ax = ax
        for li in range(rng.randint(1, 2)):
            if rng.random() < 0.85:
                base = rng.choice(h0)
                rest = [e for e in base if e != base[ax]]
                rng.shuffle(rest)
                l = [base[ax]] + rest
            else:
                l = list(range(d))
                rng.shuffle(l)
            if l not in h.values():
                h['B%d_%d' % (hi, li)] = l
        layouts.append(h)
        p = [n0, n1][ax]
        nprocs.append(p if rng.random() < 0.6 else [p])
    if rng.random() < 0.35:
        base = rng.choice(h0)
        l = list(base)
        if rng.random() < 0.5:
            tail = l[1:]
            rng.shuffle(tail)
            l = l[:1] + tail
        else:
            rng.shuffle(l)
        layouts.append({'S0': l})
        nprocs.append(rng.choice([1, [1], [1, 1]]))
    N = _extents(rng, d, _need(d, layouts, nprocs), emax if (d == 3 or rng.random() < 0.2) else min(emax, 5))
    if N is None:
        return None
    names = [n for h in layouts for n in h]
    return N, layouts, nprocs, rng.choice(names)


def make_walk(rng, names, start, maxlen=6):
    walk = []
    cur = start
    for _ in range(rng.randint(1, maxlen)):
        nxt = rng.choice(names) if rng.random() < 0.08 else rng.choice([n for n in names if n != cur] or names)
        walk.append((nxt, rng.random() < 0.5, rng.random() < 0.5))
        cur = nxt
    return walk


def grids(nmax):
    return [(a, b) for a in range(1, nmax + 1) for b in range(1, nmax + 1)]


def gen(chk):
    rng = random.Random(chk.seed)
    quick = chk.tier == 'quick'
    nmax = 3 if quick else 4
    cases = []

    def add(cfg, fam, reps_walk=1):
        if cfg is None:
            return
        N, layouts, nprocs, start = cfg
        names = [n for h in layouts for n in h]
        for _ in range(reps_walk):
            st = rng.choice(names)
            cases.append(((N, layouts, nprocs, st, make_walk(rng, names, st), rng.choice('fc'), rng.randrange(10 ** 6)), fam))
    per_grid = 10 if quick else 120
    for (n0, n1) in grids(nmax):
        for _ in range(per_grid):
            add(fullsim_case(rng, n0, n1), 'fullsim')
        for k in range(len(UPSTREAM)):
            for _ in range(3 if quick else 30):
                add(upstream_case(rng, k, n0, n1), 'upstream%d' % k)
    nrand = 1500 if quick else 50000
    for _ in range(nrand):
        n0, n1 = rng.choice(grids(nmax))
        if rng.random() < 0.3:
            n1 = n0
        add(random_grouping(rng, n0, n1), 'random')
    return cases


# ---------------------------------------------------------------------------------------------------
# the model side

def node_str(info, layouts_by_name, name):
    h = info['handler'][name]
    return '%d , %s , %s' % (h, ' '.join(map(str, layouts_by_name[name])), ' '.join(map(str, info['axes'][h])))


def model_route(info, a, b):
    """the chain of single steps the implementation performs for transpose(a -> b)"""
    if a == b:
        return []
    ha, hb = info['handler'][a], info['handler'][b]
    if ha == hb:
        return list(info['hroute'][ha][a][b])
    out = []
    cur = a
    for nxt in info['sroute'][a][b]:
        if info['handler'][cur] == info['handler'][nxt]:
            out += list(info['hroute'][info['handler'][cur]][cur][nxt])
        else:
            out.append(nxt)
        cur = nxt
    return out


def mem_route(info, a, b):
    """the steps of LayoutSwapper.transpose(a -> b) as the whole-memory model takes them: the handler's own route inside one
    handler; otherwise the swapper's route, whose handler-internal steps must be direct in their handler (else None)"""
    if a == b:
        return []
    ha, hb = info['handler'][a], info['handler'][b]
    if ha == hb:
        return list(info['hroute'][ha][a][b])
    cur = a
    for nxt in info['sroute'][a][b]:
        h1, h2 = info['handler'][cur], info['handler'][nxt]
        if h1 == h2 and len(info['hroute'][h1][cur][nxt]) != 1:
            return None
        cur = nxt
    return list(info['sroute'][a][b])


def step_kinds(info, a, route):
    topo = info['topo']
    ks = []
    cur = a
    for nxt in route:
        ha, hb = info['handler'][cur], info['handler'][nxt]
        if ha == hb:
            ks.append('i')
        else:
            nda = sum(1 for t in info['axes'][ha] if topo[t] != 1)
            ndb = sum(1 for t in info['axes'][hb] if topo[t] != 1)
            ks.append('l' if nda == ndb else 's' if nda < ndb else 'g')
        cur = nxt
    return ''.join(ks)


def grid_class(topo):
    t = [x for x in topo]
    if all(x == 1 for x in t):
        return '1x1'
    if len(t) >= 2 and t[0] == 1:
        return '1xn'
    if len(t) >= 2 and t[1] == 1:
        return 'nx1'
    if len(t) >= 2 and t[0] == t[1]:
        return 'n=n'
    return 'nxm'


def evenness(N, lay, info, name):
    h = info['handler'][name]
    cl = set()
    for a, t in enumerate(info['axes'][h]):
        p = info['topo'][t]
        if p > 1:
            n = N[lay[a]]
            cl.add('eq' if n == p else 'div' if n % p == 0 else 'uneven')
    return '+'.join(sorted(cl)) or 'serial'


KNOWN_EQRANK = 'layout.LayoutSwapper._compatibleLayout:equal-handler-rank-same-communicators-different-distributed-dimension'


def dist_map(info, lay, name):
    """dimension -> topology axis, for the directions that are really distributed (extent > 1)"""
    h = info['handler'][name]
    return {lay[name][i]: t for i, t in enumerate(info['axes'][h]) if info['topo'][t] > 1}


def defect_class(info, lay, a, b):
    """does the swapper's route a -> b contain a cross-handler step between two handlers with the same number of
    axes and the same communicators whose layouts distribute different dimensions over them?  (_compatibleLayout
    declares such a pair compatible without looking at the dimension orders; _transpose then treats the step as a
    local transpose.)  Returns the offending pair or None."""
    if a == b or info['handler'][a] == info['handler'][b]:
        return None
    cur = a
    for nxt in info['sroute'][a][b]:
        hx, hy = info['handler'][cur], info['handler'][nxt]
        if hx != hy and len(info['hprocs'][hx]) == len(info['hprocs'][hy]) \
                and sorted(info['axes'][hx]) == sorted(info['axes'][hy]) and dist_map(info, lay, cur) != dist_map(info, lay, nxt):
            return (cur, nxt)
        cur = nxt
    return None


def own_block(N, lay, info, name, w):
    """start and shape of world rank w's block computed from the topology coordinates (independent of Layout)"""
    topo = info['topo']
    co = []
    r = w
    for p in reversed(topo):
        co.append(r % p)
        r //= p
    co = list(reversed(co))
    ax = info['axes'][info['handler'][name]]
    st, sh = [], []
    for a in range(len(lay)):
        if a < len(ax):
            p, k = topo[ax[a]], co[ax[a]]
        else:
            p, k = 1, 0
        n = N[lay[a]]
        st.append(bstart(n, p, k))
        sh.append(bstart(n, p, k + 1) - bstart(n, p, k))
    return st, sh


def run():
    chk = core.Check('C03', 'proof')
    proof = core.proof_stage('C03')
    gen_cases = gen(chk)
    cases = [c for c, _ in gen_cases]
    fams = [f for _, f in gen_cases]
    impl = implrun.run_cases('props.c03', 'impl_case', cases, tmo=300.0, chunk=1)
    mlines, mkeys, oklines, okkeys = [], [], [], []
    seen_ok = set()
    rejected = 0
    for ci, (c, r) in enumerate(zip(cases, impl)):
        if r[0] != 'ok':
            continue
        N, layouts, nprocs, start, walk, dt, seed = c
        lay = {n: l for h in layouts for n, l in h.items()}
        res = r[1]
        info = res[0]
        cur = start
        for k, (nxt, ub, bb) in enumerate(walk):
            route = model_route(info, cur, nxt)
            nodes = ' / '.join(node_str(info, lay, x) for x in [cur] + route)
            head = '%s | %s | %s' % (' '.join(map(str, N)), ' '.join(map(str, info['topo'])), nodes)
            if route:
                okk = (tuple(N), tuple(info['topo']), nodes)
                if okk not in seen_ok:
                    seen_ok.add(okk)
                    oklines.append('swok ' + head)
                    okkeys.append((ci, k, cur, nxt, route))
            bufs = ' ; '.join(' '.join(map(str, res[w]['out'][k]['src'])) for w in range(len(res)))
            mlines.append('swroute %s ; %s' % (head, bufs))
            mkeys.append((ci, k))
            cur = nxt
    # the constructor model: topology, largest handler and the topology axes of every handler
    clines = []
    for c in cases:
        N, layouts, nprocs = c[0], c[1], c[2]
        clines.append('swctor %s | %s' % (' / '.join(' , '.join(' '.join(map(str, l)) for l in h.values()) for h in layouts),
                                          ' / '.join(' '.join(map(str, [p] if isinstance(p, int) else p)) for p in nprocs)))
    cres = core.model_parallel(clines)
    for ci, (c, r, m) in enumerate(zip(cases, impl, cres)):
        N, layouts, nprocs = c[0], c[1], c[2]
        info = r[1][0] if r[0] == 'ok' else (r[3] if r[0] == 'fail' and len(r) > 3 else None)
        if info is not None:
            chk.cov['certificates_checked'] += 1
            got = '%d | %s | %s' % (info['largest'], ' '.join(map(str, info['topo'])), ' / '.join(' '.join(map(str, a)) for a in info['axes']))
            if ' '.join(m.split()) != ' '.join(got.split()):
                chk.cov['disagreements_checked'] += 1
                chk.violation('layout.LayoutSwapper.__init__:communicator-choice-differs-from-sw_ctor',
                              'layouts=%r nprocs=%r: the constructor built largest | topology | axes = %s, the model sw_ctor gives %s'
                              % (layouts, nprocs, got, m),
                              {'kind': 'correspondence', 'theorem': 'sw_ctor (SwapperCtor.v) / c03_ctor_axes',
                               'case': [N, layouts, nprocs, c[3], [], c[5], c[6]]}, no_input=True)
    # the constructor's memory computation (model sw_bufsize: handler sizes + enumerated pairs) on every world rank
    blines, bkeys = [], []
    for ci, (c, r) in enumerate(zip(cases, impl)):
        if r[0] != 'ok':
            continue
        N, layouts = c[0], c[1]
        lay = {n: l for h in layouts for n, l in h.items()}
        res = r[1]
        info = res[0]
        prs = ' / '.join('%s ~ %s' % (node_str(info, lay, a), node_str(info, lay, b)) for (a, b) in info['cpairs'])
        for w in range(len(res)):
            blines.append('swbuf %s | %s | %d | %s | %s' % (' '.join(map(str, N)), ' '.join(map(str, info['topo'])), w,
                                                          ' '.join(map(str, res[w]['hbs'])), prs))
            bkeys.append((ci, w))
    for (ci, w), m in zip(bkeys, core.model_parallel(blines)):
        chk.cov['certificates_checked'] += 1
        got = str(impl[ci][1][w]['bs'])
        if m != got:
            chk.cov['disagreements_checked'] += 1
            c = cases[ci]
            chk.violation('layout.LayoutSwapper.__init__:buffer-size-differs-from-sw_bufsize',
                          'N=%r layouts=%r nprocs=%r: world rank %d has bufferSize %s, the model of the memory computation '
                          '(sw_bufsize over handler sizes %r and pairs %r) gives %s'
                          % (c[0], c[1], c[2], w, got, impl[ci][1][w]['hbs'], impl[ci][1][0]['cpairs'], m),
                          {'kind': 'correspondence', 'theorem': 'sw_bufsize / c03_ctor_reserves_pB',
                           'case': [c[0], c[1], c[2], c[3], [], c[5], c[6]]}, no_input=True)
    # whole-memory model: complete source / dest / buf arrays of every world rank after the transpose (frame theorems
    # c03_step_frame / c03_route_frame) and the certificate that every step stays inside each rank's bufferSize
    flines, fkeys, eok_lines, eok_keys = [], [], [], []
    for ci, (c, r) in enumerate(zip(cases, impl)):
        if r[0] != 'ok':
            continue
        N, layouts, nprocs, start, walk, dt, seed = c
        lay = {n: l for h in layouts for n, l in h.items()}
        res = r[1]
        info = res[0]
        bss = [res[w]['bs'] for w in range(len(res))]
        cur = start
        for k, (nxt, ub, bb) in enumerate(walk):
            prev, cur = cur, nxt
            if any('mem' not in res[w]['out'][k] for w in range(len(res))):
                continue
            mr = mem_route(info, prev, nxt)
            if mr is None:
                continue
            nodes = ' / '.join(node_str(info, lay, x) for x in [prev] + mr)
            head = '%s | %s | %s' % (' '.join(map(str, N)), ' '.join(map(str, info['topo'])), nodes)
            srcs = ' ; '.join(' '.join(map(str, res[w]['out'][k]['mem0'])) for w in range(len(res)))
            dsts = ' ; '.join(' '.join(['-8'] * bss[w]) for w in range(len(res)))
            bufs = ' ; '.join(' '.join(['-9'] * bss[w]) for w in range(len(res)))
            flines.append('smtr %s | %d 0 ; %s ;; %s ;; %s' % (head, 1 if ub else 0, srcs, dsts, bufs))
            fkeys.append((ci, k))
            if mr:
                eok_lines.append('smok %s | %s' % (head, ' '.join(map(str, bss))))
                eok_keys.append((ci, k))
    fres = dict(zip(fkeys, core.model_parallel(flines, timeout=3000)))
    eres = dict(zip(eok_keys, core.model_parallel(eok_lines)))
    mres = dict(zip(mkeys, core.model_parallel(mlines, timeout=3000)))
    okres = dict(zip([(a, b) for (a, b, _, _, _) in okkeys], core.model_parallel(oklines)))
    okinfo = {(a, b): (x, y, rt) for (a, b, x, y, rt) in okkeys}

    for ci, (c, r) in enumerate(zip(cases, impl)):
        N, layouts, nprocs, start, walk, dt, seed = c
        lay = {n: l for h in layouts for n, l in h.items()}
        replay_obj = {'kind': 'impl', 'case': [N, layouts, nprocs, start, [list(s) for s in walk], dt, seed]}
        desc = 'N=%r layouts=%r nprocs=%r start=%s walk=%r dtype=%s' % (N, layouts, nprocs, start, walk, dt)
        if r[0] == 'rejected':
            rejected += 1
            chk.count(('rej', N, str(layouts), str(nprocs)), nontrivial=False, stratum='%s:rejected-by-constructor' % fams[ci],
                      sample={'N': N, 'layouts': layouts, 'nprocs': nprocs, 'reason': r[1]})
            continue
        if r[0] != 'ok':
            chk.count(('fail', N, str(layouts), str(nprocs)), stratum='failed-run',
                      sample={'N': N, 'layouts': layouts, 'nprocs': nprocs, 'start': start, 'walk': walk, 'result': list(r)[:3]})
            what = r[1] if len(r) > 1 else r[0]
            info = r[3] if len(r) > 3 else None
            known = None
            if info is not None:
                cur = start
                for k, (nxt, ub, bb) in enumerate(walk):
                    known = defect_class(info, lay, cur, nxt) or defect_class(info, lay, nxt, cur)
                    if known:
                        break
                    cur = nxt
            if known:
                chk.violation(KNOWN_EQRANK, '%s: run outcome %s; the route of step %d contains the direct transition %s <-> %s between handlers '
                              'with communicators on topology axes %r that distribute different dimensions (topology %r)'
                              % (desc, list(r)[1:3], k, known[0], known[1], info['axes'], info['topo']),
                              dict(replay_obj, observed=list(r)[:3], pair=list(known)))
                continue
            et = ''
            if what == 'exception' and len(r) > 2:
                parts = r[2].split(':')
                et = '-' + parts[1].strip() if len(parts) > 1 else ''
            chk.violation('layout.LayoutSwapper.transpose:%s%s' % (what, et), '%s: run outcome %s' % (desc, list(r)[1:3]),
                          dict(replay_obj, observed=list(r)[:3]))
            continue
        res = r[1]
        info = res[0]
        nr = len(res)
        # the handlers' coordinates are the topology coordinates on the recovered axes; blocks follow bstart
        for w in range(nr):
            for n in lay:
                st, sh = own_block(N, lay[n], info, n, w)
                if st != res[w]['starts'][n] or sh != res[w]['shape'][n] or -1 in info['axes'][info['handler'][n]]:
                    chk.violation('layout.LayoutSwapper.__init__:block-not-at-topology-coordinate',
                                  '%s: rank %d layout %s has starts %r shape %r, topology coordinates on axes %r give %r %r'
                                  % (desc, w, n, res[w]['starts'][n], res[w]['shape'][n], info['axes'], st, sh), replay_obj)
                    break
        cur = start
        for k, (nxt, ub, bb) in enumerate(walk):
            route = model_route(info, cur, nxt)
            kinds = step_kinds(info, cur, route)
            st = '%dd:%s:%s:%s:%s:%s' % (len(N), fams[ci] if fams[ci] != 'random' else 'random', grid_class(info['topo']),
                                          kinds or 'copy', evenness(N, lay[cur], info, cur), 'buf' if ub else 'nobuf')
            chk.count((N, str(layouts), str(nprocs), cur, nxt, ub, dt), nontrivial=(cur != nxt and nr > 1), stratum=st,
                      sample={'N': N, 'layouts': layouts, 'nprocs': nprocs, 'topology': info['topo'], 'axes': info['axes'],
                              'source': cur, 'dest': nxt, 'route': route, 'buffer': ub, 'dtype': dt})
            rep1 = dict(replay_obj, step=k, source=cur, dest=nxt)
            bad = None
            key = 'wrong-data'
            for w in range(nr):
                o = res[w]['out'][k]
                if o['dest'] != o['expect'] or not o['cplx_ok']:
                    bad = 'rank %d holds %r in the destination block, the global field there is %r' % (w, o['dest'][:12], o['expect'][:12])
                    break
                if not o['src_same']:
                    bad, key = 'rank %d: source block modified although a spare buffer was supplied' % w, 'source-modified'
                    break
                if o['back'] != o['src']:
                    bad, key = 'rank %d: moving back gives %r, the original block was %r' % (w, o['back'][:12], o['src'][:12]), 'back-differs'
                    break
                if not o['cur_ok']:
                    bad, key = 'rank %d: nProcs/mpiCoords/nDistributedDirections do not follow the destination layout' % w, 'current-manager'
                    break
            if bad is None:
                # replicas: world ranks with the same coordinates on the destination handler's axes hold identical data
                hb = info['handler'][nxt]
                groups = {}
                for w in range(nr):
                    groups.setdefault(tuple(res[w]['hcoords'][hb]), []).append(w)
                for ws in groups.values():
                    for w in ws[1:]:
                        chk.cov['certificates_checked'] += 1
                        if res[w]['out'][k]['dest'] != res[ws[0]]['out'][k]['dest']:
                            bad, key = 'replicas %d and %d of layout %s differ' % (ws[0], w, nxt), 'replicas-differ'
            okv = okres.get((ci, k))
            if bad and (defect_class(info, lay, cur, nxt) or defect_class(info, lay, nxt, cur)):
                chk.violation(KNOWN_EQRANK, '%s step %d %s -> %s (route %r, topology %r axes %r): %s'
                              % (desc, k, cur, nxt, route, info['topo'], info['axes'], bad), dict(rep1, what=bad))
                cur = nxt
                continue
            if bad:
                chk.violation('layout.LayoutSwapper.transpose:%s' % key,
                              '%s step %d %s -> %s (route %r, kinds %s, topology %r axes %r): %s'
                              % (desc, k, cur, nxt, route, kinds, info['topo'], info['axes'], bad), dict(rep1, what=bad))
                cur = nxt
                continue
            m = mres[(ci, k)]
            got = ' ; '.join(' '.join(map(str, res[w]['out'][k]['dest'])) for w in range(nr))
            if ' '.join(m.split()) != ' '.join(got.split()):
                chk.cov['disagreements_checked'] += 1
                chk.violation('layout.LayoutSwapper.transpose:model-mismatch',
                              '%s step %d %s -> %s route %r: implementation matches the global field but sw_run_route differs (%s)'
                              % (desc, k, cur, nxt, route, m[:80]),
                              dict(rep1, kind='correspondence', theorem='c03_route_correct / sw_run_route'), no_input=True)
            cur = nxt
    frame_cmp = 0
    for (ci, k), m in fres.items():
        N, layouts, nprocs, start, walk, dt, seed = cases[ci]
        res = impl[ci][1]
        if any(res[w]['out'][k]['dest'] != res[w]['out'][k]['expect'] for w in range(len(res))):
            continue            # reported above with its failing input
        frame_cmp += 1
        nxt, ub, bb = walk[k]
        groups = [g.strip() for g in m.split(';;')]
        for gi, nm in enumerate(('source', 'dest', 'buf')):
            if nm == 'buf' and not ub:
                continue
            got = ' ; '.join(' '.join(map(str, res[w]['out'][k]['mem'][gi])) for w in range(len(res)))
            if len(groups) != 3 or groups[gi].split() != got.split():
                chk.cov['disagreements_checked'] += 1
                chk.violation('layout.LayoutSwapper.transpose:%s-array-differs-from-memory-model' % nm,
                              'N=%r layouts=%r nprocs=%r start=%s walk=%r step %d (-> %s, buffer=%s): the %s arrays after the transpose are %s, '
                              'the whole-memory model (sw_m_transpose) gives %s'
                              % (N, layouts, nprocs, start, walk, k, nxt, ub, nm, got[:200], (groups[gi] if len(groups) == 3 else m)[:200]),
                              {'kind': 'correspondence', 'theorem': 'c03_step_frame / c03_route_frame (sw_m_transpose)',
                               'case': [N, layouts, nprocs, start, [list(x) for x in walk], dt, seed], 'step': k}, no_input=True)
                break
    for (ci, k), ok in eres.items():
        chk.cov['certificates_checked'] += 1
        if ok != '1':
            N, layouts, nprocs, start, walk, dt, seed = cases[ci]
            chk.violation('layout.LayoutSwapper:step-extent-exceeds-bufferSize',
                          'N=%r layouts=%r nprocs=%r start=%s walk=%r step %d: a step of the route needs more cells than bufferSize %r '
                          '(sw_m_route_ok false)' % (N, layouts, nprocs, start, walk, k, [x['bs'] for x in impl[ci][1]]),
                          {'kind': 'certificate', 'theorem': 'c03_route_frame (sw_m_route_ok with E = bufferSize)',
                           'case': [N, layouts, nprocs, start, [list(x) for x in walk], dt, seed], 'step': k}, no_input=True)
    # certificate: every route the implementation took consists of steps acceptable to the theorem
    for (ci, k), ok in okres.items():
        chk.cov['certificates_checked'] += 1
        if ok != '1':
            cur, nxt, route = okinfo[(ci, k)]
            N, layouts, nprocs, start, walk, dt, seed = cases[ci]
            info = impl[ci][1][0]
            lay = {n: l for h in layouts for n, l in h.items()}
            if defect_class(info, lay, cur, nxt):
                continue            # reported with its failing input above
            chk.violation('layout.LayoutSwapper:route-step-not-well-formed',
                          'N=%r layouts=%r nprocs=%r topology=%r axes=%r: route %s -> %s = %r has a step that does not satisfy '
                          'sw_step_wf_b / sw_int_wf_b (answer %s)' % (N, layouts, nprocs, info['topo'], info['axes'], cur, nxt, route, ok),
                          {'kind': 'certificate', 'theorem': 'c03_route_correct (sw_route_ok_b)',
                           'case': [N, layouts, nprocs, start, [list(s) for s in walk], dt, seed], 'route': [cur, nxt, route]}, no_input=True)
    # cross-check of the extraction inside Coq: three fixed steps and a sample of this run's routes
    def coq_list(l):
        return '[' + ';'.join(str(x) for x in l) + ']'

    def coq_node(tok):
        h, dims, ax = [x.split() for x in tok.split(',')]
        return '(%s, (%s, %s))' % (h[0], coq_list(dims), coq_list(ax))
    sample_terms, sample_expect = [], []
    for line, (ci, k) in zip(mlines, mkeys):
        if len(sample_terms) >= 4:
            break
        head, bufs = line[len('swroute '):].split(';', 1)
        n, topo, nodes = head.split('|')
        nodes = [x for x in nodes.split('/')]
        if len(line) > 500 or not (2 <= len(nodes) <= 3) or (ci + k) % 7 != 0:
            continue
        sample_terms.append('sw_run_route nat 99 %s %s %d %s [%s] [%s]'
                            % (coq_list(n.split()), coq_list(topo.split()), len(n.split()) - 1, coq_node(nodes[0]),
                               ';'.join(coq_node(x) for x in nodes[1:]), ';'.join(coq_list(b.split()) for b in bufs.split(';'))))
        sample_expect.append(mres[(ci, k)])
    terms = ['sw_run_step nat 99 [2;2;2] [2;2] 2 ([0;2;1],[0;1]) ([0;2;1],[0]) [[0;2];[1;3];[4;6];[5;7]]',
             'sw_run_step nat 99 [3;2;2] [1;2] 2 ([2;1;0],[1]) ([1;2;0],[0;1]) [[0;4;8;2;6;10];[1;5;9;3;7;11]]',
             'sw_run_step nat 99 [3;2;2] [3;1] 2 ([0;2;1],[0]) ([0;1;2],[1]) [[0;2;1;3];[4;6;5;7];[8;10;9;11]]']
    vals = core.coq_eval(terms + sample_terms, 'From Coq Require Import List. Import ListNotations. From PGV Require Import SwapperExec SwapperRoute.', tag='c03')
    m2 = core.model(['swstep 2 2 2 | 2 2 | 0 , 0 2 1 , 0 1 / 1 , 0 2 1 , 0 ; 0 2 ; 1 3 ; 4 6 ; 5 7',
                     'swstep 3 2 2 | 1 2 | 0 , 2 1 0 , 1 / 1 , 1 2 0 , 0 1 ; 0 4 8 2 6 10 ; 1 5 9 3 7 11',
                     'swstep 3 2 2 | 3 1 | 0 , 0 2 1 , 0 / 1 , 0 1 2 , 1 ; 0 2 1 3 ; 4 6 5 7 ; 8 10 9 11'])
    for v, m in zip(vals, m2 + sample_expect):
        if v.replace('[', '').replace(']', ' ;').replace(';', ' ').split() != m.replace(';', ' ').split():
            raise core.BrokenCheck('extraction and vm_compute disagree: %s vs %s' % (v, m))
    chk.assumptions += ['numpy view/reshape/transpose/slice assignment semantics (read into gather form in ScatterStep.v / GatherStep.v)',
                        'simulated MPI: Create_cart row-major, Sub communicators identified with topology axes, Allgather = blocks in rank order',
                        'Layout.mpi_starts / mpi_lengths follow bstart / blen (C02; re-checked here on every rank of every configuration)',
                        'the whole-memory model passes the arrays to Allgather / unpack / slice assignment exactly as _transpose and _transpose_source_intact do; '
                        'the complete source / dest / buf arrays are compared with it on every case small enough']
    return chk.finish(proof,
                      rule='fullSimulation grouping on every grid <= %dx%d, upstream groupings (incl. the 4-D two-handler family), seeded random '
                           'groupings (2-D handler + 1-D handlers + serial handler [1]/[1,1]) accepted by the constructor; 3-D extents 1-7, 4-D extents 1-5 (1-7 in a fifth of the cases), '
                           'process counts <= extents; walks of 1-6 transposes, buffer or not, float/complex; non-trivial = different layouts on more '
                           'than one rank; distinct = (shape, grouping, grid, source, dest, buffer, dtype)' % ((3, 3) if chk.tier == 'quick' else (4, 4)),
                      extra={'rejected_by_constructor': rejected, 'coq_eval_cross_checks': len(terms) + len(sample_terms), 'whole_array_comparisons': frame_cmp},
                      uncovered=['the constructor model sw_ctor (choice of topology axes) is tied by the differential only; the steps do not rely on it: the axes '
                                 'recovered from the implementation\'s communicators are validated by sw_step_wf_b / sw_int_wf_b on every step of every route taken',
                                 'connectivity of the layout graph / route construction (_makeConnectionMap) is C06\'s subject; routes are certificates here',
                                 'that _compatibleLayout / getAxes imply sw_step_wf_b is checked per route (certificate), not proved',
                                 'extent <= bufferSize: proved for gather / scatter steps against the constructor model sw_bufsize (c03_gather_scatter_within_pB, '
                                 'c03_ctor_reserves_pB, c03_bufsize_ge_pairs; sw_bufsize = _buffer_size compared on every rank) and for handler swaps at handler level (C01/C02); '
                                 'for handler-internal and same-distribution steps of a sub-handler inside the swapper it is checked per route (sw_m_route_ok with E = bufferSize)',
                                 'process counts larger than the extent they distribute (empty blocks) are not generated'])


def replay(path):
    core.setup_paths()
    body = json.load(open(path))
    c = body['replay']['case']
    case = (c[0], c[1], c[2], c[3], [tuple(s) for s in c[4]], c[5], c[6])
    r = impl_case(case)
    if r[0] != 'ok':
        print('run outcome', r[:3])
        return 0 if r[0] == 'rejected' else 1
    if 'sw_ctor' in str(body['replay'].get('theorem', '')):
        info = r[1][0]
        line = 'swctor %s | %s' % (' / '.join(' , '.join(' '.join(map(str, l)) for l in h.values()) for h in case[1]),
                                   ' / '.join(' '.join(map(str, [p] if isinstance(p, int) else p)) for p in case[2]))
        m = core.model([line])[0]
        got = '%d | %s | %s' % (info['largest'], ' '.join(map(str, info['topo'])), ' / '.join(' '.join(map(str, a)) for a in info['axes']))
        print('constructor: largest | topology | axes =', got, '; model sw_ctor:', m)
        if ' '.join(m.split()) != ' '.join(got.split()):
            return 1
    bad = 0
    cur = c[3]
    for k, (nxt, ub, bb) in enumerate(case[4]):
        for w, res in enumerate(r[1]):
            o = res['out'][k]
            if o['dest'] != o['expect'] or not o['src_same'] or o['back'] != o['src'] or not o['cur_ok'] or not o['cplx_ok']:
                bad += 1
                print('step', k, cur, '->', nxt, 'rank', w, 'dest', o['dest'][:16], 'expected', o['expect'][:16],
                      'source intact', o['src_same'], 'back ok', o['back'] == o['src'], 'current manager ok', o['cur_ok'])
        cur = nxt
    print('replayed %d transposes on %d ranks, %d wrong' % (len(case[4]), len(r[1]), bad))
    return 1 if bad else 0
