"""
Shared helpers of the checks C10 (flux-surface advection), C11 (v-parallel advection) and C13 (parallel
gradient): the lifted kernel modules (real source on Fractions), the rational stand-ins for
pi / exp / tanh / sqrt (the same ones as AdvQc.vpq_ext), real pygyro objects built on chosen grids,
execution of the *real numpy-level methods* of pygyro/advection/advection.py on exact numbers (the
method source runs unchanged; the module-level names np / pi / solve and the kernels it calls are
rebound to exact counterparts for the duration of the call), wire formats, float <-> rational.
"""
import math
import types
import warnings
from contextlib import contextmanager
from fractions import Fraction as F

import numpy as np

import core
import qlift
from qlift import qstr, qparse

U = 2.0 ** -53
PI = F(22, 7)                                  # AdvQc.vpq_ext / c10_ex_pi


def EXP(x):
    return 1 / (1 + x * x)


def TANH(x):
    return x / (1 + x * x)


def SQRT(x):
    return (1 + x) / 2


_NS = {}


def lifted():
    """(nu, cu, init, adv): the four kernel modules of the tree under test on exact numbers"""
    if 'adv' not in _NS:
        nu = qlift.load('pygyro/splines/spline_eval_funcs.py')
        cu = qlift.load('pygyro/splines/cubic_uniform_spline_eval_funcs.py')
        init = qlift.load('pygyro/initialisation/initialiser_funcs.py',
                          extra={'exp': EXP, 'tanh': TANH, 'sqrt': SQRT, 'pi': PI})
        adv = qlift.load('pygyro/advection/accelerated_advection_steps.py', extra={'pi': PI}, prior=[nu, cu, init])
        _NS.update(nu=nu, cu=cu, init=init, adv=adv)
    return _NS['nu'], _NS['cu'], _NS['init'], _NS['adv']


def oarr(xs):
    """object array from nested lists, entries kept as they are"""
    shape = np.shape(xs)
    a = np.empty(shape, dtype=object)
    if len(shape) == 1:
        for i, v in enumerate(xs):
            a[i] = v
    else:
        for i, v in enumerate(xs):
            a[i] = oarr(v)
    return a


def fr(x):
    return F(*float(x).as_integer_ratio())


def frl(a):
    return [fr(x) for x in np.asarray(a, dtype=float).ravel()]


def qs(l):
    return ' '.join(qstr(q) for q in l)


def parse_rows(ans):
    """'ok a b ; c d' -> [[a,b],[c,d]] of Fractions; other answers are returned as they are"""
    if not ans.startswith('ok'):
        return ans
    body = ans[2:].strip()
    if not body:
        return []
    return [[qparse(t) for t in row.split()] for row in body.split(';')]


def parse_list(ans):
    if not ans.startswith('ok'):
        return ans
    return [qparse(t) for t in ans[2:].split()]


def exc_class(e):
    if isinstance(e, IndexError):
        return 'err index'
    if isinstance(e, ZeroDivisionError):
        return 'err div'
    return 'exc %s' % type(e).__name__


# ------------------------------------------------------------------------------------------------
# exact spline spaces (for the lifted kernels)

def make_knots_exact(breaks, p, periodic):
    if periodic:
        period = breaks[-1] - breaks[0]
        return [x - period for x in breaks[-p - 1:-1]] + list(breaks) + [x + period for x in breaks[1:p + 1]]
    return [breaks[0]] * p + list(breaks) + [breaks[-1]] * p


def gen_breaks(rng, a, b, ncells, uniform):
    if uniform:
        return [a + (b - a) * F(i, ncells) for i in range(ncells + 1)]
    w = [rng.choice([1, 2, 3, 5]) for _ in range(ncells)]
    if len(set(w)) == 1:
        w[0] += 1
    tot = sum(w)
    br = [a]
    for x in w:
        br.append(br[-1] + (b - a) * F(x, tot))
    br[-1] = b
    return br


def theta_space(rng, kind, ncells, degree=3, uniform=True, twopi=2 * PI):
    """periodic spline space on [0, 2 pi): knots as the kernels receive them, nodes, #coefficients"""
    br = gen_breaks(rng, F(0), twopi, ncells, uniform or kind == 'cu')
    if kind == 'cu':
        knots = [F(0), twopi, twopi / ncells, F(ncells)]
        degree = 3
    else:
        knots = make_knots_exact(br, degree, True)
    # Greville-like nodes: the break points (odd degree) or the cell centres (even degree)
    nodes = br[:-1] if degree % 2 == 1 else [(x + y) / 2 for x, y in zip(br[:-1], br[1:])]
    return {'kind': kind, 'cu': kind == 'cu', 'degree': degree, 'knots': knots, 'nodes': nodes, 'ncoef': ncells + degree,
            'ncells': ncells, 'breaks': br}


def clamped_space(rng, kind, a, b, ncells, degree=3, uniform=True):
    br = gen_breaks(rng, a, b, ncells, uniform or kind == 'cu')
    if kind == 'cu':
        knots = [a, b, (b - a) / ncells, F(ncells)]
        degree = 3
    else:
        knots = make_knots_exact(br, degree, False)
    T = make_knots_exact(br, degree, False)
    grev = [sum(T[i + 1:i + degree + 1], F(0)) / degree for i in range(ncells + degree)]
    return {'kind': kind, 'cu': kind == 'cu', 'degree': degree, 'knots': knots, 'nodes': grev, 'ncoef': ncells + degree,
            'ncells': ncells, 'breaks': br}


def periodic_coeffs(rng, sp, style='random'):
    n, p, nc = sp['ncoef'], sp['degree'], sp['ncells']
    if style == 'const':
        return [F(rng.randint(-9, 9), rng.choice([1, 2, 3]))] * n
    c = [F(rng.randint(-40, 40), rng.choice([1, 2, 3, 5, 7])) for _ in range(nc)]
    return c + c[:p]


def spline_eval(sp, coeffs, x):
    """the lifted scalar entry point of the tree under test (used by the direct oracles)"""
    nu, cu, _, _ = lifted()
    f = cu['cu_eval_spline_1d_scalar'] if sp['cu'] else nu['nu_eval_spline_1d_scalar']
    return f(x, oarr(sp['knots']), sp['degree'], oarr(coeffs), 0)


# ------------------------------------------------------------------------------------------------
# real objects

LAYOUTS4 = {'flux_surface': [0, 3, 1, 2], 'v_parallel': [0, 2, 1, 3], 'poloidal': [3, 2, 1, 0]}


def real_spaces(npts, degrees, uniform=(True, True, True, True), rng=None, dom=None):
    """BSplines and eta grids like setups.setupCylindricalGrid builds them (optionally non-uniform)"""
    from pygyro.splines import splines as spl
    dom = dom or [[0.1, 14.5], [0.0, 2 * math.pi], [0.0, 1506.759067], [-7.32, 7.32]]
    period = [False, True, True, False]
    bs = []
    for n, d, per, lim, uni in zip(npts, degrees, period, dom, uniform):
        ncells = n if per else n + 1 - d
        if uni:
            breaks = np.linspace(lim[0], lim[1], ncells + 1)
        else:
            w = np.array([rng.choice([1.0, 1.5, 2.0, 0.75]) for _ in range(ncells)])
            breaks = lim[0] + (lim[1] - lim[0]) * np.concatenate([[0.0], np.cumsum(w) / w.sum()])
            breaks[-1] = lim[1]
        knots = spl.make_knots(breaks, d, per)
        bs.append(spl.BSplines(knots, d, per, bool(uni)))
    return bs, [b.greville for b in bs]


def real_constants(iota=0.8, slope=None, **kw):
    from pygyro.initialisation.constants import Constants
    with warnings.catch_warnings():
        warnings.simplefilter('ignore')
        c = Constants()
    c.iotaVal = iota
    for k, v in kw.items():
        setattr(c, k, v)
    if slope is not None:
        c.iota = lambda r=c.rp, _v=iota, _s=slope: np.full_like(r, _v, dtype=float) * (1.0 + _s * np.asarray(r, dtype=float))
    return c


def real_layout(name, dims_order, eta_grid):
    from pygyro.model.layout import Layout
    return Layout(name, [1, 1], dims_order, eta_grid, [0, 0])


def own_tools(basis):
    """an interpolator and a spline of the harness's own on the same space: the coefficients the code computes (same calls,
    same bits) without touching the state of the object under test"""
    from pygyro.splines.splines import Spline1D
    from pygyro.splines.spline_interpolators import SplineInterpolator1D
    return SplineInterpolator1D(basis), Spline1D(basis)


def spline_coeff_rows(interp, spline, cols):
    """the coefficients the code itself computes for each column (same calls, same bits)"""
    out = []
    for c in cols:
        interp.compute_interpolant(np.array(c, dtype=float), spline)
        out.append(np.array(spline.coeffs, dtype=float).copy())
    return out


def knots_wire(basis):
    return frl(basis.knots)


# ------------------------------------------------------------------------------------------------
# the real numpy-level methods on exact numbers

class _NPX:
    """numpy as seen by advection.py while one of its methods runs on Fractions"""

    def __init__(self):
        self._np = np

    def __getattr__(self, name):
        return getattr(self._np, name)

    @staticmethod
    def empty(shape, dtype=None, **kw):
        if dtype is int:
            return np.empty(shape, dtype=int)
        return np.empty(shape, dtype=object)

    @staticmethod
    def ndarray(shape, dtype=None, **kw):
        if dtype is int:
            return np.ndarray(shape, dtype=int)
        return np.empty(shape, dtype=object)

    @staticmethod
    def zeros(shape, dtype=None, **kw):
        z = np.empty(shape, dtype=object)
        z[...] = F(0)
        return z

    @staticmethod
    def eye(n, **kw):
        z = np.empty((n, n), dtype=object)
        for i in range(n):
            for j in range(n):
                z[i, j] = F(1 if i == j else 0)
        return z

    @staticmethod
    def floor(a):
        return np.vectorize(lambda x: math.floor(x), otypes=[object])(a)

    @staticmethod
    def sqrt(a):
        return np.vectorize(SQRT, otypes=[object])(a)

    @staticmethod
    def real(a):
        return a


def exact_solve(A, b):
    """Gauss-Jordan on Fractions with a final check A x = b"""
    n = len(b)
    M = [[F(A[i][j]) for j in range(n)] + [F(b[i])] for i in range(n)]
    for c in range(n):
        p = next(r for r in range(c, n) if M[r][c] != 0)
        M[c], M[p] = M[p], M[c]
        pv = M[c][c]
        M[c] = [x / pv for x in M[c]]
        for r in range(n):
            if r != c and M[r][c] != 0:
                fct = M[r][c]
                M[r] = [x - fct * y for x, y in zip(M[r], M[c])]
    x = [M[i][n] for i in range(n)]
    for i in range(n):
        assert sum(F(A[i][j]) * x[j] for j in range(n)) == F(b[i])
    return x


def _solve_obj(A, b):
    return oarr(exact_solve([[A[i, j] for j in range(A.shape[1])] for i in range(A.shape[0])], list(b)))


@contextmanager
def exact_advection_module():
    """pygyro.advection.advection with np / pi / solve and the four kernels rebound to exact versions.
    Its classes' methods can then be called (unbound) on duck-typed objects holding Fraction arrays:
    the statements executed are those of the tree under test."""
    import pygyro.advection.advection as A
    _, _, _, adv = lifted()
    names = {'np': _NPX(), 'pi': PI, 'solve': _solve_obj,
             'get_lagrange_vals': adv['get_lagrange_vals'], 'flux_advection': adv['flux_advection'],
             'v_parallel_advection_eval_step': adv['v_parallel_advection_eval_step']}
    old = {k: getattr(A, k) for k in names}
    try:
        for k, v in names.items():
            setattr(A, k, v)
        yield A
    finally:
        for k, v in old.items():
            setattr(A, k, v)


class FakeSpline:
    """Spline1D stand-in: holds the coefficient rows chosen by the case, evaluates with the lifted kernels"""

    def __init__(self, sp, rows):
        self.basis = types.SimpleNamespace(knots=oarr(sp['knots']), degree=sp['degree'], cubic_uniform=sp['cu'])
        self._sp = sp
        self._rows = rows
        self.coeffs = oarr(rows[0]) if rows else None

    def eval_vector(self, x, y, der=0):
        nu, cu, _, _ = lifted()
        f = cu['cu_eval_spline_1d_vector'] if self._sp['cu'] else nu['nu_eval_spline_1d_vector']
        f(x, self.basis.knots, self.basis.degree, self.coeffs, y, der)


class FakeInterp:
    """SplineInterpolator1D stand-in: call number t installs coefficient row t (the solve itself is C08's)"""

    def __init__(self, rows, key=None):
        self.rows = rows
        self.t = 0
        self.key = key

    def compute_interpolant(self, ug, spl):
        r = self.t if self.key is None else self.key(ug)
        spl.coeffs = oarr(self.rows[r])
        self.t += 1


def model_par(lines, nproc=16, timeout=3000):
    """core.model on up to nproc processes; requests are dealt out by decreasing length (cost proxy)"""
    if len(lines) <= 1:
        return core.model(lines, timeout)
    from concurrent.futures import ThreadPoolExecutor
    order = sorted(range(len(lines)), key=lambda i: -len(lines[i]))
    k = min(nproc, len(lines))
    buckets = [[] for _ in range(k)]
    load = [0] * k
    for i in order:
        b = load.index(min(load))
        buckets[b].append(i)
        load[b] += len(lines[i]) ** 2
    with ThreadPoolExecutor(k) as ex:
        outs = list(ex.map(lambda b: core.model([lines[i] for i in b], timeout), buckets))
    ans = [None] * len(lines)
    for b, o in zip(buckets, outs):
        for i, a in zip(b, o):
            ans[i] = a
    return ans
