"""
C12 - poloidal advection: 2nd-order ExB characteristics (explicit Heun / implicit trapezoid), theta modulo
2*pi, fill rule outside the radial domain, interpolation at the foot.

Proof: Props/C12.v (PolAdvModel.v, PolAdvTheory.v, PolAdvQc.v on top of the spline model of C07).

Tie (the gate): pygyro/advection/accelerated_advection_steps.py is executed *exactly* (qlift: the real
source of poloidal_advection_step_expl / _impl and of the general_ kernels they dispatch to, on
fractions.Fraction, `pi` bound to a positive rational, f_eq = the lifted initialiser_funcs.f_eq with
rational stand-ins for exp/tanh/sqrt) and compared, as reduced rationals, with the extracted Qc model:
new f, foot theta, foot r at every node, number of sweeps of the implicit loop.  The implicit loop is
capped without touching the source: the `abs` handed to the lifted module counts its calls (two per
node and sweep) and raises after `fuel` sweeps - the same budget is the model's fuel, so that
"does not stop within fuel sweeps" is an outcome compared exactly (PolOutOfFuel).

Direct oracle (independent of the model and of the kernels): a plain re-statement of the property's
first sentence on Fractions (trapezoidal foot of (-d_r phi, d_theta phi)/(r B0), theta mod 2 pi, fill
rule), using only the 2-D scalar spline evaluator of the spline module; plus closed forms: constant
potential -> feet = nodes and f = S(node); phi = omega r^2/2 -> foot theta = theta - omega dt/B0 exactly.
It classifies a mismatch: oracle differs from the code -> failing input; oracle agrees with the code
but not with the model -> the correspondence no longer checks.

Float link (not the gate): the real PoloidalAdvection.step on binary64 vs the exact execution on the
tables the class built (coefficients read back as exact rationals, pi = the double) under a running
error bound (absolute-value shadow run of the lifted kernel, node by node); nodes whose foot is within
1e-9 of the radial boundary, or whose shadow run meets an ambiguous comparison, are excluded.  The
exact model is evaluated on a sample of those nodes and must equal the exact execution.

Termination of the implicit iteration: the real implementation is run in workers under an alarm; a run
that does not stop is classified by the contraction predicate dt/(2 B0) * Lip(grad phi / r) >= 1.
"""
import json
import math
import random
import re
import time
import warnings
from fractions import Fraction as F

import numpy as np

import core
import implrun
import qlift
from qlift import qstr, qparse

NU_MOD = 'pygyro/splines/spline_eval_funcs.py'
CU_MOD = 'pygyro/splines/cubic_uniform_spline_eval_funcs.py'
INI_MOD = 'pygyro/initialisation/initialiser_funcs.py'
ADV_MOD = 'pygyro/advection/accelerated_advection_steps.py'
SITE_E = 'poloidal_advection_step_expl'
SITE_I = 'poloidal_advection_step_impl'
KEY_NONTERM = SITE_I + ':non-contractive-potential'


# ------------------------------------------------------------------------------------------------
# rational stand-ins (the same compositions are PolAdvModel.pol_exp_s / pol_tanh_s / pol_sqrt_s)

def exp_s(x):
    return 1 + x + x * x / 2


def tanh_s(x):
    return x / (1 + x * x)


def sqrt_s(x):
    return (1 + x) / 2


def feq_oracle(PI, consts, r, v):
    """independent composition of f_eq on the stand-ins"""
    CN0, kN0, dRN0, rp, CTi, kTi, dRTi = consts
    n0 = CN0 * exp_s(-kN0 * dRN0 * tanh_s((r - rp) / dRN0))
    Ti = CTi * exp_s(-kTi * dRTi * tanh_s((r - rp) / dRTi))
    return n0 * exp_s(-F(1, 2) * v * v / Ti) / sqrt_s(2 * PI * Ti)


class SweepCap(Exception):
    pass


class CountingAbs:
    """the `abs` of the lifted kernel: counts calls, raises after `limit` calls"""

    def __init__(self):
        self.n = 0
        self.limit = None

    def __call__(self, x):
        self.n += 1
        if self.limit is not None and self.n > self.limit:
            raise SweepCap()
        return abs(x)


_NS = {}


def lifted(PI):
    """the kernel modules of the tree under test, executed on exact numbers, for one value of pi"""
    key = ('adv', PI)
    if key not in _NS:
        if 'nu' not in _NS:
            _NS['nu'] = qlift.load(NU_MOD)
            _NS['cu'] = qlift.load(CU_MOD)
        ini = qlift.load(INI_MOD, extra={'exp': exp_s, 'tanh': tanh_s, 'sqrt': sqrt_s, 'pi': PI})
        cabs = CountingAbs()
        adv = qlift.load(ADV_MOD, extra={'pi': PI, 'abs': cabs}, prior=[_NS['nu'], _NS['cu'], ini])
        _NS[key] = (adv, cabs)
    return _NS[key]


# ------------------------------------------------------------------------------------------------
# spline spaces on exact numbers

def make_knots(breaks, p, periodic):
    """pygyro.splines.splines.make_knots on exact numbers"""
    if periodic:
        period = breaks[-1] - breaks[0]
        return [x - period for x in breaks[-p - 1:-1]] + list(breaks) + [x + period for x in breaks[1:p + 1]]
    return [breaks[0]] * p + list(breaks) + [breaks[-1]] * p


def greville(T, p, nbasis, periodic, a, b):
    s = 1 + p // 2 if periodic else 1
    x = [sum(T[i:i + p], F(0)) / p for i in range(s, s + nbasis)]
    if periodic:
        x = [(xi - a) % (b - a) + a for xi in x]
    return x


def gen_space(rng, path, nq, nr, pq, pr, PI, uq, ur, rmin, h):
    """theta: periodic, nq basis functions on [0, 2 pi]; r: clamped, nr basis functions on [rmin, rmin + h*ncr]"""
    if path == 'cu':
        pq = pr = 3
        uq = ur = True
    ncq, ncr = nq, nr - pr
    eq = [F(0)] * (ncq + 1) if uq else [F(0)] + [F(rng.choice([-1, 0, 0, 1]), 4) for _ in range(ncq - 1)] + [F(0)]
    er = [F(0)] * (ncr + 1) if ur else [F(0)] + [F(rng.choice([-1, 0, 0, 1]), 4) for _ in range(ncr - 1)] + [F(0)]
    qb = [2 * PI * (i + eq[i]) / ncq for i in range(ncq + 1)]
    rb = [rmin + h * (i + er[i]) for i in range(ncr + 1)]
    sp = {'path': path, 'pq': pq, 'pr': pr, 'nq': nq, 'nr': nr, 'qb': qb, 'rb': rb, 'uq': uq, 'ur': ur}
    if path == 'cu':
        sp['kq'] = [qb[0], qb[-1], (qb[-1] - qb[0]) / ncq, F(ncq)]
        sp['kr'] = [rb[0], rb[-1], (rb[-1] - rb[0]) / ncr, F(ncr)]
        dq, dr = sp['kq'][2], sp['kr'][2]
        sp['gq'] = [qb[0] + dq * i for i in range(ncq)]
        sp['gr'] = [rb[0], rb[0] + dr / 3] + [rb[0] + dr * i for i in range(1, ncr)] + [rb[-1] - dr / 3, rb[-1]]
        sp['kr_ext'] = [rb[0] + (i - 3) * dr for i in range(ncr + 7)]
    else:
        sp['kq'] = make_knots(qb, pq, True)
        sp['kr'] = make_knots(rb, pr, False)
        sp['gq'] = greville(sp['kq'], pq, nq, True, qb[0], qb[-1])
        sp['gr'] = greville(sp['kr'], pr, nr, False, rb[0], rb[-1])
        sp['kr_ext'] = sp['kr']
    sp['rows'] = ncq + pq          # coefficient rows (periodic: the first pq are repeated)
    sp['cols'] = nr
    return sp


def wrap_rows(sp, rows):
    return [list(r) for r in rows] + [list(r) for r in rows[:sp['pq']]]


def quad_coeffs(sp, omega):
    """coefficients of omega r^2/2 (constant in theta): the blossom of x^2 at the knots t_{j+1..j+p}"""
    p, T = sp['pr'], sp['kr_ext']
    row = []
    for j in range(sp['nr']):
        t = T[j + 1:j + p + 1]
        s = sum((t[a] * t[b] for a in range(p) for b in range(a + 1, p)), F(0))
        row.append(omega / 2 * s * 2 / (p * (p - 1)))
    return [list(row) for _ in range(sp['rows'])]


# ------------------------------------------------------------------------------------------------
# a case: everything the kernels receive

def case_args(c):
    sp = c['sp']
    return sp['kq'], sp['kr'], sp['pq'], sp['pr']


def run_lifted(c):
    """the real source on Fractions.  ('ok', sweeps|None, f, q, r) | ('outoffuel',) | ('err', kind) | ('exc', name)"""
    adv, cabs = lifted(c['PI'])
    sp = c['sp']
    nq, nr = len(c['qPts']), len(c['rPts'])
    f = np.empty((nq, nr), dtype=object)
    W = [np.empty((nq, nr), dtype=object) for _ in range(8)]
    kq, kr = qlift.arr(sp['kq']), qlift.arr(sp['kr'])
    a = [f, c['dt'], c['v'], qlift.arr(c['rPts']), qlift.arr(c['qPts'])] + W + \
        [kq, kr, qlift.arr(c['cphi']), sp['pq'], sp['pr'], kq, kr, qlift.arr(c['cpol']), sp['pq'], sp['pr']] + \
        list(c['consts']) + [c['B0']]
    cabs.n = 0
    cabs.limit = None
    try:
        if c['scheme'] == 'expl':
            adv['poloidal_advection_step_expl'](*a, sp['path'] == 'cu', c['nul'])
            sweeps = None
        else:
            cabs.limit = 2 * nq * nr * c['fuel']
            adv['poloidal_advection_step_impl'](*a, c['tol'], sp['path'] == 'cu', c['nul'])
            sweeps = cabs.n // (2 * nq * nr) if nq * nr else 0
    except SweepCap:
        return ('outoffuel',)
    except ZeroDivisionError:
        return ('err', 'div')
    except IndexError:
        return ('err', 'index')
    except implrun.CaseTimeout:
        raise
    except Exception as e:
        return ('exc', type(e).__name__ + ': ' + str(e)[:120])
    finally:
        cabs.limit = None
    return ('ok', sweeps, [qstr(x) for x in f.flat], [qstr(x) for x in W[6].flat], [qstr(x) for x in W[7].flat])


def fmod(x, m):
    return x - m * math.floor(x / m)


def run_oracle(c):
    """the property's first sentence, re-stated on Fractions with the 2-D scalar evaluator only"""
    nu, cu = _NS['nu'], _NS['cu']
    sp = c['sp']
    ev = (cu['cu_eval_spline_2d_scalar'] if sp['path'] == 'cu' else nu['nu_eval_spline_2d_scalar'])
    kq, kr = qlift.arr(sp['kq']), qlift.arr(sp['kr'])
    cphi, cpol = qlift.arr(c['cphi']), qlift.arr(c['cpol'])
    pq, pr = sp['pq'], sp['pr']
    PI, dt, B0, v = c['PI'], c['dt'], c['B0'], c['v']
    twopi = 2 * PI
    rmin, rmax = c['rPts'][0], c['rPts'][-1]

    def phi(x, y, e1, e2):
        return ev(x, y, kq, pq, kr, pr, cphi, e1, e2)

    def drift(x, y):
        """(-d_r phi, d_theta phi)/(r B0)"""
        return (-phi(x, y, 0, 1) / y / B0, phi(x, y, 1, 0) / y / B0)

    def drift_or_zero(x, y):
        return drift(x, y) if rmin <= y <= rmax else (F(0), F(0))

    nodes = [(q, r) for q in c['qPts'] for r in c['rPts']]
    feet, cls = [], []
    sweeps = None
    stage1 = c.setdefault('_stage1', [])
    del stage1[:]
    try:
        if c['scheme'] == 'expl':
            for q, r in nodes:
                u0 = drift(q, r)
                q1, r1 = fmod(q + dt * u0[0], twopi), r + dt * u0[1]
                stage1.append(r1)
                u1 = drift_or_zero(q1, r1)
                feet.append((fmod(q + dt / 2 * (u0[0] + u1[0]), twopi), r + dt / 2 * (u0[1] + u1[1])))
                cls.append(['stage1-out'] if not (rmin <= r1 <= rmax) else
                           (['stage1-on-boundary'] if r1 in (rmin, rmax) else []))
        else:
            u0s = [drift(q, r) for q, r in nodes]
            x = [(q + dt * u[0], r + dt * u[1]) for (q, r), u in zip(nodes, u0s)]
            cls = [[] for _ in nodes]
            sweeps = 0
            while True:
                if sweeps >= c['fuel']:
                    return ('outoffuel',), None
                sweeps += 1
                norm = F(0)
                new = []
                for k, ((q, r), u0, (xq, xr)) in enumerate(zip(nodes, u0s, x)):
                    xq = fmod(xq, twopi)
                    u1 = drift_or_zero(xq, xr)
                    if not (rmin <= xr <= rmax):
                        cls[k] = ['stage1-out']
                    yq = fmod(q + dt / 2 * (u0[0] + u1[0]), twopi)
                    yr0 = r + dt / 2 * (u0[1] + u1[1])
                    yr = min(max(yr0, rmin), rmax)
                    if yr != yr0 and 'clipped' not in cls[k]:
                        cls[k] = cls[k] + ['clipped']
                    d = abs(yq - xq)
                    if d > twopi - d and 'norm-wrap' not in cls[k]:
                        cls[k] = cls[k] + ['norm-wrap']          # the 2 pi - diff branch of the norm is taken
                    norm = max(norm, min(d, twopi - d), abs(yr - xr))
                    new.append((yq, yr))
                x = new
                if not norm > c['tol']:
                    break
            feet = x
        out_f, out_q, out_r = [], [], []
        for k, (fq, fr) in enumerate(feet):
            if fr < rmin:
                val = F(0) if c['nul'] else feq_oracle(PI, c['consts'], rmin, v)
                cls[k].append('below')
            elif fr > rmax:
                val = F(0) if c['nul'] else feq_oracle(PI, c['consts'], fr, v)
                cls[k].append('above')
            else:
                fq = fmod(fq, twopi)
                val = ev(fq, fr, kq, pq, kr, pr, cpol, 0, 0)
                cls[k].append('on-rmin' if fr == rmin else 'on-rmax' if fr == rmax else 'inside')
            if fq == 0:
                cls[k].append('theta0')
            out_f.append(qstr(val))
            out_q.append(qstr(fq))
            out_r.append(qstr(fr))
    except ZeroDivisionError:
        return ('err', 'div'), None
    except IndexError:
        return ('err', 'index'), None
    return ('ok', sweeps, out_f, out_q, out_r), cls


def closed_forms(c, out):
    """closed-form consequences, checked on the code's exact output; returns a description or None"""
    if out[0] != 'ok':
        return None
    nr = len(c['rPts'])
    twopi = 2 * c['PI']
    rmin, rmax = c['rPts'][0], c['rPts'][-1]
    if c['kind'] in ('const', 'quad'):
        shift = F(0) if c['kind'] == 'const' else c['omega'] * c['dt'] / c['B0']
        for i, q in enumerate(c['qPts']):
            for j, r in enumerate(c['rPts']):
                k = i * nr + j
                if qparse(out[3][k]) != fmod(q - shift, twopi) or qparse(out[4][k]) != r:
                    return 'node (%d,%d): foot (%s, %s) is not the rigid rotation (theta - omega dt/B0 mod 2 pi, r)' % (
                        i, j, float(qparse(out[3][k])), float(qparse(out[4][k])))
        if c['scheme'] == 'impl' and out[1] != 1:
            return 'implicit loop made %r sweeps on a rigid rotation (1 expected)' % (out[1],)
    if c['kind'] == 'const' or (c['kind'] == 'quad' and c.get('shift_cells') is not None):
        # f = S at the (shifted) node: the table of the cross evaluation of the spline module
        nu, cu = _NS['nu'], _NS['cu']
        sp = c['sp']
        ev = (cu['cu_eval_spline_2d_cross'] if sp['path'] == 'cu' else nu['nu_eval_spline_2d_cross'])
        tab = np.empty((len(c['qPts']), nr), dtype=object)
        qs = [fmod(q, twopi) for q in c['qPts']]
        ev(qlift.arr(qs), qlift.arr(c['rPts']), qlift.arr(sp['kq']), sp['pq'], qlift.arr(sp['kr']), sp['pr'],
           qlift.arr(c['cpol']), tab, 0, 0)
        s = c.get('shift_cells') or 0
        nq = len(c['qPts'])
        for i in range(nq):
            for j in range(nr):
                if qparse(out[2][i * nr + j]) != tab[(i - s) % nq, j]:
                    return 'node (%d,%d): f is not the interpolant at the node shifted by %d cells' % (i, j, s)
    return None


def exact_case(c):
    """worker: the code and the direct oracle on one case"""
    lifted(c['PI'])
    t0 = time.time()
    out = run_lifted(c)
    t1 = time.time()
    orc, cls = run_oracle(c)
    cf = closed_forms(c, out)
    return {'impl': out, 'oracle': orc, 'cls': cls, 'closed': cf, 't': (t1 - t0, time.time() - t1),
            'stage1': [str(x) for x in c.pop('_stage1', [])]}


def ql(xs):
    return ' '.join(qstr(x) for x in xs)


def flat(g):
    return [x for row in g for x in row]


def model_line(c):
    sp = c['sp']
    hdr = '%d %d %d %d %d %d %d %d %s %s %s %s' % (
        1 if sp['path'] == 'cu' else 0, 1 if c['nul'] else 0, sp['pq'], sp['pr'], sp['cols'], sp['pq'], sp['pr'], sp['cols'],
        qstr(c['PI']), qstr(c['dt']), qstr(c['v']), qstr(c['B0']))
    cmd = 'pol.expl '
    if c['scheme'] == 'impl':
        cmd = 'pol.impl '
        hdr += ' %s %d' % (qstr(c['tol']), c['fuel'])
    return cmd + hdr + ' | ' + ' | '.join([ql(c['consts']), ql(c['rPts']), ql(c['qPts']), ql(sp['kq']), ql(sp['kr']),
                                           ql(flat(c['cphi'])), ql(sp['kq']), ql(sp['kr']), ql(flat(c['cpol']))])


def parse_model(ans, scheme):
    if ans == 'outoffuel':
        return ('outoffuel',)
    if ans.startswith('err '):
        return ('err', ans[4:])
    if not ans.startswith('ok'):
        raise core.BrokenCheck('modelrun answered %r' % ans[:200])
    parts = [p.split() for p in ans[2:].split(';')]
    if scheme == 'impl':
        return ('ok', int(parts[0][0]), parts[1], parts[2], parts[3])
    return ('ok', None, parts[0], parts[1], parts[2])


def model_par(lines, weights, nproc=16):
    """modelrun over nproc processes, longest-processing-time-first assignment"""
    if not lines:
        return []
    order = sorted(range(len(lines)), key=lambda i: -weights[i])
    nproc = max(1, min(nproc, len(lines)))
    parts, load = [[] for _ in range(nproc)], [0.0] * nproc
    for i in order:
        k = load.index(min(load))
        parts[k].append(i)
        load[k] += weights[i]
    from concurrent.futures import ThreadPoolExecutor
    with ThreadPoolExecutor(nproc) as ex:
        outs = list(ex.map(lambda part: core.model([lines[i] for i in part]), parts))
    ans = [None] * len(lines)
    for part, out in zip(parts, outs):
        for i, a in zip(part, out):
            ans[i] = a
    return ans


# ------------------------------------------------------------------------------------------------
# generators

CONSTS = [F(1, 10), F(1, 20), F(2), F(7), F(1), F(1, 10), F(3)]


def rnd(rng, den, amp=1):
    return F(rng.randint(-den, den), den) * amp


def gen_base(rng, scheme, path, kind, size, tier_full):
    """one case; size = (nq, nr) basis functions"""
    nq, nr = size
    PI = rng.choice([F(3), F(3), F(22, 7), F(25, 8), F(355, 113)])
    if path == 'cu':
        pq = pr = 3
    else:
        pq, pr = rng.choice([(1, 1), (2, 2), (2, 3), (3, 2), (3, 3), (1, 2), (2, 1), (4, 2)] if scheme == 'expl'
                            else [(1, 1), (2, 2), (2, 2), (3, 3), (2, 3), (3, 2)])
        if kind == 'quad' and pr < 2:
            pr = 2
    rmin = rng.choice([F(1, 2), F(1), F(2)])
    h = rng.choice([F(1), F(1, 2)])
    uq = rng.random() < 0.6
    ur = rng.random() < 0.6
    sp = gen_space(rng, path, nq, nr, pq, pr, PI, uq, ur, rmin, h)
    dt = rng.choice([F(1, 4), F(-1, 4), F(1, 2), F(-1, 2), F(1, 8), F(-1, 8), F(1), F(-1)])
    B0 = rng.choice([F(1), F(1), F(2), F(1, 2)])
    v = rng.choice([F(0), F(1, 2), F(-1), F(2)])
    c = {'scheme': scheme, 'sp': sp, 'PI': PI, 'dt': dt, 'B0': B0, 'v': v, 'nul': rng.random() < 0.5,
         'consts': list(CONSTS), 'kind': kind, 'qPts': list(sp['gq']), 'rPts': list(sp['gr']), 'constructed': ''}
    if rng.random() < 0.3:
        c['consts'][3] = sp['rb'][0] + (sp['rb'][-1] - sp['rb'][0]) / 2
    # potential
    if kind == 'const':
        c0 = rnd(rng, 8, 3)
        c['cphi'] = [[c0] * nr for _ in range(sp['rows'])]
    elif kind == 'quad':
        k = rng.choice([0, 1, -1, 2, nq, None, None])
        dq = 2 * PI / nq
        if k is not None and sp['uq']:
            omega = k * dq * B0 / dt                      # rotation by k cells: feet on nodes, theta = 0 hit exactly
            c['shift_cells'] = k
        else:
            omega = rnd(rng, 8, 4)
        c['omega'] = omega
        c['cphi'] = quad_coeffs(sp, omega)
    else:
        amp = {'rand': F(1, 2), 'big': F(8), 'small': F(1, 16)}[kind]
        den = 8 if kind != 'small' else 4
        c['cphi'] = wrap_rows(sp, [[rnd(rng, den, amp) for _ in range(nr)] for _ in range(nq)])
    c['cpol'] = wrap_rows(sp, [[rnd(rng, 8) for _ in range(nr)] for _ in range(nq)])
    # node subset (the kernels take arbitrary node lists; rPts[0] / rPts[-1] stay the domain ends)
    heavy = (sp['pq'] + sp['pr'] >= 5)
    if scheme == 'impl' and kind not in ('const', 'quad'):
        nsq, nsr = (2, 3) if heavy else (3, 4)
    elif heavy and kind not in ('const', 'quad') and not (tier_full and rng.random() < 0.3):
        nsq, nsr = 3, 4
    else:
        nsq, nsr = nq, nr
    if nsq < nq:
        c['qPts'] = sorted(rng.sample(c['qPts'], nsq))
    if nsr < nr:
        inner = sorted(rng.sample(range(1, nr - 1), nsr - 2))
        c['rPts'] = [c['rPts'][0]] + [c['rPts'][j] for j in inner] + [c['rPts'][-1]]
    if scheme == 'impl':
        c['tol'] = rng.choice([F(1, 4), F(1, 10), F(1, 100)]) if kind not in ('const', 'quad') else rng.choice([F(0), F(1, 10 ** 10)])
        c['fuel'] = 2 if heavy else 3
        if kind in ('const', 'quad'):
            c['fuel'] = 3
    return c


def construct_boundary(c, r, rng):
    """variants of c whose feet land exactly on rPts[0] / rPts[-1] (second pass: an exact foot of the
    first pass becomes an end point of the node list).  Final feet for low degrees only (their
    rationals are short), first-stage feet for every degree and both spline paths."""
    out = []
    orc = r['oracle']
    if orc[0] != 'ok' or c['scheme'] != 'expl':
        return out
    nr = len(c['rPts'])
    lo, hi = c['rPts'][0], c['rPts'][-1]

    def variants(vals, tag):
        short = [x for x in vals if x.denominator.bit_length() <= 160]
        cand_hi = [x for k, x in enumerate(short) if c['rPts'][nr - 2] < x < hi]
        cand_lo = [x for k, x in enumerate(short) if lo < x < c['rPts'][1] and x > 0]
        if cand_hi:
            d = dict(c)
            d['rPts'] = c['rPts'][:-1] + [min(cand_hi, key=lambda x: x.denominator)]
            d['constructed'] = tag + '-on-rmax'
            out.append(d)
        if cand_lo:
            d = dict(c)
            d['rPts'] = [min(cand_lo, key=lambda x: x.denominator)] + c['rPts'][1:]
            d['constructed'] = tag + '-on-rmin'
            out.append(d)
    sp = c['sp']
    if sp['pq'] + sp['pr'] <= 3:
        variants([qparse(s) for k, s in enumerate(orc[4]) if k % nr not in (0, nr - 1)], 'foot')
    variants([F(s) for k, s in enumerate(r['stage1']) if k % nr not in (0, nr - 1)], 'stage1')
    return out


def gen_cases(chk):
    rng = random.Random(chk.seed * 7919 + 12)
    full = chk.tier != 'quick'
    sizes = [(6, 6), (8, 6), (6, 8), (8, 8), (10, 8), (12, 10)]
    cases = []
    n_e = 36 if not full else 300
    n_i = 20 if not full else 150
    for scheme, n in (('expl', n_e), ('impl', n_i)):
        for path in ('nu', 'cu'):
            kinds = ['const', 'quad', 'quad', 'rand', 'rand', 'rand', 'big', 'small']
            for k in range(n):
                kind = kinds[k % len(kinds)]
                size = sizes[k % len(sizes)] if k >= len(sizes) else sizes[k]
                if path == 'cu' and size[1] < 4:
                    continue
                cases.append(gen_base(rng, scheme, path, kind, size, full))
    # implicit cases in which successive iterates straddle theta = 0 (the `2*pi - diff` branch of the norm):
    # searched with the direct oracle on the node theta = 0
    for path in ('nu', 'cu'):
        found = 0
        for _ in range(80 if not full else 240):
            c = gen_base(rng, 'impl', path, 'rand', (6, 6), False)
            if path == 'nu' and c['sp']['pq'] + c['sp']['pr'] > 4:
                continue
            zero = [q for q in c['sp']['gq'] if q == 0]
            if not zero:
                continue
            c['qPts'] = zero
            c['rPts'] = list(c['sp']['gr'])
            c['tol'] = F(1, 100)
            c['fuel'] = 2
            lifted(c['PI'])
            orc, cls = run_oracle(c)
            c.pop('_stage1', None)
            if cls and any('norm-wrap' in x for x in cls):
                c['constructed'] = 'norm-wrap'
                cases.append(c)
                found += 1
                if found >= (2 if not full else 6):
                    break
    cases.append(clip_observation_case())
    return cases, rng


def clip_observation_case():
    """implicit scheme, nulBound: the un-clipped foot of both nodes lies outside [rPts[0], rMax], the kernel clips it
    and writes the spline of f at the clipped foot (pol_impl_fill_unreachable) - not the fill value 0.
    Spaces of the Coq witness (pi := 3, degree 1), dt = 2, tol = 3: one sweep."""
    Z = lambda xs: [F(x) for x in xs]
    sp = {'path': 'nu', 'pq': 1, 'pr': 1, 'nq': 2, 'nr': 2, 'qb': Z([0, 3, 6]), 'rb': Z([1, 2]), 'uq': True, 'ur': True,
          'kq': Z([-3, 0, 3, 6, 9]), 'kr': Z([1, 1, 2, 2]), 'gq': Z([0, 3]), 'gr': Z([1, 2]), 'kr_ext': Z([1, 1, 2, 2]),
          'rows': 3, 'cols': 2}
    return {'scheme': 'impl', 'sp': sp, 'PI': F(3), 'dt': F(2), 'B0': F(1), 'v': F(0), 'nul': True, 'consts': list(CONSTS),
            'kind': 'clip-observation', 'qPts': [F(3, 2)], 'rPts': Z([1, 2]), 'constructed': 'unclipped-foot-outside',
            'cphi': [Z([-3, 6]), Z([3, -6]), Z([-3, 6])], 'cpol': [Z([1, 2]), Z([3, 4]), Z([1, 2])], 'tol': F(3), 'fuel': 3}


def clip_observation(c, out):
    """what the real (exactly executed) implicit kernel did on clip_observation_case, next to what the property's fill
    clause would give; computed here from the spline evaluator only"""
    lifted(c['PI'])
    nu = _NS['nu']
    sp = c['sp']
    kq, kr = qlift.arr(sp['kq']), qlift.arr(sp['kr'])
    cphi, cpol = qlift.arr(c['cphi']), qlift.arr(c['cpol'])
    ev = nu['nu_eval_spline_2d_scalar']
    mf = c['dt'] / c['B0']
    rmin, rmax = c['rPts'][0], c['rPts'][-1]
    q = c['qPts'][0]
    obs = []
    for j, r in enumerate(c['rPts']):
        b = ev(q, r, kq, 1, kr, 1, cphi, 1, 0) / r
        euler = r + b * mf
        dk = ev(q, euler, kq, 1, kr, 1, cphi, 1, 0) / euler if rmin <= euler <= rmax else F(0)
        unclipped = r + (b + dk) * mf / 2
        clipped = min(max(unclipped, rmin), rmax)
        obs.append({'node': [0, j], 'euler_foot_r': str(euler), 'unclipped_foot_r': str(unclipped),
                    'outside_radial_domain': not (rmin <= unclipped <= rmax), 'clipped_foot_r': str(clipped),
                    'spline_of_f_at_clipped_foot': str(ev(q, clipped, kq, 1, kr, 1, cpol, 0, 0)),
                    'value_written_by_the_kernel': str(qparse(out[2][j])) if out[0] == 'ok' else None,
                    'value_of_the_fill_clause_nulBound': '0'})
    return obs


def weight(c):
    sp = c['sp']
    n = len(c['qPts']) * len(c['rPts'])
    w = {2: 0.003, 3: 0.012, 4: 0.05, 5: 0.25, 6: 0.5}.get(sp['pq'] + sp['pr'], 0.5)     # seconds per node, measured
    if c['kind'] in ('const', 'quad'):
        return 0.1
    if c['PI'].denominator > 8:
        w *= 2
    if c['scheme'] == 'impl':
        w *= 1.5
    if c['constructed']:
        w *= 4
    return n * w


# ------------------------------------------------------------------------------------------------

def stratum_of(c):
    sp = c['sp']
    return '%s/%s/%s/%s/dt%s%s' % (c['scheme'], sp['path'], 'nul' if c['nul'] else 'feq', c['kind'],
                                    '+' if c['dt'] > 0 else '-', ('/' + c['constructed']) if c['constructed'] else '')


def sample_of(c, r):
    sp = c['sp']
    return {'scheme': c['scheme'], 'path': sp['path'], 'degrees': [sp['pq'], sp['pr']], 'basis': [sp['nq'], sp['nr']],
            'nodes': [len(c['qPts']), len(c['rPts'])], 'pi': str(c['PI']), 'dt': str(c['dt']), 'B0': str(c['B0']),
            'v': str(c['v']), 'nulBound': c['nul'], 'potential': c['kind'], 'tol': str(c.get('tol')), 'fuel': c.get('fuel'),
            'outcome': r['impl'][0], 'sweeps': r['impl'][1] if r['impl'][0] == 'ok' else None,
            'f[0,0]': str(qparse(r['impl'][2][0])) if r['impl'][0] == 'ok' else None}


def case_replay(c):
    d = dict(c)
    d['sp'] = {k: ([str(x) for x in v] if isinstance(v, list) else v) for k, v in c['sp'].items()}
    for k in ('PI', 'dt', 'B0', 'v', 'tol', 'omega'):
        if k in d and d[k] is not None:
            d[k] = str(d[k])
    for k in ('consts', 'qPts', 'rPts'):
        d[k] = [str(x) for x in d[k]]
    for k in ('cphi', 'cpol'):
        d[k] = [[str(x) for x in row] for row in d[k]]
    return d


def case_unreplay(d):
    c = dict(d)
    c['sp'] = {k: ([F(x) for x in v] if isinstance(v, list) else v) for k, v in d['sp'].items()}
    for k in ('PI', 'dt', 'B0', 'v', 'tol', 'omega'):
        if k in c and c[k] is not None:
            c[k] = F(c[k])
    for k in ('consts', 'qPts', 'rPts'):
        c[k] = [F(x) for x in c[k]]
    for k in ('cphi', 'cpol'):
        c[k] = [[F(x) for x in row] for row in c[k]]
    return c


def first_diff(a, b, nr):
    """first node where two 'ok' outcomes differ: (field, i, j)"""
    for fld, name in ((3, 'foot-theta'), (4, 'foot-r'), (2, 'f')):
        for k, (x, y) in enumerate(zip(a[fld], b[fld])):
            if x != y:
                return name, k // nr, k % nr, k
    if a[1] != b[1]:
        return 'sweeps', 0, 0, 0
    return None


def judge(chk, c, r, m):
    """compare code / oracle / model on one case"""
    site = SITE_E if c['scheme'] == 'expl' else SITE_I
    out, orc = r['impl'], r['oracle']
    nr = len(c['rPts'])
    rep = {'kind': 'impl', 'case': case_replay(c)}
    if out[0] == 'exc':
        chk.violation(site + ':exception', '%s: the kernel raised %s' % (stratum_of(c), out[1]), rep)
        return
    if r['closed']:
        chk.violation(site + ':' + ('constant-potential' if c['kind'] == 'const' else 'rigid-rotation'),
                      '%s: %s' % (stratum_of(c), r['closed']), rep)
        return
    if out != orc:
        if out[0] == 'ok' and orc[0] == 'ok':
            fd = first_diff(out, orc, nr)
            cl = '+'.join(r['cls'][fd[3]]) if r['cls'] else '?'
            what = ('%s: node (%d,%d) [%s]: %s of the code differs from the trapezoidal characteristic / fill rule '
                    '(code %s, required %s)' % (stratum_of(c), fd[1], fd[2], cl, fd[0],
                                                float(qparse(out[{"f": 2, "foot-theta": 3, "foot-r": 4}.get(fd[0], 2)][fd[3]])) if fd[0] != 'sweeps' else out[1],
                                                float(qparse(orc[{"f": 2, "foot-theta": 3, "foot-r": 4}.get(fd[0], 2)][fd[3]])) if fd[0] != 'sweeps' else orc[1]))
            key = '%s:%s:%s' % (site, fd[0], cl)
        else:
            what = '%s: outcome of the code %r, required %r' % (stratum_of(c), out[:2], orc[:2])
            key = '%s:outcome-%s-vs-%s' % (site, out[0], orc[0])
        rep['model'] = m[:2]
        rep['model_agrees_with_oracle'] = (m == orc)
        chk.violation(key, what, rep)
        return
    if out != m:
        chk.cov['disagreements_checked'] += 1
        fd = first_diff(out, m, nr) if (out[0] == 'ok' and m[0] == 'ok') else None
        chk.violation(site + ':model-mismatch',
                      '%s: the code agrees with the direct oracle but not with the Coq model (%s) - correspondence '
                      'PolAdvModel.pol_step_%s no longer checks' % (stratum_of(c), fd or (out[:2], m[:2]), c['scheme']),
                      {'kind': 'correspondence', 'theorem': 'PolAdvModel.pol_step_' + c['scheme'], 'case': case_replay(c)},
                      no_input=True)


# ------------------------------------------------------------------------------------------------
# float stages: see float_stage.py-like functions below

from props import c12_float  # noqa: E402
from props import adv_grid  # noqa: E402


COQ_IMPORTS = ('From Coq Require Import List ZArith QArith Qcanon. Import ListNotations. '
               'From PGV Require Import SplineModel SplineQc PolAdvModel PolAdvQc. Open Scope Z_scope.')


def _cq(q):
    return '(spq_of (%d) %d%%positive)' % (q.numerator, q.denominator)


def _cl(l):
    return '[' + '; '.join(_cq(x) for x in l) + ']'


def coq_term(c):
    sp = c['sp']
    args = '%s %s %s %s %s %s %s %s %s %s %d%%nat %s %d%%nat %s %s %d%%nat %s %d%%nat %s' % (
        'true' if sp['path'] == 'cu' else 'false', 'true' if c['nul'] else 'false',
        _cq(c['PI']), _cq(c['dt']), _cq(c['v']), _cq(c['B0']), _cl(c['consts']), _cl(c['rPts']), _cl(c['qPts']),
        _cl(sp['kq']), sp['pq'], _cl(sp['kr']), sp['pr'], '[' + '; '.join(_cl(r) for r in c['cphi']) + ']',
        _cl(sp['kq']), sp['pq'], _cl(sp['kr']), sp['pr'], '[' + '; '.join(_cl(r) for r in c['cpol']) + ']')
    if c['scheme'] == 'expl':
        return 'polq_show_expl (polq_step_expl %s)' % args
    return 'polq_show_impl (polq_step_impl %s %s %d%%nat)' % (args, _cq(c['tol']), c['fuel'])


def coq_matches(ans, m):
    a = ans.replace('%nat', '').replace('%positive', '').replace('%Z', '')
    if m[0] == 'outoffuel':
        return a.strip() == 'PolOutOfFuel'
    if m[0] != 'ok':
        return ('Sp%sErr' % m[1].capitalize()) in a
    trip = re.findall(r'\(\s*(-?\d+)\s*,\s*(\d+)\s*,\s*\(\s*(-?\d+)\s*,\s*(\d+)\s*\)\s*,\s*\(\s*(-?\d+)\s*,\s*(\d+)\s*\)\s*\)', a)
    got = [(F(int(t[0]), int(t[1])), F(int(t[2]), int(t[3])), F(int(t[4]), int(t[5]))) for t in trip]
    exp = [(qparse(x), qparse(y), qparse(z)) for x, y, z in zip(m[2], m[3], m[4])]
    if got != exp:
        return False
    if m[1] is not None:
        mm = re.search(r',\s*(\d+)\s*\)\s*\)?\s*$', a.strip())
        return bool(mm) and int(mm.group(1)) == m[1]
    return True


def run():
    chk = core.Check('C12', 'proof')
    proof = core.proof_stage('C12')
    warnings.simplefilter('ignore')
    t0 = time.time()
    # grid-level entry points on distributed layouts (local-index glue, state between gridStep and gridStep_SplinesUnchanged)
    adv_grid.stage(chk, ['pol', 'pol-impl'])
    cases, rng = gen_cases(chk)
    res = implrun.run_cases('props.c12', 'exact_case', cases, tmo=300.0, chunk=1)
    # second pass: feet exactly on the radial end points
    extra = []
    for c, r in zip(cases, res):
        if isinstance(r, dict) and c['kind'] in ('rand', 'small', 'big') and len(extra) < (24 if chk.tier == 'quick' else 120):
            extra += construct_boundary(c, r, rng)
    res2 = implrun.run_cases('props.c12', 'exact_case', extra, tmo=300.0, chunk=1)
    cases += extra
    res += res2
    t_exact = time.time() - t0
    t0 = time.time()
    lines = [model_line(c) for c in cases]
    mans = model_par(lines, [weight(c) for c in cases])
    t_model = time.time() - t0
    node_classes = {}
    outcomes = {}
    for k, (c, r, a) in enumerate(zip(cases, res, mans)):
        if not isinstance(r, dict):
            chk.violation((SITE_E if c['scheme'] == 'expl' else SITE_I) + ':exact-run-' + str(r[0]),
                          '%s: exact execution of the kernel ended with %r' % (stratum_of(c), r),
                          {'kind': 'impl', 'case': case_replay(c)})
            continue
        m = parse_model(a, c['scheme'])
        chk.count(lines[k], nontrivial=(c['kind'] != 'const'),
                  stratum=stratum_of(c), sample=sample_of(c, r))
        outcomes[r['impl'][0]] = outcomes.get(r['impl'][0], 0) + 1
        for cl in (r['cls'] or []):
            for x in cl:
                node_classes[x] = node_classes.get(x, 0) + 1
        chk.cov['certificates_checked'] += 1          # direct oracle + closed forms evaluated on this case
        judge(chk, c, r, m)
    # observation (not a violation): what the implicit kernel writes when the un-clipped foot is outside
    clip_obs = None
    for c, r in zip(cases, res):
        if c['kind'] == 'clip-observation' and isinstance(r, dict):
            clip_obs = {'exact_execution_of_the_real_kernel': clip_observation(c, r['impl']), 'sweeps': r['impl'][1] if r['impl'][0] == 'ok' else None,
                        'theorem': 'pol_impl_fill_unreachable',
                        'note': 'the implicit scheme clips the foot into [rPts[0], rMax] before the fill test: the value written is the '
                                'spline of f at the clipped foot, also with nulBound; the property\'s fill clause describes the explicit scheme only. '
                                'A change of this behaviour shows up as a mismatch of this case with the oracle / model.'}
            if not all(o['outside_radial_domain'] for o in clip_obs['exact_execution_of_the_real_kernel']):
                raise core.BrokenCheck('clip observation case: the un-clipped foot is not outside the radial domain')
    # cross-check of the extraction inside Coq (vm_compute) on cheap cases
    cheap = [i for i, c in enumerate(cases) if weight(c) < 0.4 and isinstance(res[i], dict)]
    rs = random.Random(chk.seed + 5)
    samp = rs.sample(cheap, min(len(cheap), 6 if chk.tier == 'quick' else 24))
    vals = core.coq_eval([coq_term(cases[i]) for i in samp], COQ_IMPORTS, tag='c12', timeout=1500)
    bad = [i for i, v in zip(samp, vals) if not coq_matches(v, parse_model(mans[i], cases[i]['scheme']))]
    if bad:
        raise core.BrokenCheck('extracted model and vm_compute disagree on %d of %d sampled cases (first: %s)'
                               % (len(bad), len(samp), stratum_of(cases[bad[0]])))
    # float stages
    fl = c12_float.run_float_stages(chk)
    chk.assumptions += [
        'exact semantics: binary64 rounding of the kernels is not modelled; the float link is a sanity bound, the gate is exact',
        'numpy.pi is a positive parameter of the model; the exact tie binds it to rationals in {3, 22/7, 25/8, 355/113}',
        'f_eq: exp/tanh/sqrt are bound to rational stand-ins in the exact tie (model theorems hold for any feq); '
        'constants are chosen so that f_eq divides by non-zero numbers',
        'a division by a zero radius raises in the exact execution (SpDivErr in the model) but gives inf/nan in binary64',
        'Python float % can return the modulus itself for tiny negative arguments; pol_mod_range is about exact arithmetic',
    ]
    return chk.finish(
        proof,
        rule='seeded cases: scheme {expl,impl} x spline path {general, uniform cubic} x potential {constant, omega r^2/2 '
             '(incl. rotation by whole cells), random, large (feet leave the domain / are clipped), small} x both fill rules x '
             'dt of either sign x basis 6x6..12x10 x degrees 1..4, plus second-pass variants whose foot is exactly '
             'rPts[0] / rPts[-1]; non-trivial = potential not constant; distinct = distinct model answer',
        extra={'node_classes': node_classes, 'outcomes': outcomes, 'coq_vm_compute_crosschecked': len(samp),
               'exact_run_s': round(t_exact, 1), 'model_run_s': round(t_model, 1), 'float_stages': fl,
               'implicit_clipping_observation': clip_obs},
        uncovered=['"explicit and implicit variants agree to third order in dt" is asymptotic: not proved, not tested',
                   '"the implicit iteration terminates" is refuted as quantified (pol_impl_terminates_refuted); proved: one '
                   'sweep for constant potentials and for rigid rotations, and the fixed-point property within tol whenever the loop returns',
                   'rigid rotation: proved from the coefficients of omega r^2/2 for the general path '
                   '(pol_rigid_rotation_*_from_coeffs, pol_quad_potential_derivatives: d_r phi = omega r, d_theta phi = 0 on the closed '
                   'domain, radial degree >= 2); for the uniform-cubic path the theorems pol_rigid_rotation_expl/_impl still take these '
                   'two evaluator facts as hypothesis - tested exactly (blossom coefficients on the uniform extension, closed form)',
                   'const_phi_id (pol_const_phi_id_*_full_thm, pol_interp_then_advect_const_*): that the two derivative cross '
                   'evaluations of the potential at the nodes return (well-formed spline space, no zero denominators) is a hypothesis',
                   'for the implicit scheme the fill rule is unreachable (feet are clipped to the radial boundary): '
                   'pol_impl_fill_unreachable; the property\'s fill clause only describes the explicit scheme (recorded as '
                   'implicit_clipping_observation, exact and binary64)',
                   'that the spline derivative is d/dx of the spline is C07\'s (partial) clause, not repeated here'])


def replay(path):
    core.setup_paths()
    body = json.load(open(path))
    rep = body['replay']
    if rep.get('kind') == 'grid-entry':
        ok, what = adv_grid.replay_case(rep['case'])
        print('grid-level entry points vs single-process run:', what)
        return 0 if ok else 1
    if rep.get('kind') in ('float', 'termination'):
        return c12_float.replay(rep)
    c = case_unreplay(rep['case'])
    r = implrun.run_cases('props.c12', 'exact_case', [c], tmo=600.0)[0]
    m = parse_model(core.model([model_line(c)])[0], c['scheme'])
    print('case', stratum_of(c))
    print('code   ', r['impl'][:2], 'oracle', r['oracle'][:2], 'model', m[:2], 'closed form:', r['closed'])
    ok = (r['impl'] == r['oracle'] == m) and not r['closed']
    if not ok and r['impl'][0] == 'ok' and r['oracle'][0] == 'ok':
        print('first difference code/oracle:', first_diff(r['impl'], r['oracle'], len(c['rPts'])))
    return 0 if ok else 1
