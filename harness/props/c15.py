"""
C15 - quasi-neutrality pipeline: exact FFT round trip, real potential, equilibrium.

Proof: Props/C15.v (QnModes.v: fftfreq order / squares / per-mode slices / m = 0 matrix / chi;
QnPipeline.v: density -> modes -> per-mode solve -> inverse over an abstract field, DFT and solve laws as
hypotheses; QnQc.v: the hypotheses are satisfiable).

Tie, re-established on the current /repo tree on every run:
 (d) DiffEqSolver is constructed for every theta count of a range (even and odd) and a family of Neumann
     lists; `_mVals` (the squared mode numbers, every double read as the rational it is), `_coeff_range`,
     `_stiffness_range`, `_nUnknowns` and the shapes of the stored matrices are compared EXACTLY with the
     extracted model; QuasiNeutralitySolver likewise (chi in {0, 1}, kinetic electrons; chi = 2 must raise),
     and `_stiffness0` is identified, bit for bit, as a left-to-right sum of a subset of the solver's own
     stored matrices, which must be the subset the model names.
 (c) the pipeline of fullSimulation.py (simdriver.Sim.solve_qn: real Grid / LayoutSwapper / DensityFinder /
     QuasiNeutralitySolver under simulated MPI) on 1, 2, 4, 6 ranks and several process grids, even and odd
     theta counts, chi in {0, 1} and kinetic electrons, is compared with an INDEPENDENT per-mode re-solve
     written here (dense DFT matrix, numpy.linalg.solve on the solver's own toarray() matrices sliced by the
     MODEL's per-mode parameters and mode numbers, collocation matrix rebuilt from basis evaluations) under
     the bound RESOLVE_K * eps * (cond(A_m) cond(C) + n_theta) * max|phi|; the potential is bitwise the same
     on every process grid; it is real to rounding; an exactly zero perturbed density gives an exactly zero
     potential; the equilibrium is a fixed point of Sim.strang_step to rounding (measured drift reported).
     scipy's fft / ifft are wrapped: on EVERY vector they transform the laws assumed by the theorems are
     checked (dense DFT, round trip to 1e-13 relative, conjugate symmetry of the transform of a real line,
     real inverse of a conjugate-symmetric line).
     Modes 'axi' (theta-independent perturbation: empty modes after a non-empty one on the same solver object), 'reuse'
     (perturbed state, then the equilibrium, on the same objects) and 'poison' (the shared work arrays _coeffs and the
     interpolant coefficients filled with NaN before the solve; the potential must be bitwise that of the plain run)
     exercise c15_solve_sequence_is_independent_solves / c15_solve_history_free: the sequence of solves through the shared
     buffer is the list of independent solves.  The side conditions of that theorem on the per-mode slices are the
     tables compared exactly in (d) (c15_solve_slices_admissible).
 A sample of the model's tables is re-evaluated inside Coq (vm_compute).
"""
import json
import random
import re
import warnings
from fractions import Fraction as F

import numpy as np

import core
import implrun
import qlift

EPS = 2.0 ** -52
RESOLVE_K = 8.0            # measured worst error is about 0.03 of the bound with K = 1 (reported in the evidence)
DRIFT_BOUND = 1e-12        # equilibrium fixed point: max |f_new - f_eq| / max |f_eq| after one Strang step (measured 1e-15)
SITE = 'poisson_solver'
KEY_RECIP = SITE + '.DiffEqSolver._mVals:ntheta-times-reciprocal-inexact'


# ------------------------------------------------------------------------------------------------
# (d) tables of DiffEqSolver

def tables_case(c):
    """c = (nr_cells, degree, ntheta, lN, uN): construct DiffEqSolver and read its bookkeeping back"""
    warnings.simplefilter('ignore')
    from pygyro.splines.splines import BSplines, make_knots
    from pygyro.poisson.poisson_solver import DiffEqSolver
    ncells, degree, nth, lN, uN = c
    breaks = np.linspace(0.1, 1.3, ncells + 1)
    bs = BSplines(make_knots(breaks, degree, False), degree, False, False)
    try:
        s = DiffEqSolver(2 * degree, bs, bs.nbasis, nth, lNeumannIdx=list(lN), uNeumannIdx=list(uN), rFactor=lambda r: 1.0)
    except Exception as e:
        return ('exc', type(e).__name__, str(e)[:200])
    return ('ok', {'nb': int(bs.nbasis), 'msq': [float(x) for x in s._mVals],
                   'coeff': [(r.start, r.stop, r.step) for r in s._coeff_range],
                   'stiff': [(r.start, r.stop, r.step) for r in s._stiffness_range],
                   'nunk': int(s._nUnknowns),
                   'shapes': {k: list(getattr(s, k).shape) for k in ('_massMatrix', '_k2PhiPsi', '_PhiPsi', '_dPhidPsi', '_dPhiPsi', '_stiffnessMatrix')}})


# ------------------------------------------------------------------------------------------------
# (c) the pipeline under simulated MPI

def _dense_dft(n):
    k = np.arange(n)
    return np.exp(-2j * np.pi * np.outer(k, k) / n)


def pipe_case(c):
    """c = (mode, npts, nprocs, electrons, seed); electrons in ('chi0', 'chi1', 'kinetic'); mode in ('pipe', 'zero')"""
    from mpi4py import MPI
    import simdriver
    import threading
    import pygyro.poisson.poisson_solver as ps
    mode, npts, nprocs, electrons, seed = c
    nranks = nprocs[0] * nprocs[1]
    tl = threading.local()
    real_fft, real_ifft = ps.fft, ps.ifft
    nth = npts[1]
    W = _dense_dft(nth)

    def law_stats(kind, x, y):
        """x -> y by fft (kind 'f') or ifft (kind 'i'); returns residuals in units of eps * scale"""
        st = tl.laws
        n = len(x)
        fwd_in, fwd_out = (x, y) if kind == 'f' else (y, x)
        sc = float(np.abs(fwd_in).sum()) + 1e-300
        dense = W @ fwd_in if n == nth else _dense_dft(n) @ fwd_in
        st['dense'] = max(st['dense'], float(np.abs(dense - fwd_out).max()) / (EPS * sc))
        back = real_ifft(np.array(y, copy=True)) if kind == 'f' else real_fft(np.array(y, copy=True))
        mx = float(np.abs(x).max())
        if mx > 0:
            st['round'] = max(st['round'], float(np.abs(back - x).max()) / mx)
        elif np.abs(back).max() != 0:
            st['round'] = np.inf
        idx = (-np.arange(n)) % n
        if kind == 'f':
            if (x.imag == 0).all():
                st['herm'] = max(st['herm'], float(np.abs(y[idx] - np.conj(y)).max()) / (EPS * sc))
                st['n_real_in'] += 1
        else:
            sy = float(np.abs(x).sum()) + 1e-300
            defect = float(np.abs(x[idx] - np.conj(x)).max())
            st['ireal'] = max(st['ireal'], (float(np.abs(y.imag).max()) - defect) / (EPS * sy))
            st['n_herm_in'] += int(defect <= 64 * EPS * sy)
        if (x == 0).all() and not (y == 0).all():
            st['zero'] += 1
        st['n_' + kind] += 1

    def spy_fft(vec, overwrite_x=False):
        x = np.array(vec, copy=True)
        y = real_fft(vec, overwrite_x=overwrite_x)
        law_stats('f', x, np.array(y, copy=True))
        return y

    def spy_ifft(vec, overwrite_x=False):
        x = np.array(vec, copy=True)
        y = real_ifft(vec, overwrite_x=overwrite_x)
        law_stats('i', x, np.array(y, copy=True))
        return y

    def work(comm):
        warnings.simplefilter('ignore')
        # every other shape runs with constants whose ion / electron / density profile constants all differ
        distinct = (npts[0] + npts[1]) % 2 == 1
        S = simdriver.Sim(comm, npts, nprocs, extra=dict(simdriver.DISTINCT_CONSTANTS) if distinct else None)
        f = S.f
        # the magnetic field strength is an optional argument of the solver (default 1): other values on some shapes
        Bf = [1.0, 2.0, 0.5][(npts[0] + 2 * npts[1] + npts[2]) % 3]
        if electrons != 'chi0' or Bf != 1.0:
            from pygyro.poisson.poisson_solver import QuasiNeutralitySolver
            if electrons == 'chi1':
                S.QN = QuasiNeutralitySolver(f.eta_grid[:3], 7, f.getSpline(0), S.constants, chi=1, B=Bf)
            elif electrons == 'chi0':
                S.QN = QuasiNeutralitySolver(f.eta_grid[:3], 7, f.getSpline(0), S.constants, chi=0, B=Bf)
            else:
                S.QN = QuasiNeutralitySolver(f.eta_grid[:3], 7, f.getSpline(0), S.constants, adiabaticElectrons=False, B=Bf)
        tl.laws = {'dense': 0.0, 'round': 0.0, 'herm': 0.0, 'ireal': 0.0, 'zero': 0, 'n_f': 0, 'n_i': 0, 'n_real_in': 0, 'n_herm_in': 0}
        f.setLayout('v_parallel')
        L = f.getLayout(f.currentLayout)
        gi = simdriver.global_index(L, npts)
        R = gi // (npts[1] * npts[2] * npts[3])
        V = gi % npts[3]
        out = {}
        if mode in ('pipe', 'reuse', 'poison'):
            f.getAllData()[:] = S.density._fEq[R, V] * (1.0 + simdriver.exact_field(gi, seed) / 8.0)
        elif mode == 'axi':
            # a perturbation that does not depend on theta: every poloidal mode m != 0 of the density is (exactly, for a
            # power-of-two theta count) zero, after the non-empty mode 0 was solved by the same object
            Z = (gi // npts[3]) % npts[2]
            f.getAllData()[:] = S.density._fEq[R, V] * (1.0 + simdriver.exact_field(R * npts[2] + Z, seed) / 8.0)
        else:
            f.getAllData()[:] = S.density._fEq[R, V]
        if mode == 'reuse':
            # the objects of the time loop are used again and again: a perturbed state first, then the equilibrium
            S.density.getPerturbedRho(f, S.rho)
            S.solve_qn()
            f.setLayout('v_parallel')
            f.getAllData()[:] = S.density._fEq[R, V]
        S.density.getPerturbedRho(f, S.rho)
        out['prho'] = simdriver.block_info(S.rho)
        if mode == 'poison':
            # the shared work arrays hold garbage before the solve (c15_solve_history_free: any initial buffer content;
            # the interpolant's coefficient array is overwritten by compute_interpolant): the result must not change by a bit
            S.QN._coeffs[:] = complex(np.nan, np.nan)
            S.QN._spline.coeffs[:] = complex(np.nan, np.nan)
            S.QN._real_spline.coeffs[:] = np.nan
            S.QN._realMem[:] = np.nan
            S.QN._imagMem[:] = np.nan
        S.solve_qn()
        out['phi'] = simdriver.block_info(S.phi)
        out['modes'] = simdriver.block_info(S.rho)
        if mode == 'zero':
            # the equilibrium in every layout the step visits: the table values at the cells' own (r, v)
            S.strang_step()
            f.setLayout('v_parallel')
            out['f_after'] = simdriver.block_info(f)
            out['phi_after'] = simdriver.block_info(S.phi)
        out['laws'] = tl.laws
        if comm.Get_rank() == 0:
            Q = S.QN
            bs = Q._rspline
            r = np.array(f.eta_grid[0], copy=True)
            C = np.zeros((len(r), bs.nbasis))
            for j in range(bs.nbasis):
                C[:, j] = bs[j].eval(r)
            out['solver'] = {'nb': int(bs.nbasis), 'msq': [float(x) for x in Q._mVals],
                             'coeff': [(s.start, s.stop, s.step) for s in Q._coeff_range],
                             'stiff': [(s.start, s.stop, s.step) for s in Q._stiffness_range],
                             'nunk': int(Q._nUnknowns), 'colloc': C, 'greville': np.array(bs.greville, copy=True), 'r': r,
                             'mats': {k: getattr(Q, k).toarray() for k in ('_massMatrix', '_k2PhiPsi', '_PhiPsi', '_dPhidPsi', '_dPhiPsi', '_stiffnessMatrix', '_stiffness0')},
                             'table': np.array(S.density._fEq, copy=True)}
            # the quasi-neutrality equation the solver is configured with: a plain DiffEqSolver given the coefficient
            # functions of the documented equation, written out from the constants (closed forms, no call into initialiser_funcs):
            #   -phi'' - (1/r + n0'/n0) phi' + B^2 phi/Te + m^2 phi/r^2 = B^2 rho/n0 (adiabatic electrons; without them no phi/Te term)
            from pygyro.poisson.poisson_solver import DiffEqSolver
            c0 = S.constants

            def n0_(r):
                return c0.CN0 * np.exp(-c0.kN0 * c0.deltaRN0 * np.tanh((r - c0.rp) / c0.deltaRN0))

            def te_(r):
                return c0.CTe * np.exp(-c0.kTe * c0.deltaRTe * np.tanh((r - c0.rp) / c0.deltaRTe))

            def dn_(r):
                return -c0.kN0 * (1.0 - np.tanh((r - c0.rp) / c0.deltaRN0) ** 2)
            kw = dict(drFactor=lambda r: -(1 / r + dn_(r)), ddThetaFactor=lambda r: -1 / r ** 2, rhoFactor=lambda r: Bf * Bf / n0_(r), lNeumannIdx=[0])
            if electrons != 'kinetic':
                kw['rFactor'] = lambda r: Bf * Bf / te_(r)
            ref = DiffEqSolver(7, f.getSpline(0), npts[0], npts[1], **kw)
            out['solver']['ref_mats'] = {k: getattr(ref, k).toarray() for k in ('_massMatrix', '_k2PhiPsi', '_PhiPsi', '_dPhidPsi', '_dPhiPsi', '_stiffnessMatrix')}
            out['solver']['constants'] = ('siblings-distinct' if distinct else 'defaults') + (', B=%g' % Bf if Bf != 1.0 else '')
        return out

    try:
        ps.fft, ps.ifft = spy_fft, spy_ifft
        Rr = MPI.run(nranks, work, seed=seed, timeout=900)
    finally:
        ps.fft, ps.ifft = real_fft, real_ifft
    if Rr.outcome != 'ok':
        return ('fail', Rr.outcome, Rr.detail[:800])
    res = Rr.results
    out = {'solver': res[0]['solver']}
    for fld in ('prho', 'phi', 'modes') + (('phi_after',) if mode == 'zero' else ()):
        arr, cnt = simdriver.assemble([r[fld] for r in res], npts[:3])
        out[fld] = arr
        out[fld + '_cov'] = (int(cnt.min()), int(cnt.max()))
    if mode == 'zero':
        arr, cnt = simdriver.assemble([r['f_after'] for r in res], npts)
        out['f_after'] = arr
    laws = {}
    for r in res:
        for k, v in r['laws'].items():
            laws[k] = (laws.get(k, 0) + v) if k.startswith('n_') or k == 'zero' else max(laws.get(k, 0.0), v)
    out['laws'] = laws
    return ('ok', out)


def chi_error_case(c):
    """QuasiNeutralitySolver(chi=2) must raise ValueError; returns the outcome"""
    from mpi4py import MPI
    import simdriver

    def work(comm):
        warnings.simplefilter('ignore')
        S = simdriver.Sim(comm, [8, 8, 8, 8], (1, 1))
        from pygyro.poisson.poisson_solver import QuasiNeutralitySolver
        try:
            QuasiNeutralitySolver(S.f.eta_grid[:3], 7, S.f.getSpline(0), S.constants, chi=c)
        except ValueError as e:
            return 'ValueError'
        except Exception as e:
            return type(e).__name__
        return 'accepted'
    Rr = MPI.run(1, work, seed=0, timeout=300)
    return Rr.results[0] if Rr.outcome == 'ok' else 'run:' + Rr.outcome


# ------------------------------------------------------------------------------------------------
# model access

def model_tables(nb, nth, lN, uN):
    lns = ' '.join(str(x) for x in lN)
    uns = ' '.join(str(x) for x in uN)
    a = core.model(['qn.msq %d' % nth, 'qn.ranges %d %d | %s | %s' % (nb, nth, lns, uns), 'qn.scalars %d | %s | %s' % (nb, lns, uns),
                    'qn.freq %d' % nth, 'qn.params %d %d | %s | %s' % (nb, nth, lns, uns)])
    msq = [int(x) for x in a[0].split()]
    cr, sr = [[tuple(int(y) for y in x.split(':')) for x in part.split()] for part in a[1].split(';')]
    sc = [int(x) for x in a[2].split()]
    freq = [int(x) for x in a[3].split()]
    params = []
    for tok in a[4].split():
        sel, mr, cs = tok.split(',')
        params.append({'sel': sel, 'mass': tuple(int(x) for x in mr.split(':')), 'coeff': tuple(int(x) for x in cs.split(':'))})
    return {'msq': msq, 'coeff': cr, 'stiff': sr, 'start_range': sc[0], 'end_range': sc[1], 'excl': sc[2], 'nunk': sc[3], 'freq': freq, 'params': params}


def compare_tables(chk, what, rb, mt, nth, lN, uN, case):
    """read-back bookkeeping rb vs model tables mt; returns list of problems (strings)"""
    probs = []
    recip_exact = (nth * (1.0 / nth) == 1.0)
    import math as _m
    if not all(_m.isfinite(float(x)) for x in rb['msq']):
        probs.append('_mVals has non-finite entries %r, the squared mode numbers are %r' % ([float(x) for x in rb['msq']][:6], mt['msq'][:6]))
        return probs, recip_exact
    msq_exact = [qlift.frac_of_float(x) for x in rb['msq']]
    if len(msq_exact) != nth:
        probs.append('len(_mVals) = %d for nTheta = %d' % (len(msq_exact), nth))
    elif msq_exact != [F(x) for x in mt['msq']]:
        k = [i for i in range(nth) if msq_exact[i] != mt['msq'][i]][0]
        probs.append('_mVals[%d] = %r (exactly %s), the squared mode number is %d' % (k, rb['msq'][k], msq_exact[k], mt['msq'][k]))
    for nm, key in (('_coeff_range', 'coeff'), ('_stiffness_range', 'stiff')):
        got = [(a, b) for a, b, st in rb[key]]
        if any(st is not None for a, b, st in rb[key]) or got != mt[key]:
            k = [i for i in range(min(len(got), len(mt[key]))) if got[i] != mt[key][i]]
            probs.append('%s differs from the model at mode indices %r: code %r, model %r' % (nm, k[:4], [got[i] for i in k[:2]], [mt[key][i] for i in k[:2]]))
    if rb['nunk'] != mt['nunk']:
        probs.append('_nUnknowns = %d, model %d' % (rb['nunk'], mt['nunk']))
    return probs, recip_exact


def resolve_reference(prho, sol, mt, electrons):
    """independent per-mode re-solve; returns (phi_ref, condition summary)"""
    nr, nth, nz = prho.shape
    W = _dense_dft(nth)
    mats = sol['mats']
    C = sol['colloc']
    nb = sol['nb']
    M, K2, PP, D1, D2 = mats['_massMatrix'], mats['_k2PhiPsi'], mats['_PhiPsi'], mats['_dPhidPsi'], mats['_dPhiPsi']
    stiff = (D1 + D2) + PP
    chi = {'chi0': 0.0, 'chi1': 1.0, 'kinetic': 0.0}[electrons]
    rho_hat = np.einsum('kj,rjz->rkz', W, prho)
    phi_hat = np.zeros_like(rho_hat)
    condC = float(np.linalg.cond(C))
    worst = 0.0
    for I in range(nth):
        m = mt['freq'][I]
        par = mt['params'][I]
        a, b = par['mass']
        ca, cb = par['coeff']
        if par['sel'] == 'stiffness0':
            A = (D1 + D2) + (1.0 - chi) * PP          # the convention of the statement: phi - chi <phi> on the average
        else:
            _, q, ra, rb_ = par['sel'].split(':')
            assert int(q) == m * m and (int(ra), int(rb_)) == (a, b)
            A = (stiff - float(m * m) * K2)[a:b, a:b]
        worst = max(worst, float(np.linalg.cond(A)))
        for z in range(nz):
            crho = np.linalg.solve(C, rho_hat[:, I, z])
            rhs = M[a:b, :] @ crho
            u = np.linalg.solve(A, rhs)
            co = np.zeros(nb, dtype=complex)
            co[ca:cb] = u
            phi_hat[:, I, z] = C @ co
    phi_ref = np.einsum('kj,rjz->rkz', np.conj(W) / nth, phi_hat)
    return phi_ref, condC, worst


def run():
    chk = core.Check('C15', 'proof')
    proof = core.proof_stage('C15')
    quick = chk.tier == 'quick'
    rng = random.Random(chk.seed)

    # ---------------- (d) DiffEqSolver bookkeeping
    nths = list(range(1, 41)) + [49, 64, 98] if quick else list(range(1, 261))
    tcases = []
    for nth in nths:
        h = nth // 2
        fam = [((), ()), ((0,), ()), ((1,), ()), ((0, 1), (2,)), ((-1,), (0,)), ((1, -1), (1, -1)), ((h,), ()), ((-h,), (h, -h)), ((), (0,)), ((0,), (0,))]
        extra = [(tuple(rng.sample(range(-h - 1, h + 2), rng.randint(1, 3))), tuple(rng.sample(range(-h - 1, h + 2), rng.randint(0, 2)))) for _ in range(2 if quick else 4)]
        sel = fam if (nth <= 12 or not quick) else rng.sample(fam, 3)
        for lN, uN in sel + extra:
            tcases.append((rng.choice([3, 4, 6]), rng.choice([1, 2, 3]), nth, lN, uN))
    tres = implrun.run_cases('props.c15', 'tables_case', tcases, tmo=120.0)
    mt_cache = {}
    n_recip = 0
    for c, r in zip(tcases, tres):
        ncells, degree, nth, lN, uN = c
        st = ('even' if nth % 2 == 0 else 'odd') + (':no-neumann' if not lN and not uN else ':neumann0' if set(lN) | set(uN) <= {0} else ':neumann-nonzero-modes')
        chk.count(c, nontrivial=(nth > 1), stratum='tables:' + st, sample={'ncells': ncells, 'degree': degree, 'nTheta': nth, 'lNeumannIdx': list(lN), 'uNeumannIdx': list(uN)})
        if r[0] != 'ok':
            chk.violation(SITE + '.DiffEqSolver:constructor-' + str(r[1] if len(r) > 1 else r[0]), 'DiffEqSolver(%r) does not construct: %r' % (c, r), {'kind': 'impl', 'case': list(c)})
            continue
        rb = r[1]
        mt = model_tables(rb['nb'], nth, lN, uN)
        probs, recip_exact = compare_tables(chk, 'DiffEqSolver', rb, mt, nth, lN, uN, c)
        for k, shp in rb['shapes'].items():
            exp = [mt['nunk'], rb['nb']] if k == '_massMatrix' else [mt['nunk'], mt['nunk']]
            if shp != exp:
                probs.append('%s has shape %r, model %r' % (k, shp, exp))
        if probs:
            if not recip_exact:
                n_recip += 1
                chk.violation(KEY_RECIP, 'nTheta=%d: nTheta*(1/nTheta) != 1 in binary64, fftfreq(nTheta, 1/nTheta) is not the integer mode numbers: %s' % (nth, '; '.join(probs)[:400]),
                              {'kind': 'impl', 'case': list(c), 'problems': probs})
            else:
                chk.violation(SITE + '.DiffEqSolver:bookkeeping-%s' % ('even' if nth % 2 == 0 else 'odd'), 'DiffEqSolver nTheta=%d lNeumannIdx=%r uNeumannIdx=%r: %s' % (nth, lN, uN, '; '.join(probs)[:500]),
                              {'kind': 'impl', 'case': list(c), 'problems': probs})
        chk.cov['certificates_checked'] += 1

    # ---------------- (c) the pipeline
    shapes = [[8, 8, 8, 8], [8, 9, 8, 8], [9, 7, 10, 8]]
    grids_q = [(1, 1), (1, 2), (2, 1), (2, 2), (3, 2), (2, 3)]
    grids_t = grids_q + [(1, 4), (4, 1), (3, 1), (1, 3), (6, 1), (1, 6), (4, 2), (2, 4), (5, 1), (7, 1)]
    pcases = []
    for npts in shapes:
        for g in (grids_q if quick else grids_t):
            if not (g[0] <= min(npts[0], npts[3], npts[1]) and g[1] <= min(npts[2], npts[3])):
                continue
            for el in ('chi0', 'chi1', 'kinetic'):
                if quick and el == 'kinetic' and (npts != shapes[1] or g not in ((1, 1), (2, 2))):
                    continue
                if quick and el == 'chi1' and g in ((1, 2), (2, 3)):
                    continue
                pcases.append(('pipe', npts, g, el, chk.seed % 997))
            if g in ((1, 1), (2, 2), (3, 2)) or not quick:
                pcases.append(('zero', npts, g, 'chi0', chk.seed % 997))
            if g in ((1, 1), (2, 2), (2, 1)) or not quick:
                pcases.append(('axi', npts, g, 'chi0' if npts[1] % 2 == 0 else 'chi1', chk.seed % 997))
                pcases.append(('reuse', npts, g, 'chi0', chk.seed % 997))
                pcases.append(('poison', npts, g, 'chi0', chk.seed % 997))
    # a single z plane per process (as many processes along z as z points): array shapes with an extent of 1
    for g in ((1, 1), (1, 7)) if quick else ((1, 1), (1, 7), (2, 7)):
        pcases.append(('pipe', [8, 8, 7, 8], g, 'chi0', chk.seed % 997))
        pcases.append(('pipe', [8, 8, 7, 8], g, 'kinetic', chk.seed % 997))
    pres = implrun.run_cases('props.c15', 'pipe_case', pcases, tmo=900.0, chunk=1)
    serial = {}
    pipe_phi = {}
    worst = {'resolve': 0.0, 'imag': 0.0, 'dense': 0.0, 'round': 0.0, 'herm': 0.0, 'ireal': 0.0, 'drift': 0.0, 'phi_after': 0.0}
    nvec = 0
    qn_mt = {}
    for c, r in zip(pcases, pres):
        mode, npts, g, el, seed = c
        nth = npts[1]
        key = SITE + '.QuasiNeutralitySolver'
        chk.count((mode, tuple(npts), g, el), nontrivial=(g != (1, 1)), stratum='%s:%s:%s:%s' % (mode, 'even' if nth % 2 == 0 else 'odd', el, 'serial' if g == (1, 1) else 'theta-split' if g[0] > 1 else 'z-split-only'),
                  sample={'mode': mode, 'npts': npts, 'process_grid': list(g), 'electrons': el, 'seed': seed})
        case_l = [mode, npts, list(g), el, seed]
        if r[0] != 'ok':
            chk.violation('%s:pipeline-%s' % (key, r[1] if len(r) > 1 else r[0]), '%r: run ends in %r' % (c, r[1:3]), {'kind': 'impl', 'case': case_l, 'outcome': list(r[1:3])})
            continue
        o = r[1]
        sol = o['solver']
        for fld in ('prho', 'phi', 'modes'):
            if o[fld + '_cov'] != (1, 1):
                chk.violation(key + ':coverage', '%r: blocks of %s cover cells %r times' % (c, fld, o[fld + '_cov']), {'kind': 'impl', 'case': case_l})
        # bookkeeping of the real QN solver vs the model (QN configuration: lNeumannIdx = [0])
        mk = (sol['nb'], nth)
        if mk not in qn_mt:
            qn_mt[mk] = model_tables(sol['nb'], nth, (0,), ())
            if core.model(['qn.mode0full %d | 0 |' % sol['nb']])[0] != 'true':
                raise core.BrokenCheck('model: mode 0 range not full in the QN configuration')
        mt = qn_mt[mk]
        probs, recip_exact = compare_tables(chk, 'QuasiNeutralitySolver', sol, mt, nth, (0,), (), c)
        if probs:
            chk.violation(KEY_RECIP if not recip_exact else key + ':bookkeeping-%s' % ('even' if nth % 2 == 0 else 'odd'), '%r: %s' % (c, '; '.join(probs)[:500]), {'kind': 'impl', 'case': case_l, 'problems': probs})
        # chi: which stored matrices make up _stiffness0 (bit for bit)
        mats = sol['mats']
        names = ['_dPhidPsi', '_dPhiPsi', '_PhiPsi', '_k2PhiPsi']
        matching = []
        for mask in range(1, 16):
            sub = [names[i] for i in range(4) if mask >> i & 1]
            acc = mats[sub[0]]
            for nm in sub[1:]:
                acc = acc + mats[nm]
            if acc.shape == mats['_stiffness0'].shape and acc.tobytes() == mats['_stiffness0'].tobytes():
                matching.append(sorted(x.strip('_') for x in sub))
        mterms = core.model(['qn.chi %d %d' % (0 if el == 'kinetic' else 1, 1 if el == 'chi1' else 0)])[0]
        want = sorted(mterms.split()[1:])
        if want not in matching:
            chk.violation(key + ':stiffness0-convention-' + el, '%s: _stiffness0 is the sum of %r of the stored matrices; the convention (model) is %r' % (el, matching, want),
                          {'kind': 'impl', 'case': case_l, 'matching_subsets': matching, 'model': want})
        # the equation itself: every stored matrix is the one of the documented quasi-neutrality equation (electron temperature,
        # density profile and its logarithmic derivative from the constants)
        chk.count(('equation', tuple(npts), el, sol.get('constants')), stratum='qn-equation:%s:%s' % (el, sol.get('constants')))
        for nm, rm in sorted(sol.get('ref_mats', {}).items()):
            am = mats[nm]
            dev = float(np.abs(am - rm).max()) if am.shape == rm.shape else float('inf')
            if not dev <= 1e-12 * max(1.0, float(np.abs(rm).max())):
                chk.violation(key + ':equation:' + nm.strip('_') + ':' + el, '%r (%s constants): the stored matrix %s differs from the one of the documented equation '
                              '-phi\'\' - (1/r + n0\'/n0) phi\' %s+ m^2 phi/r^2 = rho/n0 by %.3g' % (c, sol.get('constants'), nm, '' if el == 'kinetic' else '+ phi/Te ', dev),
                              {'kind': 'impl', 'case': case_l, 'matrix': nm, 'deviation': dev, 'constants': sol.get('constants')})
        if mats['_stiffness0'].shape != (mt['nunk'], mt['nunk']):
            chk.violation(key + ':stiffness0-shape', '_stiffness0 has shape %r, the mode-0 slice has %d unknowns' % (mats['_stiffness0'].shape, mt['nunk']), {'kind': 'impl', 'case': case_l})
        # the DFT laws on every transformed vector
        lw = o['laws']
        nvec += lw['n_f'] + lw['n_i']
        for k in ('dense', 'round', 'herm', 'ireal'):
            worst[k] = max(worst[k], lw[k])
        lawbad = []
        if lw['dense'] > 8 + 4 * nth:
            lawbad.append('fft/ifft differ from the dense DFT by %.3g eps*sum|x| (> %d)' % (lw['dense'], 8 + 4 * nth))
        if lw['round'] > 1e-13:
            lawbad.append('round trip error %.3g relative (> 1e-13)' % lw['round'])
        if lw['herm'] > 8 + 4 * nth:
            lawbad.append('transform of a real line is not conjugate symmetric: %.3g eps*sum|x|' % lw['herm'])
        if lw['ireal'] > 8 + 4 * nth:
            lawbad.append('inverse transform of a conjugate-symmetric line is not real: %.3g eps*sum|y|' % lw['ireal'])
        if lw['zero']:
            lawbad.append('a zero line is transformed to a non-zero line')
        if lw['n_real_in'] == 0 or lw['n_f'] == 0 or lw['n_i'] == 0:
            lawbad.append('the pipeline does not transform forward (%d, %d real) and back (%d)' % (lw['n_f'], lw['n_real_in'], lw['n_i']))
        if lawbad:
            chk.violation('scipy.fftpack:dft-laws', '%r: %s' % (c, '; '.join(lawbad)), {'kind': 'hypothesis', 'theorem': 'qn_dft_laws', 'case': case_l, 'stats': lw})
        prho, phi = o['prho'], o['phi']
        if not (prho.imag == 0).all():
            chk.violation(SITE + '.DensityFinder:imag', 'perturbed density has an imaginary part', {'kind': 'impl', 'case': case_l})
        pmax = float(np.abs(phi).max())
        if mode in ('pipe', 'axi', 'reuse', 'poison'):
            # independent per-mode re-solve
            ref, condC, condA = resolve_reference(prho.real.astype(complex), sol, mt, el)
            err = float(np.abs(phi - ref).max())
            bound = RESOLVE_K * EPS * (condA * condC + nth) * max(pmax, float(np.abs(ref).max()))
            worst['resolve'] = max(worst['resolve'], err / bound if bound > 0 else np.inf)
            if not err <= bound:
                # classify: which modes differ
                What = np.einsum('kj,rjz->rkz', _dense_dft(nth), phi) - np.einsum('kj,rjz->rkz', _dense_dft(nth), ref)
                badm = [int(k) for k in range(nth) if np.abs(What[:, k, :]).max() > bound * nth]
                chk.violation('%s:pipeline-vs-per-mode-resolve:%s:%s' % (key, el, 'theta-split' if g[0] > 1 else 'theta-whole'),
                              '%r: potential differs from the independent per-mode re-solve by %.3g (bound %.3g, max|phi| %.3g); mode indices affected %r' % (c, err, bound, pmax, badm),
                              {'kind': 'impl', 'case': case_l, 'max_abs_diff': err, 'bound': bound, 'modes': badm})
            # real density -> real potential (to rounding)
            im = float(np.abs(phi.imag).max())
            ib = RESOLVE_K * EPS * (condA * condC + nth) * pmax
            worst['imag'] = max(worst['imag'], im / ib if ib > 0 else 0.0)
            if not im <= ib:
                chk.violation(key + ':potential-not-real', '%r: max |imag phi| = %.3g for a real density (bound %.3g, max|phi| %.3g)' % (c, im, ib, pmax), {'kind': 'impl', 'case': case_l})
            # the shared work buffers held garbage: not a bit may change (c15_solve_history_free)
            if mode == 'pipe':
                pipe_phi[(tuple(npts), g, el)] = phi.tobytes()
            elif mode == 'poison' and pipe_phi.get((tuple(npts), g, el)) != phi.tobytes():
                chk.violation(key + ':result-depends-on-work-buffer-content', '%r: with the work arrays (_coeffs, interpolant coefficients) filled with NaN before the solve the potential differs from the plain run'
                              % (c,), {'kind': 'impl', 'case': case_l})
            # bitwise between process grids
            sk = (mode, tuple(npts), el)
            if g == (1, 1):
                serial[sk] = (phi.tobytes(), phi)
            elif sk in serial and serial[sk][0] != phi.tobytes():
                chk.violation(key + ':phi-differs-from-serial', '%r: potential is not bitwise the serial one (max abs diff %.3g)' % (c, float(np.abs(serial[sk][1] - phi).max())),
                              {'kind': 'impl', 'case': case_l})
        else:
            # exactly zero density -> exactly zero potential; equilibrium is a fixed point of the step
            if not (prho == 0).all():
                chk.violation(SITE + '.DensityFinder:equilibrium-density-not-zero', '%r: f = f_eq table gives max |rho| = %.3g' % (c, float(np.abs(prho).max())), {'kind': 'impl', 'case': case_l})
            if not (phi == 0).all():
                chk.violation(key + ':zero-density-nonzero-potential', '%r: exactly zero density gives max |phi| = %.3g' % (c, pmax), {'kind': 'impl', 'case': case_l})
            tab = sol['table']
            fa = o['f_after']
            feq = np.broadcast_to(tab[:, None, None, :], fa.shape)
            drift = float(np.abs(fa - feq).max()) / float(np.abs(tab).max())
            worst['drift'] = max(worst['drift'], drift)
            worst['phi_after'] = max(worst['phi_after'], float(np.abs(o['phi_after']).max()))
            if not drift <= DRIFT_BOUND:
                chk.violation('fullSimulation.strang_step:equilibrium-not-fixed', '%r: after one Strang step max |f - f_eq| / max f_eq = %.3g (> %.1g)' % (c, drift, DRIFT_BOUND),
                              {'kind': 'impl', 'case': case_l, 'drift': drift})
    # chi outside {0, 1} must be refused
    for chi_bad in (2, -1):
        got = implrun.run_cases('props.c15', 'chi_error_case', [chi_bad], tmo=300.0)[0]
        mans = core.model(['qn.chi 1 %d' % chi_bad])[0]
        chk.count(('chi', chi_bad), stratum='chi-refused', sample={'chi': chi_bad, 'outcome': got})
        if got != 'ValueError' or mans != 'err value':
            chk.violation(SITE + '.QuasiNeutralitySolver:chi-not-refused', 'chi=%d: constructor outcome %r, model %r' % (chi_bad, got, mans), {'kind': 'impl', 'chi': chi_bad})

    # ---------------- cross-check of the extraction inside Coq
    terms = ['qn_fftfreq 9', 'qn_msq 8', 'qnx_ranges 8 [0%Z] [] 5', 'qnx_ranges 7 [1%Z; (-1)%Z] [0%Z] 6', 'qnx_conj_table 7']
    vals = core.coq_eval(terms, 'From Coq Require Import List ZArith. Import ListNotations. From PGV Require Import QnModes DensityQc.', tag='c15')
    got = core.model(['qn.freq 9', 'qn.msq 8', 'qn.ranges 8 5 | 0 |', 'qn.ranges 7 6 | 1 -1 | 0', 'qn.conj 7'])
    for t, v, m in zip(terms, vals, got):
        if [int(x) for x in re.findall(r'-?\d+', v.replace('%Z', '').replace('%nat', ''))] != [int(x) for x in re.findall(r'-?\d+', m)]:
            raise core.BrokenCheck('extracted model and vm_compute disagree on %s: %s vs %s' % (t, v, m))
    chk.assumptions += ['the laws of the transform pair (qn_dft_laws) and of the per-mode solve (qn_solve_laws) are hypotheses of the pipeline theorems; checked on every transformed vector / by the independent re-solve',
                        'advection operators leave f_eq unchanged under zero potential (C10-C12): hypotheses of c15_equilibrium_fixed_point; measured drift reported',
                        'layout changes preserve the global field (C01/C03)', 'simulated MPI; compute_2d_process_grid overridden to reach every admissible grid']
    return chk.finish(proof,
                      rule='(d) DiffEqSolver constructed for %d theta counts x Neumann lists (%d cases), bookkeeping compared exactly with the model; (c) Sim.solve_qn on %d sizes (even/odd theta) x process grids '
                           'x {chi 0, chi 1, kinetic} (%d runs) vs the independent per-mode re-solve, plus zero-density / Strang fixed-point runs; non-trivial = nTheta > 1 (d), a non-serial grid (c); '
                           'distinct = distinct configuration' % (len(nths), len(tcases), len(shapes), len(pcases)),
                      extra={'fft_vectors_checked': nvec, 'worst_fraction_of_resolve_bound': round(worst['resolve'], 5), 'worst_fraction_of_imag_bound': round(worst['imag'], 5),
                             'fft_vs_dense_dft_worst_eps_units': round(worst['dense'], 2), 'fft_round_trip_worst_relative': worst['round'],
                             'fft_conj_symmetry_worst_eps_units': round(worst['herm'], 2), 'ifft_real_output_worst_eps_units': round(worst['ireal'], 2),
                             'equilibrium_drift_after_one_strang_step': worst['drift'], 'max_abs_phi_after_equilibrium_step': worst['phi_after'],
                             'reciprocal_inexact_cases': n_recip, 'resolve_bound': 'RESOLVE_K=%g * eps * (cond(A_m) cond(C) + nTheta) * max|phi|' % RESOLVE_K},
                      uncovered=['that scipy fft/ifft is the mathematical DFT: the laws are PROVED for the DFT over a field with a primitive root of unity (c15_dft_laws) and remain hypotheses of the '
                                 'any-transform form of the theorems; scipy is checked against the dense DFT and the laws on every transformed vector',
                                 'laws of the spline-interpolation + sparse-solve chain of _solveMode (qn_solve_laws: hypotheses; checked by the dense re-solve); that compute_interpolant overwrites '
                                 'the whole interpolant coefficient array (assumption of c15_solve_sequence_is_independent_solves; exercised by the poison / axi / reuse runs)',
                                 'f_eq is left unchanged by the advection operators under zero potential (C10, C11, C12): hypotheses of c15_equilibrium_fixed_point; only measured here',
                                 'layout changes are identities on the global field (C01 / C03)',
                                 'binary64: n*(1/n) != 1 for n = 49, 98, 103, ... makes fftfreq(n, 1/n) inexact (reported as a finding, not modelled)'])


def replay(path):
    core.setup_paths()
    body = json.load(open(path))
    c = body['replay'].get('case')
    if isinstance(c, list) and len(c) == 5 and c[0] in ('pipe', 'zero', 'axi', 'reuse', 'poison'):
        mode, npts, g, el, seed = c
        r = pipe_case((mode, npts, tuple(g), el, seed))
        if r[0] != 'ok':
            print(r)
            return 1
        o = r[1]
        mt = model_tables(o['solver']['nb'], npts[1], (0,), ())
        probs, _ = compare_tables(None, 'QN', o['solver'], mt, npts[1], (0,), (), c)
        print('bookkeeping problems:', probs)
        if mode in ('pipe', 'axi', 'reuse', 'poison'):
            ref, condC, condA = resolve_reference(o['prho'].real.astype(complex), o['solver'], mt, el)
            err = float(np.abs(o['phi'] - ref).max())
            bound = RESOLVE_K * EPS * (condA * condC + npts[1]) * float(np.abs(ref).max())
            print('max |phi - per-mode re-solve| = %.3g, bound %.3g' % (err, bound))
            return 1 if (err > bound or probs) else 0
        print('max|rho| %.3g max|phi| %.3g' % (float(np.abs(o['prho']).max()), float(np.abs(o['phi']).max())))
        return 1 if (np.abs(o['phi']).max() != 0 or probs) else 0
    if isinstance(c, list) and len(c) == 5:
        r = tables_case(tuple(c[:3]) + (tuple(c[3]), tuple(c[4])))
        print(r)
        if r[0] != 'ok':
            return 1
        mt = model_tables(r[1]['nb'], c[2], c[3], c[4])
        probs, _ = compare_tables(None, 'DiffEqSolver', r[1], mt, c[2], c[3], c[4], c)
        print('problems:', probs)
        return 1 if probs else 0
    print('nothing to replay mechanically; see', path)
    return 1
