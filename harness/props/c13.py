"""
C13 - the parallel gradient is the field-aligned finite-difference derivative.

Proof: Props/C13.v (ParGrad.v).

Tie (the gate, exact): the real methods ParallelGradient.getCoeffsFirstDeriv, ._getThetaVals (+ fieldline)
and .parallel_gradient of pygyro/advection/advection.py are executed unchanged on duck-typed objects holding
fractions.Fraction arrays (adv_common.exact_advection_module: np.empty/zeros give object arrays, `solve` is an
exact Gauss-Jordan, pi a rational stand-in, the theta-spline is evaluated by the lifted real kernels) and
compared, as reduced rationals, with the extracted Qc model (pgr.steps / pgr.moments / pgr.theta / pgr.grad).
The finite-difference weights are a certificate: the exact solution of the code's own moment system must be
accepted by the model's checker pgr_moments_ok.  Direct oracles independent of the model on the exact output
of parallel_gradient: the gather formula bz/dz sum_k c_k S_{(z+s_k)%nz}(thetaVals[(z+s_k)%nz,k,q]), zero for
constants and for z-independent potentials without twist, linearity, commutation with z shifts.

Float link: real ParallelGradient objects (orders 2..6, nz 7..14, iota zero / non-zero / r-dependent,
uniform-cubic and general theta splines) are built on real BSplines / Layout / Constants; _shifts, _fwdSteps,
_bkwdSteps must equal the model's; _coeffs is compared with the exact weights under a conditioning bound;
_thetaVals with the model evaluated on the exact rationals of the doubles (dz, iota(r), R0, pi) modulo 2pi;
parallel_gradient is run end-to-end on doubles and compared with the exact formula (and, for one small case
per object, with the extracted model) fed with the code's own tables, weights and spline coefficients.

A sample of the exact cases is re-evaluated inside Coq (vm_compute on Qc).
"""
import hashlib
import json
import math
import random
import re
import types
import warnings
from fractions import Fraction as F

import numpy as np

import core
import implrun
from qlift import qstr, qparse
from props import adv_common as ac
from props.adv_common import PI, U, fr, frl, qs, oarr


def exact_weights(n):
    start = 1 - (n + 1) // 2
    A = [[F(j + start) ** i for j in range(n)] for i in range(n)]
    b = [F(1 if i == 1 else 0) for i in range(n)]
    return [j + start for j in range(n)], ac.exact_solve(A, b), A


def gen_case(rng, k, tier):
    big = tier == 'thorough'
    order = 2 + k % 5
    n = order + 1
    kind = 'cu' if (k // 5) % 2 == 0 else 'nu'
    nq = rng.randint(7, 14 if big else 9)
    nz = rng.randint(max(7, n), 14 if big else 10)
    if k % 9 == 4:
        nz = n                                                  # smallest admissible grid: nz = order + 1
    deg = 3 if kind == 'cu' else rng.choice([1, 2, 3, 4, 5])
    sp = ac.theta_space(rng, kind, nq, deg, uniform=(rng.random() < 0.5))
    twist = 'no-twist' if rng.random() < 0.35 else 'twist'
    iota = F(0) if twist == 'no-twist' else F(rng.choice([4, -13, 7, -3]), rng.choice([5, 10, 3]))
    dz = F(rng.randint(1, 9), rng.choice([2, 3, 5]))
    R0 = F(rng.choice([239, 100, 17]), rng.choice([1, 3]))
    if twist == 'twist' and k % 4 == 1:
        # the field line turns more than once around the torus within the stencil: |iota*dz*kmax/R0| in (7, 18) ~ (2.2 pi, 5.7 pi)
        twist = 'multi-turn'
        kmax = (order + 1) // 2
        iota = F(rng.choice([-1, 1]) * rng.randint(70, 180), 10) * R0 / (dz * kmax)
    style = rng.choice(['random', 'random', 'random', 'const', 'zindep'])
    cs = [ac.periodic_coeffs(rng, sp, 'const' if style == 'const' else 'random') for _ in range(nz)]
    if style in ('const', 'zindep'):
        cs = [cs[0]] * nz
    shifts, w, _ = exact_weights(n)
    return {'sp': sp, 'nq': nq, 'nz': nz, 'n': n, 'order': order, 'iota': iota, 'dz': dz, 'R0': R0, 'cs': cs, 'style': style, 'twist': twist,
            'kind': kind, 'k': k, 'bz': F(rng.randint(1, 20), 21), 'w': w, 'shifts': shifts,
            'table': rng.choice(['real', 'real', 'arbitrary'])}


def theta_table_exact(c):
    """the table _getThetaVals builds, by the formula (input side / oracle): [z][k][q]"""
    sp = c['sp']
    row = [[(q + c['iota'] * (c['dz'] * l) / c['R0']) % (2 * PI) for q in sp['nodes']] for l in c['shifts']]
    return [row for _ in range(c['nz'])]


def run_pargrad(c, cs, tv, A):
    sp = c['sp']
    nz, nq, n = c['nz'], c['nq'], c['n']
    fake = types.SimpleNamespace(
        _bz=oarr([[c['bz']]]), _thetaVals=oarr([tv]), _rStart=0, _fwdSteps=-(1 - (n + 1) // 2), _bkwdSteps=(1 - (n + 1) // 2) + n - 1,
        _nz=nz, _nq=nq, _shifts=np.arange(n) + (1 - (n + 1) // 2), _coeffs=oarr(c['w']), _inv_dz=1 / c['dz'],
        _interpolator=ac.FakeInterp(cs, key=lambda ug: int(ug[0])), _thetaSpline=ac.FakeSpline(sp, cs))
    phi = np.empty((nz, nq), dtype=object)
    for i in range(nz):
        for q in range(nq):
            phi[i, q] = F(i) if q == 0 else F(i * 17 + q, 5)
    der = np.empty((nz, nq), dtype=object)
    A.ParallelGradient.parallel_gradient(fake, phi, 0, der)
    return [[der[z, q] for q in range(nq)] for z in range(nz)]


def gather_formula(c, cs, tv, w=None, shifts=None, scale=None):
    sp = c['sp'] if 'sp' in c else None
    w = c['w'] if w is None else w
    shifts = c['shifts'] if shifts is None else shifts
    scale = c['bz'] * (1 / c['dz']) if scale is None else scale
    nz = len(cs)
    out = []
    for z in range(nz):
        row = []
        for q in range(len(tv[0][0])):
            acc = F(0)
            for k, s in enumerate(shifts):
                m = (z + s) % nz
                acc += w[k] * ac.spline_eval(c['sp'], cs[m], tv[m][k][q])
            row.append(acc * scale)
        out.append(row)
    return out


def rows_str(rows):
    return 'ok ' + ' ; '.join(' '.join(qstr(x) for x in r) for r in rows)


def exact_case(c):
    r = {'impl': None, 'orc': [], 'n_or': 0}
    try:
        with ac.exact_advection_module() as A:
            if c['op'] == 'weights':
                fake = types.SimpleNamespace()
                A.ParallelGradient.getCoeffsFirstDeriv(fake, c['n'])
                r['impl'] = 'ok %s | %d %d' % (' '.join(str(int(x)) for x in fake._shifts), int(fake._fwdSteps), int(fake._bkwdSteps))
                r['coeffs'] = qs(list(fake._coeffs))
                return r
            sp = c['sp']
            if c['op'] == 'theta':
                n, nz, nq = c['n'], c['nz'], c['nq']
                fake = types.SimpleNamespace(_shifts=np.arange(n) + (1 - (n + 1) // 2), _dz=c['dz'])
                tv = np.empty((nz, n, nq), dtype=object)
                eta = [None, oarr(sp['nodes']), oarr([c['dz'] * i for i in range(nz)])]
                A.ParallelGradient._getThetaVals(fake, F(7, 2), tv, eta, (lambda rr, _c=c: _c['iota']), c['R0'])
                r['impl'] = rows_str([[tv[z, k, q] for q in range(nq)] for z in range(nz) for k in range(n)])
                return r
            tv = theta_table_exact(c) if c['table'] == 'real' else c['tv']
            out = run_pargrad(c, c['cs'], tv, A)
            r['impl'] = rows_str(out)
            r['n_or'] += 1
            if out != gather_formula(c, c['cs'], tv):
                r['orc'].append('pargrad-formula')
            if c['style'] == 'const' or (c['style'] == 'zindep' and c['twist'] == 'no-twist' and c['table'] == 'real'):
                r['n_or'] += 1
                if any(x != 0 for row in out for x in row):
                    r['orc'].append('constant-along-field-line-zero')
            if c.get('extra'):
                rng = random.Random(c['k'])
                nz = c['nz']
                cs2 = [ac.periodic_coeffs(rng, sp) for _ in range(nz)]
                a, b = F(rng.randint(-5, 5), 3), F(rng.randint(1, 7), 2)
                cs3 = [[a * x + b * y for x, y in zip(r1, r2)] for r1, r2 in zip(c['cs'], cs2)]
                o2 = run_pargrad(c, cs2, tv, A)
                o3 = run_pargrad(c, cs3, tv, A)
                r['n_or'] += 1
                if any(o3[z][q] != a * out[z][q] + b * o2[z][q] for z in range(nz) for q in range(c['nq'])):
                    r['orc'].append('linearity')
                if c['table'] == 'real':
                    rot = rng.randint(1, nz - 1)
                    o4 = run_pargrad(c, [c['cs'][(m + rot) % nz] for m in range(nz)], tv, A)
                    r['n_or'] += 1
                    if any(o4[z][q] != out[(z + rot) % nz][q] for z in range(nz) for q in range(c['nq'])):
                        r['orc'].append('z-shift')
    except implrun.CaseTimeout:
        raise
    except Exception as e:
        r['impl'] = ac.exc_class(e) + ' ' + str(e)[:80]
    return r


def grad_line(sp, nz, nq, n, cs, tv, shifts, w, bz, inv_dz):
    return 'pgr.grad %d %d %d %d %s %d %s %s | %s | %s | %s | %s | %s' % (
        nz, nq, n, sp['degree'], '1' if sp['cu'] else '0', len(cs[0]), qstr(bz), qstr(inv_dz), qs([x for row in cs for x in row]),
        qs([x for z in tv for k in z for x in k]), ' '.join(str(int(s)) for s in shifts), qs(w), qs(sp['knots']))


def model_lines(c):
    if c['op'] == 'weights':
        return ['pgr.steps %d' % c['n']]
    sp = c['sp']
    if c['op'] == 'theta':
        return ['pgr.theta %d %s %s %s %s | %s | %s' % (c['nz'], qstr(c['dz']), qstr(c['iota']), qstr(c['R0']), qstr(PI),
                                                       ' '.join(str(s) for s in c['shifts']), qs(sp['nodes']))]
    tv = theta_table_exact(c) if c['table'] == 'real' else c['tv']
    return [grad_line(sp, c['nz'], c['nq'], c['n'], c['cs'], tv, c['shifts'], c['w'], c['bz'], 1 / c['dz'])]


def gen_exact_cases(chk):
    rng = random.Random(chk.seed * 7919 + 13)
    big = chk.tier == 'thorough'
    cases = []
    for n in range(2, 10):
        cases.append({'op': 'weights', 'n': n, 'k': n, 'order': n - 1, 'kind': '-', 'style': '-', 'twist': '-', 'table': '-'})
    for k in range(150 if big else 15):
        c = gen_case(rng, k + 100, chk.tier)
        c['op'] = 'theta'
        cases.append(c)
    for k in range(750 if big else 50):
        c = gen_case(rng, k, chk.tier)
        c['op'] = 'grad'
        c['extra'] = (k % 4 == 1)
        if c['table'] == 'arbitrary':
            c['tv'] = [[[F(rng.randint(0, 43), 7) * rng.choice([1, F(1, 2), F(1, 3)]) for _ in range(c['nq'])] for _ in range(c['n'])]
                       for _ in range(c['nz'])]
        cases.append(c)
    return cases


def stratum(c):
    if c['op'] == 'weights':
        return 'weights/order-%d' % c['order']
    return '%s/%s/order-%d/%s/%s/%s' % (c['op'], c['kind'], c['order'], c['twist'], c['style'] if c['op'] == 'grad' else '-',
                                        c['table'] if c['op'] == 'grad' else '-')


# ------------------------------------------------------------------------------------------------
# real objects on doubles

def object_case(c):
    warnings.simplefilter('ignore')
    from pygyro.advection.advection import ParallelGradient
    rng = random.Random(c['seed'])
    bs, eta = ac.real_spaces(c['npts'], c['degrees'], uniform=c['uniform'], rng=rng)
    const = ac.real_constants(iota=c['iota'], slope=c['slope'])
    lay = ac.real_layout('v_parallel_1d', [0, 2, 1], eta[:3])
    pg = ParallelGradient(bs[1], eta, lay, const, c['order'])
    nz, nq = len(eta[2]), len(eta[1])
    out = {'shifts': [int(x) for x in pg._shifts], 'fwd': int(pg._fwdSteps), 'bkwd': int(pg._bkwdSteps), 'coeffs': [float(x) for x in pg._coeffs],
           'dz': float(pg._dz), 'inv_dz': float(pg._inv_dz), 'dz_spec': float((bs[2].domain[1] - bs[2].domain[0]) / nz),
           'z0': float(eta[2][0]), 'zdom': [float(bs[2].domain[0]), float(bs[2].domain[1])], 'R0': float(const.R0), 'q': [float(x) for x in eta[1]],
           'iota': [float(x) for x in const.iota(eta[0])], 'bz': [float(x) for x in pg._bz[:, 0]], 'r': [float(x) for x in eta[0]],
           'tv': pg._thetaVals.tolist(), 'knots': [float(x) for x in bs[1].knots], 'deg': int(bs[1].degree), 'cu': bool(bs[1].cubic_uniform),
           'nz': nz, 'nq': nq, 'runs': []}
    sp = {'degree': out['deg'], 'cu': out['cu'], 'knots': frl(bs[1].knots)}
    for t in range(c['nruns']):
        ri = rng.randrange(len(eta[0]))
        if t == 0:
            phi = np.full((nz, nq), -1.25)
            kind = 'const'
        elif t == 1:
            phi = np.array([[rng.uniform(-1, 1) for _ in range(nq)] for _ in range(nz)])
            kind = 'random'
        else:
            base = np.array([[rng.uniform(-1, 1) for _ in range(nq)] for _ in range(nz)])
            kind = 'random'
            phi = base
        cs = ac.spline_coeff_rows(*ac.own_tools(bs[1]), [phi[i, :] for i in range(nz)])
        der = np.empty((nz, nq))
        pg.parallel_gradient(phi, ri, der)
        tvx = [[[fr(x) for x in krow] for krow in zrow] for zrow in out['tv'][ri]]
        ref = gather_formula({'sp': sp}, [frl(x) for x in cs], tvx, w=frl(pg._coeffs), shifts=out['shifts'],
                             scale=fr(pg._bz[ri, 0]) * fr(pg._inv_dz))
        err = max(abs(fr(der[z, q]) - ref[z][q]) for z in range(nz) for q in range(nq))
        run = {'ri': ri, 'kind': kind, 'phi': phi.tolist(), 'cs': [x.tolist() for x in cs], 'out': der.tolist(), 'err_formula': float(err),
               'ref': [[float(x) for x in row] for row in ref],
               'ref_sha': hashlib.sha1(' '.join('%d/%d' % (x.numerator, x.denominator) for row in ref for x in row).encode()).hexdigest()}
        if t == 2:
            # linearity and commutation with a z shift on the float outputs (direct oracles, tolerance below)
            rot = rng.randint(1, nz - 1)
            d2 = np.empty((nz, nq))
            pg.parallel_gradient(np.roll(phi, -rot, axis=0), ri, d2)
            run['zshift_dev'] = float(np.max(np.abs(d2 - np.roll(der, -rot, axis=0))))
            d3 = np.empty((nz, nq))
            pg.parallel_gradient(2.0 * phi, ri, d3)
            run['scale_dev'] = float(np.max(np.abs(d3 - 2.0 * der)))
            # the potential may be held in another number type (integer-valued data are the same numbers in all of them)
            pint = np.array([[rng.randint(-8, 8) for _ in range(nq)] for _ in range(nz)])
            d64 = np.empty((nz, nq))
            pg.parallel_gradient(pint.astype(np.float64), ri, d64)
            run['dtype_dev'] = {}
            for dtn in ('int64', 'float32'):
                dd = np.empty((nz, nq))
                try:
                    pg.parallel_gradient(pint.astype(dtn), ri, dd)
                    run['dtype_dev'][dtn] = float(np.max(np.abs(dd - d64)))
                except Exception as e:
                    run['dtype_dev'][dtn] = 'raised %s' % type(e).__name__
            run['dtype_scale'] = float(np.max(np.abs(d64)))
        if t == 1:
            # the caller's arrays may be views: the potential the real part of a complex buffer or a plane of a 3-D
            # block, the out array Fortran-ordered or a plane of a [z, r, theta] block; `phi` must stay what it was
            run['storage_dev'] = {}
            for sn in ('phi-real-of-complex/der-fortran', 'phi-plane/der-plane', 'phi-contiguous/der-transposed-buffer'):
                if sn.startswith('phi-real'):
                    pv = (phi + 1j * np.roll(phi, 1, axis=1)).real
                elif sn.startswith('phi-plane'):
                    b3 = np.full((nz, 3, nq), np.nan)
                    b3[:, 1, :] = phi
                    pv = b3[:, 1, :]
                else:
                    pv = phi.copy()
                if 'der-fortran' in sn:
                    dv_ = np.asfortranarray(np.full((nz, nq), np.nan))
                elif 'der-plane' in sn:
                    dv_ = np.full((nz, 2, nq), np.nan)[:, 0, :]
                else:
                    dv_ = np.full((nq, nz), np.nan).T
                try:
                    pg.parallel_gradient(pv, ri, dv_)
                    same = np.array_equal(dv_, der) and np.array_equal(pv, phi)
                    run['storage_dev'][sn] = 0.0 if same else ('potential modified' if not np.array_equal(pv, phi) else
                                                               float(np.nan_to_num(np.abs(dv_ - der), nan=np.inf).max()))
                except Exception as e:
                    run['storage_dev'][sn] = 'raised %s' % type(e).__name__
        out['runs'].append(run)
    return out


def gen_object_cases(chk):
    rng = random.Random(chk.seed * 104729 + 13)
    big = chk.tier == 'thorough'
    cases = []
    for k in range(120 if big else 10):
        order = 2 + k % 5
        degq = 3 if (k // 5) % 2 == 0 else rng.choice([1, 2, 4, 5])
        uni = [True, not (k % 4 == 3), True, True]
        nq = rng.randint(max(7, degq + 2), 12 if big else 9)
        nz = rng.randint(max(7, order + 1), 14 if big else 10)
        # z spline degree as the constants file may set it (splineDegrees): the z grid is the Greville grid of that space
        degz = 3 if k % 3 == 0 else [5, 1, 2, 4, 5][k % 5]
        nz = max(nz, degz + 2)
        cases.append({'seed': chk.seed * 41 + k, 'npts': [rng.randint(4, 6), nq, nz, 6], 'degrees': [3, degq, degz, 3], 'uniform': uni,
                      'order': order, 'iota': [0.8, 0.0, -1.3, 4.5, -3.7][k % 5] if k % 2 else [0.8, 0.0, -1.3][k % 3], 'slope': (0.05 if k % 4 == 2 else None), 'nruns': 3, 'k': k})
    return cases


def cond_inf(A):
    n = len(A)
    inv_cols = [ac.exact_solve(A, [F(1 if i == j else 0) for i in range(n)]) for j in range(n)]
    norm = max(sum(abs(x) for x in row) for row in A)
    ninv = max(sum(abs(inv_cols[j][i]) for j in range(n)) for i in range(n))
    return float(norm * ninv)


def object_lines(c, o):
    n = c['order'] + 1
    lines = ['pgr.steps %d' % n, 'pgr.moments | %s | %s' % (' '.join(map(str, exact_weights(n)[0])), qs(exact_weights(n)[1]))]
    for ri in range(len(o['r'])):
        lines.append('pgr.theta 1 %s %s %s %s | %s | %s' % (qstr(fr(o['dz'])), qstr(fr(o['iota'][ri])), qstr(fr(o['R0'])), qstr(fr(math.pi)),
                                                          ' '.join(map(str, o['shifts'])), qs([fr(x) for x in o['q']])))
    sp = {'degree': o['deg'], 'cu': o['cu'], 'knots': [fr(x) for x in o['knots']]}
    for t, rn in enumerate(o['runs']):
        rn['use_model'] = (t == 1 and o['deg'] <= 3 and o['nz'] * o['nq'] * n <= 450)
        if rn['use_model']:
            tvx = [[[fr(x) for x in krow] for krow in zrow] for zrow in o['tv'][rn['ri']]]
            lines.append(grad_line(sp, o['nz'], o['nq'], n, [[fr(x) for x in row] for row in rn['cs']], tvx, o['shifts'],
                                   [fr(x) for x in o['coeffs']], fr(o['bz'][rn['ri']]), fr(o['inv_dz'])))
    return lines


def judge_object(chk, c, o, answers):
    n = c['order'] + 1
    desc = {'npts': c['npts'], 'degrees': c['degrees'], 'uniform': c['uniform'], 'order': c['order'], 'iota': c['iota'], 'slope': c['slope']}
    chk.count(('obj', c['k']), stratum='object/order-%d/%s' % (c['order'], 'cu' if o['cu'] else 'nu'), sample=desc)
    t = 0
    # the spacing of the z grid is the period divided by the number of points (not taken from the object: every later
    # reference uses the object's own 1/dz)
    if abs(o['dz'] - o['dz_spec']) > 64 * U * abs(o['dz_spec']) or abs(o['inv_dz'] * o['dz_spec'] - 1.0) > 64 * U:
        chk.violation('ParallelGradient.__init__:dz', 'dz = %r (1/dz = %r) but the z grid has %d points on a period of %r: spacing %r '
                      '(first z point %r, domain %r)' % (o['dz'], o['inv_dz'], o['nz'], o['zdom'][1] - o['zdom'][0], o['dz_spec'], o['z0'], o['zdom']),
                      {'case': desc, 'dz': o['dz'], 'dz_spec': o['dz_spec'], 'z_first': o['z0']})
    code_steps = 'ok %s | %d %d' % (' '.join(map(str, o['shifts'])), o['fwd'], o['bkwd'])
    if answers[t] != code_steps:
        chk.violation('getCoeffsFirstDeriv:shifts:order-%d' % c['order'], 'shifts / forward / backward steps %r, model %r' % (code_steps, answers[t]),
                      {'case': desc})
    t += 1
    if answers[t] != 'ok 1':
        chk.violation('getCoeffsFirstDeriv:moment-certificate', 'the exact solution of the moment system is rejected by pgr_moments_ok', {'case': desc},
                      no_input=True)
    t += 1
    sh, w, A = exact_weights(n)
    tolw = 64 * n * U * cond_inf(A) * float(max(abs(x) for x in w))
    errw = max(abs(fr(x) - y) for x, y in zip(o['coeffs'], w)) if len(o['coeffs']) == n else 1
    chk.cov['max_weight_err_over_tol'] = max(chk.cov.get('max_weight_err_over_tol', 0.0), float(errw) / tolw)
    if errw > tolw:
        chk.violation('getCoeffsFirstDeriv:weights:order-%d' % c['order'], 'finite-difference weights %r differ from the solution of the moment '
                      'conditions %r by %.3g > %.3g' % (o['coeffs'], [float(x) for x in w], float(errw), tolw), {'case': desc})
    twopi = 2 * fr(math.pi)
    for ri in range(len(o['r'])):
        rows = ac.parse_rows(answers[t])
        t += 1
        chk.count(('theta', c['k'], ri), stratum='thetaVals/%s' % ('twist' if o['iota'][ri] != 0.0 else 'no-twist'),
                  sample={'case': desc, 'r_index': ri})
        if not isinstance(rows, list):
            chk.violation('_getThetaVals:model-refuses', 'model answers %r' % answers[t - 1], {'case': desc}, no_input=True)
            continue
        worst = None
        for z in range(o['nz']):
            for k in range(n):
                shiftmag = abs(o['iota'][ri] * o['dz'] * o['shifts'][k] / o['R0'])
                for q in range(o['nq']):
                    d = abs(fr(o['tv'][ri][z][k][q]) - rows[k][q])
                    d = min(d, twopi - d)
                    tol = 4 * U * (abs(o['q'][q]) + shiftmag) + 4 * U * 2 * math.pi + 1e-300
                    if d > tol and worst is None:
                        worst = (z, k, q, float(d), tol)
        if worst:
            z, k, q, d, tol = worst
            chk.violation('_getThetaVals:%s' % ('twist' if o['iota'][ri] != 0.0 else 'no-twist'),
                          'thetaVals[r=%d, z=%d, k=%d, q=%d] = %r differs from (theta + iota*dz*s_k/R0) mod 2pi = %r by %.3g > %.3g'
                          % (ri, z, k, q, o['tv'][ri][z][k][q], float(rows[k][q]), d, tol),
                          {'case': desc, 'r_index': ri, 'iota': o['iota'][ri], 'dz': o['dz'], 'R0': o['R0'], 'shift': o['shifts'][k], 'theta': o['q'][q]})
    for rn in o['runs']:
        ri = rn['ri']
        st = 'pargrad-float/order-%d/%s/%s/%s' % (c['order'], 'cu' if o['cu'] else 'nu', 'twist' if o['iota'][ri] != 0.0 else 'no-twist', rn['kind'])
        chk.count(('pgf', c['k'], ri, rn['kind'], rn['phi'][0][0]), stratum=st, sample={'case': desc, 'r_index': ri})
        rep = {'case': desc, 'r_index': ri, 'phi': rn['phi'], 'code_out': rn['out'], 'formula_out': rn['ref'], 'shifts': o['shifts'],
               'coeffs': o['coeffs'], 'bz': o['bz'][ri], 'inv_dz': o['inv_dz']}
        if rn['use_model']:
            rows = ac.parse_rows(answers[t])
            t += 1
            chk.cov['certificates_checked'] += 1
            if not isinstance(rows, list):
                chk.violation('parallel_gradient:model-refuses', 'model answers %r' % answers[t - 1], rep, no_input=True)
            else:
                sha = hashlib.sha1(' '.join('%d/%d' % (x.numerator, x.denominator) for row in rows for x in row).encode()).hexdigest()
                if sha != rn['ref_sha']:
                    chk.violation('parallel_gradient:model-vs-formula', 'the model and the exact formula differ on the code\'s own tables', rep,
                                  no_input=True)
        cmax = max(1e-300, max(abs(x) for row in rn['cs'] for x in row))
        sw = sum(abs(x) for x in o['coeffs'])
        scale = abs(o['bz'][ri] * o['inv_dz'])
        tol = 4 * scale * sw * (16 * (o['deg'] + 1) * U * cmax + 16 * (n + 2) * U * cmax) + 1e-300
        err = rn['err_formula']
        chk.cov['max_err_over_tol'] = max(chk.cov.get('max_err_over_tol', 0.0), err / tol)
        if err > tol:
            chk.violation('parallel_gradient:order-%d:%s' % (c['order'], 'twist' if o['iota'][ri] != 0.0 else 'no-twist'),
                          'der differs from bz/dz sum_k c_k S_{(z+s_k)%%nz}(theta_k) by %.3g > %.3g' % (err, tol), rep)
        if rn['kind'] == 'const':
            dev = max(abs(x) for row in rn['out'] for x in row)
            if dev > tol + 64 * U * scale * sw * 1.25:
                chk.violation('parallel_gradient:constants', 'gradient of the constant -1.25 is %.3g' % dev, rep)
        for dtn, dv in sorted(rn.get('dtype_dev', {}).items()):
            chk.count(('dtype', c['k'], ri, dtn), stratum='pargrad-float/potential-dtype-%s' % dtn)
            if isinstance(dv, str) or dv > 1e-12 * max(1.0, rn.get('dtype_scale', 1.0)):
                chk.violation('parallel_gradient:potential-dtype:%s' % dtn,
                              'the same integer-valued potential held as %s gives a gradient that differs from the float64 one by %s' % (dtn, dv),
                              {'case': desc, 'r_index': ri, 'dtype': dtn, 'deviation': dv})
        for sn, dv in sorted(rn.get('storage_dev', {}).items()):
            chk.count(('storage', c['k'], ri, sn), stratum='pargrad-float/caller-arrays/%s' % sn)
            if dv != 0.0:
                chk.violation('parallel_gradient:caller-arrays:%s' % sn,
                              'the same potential and out array held as %s: the out array differs from the one of the call on contiguous arrays by %s' % (sn, dv),
                              {'case': desc, 'r_index': ri, 'storage': sn, 'deviation': dv})
        if 'zshift_dev' in rn:
            if rn['zshift_dev'] > 2 * tol:
                chk.violation('parallel_gradient:z-shift', 'does not commute with a circular z shift: %.3g' % rn['zshift_dev'], rep)
            if rn['scale_dev'] != 0.0:
                chk.violation('parallel_gradient:linearity', 'doubling the potential does not double the gradient: %.3g' % rn['scale_dev'], rep)


# ------------------------------------------------------------------------------------------------

def coq_term(c):
    sp = c['sp']

    def q(x):
        x = F(x)
        return '(spq_of (%d) %d)' % (x.numerator, x.denominator)

    def ql(l):
        return '[' + '; '.join(q(x) for x in l) + ']'
    tv = theta_table_exact(c) if c['table'] == 'real' else c['tv']
    return ('advq_show_rows (pgrq_parallel_gradient %d %d %d [%s] [%s] [%s]%%Z %s %s %s %s %d %s)'
            % (c['nz'], c['nq'], c['n'], '; '.join(ql(r) for r in c['cs']), '; '.join('[' + '; '.join(ql(k) for k in z) + ']' for z in tv),
               '; '.join('(%d)' % s for s in c['shifts']), ql(c['w']), q(c['bz']), q(1 / c['dz']), ql(sp['knots']), sp['degree'],
               'true' if sp['cu'] else 'false'))


def coq_matches(coq_ans, model_ans):
    rows = ac.parse_rows(model_ans)
    if not isinstance(rows, list):
        return False
    nums = re.findall(r'\(\s*\(?(-?\d+)\)?%Z\s*,\s*(\d+)%positive\s*\)', coq_ans)
    flat = [x for r in rows for x in r]
    return len(nums) == len(flat) and all(F(int(n), int(d)) == x for (n, d), x in zip(nums, flat))



# ------------------------------------------------------------------------------------------------
# "all radii (local index mapping)": real ParallelGradient objects built on ranks whose radial block does not start
# at 0 (r distributed over several simulated ranks, rotational transform depending on r) must give, for every local
# radius, bitwise the surface gradient that the serial object gives for the same global radius.
def radial_mapping_case(c):
    import warnings
    from mpi4py import MPI
    import simdriver
    npts, nprocs, seed = c

    def work(comm):
        warnings.simplefilter('ignore')
        S = simdriver.Sim(comm, npts, nprocs, iota=0.8, extra={'iota_slope': 0.07})
        L = S.remapperPhi.getLayout('v_parallel_1d')
        r0 = int(L.starts[L.inv_dims_order[0]])
        nr = int(L.shape[L.inv_dims_order[0]])
        nz, nq = npts[2], npts[1]
        idx = np.arange(nz * nq, dtype=np.int64).reshape(nz, nq)
        phi_r = ((idx * 7919 + seed) % 1009).astype(float) / 1024.0
        out = {}
        for i in range(nr):
            der = np.empty((nz, nq))
            S.parGrad.parallel_gradient(phi_r, i, der)
            out[r0 + i] = der.tobytes().hex()
        # the same object built on other layouts of the same process grid in which r is not the first dimension and the
        # ordering is not its own inverse (the class only reads the radial block of the layout it is given)
        from pygyro.model.layout import Layout
        from pygyro.advection.advection import ParallelGradient
        rk = comm.Get_rank()
        crd = [rk // nprocs[1], rk % nprocs[1]]
        f = S.f
        for nm, order, eta in (('z-r-theta', [2, 0, 1], f.eta_grid[:3]), ('theta-z-r', [1, 2, 0], f.eta_grid[:3]), ('v-r-z-theta', [3, 0, 2, 1], f.eta_grid)):
            if any(p > len(eta[d]) for p, d in zip(nprocs, order)):
                continue
            LX = Layout(nm, list(nprocs), order, eta, crd)
            PG = ParallelGradient(f.getSpline(1), eta, LX, S.constants)
            rs = int(LX.starts[LX.inv_dims_order[0]])
            for i in range(int(LX.shape[LX.inv_dims_order[0]])):
                der = np.empty((nz, nq))
                PG.parallel_gradient(phi_r, i, der)
                out['%s:%d' % (nm, rs + i)] = der.tobytes().hex()
        return out
    R = MPI.run(nprocs[0] * nprocs[1], work, seed=seed, timeout=600)
    if R.outcome != 'ok':
        return ('fail', R.outcome, R.detail[:400])
    return ('ok', R.results)


def radial_mapping_stage(chk):
    quick = chk.tier == 'quick'
    rng = random.Random(chk.seed + 5)
    shapes = [[8, 8, 8, 8]] if quick else [[8, 8, 8, 8], [9, 7, 8, 9]]
    grids = [(2, 1), (3, 1), (2, 2)] if quick else [(2, 1), (3, 1), (4, 1), (2, 2), (3, 2), (5, 1)]
    cases = []
    for npts in shapes:
        seed = rng.randrange(1000)
        cases.append((npts, (1, 1), seed))
        for g in grids:
            if g[0] <= min(npts[0], npts[3]) and g[1] <= min(npts[2], npts[3]):
                cases.append((npts, g, seed))
    res = implrun.run_cases('props.c13', 'radial_mapping_case', cases, tmo=900.0, chunk=1)
    ref = {}
    for c, r in zip(cases, res):
        npts, g, seed = c
        if r[0] != 'ok':
            chk.violation('advection.ParallelGradient:run-%s' % r[1], 'ParallelGradient on grid %r: %s %s' % (g, r[1], r[2]), {'kind': 'impl', 'case': list(c)})
            continue
        if g == (1, 1):
            ref[tuple(npts)] = r[1][0]
            continue
        chk.count(('radial-mapping', tuple(npts), g), stratum='radial-mapping', sample={'npts': npts, 'process_grid': list(g)})
        base = ref.get(tuple(npts))
        if base is None:
            continue
        for rk, out in enumerate(r[1]):
            bad = [R for R, h in out.items() if base[R if isinstance(R, int) else int(R.split(':')[1])] != h]
            if bad:
                chk.violation('advection.ParallelGradient:local-radius-mapping',
                              'npts=%r grid=%r rank %d: parallel_gradient for global radii %r differs from the serial object (a table is indexed with the wrong radius)'
                              % (npts, g, rk, sorted(bad, key=str)[:6]), {'kind': 'impl', 'case': list(c), 'rank': rk, 'radii': sorted(bad, key=str)})
                break

def run():
    chk = core.Check('C13', 'proof')
    proof = core.proof_stage('C13')
    warnings.simplefilter('ignore')
    radial_mapping_stage(chk)
    cases = gen_exact_cases(chk)
    res = implrun.run_cases('props.c13', 'exact_case', cases, tmo=600.0)
    lines, owner = [], []
    for idx, c in enumerate(cases):
        ls = model_lines(c)
        lines += ls
        owner += [idx] * len(ls)
    # the certificate: exact weights computed by the code's own (exactly solved) system go through pgr_moments_ok
    cert_lines = []
    for idx, (c, r) in enumerate(zip(cases, res)):
        if c['op'] == 'weights' and isinstance(r, dict) and 'coeffs' in r:
            cert_lines.append((idx, 'pgr.moments | %s | %s' % (r['impl'][2:].split('|')[0].strip(), r['coeffs'])))
    ans = ac.model_par(lines + [l for _, l in cert_lines])
    cert_ans = dict(zip([i for i, _ in cert_lines], ans[len(lines):]))
    ans = ans[:len(lines)]
    by_case = {}
    for idx, a in zip(owner, ans):
        by_case.setdefault(idx, []).append(a)
    n_or = 0
    for idx, (c, r) in enumerate(zip(cases, res)):
        small = {'op': c['op'], 'order': c['order'], 'kind': c['kind'], 'nz': c.get('nz'), 'nq': c.get('nq'), 'style': c['style'], 'twist': c['twist'],
                 'iota': str(c.get('iota')), 'table': c['table']}
        chk.count((c['op'], c['k']), stratum=stratum(c), sample=small)
        if not isinstance(r, dict):
            chk.violation('%s:outcome' % c['op'], 'implementation run ended with %r' % (r,), {'case': small}, no_input=True)
            continue
        n_or += r['n_or']
        impl, m = r['impl'], by_case[idx][0]
        replay = {'case': json.loads(json.dumps(c, default=str)), 'impl': impl[:4000], 'model': m[:4000]}
        site = {'weights': 'getCoeffsFirstDeriv(exact)', 'theta': '_getThetaVals(exact)', 'grad': 'parallel_gradient(exact)'}[c['op']]
        if c['op'] == 'weights':
            if impl != m:
                chk.violation('%s:shifts:order-%d' % (site, c['order']), 'code %r / model %r' % (impl, m), replay)
            chk.cov['certificates_checked'] += 1
            if c['n'] >= 2 and cert_ans.get(idx) != 'ok 1':
                chk.violation('%s:weights:order-%d' % (site, c['order']), 'the weights the code solves for do not satisfy the moment conditions '
                              '(pgr_moments_ok answers %r)' % cert_ans.get(idx), dict(replay, coeffs=r.get('coeffs')))
            continue
        if impl.startswith('ok') and m.startswith('ok'):
            same = ac.parse_rows(impl) == ac.parse_rows(m)
        else:
            same = impl.split(' ')[:2] == m.split(' ')[:2]
        if r['orc']:
            chk.cov['disagreements_checked'] += 1
            chk.violation('%s:%s:order-%d' % (site, r['orc'][0], c['order']), 'direct oracle(s) %r fail on the exact output of the code (model %s)'
                          % (r['orc'], 'agrees with the code' if same else 'disagrees too'), replay)
        elif not same:
            chk.cov['disagreements_checked'] += 1
            chk.violation('%s:model-mismatch:order-%d:%s' % (site, c['order'], c['twist']),
                          'exact output of the code differs from the model: %s / %s' % (impl[:100], m[:100]), replay,
                          # an exception about the stand-ins of the exact run (Fraction, the duck-typed iota) is a broken
                          # correspondence, not a failing input
                          no_input=((c['op'] == 'grad' and impl.startswith('ok')) or
                                    (impl.startswith('exc') and ('<lambda>' in impl or 'Fraction' in impl or 'SimpleNamespace' in impl))))
    # ---- real objects
    ocases = gen_object_cases(chk)
    ores = implrun.run_cases('props.c13', 'object_case', ocases, tmo=600.0, chunk=1)
    olines, oown = [], []
    for idx, (c, o) in enumerate(zip(ocases, ores)):
        if not isinstance(o, dict):
            chk.violation('ParallelGradient:construction:order-%d' % c['order'], 'building / running the real object ended with %r' % (o,), {'case': c})
            continue
        ls = object_lines(c, o)
        olines += ls
        oown += [idx] * len(ls)
    oans = ac.model_par(olines)
    grouped = {}
    for idx, a in zip(oown, oans):
        grouped.setdefault(idx, []).append(a)
    for idx, (c, o) in enumerate(zip(ocases, ores)):
        if isinstance(o, dict):
            judge_object(chk, c, o, grouped[idx])
    # ---- Coq re-evaluation of a small sample
    small = [(i, c) for i, c in enumerate(cases) if c['op'] == 'grad' and c['nz'] * c['nq'] * c['n'] <= 300][:3]
    if small:
        vals = core.coq_eval([coq_term(c) for _, c in small],
                             'From Coq Require Import List ZArith QArith Qcanon.\nImport ListNotations.\n'
                             'From PGV Require Import SplineModel SplineQc AdvCommon ParGrad AdvQc.', tag='c13cases')
        for (i, c), v in zip(small, vals):
            chk.cov['certificates_checked'] += 1
            if not coq_matches(v, by_case[i][0]):
                chk.violation('extraction:pgrq_parallel_gradient', 'vm_compute and the extracted model disagree',
                              {'coq': v[:300], 'model': by_case[i][0][:300]}, no_input=True)
    chk.assumptions = [
        'the finite-difference weights are a certificate: numpy.linalg.solve is not modelled; the exact solution of the same system is checked by pgr_moments_ok and the float weights are compared with it',
        'the theta-spline interpolation (compute_interpolant) is C08: spline coefficients are inputs of the model',
        'rounding is not modelled; float runs are compared with the exact formula under a-priori bounds',
        'bz = 1/sqrt(1+(r iota/R0)^2) is an input of the model (taken from the object)']
    return chk.finish(proof, rule='distinct (op, case id)',
                      extra={'direct_oracles_evaluated': n_or, 'exact_cases': len(cases), 'real_objects': len(ocases)},
                      uncovered=['convergence with the stated order (asymptotic statement)',
                                 'floating-point rounding and the conditioning of the Vandermonde solve (bounded a posteriori on the sampled runs)',
                                 'non-singularity of the collocation matrix stays C08\'s per-instance certificate in c13_interp_then_constants_zero',
                                 'bz(r) = 1/sqrt(1+(r iota/R0)^2) and the local/global radius index mapping (C05, defect 9.5 repaired)',
                                 'field-aligned potentials for iota != 0: proved for the representable family (uniform-cubic theta space, twist per z cell a whole number c of theta cells, n | c*nz: c13_aligned_family_zero, c13_cu_shift_eval); shift invariance for general degrees / non-uniform spaces not proved; for other twists no non-constant field-aligned potential is representable plane by plane, c13_aligned_zero then covers approximations through its hypothesis only'])


def replay(path):
    """re-execute the recorded exact case against the current tree (cases are regenerated from seed and tier);
    failures recorded on real objects (float link) are replayed by re-running the check with the same seed"""
    core.setup_paths()
    import os
    body = json.load(open(path))
    print(json.dumps({k: body[k] for k in ('property', 'key', 'what')}, indent=1)[:2000])
    os.environ['VERIF_SEED'] = str(body.get('seed'))
    os.environ['VERIF_TIER'] = str(body.get('tier'))
    rc = body.get('replay', {}).get('case', {}) if isinstance(body.get('replay'), dict) else {}
    if isinstance(rc, dict) and 'k' in rc and 'op' in rc:
        chk = core.Check('C13', 'proof')
        chk.seed, chk.tier = int(body['seed']), body['tier']
        hit = [c for c in gen_exact_cases(chk) if c['k'] == rc['k'] and c['op'] == rc['op']]
        if hit:
            c = hit[0]
            r = exact_case(c)
            m = core.model(model_lines(c))
            print('implementation:', str(r['impl'])[:600])
            print('model         :', str(m[0])[:600])
            print('failed direct oracles:', r['orc'])
            impl = r['impl']
            if isinstance(impl, str) and impl.startswith('ok') and m[0].startswith('ok'):
                same = (impl == m[0]) if c['op'] == 'weights' else ac.parse_rows(impl) == ac.parse_rows(m[0])
            else:
                same = isinstance(impl, str) and impl.split(' ')[:2] == m[0].split(' ')[:2]
            if isinstance(impl, list):
                same = all(x.replace(' ', '') == y[2:].replace(' ', '') for x, y in zip(impl, m))
            print('agree' if same and not r['orc'] else 'STILL FAILING')
            return 0 if same and not r['orc'] else 1
    return run()
