"""
C17 - diagnostics and global reductions equal the serial quadrature of the global field.

Proof: Props/C17.v (Diagnostics.v, Sums.v, Blocks.v).  Tie: the REAL classes l2, l1, nParticles,
KineticEnergy, DiagnosticCollector (collect / reduce / getLine) and Grid.getMin / getMax are run under the
simulated MPI on small 4-D grids (extents not divisible by the process counts) and every process grid up
to 8 ranks, in the layouts the collector is built for ('v_parallel' for f, 'v_parallel_2d' for phi through
a LayoutSwapper built as in fullSimulation.py), in the other layouts of f and phi, and in the two layouts
of the swapper that are replicated along one process direction.  Fields are small integers (real and
complex), eta grids are integers times a power of two, non-uniform in r and v: every float operation of
the classes is then exact, so implementation, extracted Z model and a direct numpy/int oracle on the
global array are compared exactly (as rationals); no tolerance anywhere.

Compared: what every rank computes locally (per class), the Reduce results on rank 0, min / max (whole
grid and fixed-index slices, any drawing rank), the diagnostics table after several collect() calls
(which time goes to which slot) and getLine.
"""
import json
import math
import os
import random
import re
import warnings
from fractions import Fraction

import numpy as np

import core
import implrun

LAY4 = {'flux_surface': [0, 3, 1, 2], 'v_parallel': [0, 2, 1, 3], 'poloidal': [3, 2, 1, 0]}
LAY_POISSON = {'v_parallel_2d': [0, 2, 1], 'mode_solve': [1, 2, 0]}
LAY_VPAR = {'v_parallel_1d': [0, 2, 1]}
LAY_POL = {'poloidal': [2, 1, 0]}
PHI_DIMS = {'v_parallel_2d': [0, 2, 1], 'mode_solve': [1, 2, 0], 'v_parallel_1d': [0, 2, 1], 'poloidal': [2, 1, 0]}
KINDS = ('l2', 'l1', 'n', 'ke')
GRIDS = [(1, 1), (1, 2), (2, 1), (1, 3), (3, 1), (2, 2), (2, 3), (3, 2), (1, 4), (4, 1), (2, 4), (4, 2)]


# ---------------------------------------------------------------------------------------------------
# configurations
# ---------------------------------------------------------------------------------------------------
def cum(start, incs):
    out = [start]
    for d in incs:
        out.append(out[-1] + d)
    return out


def gen_config(rng, grid, kind):
    """kind: 'std' | 'empty' (a rank without radial points) | 'ones' (field = 1) | 'uniform'"""
    n1, n2 = grid
    hi = 7
    nr = rng.randint(max(2, n1), hi)
    nq = rng.randint(max(3, n1), hi)
    nz = rng.randint(max(3, n2), hi)
    nv = rng.randint(max(2, n1, n2), hi)
    if kind == 'empty':
        nr = n1 - 1
    # prefer extents that the process counts do not divide
    for _ in range(3):
        if n1 > 1 and nr % n1 == 0 and nr < hi and kind != 'empty':
            nr += 1
        if n2 > 1 and nz % n2 == 0 and nz < hi:
            nz += 1
        if max(n1, n2) > 1 and nv % max(n1, n2) == 0 and nv < hi:
            nv += 1
    if kind == 'uniform':
        r = cum(rng.randint(1, 3), [2] * (nr - 1))
        v = cum(-rng.randint(1, 4), [1] * (nv - 1))
    else:
        r = cum(rng.randint(1, 4), [rng.choice([1, 2, 3]) for _ in range(nr - 1)])
        v = cum(-rng.randint(1, 6), [rng.choice([1, 2, 3]) for _ in range(nv - 1)])
    sq = rng.choice([1, 2])
    q = cum(0, [sq] * (nq - 1))
    z = cum(rng.randint(-2, 2), [rng.choice([1, 2, 3])] * (nz - 1))
    # units: eta = int * 2**u ; dq * nq must stay below 2*pi (assert in the classes): 2 * 7 / 4 = 3.5
    units = [rng.choice([0, -1]), -2, rng.choice([0, -1, 1]), rng.choice([0, -1])]
    save = rng.randint(1, 4)
    nsteps = rng.choice([1, save, save + 1, save + 2]) if save > 1 else rng.choice([1, 2])
    nsteps = max(1, min(nsteps, 5))
    dt = rng.choice([1, 2, 3])
    t0 = rng.choice([0, 0, dt * rng.randint(0, 7), rng.randint(0, 9)])
    nranks = n1 * n2
    queries = [[rng.randrange(nranks), []]]
    N = [nr, nq, nz, nv]
    for _ in range(3):
        axes = rng.sample(range(4), rng.choice([1, 1, 2]))
        queries.append([rng.randrange(nranks), [[a, rng.randrange(N[a])] for a in axes]])
    return {'N': N, 'grid': list(grid), 'eta_int': [r, q, z, v], 'units': units, 'kind': kind,
            'shift': rng.choice([0, 10, -10]), 'complex_f': rng.random() < 0.5, 'fseed': rng.randrange(1 << 30), 'saveStep': save, 'dt': dt, 't0': t0,
            'nsteps': nsteps, 'queries': queries, 'sched_seed': rng.randrange(1 << 30)}


def make_fields(c):
    """global integer fields, canonical order: per step f (re, im) and phi (re, im)"""
    g = np.random.default_rng(c['fseed'])
    N = c['N']
    out = []
    for k in range(c['nsteps']):
        if c['kind'] == 'ones':
            fre = np.ones(N, dtype=np.int64)
            fim = np.zeros(N, dtype=np.int64)
            pre = np.ones(N[:3], dtype=np.int64)
            pim = np.zeros(N[:3], dtype=np.int64)
        else:
            fre = g.integers(-9, 10, size=N) + c.get('shift', 0)    # shift +-10: all values of one sign
            fim = g.integers(-9, 10, size=N) if (c['complex_f'] and k == 0) else np.zeros(N, dtype=np.int64)
            pre = g.integers(-9, 10, size=N[:3])
            pim = g.integers(-9, 10, size=N[:3])
        out.append((fre, fim, pre, pim))
    return out


def eta_float(c):
    return [np.array(x, dtype=float) * (2.0 ** u) for x, u in zip(c['eta_int'], c['units'])]


# ---------------------------------------------------------------------------------------------------
# implementation side (runs in a worker process; every rank is a thread of the simulated MPI)
# ---------------------------------------------------------------------------------------------------
def fx(x):
    """exact text of a float result"""
    if x is None:
        return None
    if isinstance(x, (complex, np.complexfloating)):
        return ['c', fx(x.real), fx(x.imag)]
    x = float(x)
    if math.isinf(x):
        return 'inf' if x > 0 else '-inf'
    if math.isnan(x):
        return 'nan'
    return str(Fraction(x))


def fill(grid, G):
    lay = grid._layout
    sl = tuple(slice(int(s), int(e)) for s, e in zip(lay.starts, lay.ends))
    grid._f[:] = np.transpose(G, lay.dims_order)[sl]


def lay_info(lay):
    return {'starts': [int(x) for x in lay.starts], 'ends': [int(x) for x in lay.ends],
            'shape': [int(x) for x in lay.shape], 'dims': [int(x) for x in lay.dims_order]}


def work(comm, c, fields, eta):
    from pygyro.model.layout import getLayoutHandler, LayoutSwapper
    from pygyro.model.grid import Grid
    from pygyro.diagnostics.norms import l2, l1, nParticles
    from pygyro.diagnostics.energy import KineticEnergy
    from pygyro.diagnostics.diagnostic_collector import DiagnosticCollector
    out = {'norms': {}, 'lay': {}, 'phi': {}, 'minmax': []}
    nprocs = list(c['grid'])
    fre, fim, pre, pim = fields[0]
    F0 = fre + 1j * fim if c['complex_f'] else fre.astype(float)
    P0 = pre + 1j * pim
    fdt = np.complex128 if c['complex_f'] else float
    remap = getLayoutHandler(comm, LAY4, nprocs, eta)
    grids = {}
    for name in LAY4:
        g = Grid(eta, [None] * 4, remap, name, comm, dtype=fdt)
        fill(g, F0)
        grids[name] = g
        lay = g.getLayout(name)
        out['lay'][name] = lay_info(lay)
        out['norms'][name] = {'l2': fx(l2(eta, lay).l2NormSquared(g)), 'l1': fx(l1(eta, lay).l1Norm(g)),
                              'n': fx(nParticles(eta, lay).getN(g)), 'ke': fx(KineticEnergy(eta, lay).getKE(g))}
    # min / max through reduce, any drawing rank, whole grid / one / two fixed indices
    for qi, (dr, pairs) in enumerate(c['queries']):
        g = grids[list(LAY4)[qi % 3]]
        if not pairs:
            a = b = None
        elif len(pairs) == 1:
            a, b = pairs[0]
        else:
            a, b = [p[0] for p in pairs], [p[1] for p in pairs]
        # the caller may hold axis / fixValue as numpy integer arrays (or tuples) and use the same objects for both requests
        if pairs and (qi + c['sched_seed']) % 3 == 1:
            a, b = np.array([p[0] for p in pairs]), np.array([p[1] for p in pairs])
        elif pairs and len(pairs) > 1 and (qi + c['sched_seed']) % 3 == 2:
            a, b = tuple(a), tuple(b)
        a0, b0 = (np.array(a, copy=True), np.array(b, copy=True)) if pairs else (None, None)
        out['minmax'].append([fx(g.getMin(dr, a, b)), fx(g.getMax(dr, a, b))])
        if pairs and not (np.array_equal(a0, a) and np.array_equal(b0, b) and type(b) in (int, list, tuple, np.ndarray)):
            out.setdefault('args_modified', []).append([qi, type(b).__name__, np.asarray(b0).tolist(), np.asarray(b).tolist()])
    if c['kind'] == 'empty':
        return out
    # phi as fullSimulation.py builds it
    np2 = remap.getLayout('v_parallel').nprocs[:2]
    swap = LayoutSwapper(comm, [LAY_POISSON, LAY_VPAR, LAY_POL], [np2, np2[0], np2[1]], eta[:3], 'v_parallel_2d')
    pg = {}
    for name in PHI_DIMS:
        g = Grid(eta[:3], [None] * 3, swap, name, comm, dtype=np.complex128)
        fill(g, P0)
        pg[name] = g
        lay = g.getLayout(name)
        out['lay']['phi:' + name] = lay_info(lay)
        out['phi'][name] = fx(l2(eta[:3], lay).l2NormSquared(g))
    # the collector on (f in v_parallel, phi in v_parallel_2d), real f as in fullSimulation.py
    gf = Grid(eta, [None] * 4, remap, 'v_parallel', comm, dtype=float)
    gp = pg['v_parallel_2d']
    dc = DiagnosticCollector(comm, c['saveStep'], c['dt'], gf, gp)
    local_ext = []
    for k in range(c['nsteps']):
        fre, fim, pre, pim = fields[k]
        fill(gf, fre.astype(float))
        fill(gp, pre + 1j * pim)
        local_ext.append([fx(gf.getMin()), fx(gf.getMax())])
        dc.collect(gf, gp, c['t0'] + k * c['dt'])
    out['local_ext'] = local_ext
    out['table'] = [[fx(x) for x in row] for row in dc.diagnostics]
    dc.reduce()
    out['reduced'] = {nm: [fx(x) for x in getattr(dc, nm)] for nm in
                      ('l2PhiResult', 'l2GridResult', 'l1Result', 'nPartResult', 'min_val', 'max_val', 'KE_val')}
    out['lines'] = [dc.getLine(i) for i in range(c['saveStep'])]
    out['str'] = str(dc)
    return out


def impl_case(c):
    from mpi4py import MPI
    fields = make_fields(c)
    eta = eta_float(c)
    with warnings.catch_warnings():
        warnings.simplefilter('ignore')
        R = MPI.run(c['grid'][0] * c['grid'][1], work, c, fields, eta, seed=c['sched_seed'], timeout=100.0)
    if R.outcome != 'ok':
        err = next((e for e in (R.errors or []) if e is not None), None)
        return {'outcome': R.outcome, 'detail': R.detail[:300], 'tb': (err[2][-1500:] if err else '')}
    return {'outcome': 'ok', 'ranks': R.results}


def float_time_case(c):
    """collect() with float t and dt (the documented argument types): one rank"""
    from mpi4py import MPI

    def w(comm):
        from pygyro.model.layout import getLayoutHandler
        from pygyro.model.grid import Grid
        from pygyro.diagnostics.diagnostic_collector import DiagnosticCollector
        eta = [np.arange(1, 4, dtype=float), np.arange(3) * 0.5, np.arange(3, dtype=float), np.arange(-1, 2, dtype=float)]
        remap = getLayoutHandler(comm, LAY4, [1, 1], eta)
        gf = Grid(eta, [None] * 4, remap, 'v_parallel', comm, dtype=float)
        gf._f[:] = 1.0
        rp = getLayoutHandler(comm, LAY_POISSON, [1, 1], eta[:3])
        gp = Grid(eta[:3], [None] * 3, rp, 'v_parallel_2d', comm, dtype=np.complex128)
        gp._f[:] = 1.0
        dc = DiagnosticCollector(comm, c['saveStep'], c['dt'], gf, gp)
        slots = []
        for k, t in enumerate(c['ts']):
            gf._f[:] = float(k + 1)           # marks the column written by this call: nParticles = (k+1) * getN(1)
            dc.collect(gf, gp, t)
            unit = dc.npart.getN(gf) / (k + 1)
            hit = [i for i in range(c['saveStep']) if dc.diagnostics[4, i] == (k + 1) * unit and dc.diagnostics[0, i] == t]
            slots.append(hit[0] if len(hit) == 1 else -1)
        return slots, [float(x) for x in dc.diagnostics[0]]
    with warnings.catch_warnings():
        warnings.simplefilter('ignore')
        R = MPI.run(1, w, seed=1, timeout=60.0)
    if R.outcome != 'ok':
        return {'outcome': R.outcome, 'detail': R.detail[:300]}
    return {'outcome': 'ok', 'slots': R.results[0][0], 'times': R.results[0][1]}


# ---------------------------------------------------------------------------------------------------
# model side
# ---------------------------------------------------------------------------------------------------
def sec(*parts):
    return ' | '.join(' '.join(str(int(x)) for x in p) for p in parts)


def layout_specs(c):
    """every (layout, field, sel) the tie looks at: name -> (N, dims, sel, which field, replication R)"""
    n1, n2 = c['grid']
    sp = {nm: {'N': c['N'], 'dims': d, 'sel': [0, 1], 'fld': 'f', 'R': 1} for nm, d in LAY4.items()}
    if c['kind'] != 'empty':
        for nm, d in PHI_DIMS.items():
            sel, R = [0, 1], 1
            if nm == 'v_parallel_1d':
                sel, R = [0], n2
            elif nm == 'poloidal':
                sel, R = [1], n1
            sp['phi:' + nm] = {'N': c['N'][:3], 'dims': d, 'sel': sel, 'fld': 'phi', 'R': R}
    return sp


def model_lines(c, fields):
    """request lines for the extracted model, with a tag per line"""
    lines, tags = [], []
    sp = layout_specs(c)
    fre, fim, pre, pim = fields[0]
    for nm, s in sp.items():
        lines.append('dglay | ' + sec(s['N'], c['grid'], s['sel'], s['dims']))
        tags.append(('lay', nm))
        etas = c['eta_int'][:len(s['N'])]
        if s['fld'] == 'f':
            for k in KINDS:
                lines.append('dgsum %s | ' % k + sec(s['N'], c['grid'], s['sel'], s['dims'], fre.ravel(), fim.ravel(), *etas))
                tags.append(('sum', nm, k))
        else:
            lines.append('dgsum l2 | ' + sec(s['N'], c['grid'], s['sel'], s['dims'], pre.ravel(), pim.ravel(), *etas))
            tags.append(('sum', nm, 'l2'))
    for qi, (dr, pairs) in enumerate(c['queries']):
        nm = list(LAY4)[qi % 3]
        flat = [x for p in pairs for x in p]
        for m in ('min', 'max'):
            lines.append('dgext %s | ' % m + sec(c['N'], c['grid'], [0, 1], LAY4[nm], fre.ravel(), flat))
            tags.append(('ext', qi, m))
    if c['kind'] != 'empty':
        z4 = np.zeros(c['N'], dtype=np.int64)
        for k in range(c['nsteps']):
            fre, fim, pre, pim = fields[k]
            for kd in KINDS:
                lines.append('dgsum %s | ' % kd + sec(c['N'], c['grid'], [0, 1], LAY4['v_parallel'], fre.ravel(), z4.ravel(), *c['eta_int']))
                tags.append(('csum', k, kd))
            lines.append('dgsum l2 | ' + sec(c['N'][:3], c['grid'], [0, 1], PHI_DIMS['v_parallel_2d'], pre.ravel(), pim.ravel(), *c['eta_int'][:3]))
            tags.append(('csum', k, 'phi'))
            for m in ('min', 'max'):
                lines.append('dgcext %s | ' % m + sec(c['N'], c['grid'], [0, 1], LAY4['v_parallel'], fre.ravel()))
                tags.append(('cext', k, m))
        lines.append('dgtable %d %d | ' % (c['dt'], c['saveStep']) + ' '.join(str(c['t0'] + k * c['dt']) for k in range(c['nsteps'])))
        tags.append(('table',))
    return lines, tags


def run_model(all_lines):
    from concurrent.futures import ThreadPoolExecutor
    n = len(all_lines)
    if n == 0:
        return []
    k = max(1, (n + 15) // 16)
    chunks = [all_lines[i:i + k] for i in range(0, n, k)]
    with ThreadPoolExecutor(16) as ex:
        outs = list(ex.map(lambda ch: core.model(ch, 1500), chunks))
    return [a for o in outs for a in o]


def scale_log2(c, kind, ndims):
    ur, uq, uz, uv = c['units']
    e = 2 * ur + uq + uz
    if ndims == 4:
        e += uv
        if kind == 'ke':
            e += 2 * uv
    return e


def parse_sum(ans):
    """'l0 l1 ... = red ser den repl' -> (locals, reduced, serial, den, replication)"""
    if ans.startswith('?'):
        raise core.BrokenCheck('model refused a request (guard dg_wf / dg_link_ok of the theorems): ' + ans)
    a, b = ans.split(' = ')
    red, ser, den, rep = (int(x) for x in b.split())
    return [int(x) for x in a.split()], red, ser, den, rep


def pz(s):
    return None if s == 'inf' else int(s)


# ---------------------------------------------------------------------------------------------------
# direct oracle: numpy integer arithmetic on the gathered global array with the global weights
# ---------------------------------------------------------------------------------------------------
def trap2_cells(x):
    """twice the trapezoid weights, assembled cell by cell (not the formula of the classes)"""
    x = np.asarray(x, dtype=np.int64)
    w = np.zeros(len(x), dtype=np.int64)
    d = np.diff(x)
    w[:-1] += d
    w[1:] += d
    return w


def integrand(kind, re_, im_):
    if kind == 'l2':
        return re_ * re_ + im_ * im_
    if kind == 'l1':
        return np.abs(re_)
    return re_


def oracle_sum(c, kind, re_, im_, box=None):
    """integer value (same scaling as the model) of the quadrature over the global array or a box of it
    (box = per canonical dimension (lo, hi))"""
    nd = re_.ndim
    r, q, z = (np.asarray(c['eta_int'][i], dtype=np.int64) for i in range(3))
    W = (trap2_cells(r) * r).reshape([-1] + [1] * (nd - 1))
    if nd == 4:
        v = np.asarray(c['eta_int'][3], dtype=np.int64)
        wv = trap2_cells(v) * (v * v if kind == 'ke' else 1)
        W = W * wv.reshape([1, 1, 1, -1])
    A = integrand(kind, re_, im_) * W
    if box is not None:
        A = A[tuple(slice(lo, hi) for lo, hi in box)]
    return int(A.sum()) * int(q[2] - q[1]) * int(z[2] - z[1])


def box_of(lay):
    """canonical (lo, hi) per dimension from the real Layout's starts / ends"""
    nd = len(lay['dims'])
    box = [None] * nd
    for a, d in enumerate(lay['dims']):
        box[d] = (lay['starts'][a], lay['ends'][a])
    return box


def fr(s):
    if s is None:
        return None
    if s in ('inf', '-inf', 'nan'):
        return s
    return Fraction(s)


def real_value(c, kind, ndims, modelint):
    den = 8 if (ndims == 4 and kind == 'ke') else (4 if ndims == 4 else 2)
    return Fraction(modelint, den) * Fraction(2) ** scale_log2(c, kind, ndims)


def exact_float(x):
    f = float(x)
    if Fraction(f) != x:
        raise core.BrokenCheck('generator produced a value that is not a double: %s' % x)
    return f


LINE_FMT = ("{t:10g}   {l2P:16.10e}   {l2G:16.10e}   {l1:16.10e}   {np:16.10e}   {minim:16.10e}   "
            "{maxim:16.10e}   {ke:16.10e}")


# ---------------------------------------------------------------------------------------------------
# comparison of one configuration
# ---------------------------------------------------------------------------------------------------
def compare(chk, c, res, answers, tags, fields):
    """returns list of (key, what, no_input)"""
    bad = []
    nranks = c['grid'][0] * c['grid'][1]
    small = {k: c.get(k) for k in ('N', 'grid', 'eta_int', 'units', 'kind', 'shift', 'complex_f', 'saveStep', 'dt', 't0', 'nsteps')}

    def v(key, what, no_input=False):
        bad.append((key, '%s  [config %s]' % (what, json.dumps(small)), no_input))
    if res['outcome'] != 'ok':
        v('run:' + res['outcome'], 'the diagnostics run ended with %s: %s %s' % (res['outcome'], res.get('detail'), res.get('tb', '')[-400:]))
        return bad
    ranks = res['ranks']
    M = dict(zip(tags, answers))
    sp = layout_specs(c)
    fre, fim, pre, pim = fields[0]
    # layouts (a precondition of the comparison: the model and the real Layout agree on the blocks)
    for nm, s in sp.items():
        mod = M[('lay', nm)].split()
        for rk in range(nranks):
            li = ranks[rk]['lay'][nm]
            exp = ','.join(map(str, li['starts'])) + ':' + ','.join(map(str, li['shape']))
            if mod[rk] != exp or li['dims'] != s['dims']:
                v('layout:blocks', 'layout %s rank %d: real Layout starts:shape %s, model %s' % (nm, rk, exp, mod[rk]), True)
                return bad
    # local sums and their reduction, every layout
    for nm, s in sp.items():
        nd = len(s['N'])
        re_, im_ = (fre, fim) if s['fld'] == 'f' else (pre, pim)
        for kd in (KINDS if s['fld'] == 'f' else ('l2',)):
            loc, red, ser, den, rep = parse_sum(M[('sum', nm, kd)])
            tot_or = oracle_sum(c, kd, re_, im_)
            impl_loc = [fr(ranks[rk]['norms'][nm][kd]) if s['fld'] == 'f' else fr(ranks[rk]['phi'][nm[4:]]) for rk in range(nranks)]
            site = {'l2': 'norms.l2', 'l1': 'norms.l1', 'n': 'norms.nParticles', 'ke': 'energy.KineticEnergy'}[kd]
            for rk in range(nranks):
                or_loc = oracle_sum(c, kd, re_, im_, box_of(ranks[rk]['lay'][nm]))
                want = real_value(c, kd, nd, or_loc)
                if impl_loc[rk] != want:
                    v('%s:local-sum' % site, '%s on layout %s, rank %d of grid %r: local value %s, quadrature of the '
                      'rank\'s block of the global field %s (model %s)' % (site, nm, rk, c['grid'], impl_loc[rk], want,
                                                                        real_value(c, kd, nd, loc[rk])))
                    break
                if loc[rk] != or_loc:
                    v('model:local-sum', 'model local value %d differs from the oracle %d (%s %s rank %d); implementation '
                      'agrees with the oracle' % (loc[rk], or_loc, site, nm, rk), True)
                    break
            if red != s['R'] * tot_or or ser != tot_or or rep != s['R'] or red != rep * ser:
                v('model:reduced', 'model reduced %d / serial %d, oracle %d x replication %d (%s %s)' % (red, ser, tot_or, s['R'], site, nm), True)
            if sum(impl_loc) != s['R'] * real_value(c, kd, nd, tot_or):
                v('%s:sum-over-ranks' % site, '%s on layout %s: sum over all %d ranks %s, serial quadrature %s x replication %d'
                  % (site, nm, nranks, sum(impl_loc), real_value(c, kd, nd, tot_or), s['R']))
    # getMin / getMax through reduce
    for qi, (dr, pairs) in enumerate(c['queries']):
        nm = list(LAY4)[qi % 3]
        idx = [slice(None)] * 4
        for a, f in pairs:
            idx[a] = f
        sub = fre[tuple(idx)]
        for mi, m in enumerate(('min', 'max')):
            a, b = M[('ext', qi, m)].split(' = ')
            mloc = [pz(x) for x in a.split()]
            mred = pz(b)
            orc = int(sub.min() if m == 'min' else sub.max())
            got = [fr(ranks[rk]['minmax'][qi][mi]) for rk in range(nranks)]
            want = [Fraction(orc) if rk == dr else None for rk in range(nranks)]
            if got != want:
                v('grid.get%s:%s' % (m.capitalize(), 'slice' if pairs else 'whole'),
                  'Grid.get%s(drawingRank=%d, axis/fixValue=%r) in layout %s on grid %r: per-rank results %r, expected %s on '
                  'the drawing rank only (global field %s over the slice = %d)' % (m.capitalize(), dr, pairs, nm, c['grid'],
                                                                              [str(x) for x in got], orc, m, orc))
            if mi == 0 and any(e[0] == qi for rk in range(nranks) for e in ranks[rk].get('args_modified', [])):
                e = [e for rk in range(nranks) for e in ranks[rk].get('args_modified', []) if e[0] == qi][0]
                v('grid.getMin:arguments-modified', 'Grid.getMin/getMax(drawingRank=%d, axis/fixValue=%r held as %s) in layout %s on grid %r changed the caller\'s '
                  'fixValue from %r to %r' % (dr, pairs, e[1], nm, c['grid'], e[2], e[3]))
            if mred != orc:
                v('model:ext', 'model %s %r, oracle %d (query %r layout %s); per-rank model values %r' % (m, mred, orc, pairs, nm, mloc), True)
    if c['kind'] == 'empty':
        return bad
    # the collector: table per rank, slots, reduce, getLine
    tab = [None if x == '-' else int(x) for x in M[('table',)].split()]
    times = [c['t0'] + k * c['dt'] for k in range(c['nsteps'])]
    tab_or = [None] * c['saveStep']
    for k, t in enumerate(times):
        tab_or[((2 * t + c['dt']) // (2 * c['dt'])) % c['saveStep']] = k      # nearest step, half up
    if tab != tab_or:
        v('model:table', 'model slot table %r, oracle %r' % (tab, tab_or), True)
    exp_cols = []      # per step: per rank column [t, l2phi, l2f, l1, n, min, max, ke] as Fractions
    for k in range(c['nsteps']):
        fre_k, _, pre_k, pim_k = fields[k]
        z4 = np.zeros_like(fre_k)
        cols = []
        msum = {kd: parse_sum(M[('csum', k, kd)]) for kd in KINDS + ('phi',)}
        mext = {m: [pz(x) for x in M[('cext', k, m)].split(' = ')[0].split()] for m in ('min', 'max')}
        for rk in range(nranks):
            bf = box_of(ranks[rk]['lay']['v_parallel'])
            bp = box_of(ranks[rk]['lay']['phi:v_parallel_2d'])
            blk = fre_k[tuple(slice(lo, hi) for lo, hi in bf)]
            col_or = [Fraction(times[k]), real_value(c, 'l2', 3, oracle_sum(c, 'l2', pre_k, pim_k, bp)),
                      real_value(c, 'l2', 4, oracle_sum(c, 'l2', fre_k, z4, bf)),
                      real_value(c, 'l1', 4, oracle_sum(c, 'l1', fre_k, z4, bf)),
                      real_value(c, 'n', 4, oracle_sum(c, 'n', fre_k, z4, bf)),
                      Fraction(int(blk.min())), Fraction(int(blk.max())),
                      real_value(c, 'ke', 4, oracle_sum(c, 'ke', fre_k, z4, bf))]
            col_mod = [Fraction(times[k]), real_value(c, 'l2', 3, msum['phi'][0][rk]), real_value(c, 'l2', 4, msum['l2'][0][rk]),
                       real_value(c, 'l1', 4, msum['l1'][0][rk]), real_value(c, 'n', 4, msum['n'][0][rk]),
                       Fraction(mext['min'][rk]), Fraction(mext['max'][rk]), real_value(c, 'ke', 4, msum['ke'][0][rk])]
            if col_mod != col_or:
                v('model:collector-column', 'model column %r, oracle %r (step %d rank %d)' % (col_mod, col_or, k, rk), True)
            cols.append(col_or)
            got_ext = [fr(x) for x in ranks[rk]['local_ext'][k]]
            if got_ext != col_or[5:7]:
                v('grid.getMin:local', 'Grid.getMin()/getMax() without drawing rank on rank %d: %r, block of the global field has %r'
                  % (rk, [str(x) for x in got_ext], [str(x) for x in col_or[5:7]]))
        exp_cols.append(cols)
    names = ('time', 'l2 phi', 'l2 f', 'l1', 'nParticles', 'min', 'max', 'KE')
    for rk in range(nranks):
        got = [[fr(x) for x in row] for row in ranks[rk]['table']]
        for sl in range(c['saveStep']):
            want = exp_cols[tab_or[sl]][rk] if tab_or[sl] is not None else [Fraction(0)] * 8
            gotcol = [got[i][sl] for i in range(8)]
            if gotcol != want:
                wrong = [names[i] for i in range(8) if gotcol[i] != want[i]]
                holds = [k for k in range(c['nsteps']) if gotcol == exp_cols[k][rk]]
                key = 'collector.collect:slot' if (holds or wrong == ['time']) else 'collector.collect:values'
                v(key, 'DiagnosticCollector.diagnostics on rank %d, slot %d (saveStep %d, dt %d, times %r): entries %s differ; '
                  'slot holds %s, expected the column of step %r' % (rk, sl, c['saveStep'], c['dt'], times, wrong,
                                                                    ('the column of step %r' % holds) if holds else [str(x) for x in gotcol],
                                                                    tab_or[sl]))
                break
    # reduced results on rank 0
    red0 = ranks[0]['reduced']
    order = [('l2PhiResult', 1, 'sqrt'), ('l2GridResult', 2, 'sqrt'), ('l1Result', 3, 'sum'), ('nPartResult', 4, 'sum'),
             ('min_val', 5, 'min'), ('max_val', 6, 'max'), ('KE_val', 7, 'sum')]
    exp_red = {}
    for nm, row, how in order:
        vals = []
        for sl in range(c['saveStep']):
            per = [exp_cols[tab_or[sl]][rk][row] if tab_or[sl] is not None else Fraction(0) for rk in range(nranks)]
            if how == 'min':
                x = min(per)
            elif how == 'max':
                x = max(per)
            else:
                x = sum(per)
            if how == 'sqrt':
                x = Fraction(math.sqrt(exact_float(x)))
            vals.append(x)
        exp_red[nm] = vals
        got = [fr(x) for x in red0[nm]]
        if got != vals:
            v('collector.reduce:%s' % nm, 'DiagnosticCollector.reduce() on rank 0 of grid %r: %s = %r, serial quadrature of the global '
              'fields gives %r (slots hold steps %r)' % (c['grid'], nm, [str(x) for x in got], [str(x) for x in vals], tab_or))
    # the reduced sums are the serial quadrature of the global field (oracle on the whole array)
    for sl in range(c['saveStep']):
        k = tab_or[sl]
        if k is None:
            continue
        fre_k, _, pre_k, pim_k = fields[k]
        z4 = np.zeros_like(fre_k)
        glob = {'l1Result': real_value(c, 'l1', 4, oracle_sum(c, 'l1', fre_k, z4)),
                'nPartResult': real_value(c, 'n', 4, oracle_sum(c, 'n', fre_k, z4)),
                'KE_val': real_value(c, 'ke', 4, oracle_sum(c, 'ke', fre_k, z4)),
                'min_val': Fraction(int(fre_k.min())), 'max_val': Fraction(int(fre_k.max())),
                'l2GridResult': Fraction(math.sqrt(exact_float(real_value(c, 'l2', 4, oracle_sum(c, 'l2', fre_k, z4))))),
                'l2PhiResult': Fraction(math.sqrt(exact_float(real_value(c, 'l2', 3, oracle_sum(c, 'l2', pre_k, pim_k)))))}
        for nm in glob:
            if exp_red[nm][sl] != glob[nm]:
                raise core.BrokenCheck('oracle inconsistency: sum of block quadratures != global quadrature (%s)' % nm)
        for kd, nm in (('l1', 'l1Result'), ('n', 'nPartResult'), ('ke', 'KE_val')):
            if real_value(c, kd, 4, parse_sum(M[('csum', k, kd)])[1]) != glob[nm]:
                v('model:reduced', 'model reduced %s differs from the global oracle' % nm, True)
    # other ranks keep zeros (Reduce writes on the root only)
    for rk in range(1, nranks):
        for nm, _, _ in order:
            if any(fr(x) != 0 for x in ranks[rk]['reduced'][nm]):
                v('collector.reduce:root', 'rank %d holds a non-zero %s after reduce(): the root of the Reduce is not rank 0 only' % (rk, nm))
                break
    # getLine: which values are printed for slot i
    for sl in range(c['saveStep']):
        t_exp = exp_cols[tab_or[sl]][0][0] if tab_or[sl] is not None else Fraction(0)
        want = LINE_FMT.format(t=float(t_exp), l2P=float(exp_red['l2PhiResult'][sl]), l2G=float(exp_red['l2GridResult'][sl]),
                               l1=float(exp_red['l1Result'][sl]), np=float(exp_red['nPartResult'][sl]),
                               minim=float(exp_red['min_val'][sl]), maxim=float(exp_red['max_val'][sl]), ke=float(exp_red['KE_val'][sl]))
        got = ranks[0]['lines'][sl]
        try:
            same = [float(x) for x in got.split()] == [float(x) for x in want.split()]
        except ValueError:
            same = False
        if not same:
            v('collector.getLine', 'getLine(%d) on rank 0: %r, expected the values %r' % (sl, got, want))
    if ranks[0]['str'].split() != ' '.join(ranks[0]['lines']).split():
        v('collector.str', 'str(collector) is not the concatenation of getLine(i)')
    return bad


# ---------------------------------------------------------------------------------------------------
def stratum_of(c):
    n1, n2 = c['grid']
    shape = '1x1' if n1 * n2 == 1 else ('1xn' if n1 == 1 else ('nx1' if n2 == 1 else 'nxm'))
    N = c['N']
    div = 'divisible' if (N[0] % n1 == 0 and N[2] % n2 == 0) else 'nondivisible'
    wrap = 'wrap' if c['nsteps'] > c['saveStep'] else 'nowrap'
    sign = {0: 'mixed-sign', 10: 'positive', -10: 'negative'}[c.get('shift', 0)] if c['kind'] != 'ones' else 'one'
    return '%s/%s/%s/%s/%s/%s' % (c['kind'], shape, div, 'complex' if c['complex_f'] else 'real', wrap, sign)


def gen_cases(chk):
    rng = random.Random(chk.seed)
    reps = 3 if chk.tier == 'quick' else 80
    cases = []
    for grid in GRIDS:
        for i in range(reps):
            kind = 'std'
            if i % 7 == 1:
                kind = 'ones'
            elif i % 7 == 2:
                kind = 'uniform'
            cases.append(gen_config(rng, grid, kind))
        if grid[0] >= 3:
            for _ in range(1 if chk.tier == 'quick' else 10):
                cases.append(gen_config(rng, grid, 'empty'))
    return cases


def coq_term(c, kd, s, re_, im_):
    def nl(x):
        return '[' + '; '.join(str(int(i)) for i in x) + ']%nat'

    def zl(x):
        return '[' + '; '.join('(%d)' % int(i) for i in x) + ']%Z'
    etas = '[' + '; '.join(zl(e) for e in c['eta_int'][:len(s['N'])]) + ']'
    k = {'l2': 'DgL2', 'l1': 'DgL1', 'n': 'DgN', 'ke': 'DgKE'}[kd]
    cfg = ('{| dg_N := %s; dg_world := %s; dg_sel := %s; dg_dims := %s; dg_etas := %s; dg_re := %s; dg_im := %s |}'
           % (nl(s['N']), nl(c['grid']), nl(s['sel']), nl(s['dims']), etas, zl(re_.ravel()), zl(im_.ravel())))
    return 'let c := %s in (dg_all %s c, dg_reduced %s c)' % (cfg, k, k)


def accumulate(t0, dt, n):
    """the times fullSimulation.py passes to collect(): t += dt in floating point"""
    ts, t = [], t0
    for _ in range(n):
        ts.append(t)
        t += dt
    return ts


def nearest_q(t, dt):
    """floor(t/dt + 1/2) on the exact rationals (dg_slot_q)"""
    return (Fraction(t) / Fraction(dt) + Fraction(1, 2)).__floor__()


def float_time_cases(seed):
    rng = random.Random(seed + 17)
    out = []
    # on-grid: step j+k at the time accumulated from t0 = j*dt; strict expectation: slot (j+k) mod saveStep
    for dt in (2, 3, 1.0, 0.5, 0.25, 0.1, 0.3, 1.0 / 3.0, 0.7, 2.5e-3, 1e-1 * 3):
        for j in (0, rng.randint(1, 9)):
            save = rng.randint(2, 7)
            n = rng.randint(save, 2 * save + 3)
            out.append({'saveStep': save, 'dt': dt, 'ts': accumulate(j * dt, dt, n), 'first_step': j, 'grid': 'on'})
    # off-grid times (model equality): (k + off) * dt with the offset well inside (-1/2, 1/2)
    for dt in (2, 7, 0.5, 0.1, 1.0 / 3.0):
        save = rng.randint(2, 6)
        ks = [rng.randint(0, 20) for _ in range(6)]
        offs = [rng.choice([-0.45, -0.3, -0.1, 0.2, 0.4, 0.45]) for _ in ks]
        if isinstance(dt, int):
            ts = [max(0, k * dt + int(round(o * dt))) for k, o in zip(ks, offs)]
        else:
            ts = [(k + o) * dt for k, o in zip(ks, offs)]
        ts = [t for t in ts if t >= 0]
        out.append({'saveStep': save, 'dt': dt, 'ts': ts, 'first_step': None, 'grid': 'off'})
    return out


def check_float_time(chk):
    """collect() with integer and float t, dt.  The code takes the nearest step int(t/dt + 0.5).  Strict expectation: the
    time accumulated from k steps starting at step j lands in slot (j+k) mod saveStep, for dyadic and non-dyadic dt;
    for off-grid times the exact rational model dg_slot_q (= dg_slot on integers) and its binary64 evaluation dg_slot_f
    (PrimFloat, inside Coq) must give the implementation's slot."""
    cfgs = float_time_cases(chk.seed)
    res = implrun.run_cases('props.c17', 'float_time_case', cfgs, tmo=90.0, chunk=2)
    terms, where = [], []
    for ci, (cfg, r) in enumerate(zip(cfgs, res)):
        isf = any(isinstance(x, float) for x in [cfg['dt']] + cfg['ts'])
        s_, dt = cfg['saveStep'], cfg['dt']
        qm = [nearest_q(t, dt) % s_ for t in cfg['ts']]
        old = [(Fraction(t) / Fraction(dt)).__floor__() % s_ for t in cfg['ts']]
        if cfg['grid'] == 'on':
            want = [(cfg['first_step'] + k) % s_ for k in range(len(cfg['ts']))]
            hyp = all(abs(Fraction(t) - (cfg['first_step'] + k) * Fraction(dt)) < Fraction(dt) / 2 for k, t in enumerate(cfg['ts']))
            if hyp and qm != want:
                raise core.BrokenCheck('c17_slot_q_of_step contradicted by %r' % (cfg,))
            if not hyp:
                raise core.BrokenCheck('generator: accumulated time further than dt/2 from its step: %r' % (cfg,))
        else:
            want = qm
        chk.count(('float-time', json.dumps(cfg)), stratum='collect-time/%s/%s-grid' % ('float' if isf else 'int', cfg['grid']), sample=cfg)
        if not isinstance(r, dict):
            r = {'outcome': 'exception', 'detail': repr(r)}
        if r.get('outcome') != 'ok' or r.get('slots') != want:
            if r.get('outcome') != 'ok':
                key = 'collector.collect:float-time' if isf else 'collector.collect:slot'
            elif r.get('slots') == old and isf:
                key = 'collector.collect:float-floor-division'
            else:
                key = 'collector.collect:slot'
            chk.violation(key, 'DiagnosticCollector.collect with %s t/dt (saveStep %d, dt %r, %s times %r): the calls wrote slots %s; '
                          'expected %r (%s)' % ('float' if isf else 'int', s_, dt, 'accumulated' if cfg['grid'] == 'on' else 'off-grid', cfg['ts'],
                                                (r.get('detail') or r.get('slots')), want,
                                                'step j+k belongs to slot (j+k) mod saveStep' if cfg['grid'] == 'on'
                                                else 'nearest step, exact rational model dg_slot_q'),
                          {'kind': 'float-time', 'case': cfg, 'observed': r, 'expected': want})
        elif isf:
            for k, t in enumerate(cfg['ts']):
                terms.append('dg_slot_f %s%%float %s%%float %d' % (float(t).hex(), float(dt).hex(), s_))
                where.append((ci, k))
    if terms:
        vals = core.coq_eval(terms, 'From Coq Require Import ZArith Floats. From PGV Require Import DiagnosticsSlotQ.', tag='c17f')
        for v_, (ci, k) in zip(vals, where):
            got = int(re.findall(r'-?\d+', v_.replace('%Z', ''))[0])
            if got != res[ci]['slots'][k]:
                chk.violation('model:slot-binary64', 'dg_slot_f (PrimFloat) gives slot %d, the implementation %d for t=%r dt=%r saveStep %d'
                              % (got, res[ci]['slots'][k], cfgs[ci]['ts'][k], cfgs[ci]['dt'], cfgs[ci]['saveStep']),
                              {'kind': 'float-time', 'case': cfgs[ci]}, no_input=True)
    return len(cfgs), len(terms)


def evaluate(chk, cases, record=True):
    res = implrun.run_cases('props.c17', 'impl_case', cases, tmo=150.0, chunk=1)
    all_lines, spans, allf = [], [], []
    for c in cases:
        fields = make_fields(c)
        lines, tags = model_lines(c, fields)
        spans.append((len(all_lines), len(lines), tags))
        all_lines += lines
        allf.append(fields)
    answers = run_model(all_lines)
    nbad = 0
    for c, r, (o, n, tags), fields in zip(cases, res, spans, allf):
        if not isinstance(r, dict):
            r = {'outcome': 'timeout' if r[0] == 'timeout' else 'harness-exception', 'detail': repr(r)}
        st = stratum_of(c)
        if record:
            chk.count(json.dumps(c, sort_keys=True), nontrivial=(c['grid'] != [1, 1]), stratum=st,
                      sample={k: c[k] for k in ('N', 'grid', 'eta_int', 'units', 'kind', 'shift', 'complex_f', 'saveStep', 'dt', 't0', 'nsteps', 'queries')})
        bad = compare(chk, c, r, answers[o:o + n], tags, fields)
        seen = set()
        for key, what, no_input in bad:
            if key in seen:
                continue
            seen.add(key)
            nbad += 1
            if no_input:
                chk.cov['disagreements_checked'] += 1
            chk.violation(key, what, {'kind': 'config', 'case': c}, no_input=no_input)
    return nbad, len(all_lines), answers, spans, allf


def run():
    chk = core.Check('C17', 'proof')
    proof = core.proof_stage('C17')
    nft, nfcoq = check_float_time(chk)       # first: its replays must not be crowded out by the cap on reported violations
    cases = gen_cases(chk)
    nbad, nlines, answers, spans, allf = evaluate(chk, cases)
    # cross-check of the extraction inside Coq on the smallest configurations
    order = sorted(range(len(cases)), key=lambda i: int(np.prod(cases[i]['N'])))
    samp = order[:(4 if chk.tier == 'quick' else 12)]
    terms, exp = [], []
    for i in samp:
        c = cases[i]
        fre, fim, pre, pim = allf[i][0]
        sp = layout_specs(c)
        for nm, kd in (('v_parallel', 'ke'), ('poloidal', 'l2')):
            terms.append(coq_term(c, kd, sp[nm], fre, fim))
            o, n, tags = spans[i]
            exp.append(parse_sum(answers[o + tags.index(('sum', nm, kd))]))
    vals = core.coq_eval(terms, 'From Coq Require Import ZArith List. Import ListNotations. From PGV Require Import Diagnostics.', tag='c17')
    for v_, e in zip(vals, exp):
        nums = [int(x) for x in re.findall(r'-?\d+', v_.replace('%Z', ''))]
        if nums != e[0] + [e[1]]:
            raise core.BrokenCheck('extracted model and vm_compute disagree: %s vs %r' % (v_[:200], e[:2]))
    chk.assumptions += [
        'exact arithmetic: fields are small integers and eta grids integers times powers of two, so every float operation of the '
        'classes is exact on the generated inputs; rounding and re-association of the floating-point Reduce are outside the model',
        'MPI is the simulated one (harness/shims/mpi4py): Reduce / reduce combine the ranks\' buffers in rank order',
        'local arrays are filled directly from the global array through the real Layout starts/ends (layout changes are C01/C03/C04)']
    return chk.finish(
        proof,
        rule='seeded configurations: 4-D extents 2..7 (bumped off multiples of the process counts), every process grid '
             '(1,1),(1,n),(n,1),(2,2),(2,3),(3,2),(2,4),(4,2) up to 8 ranks, non-uniform integer r/v grids times 2^u, real and complex '
             'small-integer fields (mixed sign, all positive, all negative), f=1, uniform grids, a stratum with ranks owning no radial point; per configuration: l2/l1/nParticles/'
             'KineticEnergy in the 3 layouts of f, l2 in the 4 layouts of phi (2 of them replicated), 4 getMin/getMax queries, a collector run '
             'of 1..5 steps with saveStep 1..4 (with and without wrap-around); non-trivial = more than one rank; distinct = distinct configuration',
        extra={'model_requests': nlines, 'coq_vm_compute_crosschecked': len(terms), 'float_time_cases': nft, 'binary64_slots_evaluated_in_coq': nfcoq,
               'process_grids': [list(g) for g in GRIDS]},
        uncovered=['float rounding / re-association of the real MPI reduction (model and theorems are in exact arithmetic)',
                   'collect() with float t, dt: proved over exact rationals (c17_slot_q_of_step: |t - k dt| < dt/2); the binary64 evaluation '
                   'of t/dt + 0.5 (dg_slot_f) is compared with the implementation on the generated times, its agreement with the rational model '
                   'is not proved (it can differ only when t/dt is within one rounding of a half-integer)',
                   'the pointwise model of _factor1 (orientation of the outer product written through .flat) and the transcription of the '
                   'classes into Diagnostics.v are exercised by the differential tie and the oracle, not proved about the Python text',
                   'sqrt of the reduced l2 values (compared as the same IEEE operation)'])


def replay(path):
    core.setup_paths()
    body = json.load(open(path))
    rp = body['replay']
    chk = core.Check('C17', 'proof')
    chk.known = []
    if rp.get('kind') == 'float-time':
        cfg = rp['case']
        r = implrun.run_cases('props.c17', 'float_time_case', [cfg], tmo=90.0)[0]
        if cfg.get('grid') == 'on':
            want = [(cfg['first_step'] + k) % cfg['saveStep'] for k in range(len(cfg['ts']))]
        else:
            want = [nearest_q(t, cfg['dt']) % cfg['saveStep'] for t in cfg['ts']]
        print('case', cfg, '\n implementation ->', r, '\n expected slots ', want)
        return 0 if (isinstance(r, dict) and r.get('slots') == want) else 1
    c = rp['case']
    nbad, _, _, _, _ = evaluate(chk, [c], record=False)
    print('configuration', json.dumps({k: c[k] for k in ('N', 'grid', 'eta_int', 'units', 'kind')}))
    for v_ in chk.violations:
        if v_ is not None:
            print('  ', v_[2][:600])
    print('%d disagreements' % nbad)
    return 1 if nbad else 0
