"""
C11 - v-parallel advection evaluates the interpolant at v - c*dt; boundary rule.

Proof: Props/C11.v (VParAdv.v).

Tie (the gate, exact): the real source of v_parallel_advection_eval_step
(pygyro/advection/accelerated_advection_steps.py) and of f_eq / n0 / Ti
(pygyro/initialisation/initialiser_funcs.py) is executed on fractions.Fraction (qlift; pi, exp, tanh, sqrt
bound to the rational stand-ins of AdvQc.vpq_ext) and compared with the extracted Qc model (vp.eval, vp.feq);
the real method VParallelAdvection.step runs unchanged on a duck-typed object holding Fraction arrays and is
compared with vp.step (which forms the feet points - c*dt, vMin = points[0], vMax = points[-1] itself).
Direct oracles independent of the model on the exact output of the code: inside [vMin,vMax] (closed) the
value of the spline at the foot; outside f_eq(r, foot) / 0 / the spline at the periodic image
vMin + (v - vMin) mod width (resp. vMax - (vMax - v) mod width).  vMax <= vMin in periodic mode: the code
does not terminate (observed as a timeout), the model reports exhausted fuel.

Float link: real VParallelAdvection objects (three edge modes, uniform-cubic and general v-splines) are
stepped on doubles; the result is compared with the model evaluated on the exact rationals of the doubles
the code used (feet = points - c*dt formed by the same IEEE operation, the code's own spline coefficients)
under the bound of `vp_tol`; values outside the domain in mode fEq must be bit-identical to a direct call
of the real f_eq(r, foot, constants...) and exactly 0.0 in mode null.

A sample of the exact cases is re-evaluated inside Coq (vm_compute on Qc).
"""
import json
import math
import random
import re
import types
import warnings
from fractions import Fraction as F

import numpy as np

import core
import implrun
from qlift import qstr, qparse
from props import adv_common as ac
from props import adv_grid
from props.adv_common import PI, U, fr, frl, qs, oarr

CONST_NAMES = ('CN0', 'kN0', 'deltaRN0', 'rp', 'CTi', 'kTi', 'deltaRTi')
SHIFT = ['zero', 'sub-cell', 'multi-cell', 'to-boundary', 'node-to-node', 'beyond-domain', 'exact-widths']


def gen_consts(rng):
    return [F(rng.randint(1, 30), rng.choice([7, 10, 3])), F(rng.randint(1, 9), 20), F(rng.randint(1, 9), rng.choice([2, 5])),
            F(rng.randint(1, 20), 3), F(rng.randint(1, 9), rng.choice([2, 3])), F(rng.randint(1, 9), 15), F(rng.randint(1, 9), rng.choice([4, 7]))]


def gen_shift(rng, sp, pts, cls):
    a, b = pts[0], pts[-1]
    w = b - a
    sgn = rng.choice([-1, 1])
    h = w / sp['ncells']
    if cls == 'zero':
        return F(0)
    if cls == 'sub-cell':
        return sgn * h * F(rng.randint(1, 19), 20)
    if cls == 'multi-cell':
        return sgn * h * (rng.randint(1, sp['ncells'] - 1) + F(rng.randint(1, 9), 10))
    if cls == 'to-boundary':
        # some foot lands exactly on vMin or on vMax
        p = rng.choice(pts[1:-1])
        return p - rng.choice([a, b])
    if cls == 'node-to-node':
        i, j = rng.sample(range(len(pts)), 2)
        return pts[i] - pts[j]
    if cls == 'beyond-domain':
        return sgn * w * (rng.randint(1, 5) + F(rng.randint(1, 29), 30))
    if cls == 'exact-widths':
        return sgn * w * rng.randint(1, 4)
    raise ValueError(cls)


def gen_case(rng, k, tier):
    big = tier == 'thorough'
    kind = 'cu' if (k // len(SHIFT)) % 2 == 0 else 'nu'
    nc = rng.randint(4, 14 if big else 9)
    deg = 3 if kind == 'cu' else rng.choice([1, 2, 3, 4, 5])
    a = F(rng.randint(-30, -1), rng.choice([1, 2, 4]))
    b = F(rng.randint(1, 30), rng.choice([1, 2, 4])) if k % 4 else -a
    sp = ac.clamped_space(rng, kind, a, b, nc, deg, uniform=(rng.random() < 0.5))
    pts = sp['nodes']
    cls = SHIFT[k % len(SHIFT)]
    shift = gen_shift(rng, sp, pts, cls)
    dt = F(rng.randint(1, 12), rng.choice([1, 5, 8])) * rng.choice([-1, 1])
    c = shift / dt
    coeffs = [F(rng.randint(-40, 40), rng.choice([1, 2, 3, 7])) for _ in range(sp['ncoef'])]
    return {'sp': sp, 'pts': pts, 'cls': cls, 'shift': shift, 'dt': dt, 'c': c, 'coeffs': coeffs, 'bound': k % 3 if k % 23 else 3,
            'r': F(rng.randint(1, 40), 3), 'consts': gen_consts(rng), 'kind': kind, 'k': k,
            'f0': [F(1000 + i) for i in range(len(pts))]}


def expected_point(c, v, vMin, vMax, old):
    """direct oracle for one foot (independent of the model): lifted spline / lifted f_eq only"""
    _, _, init, _ = ac.lifted()
    sp = c['sp']
    S = lambda x: ac.spline_eval(sp, c['coeffs'], x)
    b = c['bound']
    if b not in (0, 1, 2):
        return old
    if vMin <= v <= vMax:
        return S(v)
    if b == 0:
        return init['f_eq'](c['r'], v, *c['consts'])
    if b == 1:
        return F(0)
    w = vMax - vMin
    if v < vMin:
        return S(vMin + (v - vMin) % w)
    return S(vMax - (vMax - v) % w)


def exact_case(c):
    r = {'impl': None, 'orc': [], 'n_or': 0}
    sp = c['sp']
    _, _, init, adv = ac.lifted()
    try:
        if c['op'] == 'feq':
            r['impl'] = 'ok ' + qstr(init['f_eq'](c['r'], c['v'], *c['consts']))
            return r
        pts = c['pts']
        vMin, vMax = (pts[0], pts[-1]) if 'vlim' not in c else c['vlim']
        f = oarr(list(c['f0']))
        if c['op'] == 'eval':
            vPts = [p - c['c'] * c['dt'] for p in pts]
            adv['v_parallel_advection_eval_step'](f, oarr(vPts), c['r'], vMin, vMax, oarr(sp['knots']), sp['degree'], oarr(c['coeffs']),
                                                  *c['consts'], c['bound'], sp['cu'])
        elif c['op'] == 'method':
            spl = ac.FakeSpline(sp, [c['coeffs']])
            fake = types.SimpleNamespace(_points=oarr(pts), _nPoints=(len(pts),), _interpolator=ac.FakeInterp([c['coeffs']], key=lambda ug: 0),
                                         _spline=spl, _constants=types.SimpleNamespace(**dict(zip(CONST_NAMES, c['consts']))),
                                         _edgeType=c['bound'])
            with ac.exact_advection_module() as A:
                A.VParallelAdvection.step(fake, f, c['dt'], c['c'], c['r'])
            vPts = [p - c['c'] * c['dt'] for p in pts]
        out = list(f)
        r['impl'] = 'ok ' + ' '.join(qstr(x) for x in out)
        exp = [expected_point(c, v, vMin, vMax, old) for v, old in zip(vPts, c['f0'])]
        r['n_or'] += 1
        bad = [i for i, (x, y) in enumerate(zip(out, exp)) if x != y]
        if bad:
            v = vPts[bad[0]]
            where = 'inside' if vMin < v < vMax else 'on-boundary' if v in (vMin, vMax) else 'outside'
            r['orc'].append('foot-%s:mode-%d' % (where, c['bound']))
            r['bad'] = {'index': bad[0], 'foot': str(v), 'got': str(out[bad[0]]), 'expected': str(exp[bad[0]])}
    except implrun.CaseTimeout:
        raise
    except Exception as e:
        r['impl'] = ac.exc_class(e) + ' ' + str(e)[:80]
    return r


def model_line(c):
    sp = c['sp']
    cu = '1' if sp['cu'] else '0'
    if c['op'] == 'feq':
        return 'vp.feq %s %s %s' % (qstr(c['r']), qstr(c['v']), qs(c['consts']))
    pts = c['pts']
    vMin, vMax = (pts[0], pts[-1]) if 'vlim' not in c else c['vlim']
    if c['op'] == 'eval':
        vPts = [p - c['c'] * c['dt'] for p in pts]
        return 'vp.eval %d %d %s %s %s %s %s | %s | %s | %s | %s' % (c['bound'], sp['degree'], cu, qstr(c['r']), qstr(vMin), qstr(vMax),
                                                                   qs(c['consts']), qs(c['f0']), qs(vPts), qs(sp['knots']), qs(c['coeffs']))
    return 'vp.step %d %d %s %s %s %s %s | %s | %s | %s | %s' % (c['bound'], sp['degree'], cu, qstr(c['dt']), qstr(c['c']), qstr(c['r']),
                                                               qs(c['consts']), qs(c['f0']), qs(pts), qs(sp['knots']), qs(c['coeffs']))


def gen_exact_cases(chk):
    rng = random.Random(chk.seed * 7919 + 11)
    big = chk.tier == 'thorough'
    cases = []
    n = 3500 if big else 168
    for k in range(n):
        c = gen_case(rng, k, chk.tier)
        c['op'] = 'eval'
        if k % 13 == 7:
            # limits strictly inside the knot domain (the kernel takes them as arguments)
            c['vlim'] = (c['pts'][1], c['pts'][-2])
        cases.append(c)
    for k in range(n // 4):
        c = gen_case(rng, k + 10000, chk.tier)
        c['op'] = 'method'
        cases.append(c)
    for k in range(60 if big else 20):
        cases.append({'op': 'feq', 'sp': {'kind': '-', 'cu': False, 'degree': 0}, 'r': F(rng.randint(-5, 40), 3), 'v': F(rng.randint(-50, 50), 7),
                      'consts': gen_consts(rng), 'k': k + 20000, 'cls': 'f_eq', 'bound': 0})
    return cases


def stratum(c):
    if c['op'] == 'feq':
        return 'f_eq'
    return '%s/%s/mode-%d/%s' % (c['op'], c['sp']['kind'], c['bound'], c['cls'])


def diverge_case(c):
    """periodic mode with vMax <= vMin and a foot below vMin: the real loop never ends"""
    _, _, _, adv = ac.lifted()
    f = oarr([F(0)])
    adv['v_parallel_advection_eval_step'](f, oarr([c['v']]), F(1), c['vMin'], c['vMax'], oarr(c['knots']), 3, oarr(c['coeffs']),
                                          F(1), F(1), F(1), F(1), F(1), F(1), F(1), 2, True)
    return ('returned', str(f[0]))


# ------------------------------------------------------------------------------------------------
# real objects on doubles

def vp_tol(p, cmax, hmin, k_iter, vmag):
    """|float step - model on the same doubles|: one spline value carries <= 16(p+1)u*cmax (non-negative terms);
    in periodic mode the k additions of the width move the foot by <= 2(k+1)u*vmag and |S'| <= 2 p cmax / hmin"""
    eS = 16 * (p + 1) * U * cmax
    delta = 2 * (k_iter + 1) * U * vmag if k_iter else 0.0
    return 4 * (eS + (2 * p * cmax / hmin) * delta) + 1e-300, delta


def object_case(c):
    warnings.simplefilter('ignore')
    from pygyro.advection.advection import VParallelAdvection
    from pygyro.initialisation import initialiser_funcs as IF
    rng = random.Random(c['seed'])
    dom = None
    if c.get('vdom'):
        dom = [[0.1, 14.5], [0.0, 2 * math.pi], [0.0, 1506.759067], list(c['vdom'])]
    bs, eta = ac.real_spaces(c['npts'], c['degrees'], uniform=c['uniform'], rng=rng, dom=dom)
    # odd cases: ion / electron / density profile constants all different (the defaults have deltaRTe = deltaRTi, kTe = kTi, ...)
    import simdriver
    const = ac.real_constants(**(simdriver.DISTINCT_CONSTANTS if c['k'] % 2 else {}))
    obj = VParallelAdvection(eta, bs[3], const, edge=c['edge'])
    pts = eta[3]
    n = len(pts)
    out = {'pts': pts.tolist(), 'knots': [float(x) for x in bs[3].knots], 'deg': int(bs[3].degree), 'cu': bool(bs[3].cubic_uniform),
           'consts': [float(getattr(const, nm)) for nm in CONST_NAMES], 'runs': [],
           'hmin': float(np.min(np.diff(bs[3].breaks)))}
    w = float(pts[-1] - pts[0])
    prev_shift = None
    for t in range(c['nruns']):
        cls = SHIFT[(c['k'] + t) % len(SHIFT)]
        sgn = rng.choice([-1, 1])
        h = w / (n - 1)
        shift = {'zero': 0.0, 'sub-cell': sgn * h * rng.uniform(0.05, 0.95), 'multi-cell': sgn * h * rng.uniform(1.1, n - 1.5),
                 'to-boundary': float(pts[rng.randrange(1, n - 1)] - rng.choice([pts[0], pts[-1]])),
                 'node-to-node': float(pts[rng.randrange(n)] - pts[rng.randrange(n)]),
                 'beyond-domain': sgn * w * rng.uniform(1.05, 5.9), 'exact-widths': sgn * w * rng.randint(1, 3)}[cls]
        if t % 3 == 2 and prev_shift is not None:
            # a line whose shift is almost, but not exactly, the shift of the line before it (neighbouring lines of a smooth
            # potential; the tiny speeds of the linear phase): nothing computed for the previous line may be reused
            cls = 'almost-previous'
            shift = prev_shift * (1.0 + 2.0e-6) if prev_shift != 0.0 else 3.0e-9
        prev_shift = shift
        dt = rng.choice([2.0, 0.5, -1.0, 0.3])
        cc = shift / dt
        r = float(rng.choice(eta[0]))
        f = np.array([rng.uniform(0, 1) for _ in range(n)])
        # (with tools of the harness's own: the state of the object under test is only touched by its own methods)
        it_, sp_ = ac.own_tools(bs[3])
        it_.compute_interpolant(f, sp_)
        coeffs = np.array(sp_.coeffs, dtype=float).copy()
        vPts = obj._points - cc * dt
        g = f.copy()
        if t % 4 == 1:
            # the caller's line may be a strided view (every second cell of a buffer)
            g = np.full(2 * n, np.nan)[::2]
            g[...] = f
        obj.step(g, dt, cc, r)
        feq = [float(IF.f_eq(r, float(v), const.CN0, const.kN0, const.deltaRN0, const.rp, const.CTi, const.kTi, const.deltaRTi))
               for v in vPts]
        out['runs'].append({'cls': cls, 'dt': dt, 'c': cc, 'r': r, 'f': f.tolist(), 'coeffs': coeffs.tolist(), 'vPts': vPts.tolist(),
                            'out': g.tolist(), 'feq': feq})
    return out


def gen_object_cases(chk):
    rng = random.Random(chk.seed * 104729 + 11)
    big = chk.tier == 'thorough'
    cases = []
    for k in range(150 if big else 36):
        degv = 3 if k % 2 == 0 else rng.choice([1, 2, 4, 5])
        uni = [True, True, True, not (k % 4 == 3)]
        nv = rng.randint(max(6, degv + 3), 16)
        # v domains: the symmetric one of the setups, and off-centre ones with ends that are not binary fractions
        # (a boundary test written in another but mathematically equal form rounds differently there)
        vdom = None
        if k % 4 != 0:
            a = round(rng.uniform(-9.0, 5.0), 2)
            vdom = [a, round(a + rng.uniform(1.5, 9.0), 2)]
            if k % 4 == 2 or k % 8 == 5:
                # ends that need all 17 digits (multiples of sqrt 2): the grid points of a general spline are rounded to 15 decimals
                # and its end points then differ from the ends of the spline's domain by an ulp
                vdom = [-rng.randint(1, 6) * math.sqrt(2.0), rng.randint(1, 6) * math.sqrt(2.0) * rng.choice([1.0, 0.5])]
        cases.append({'seed': chk.seed * 37 + k, 'npts': [5, 7, 7, nv], 'degrees': [3, 3, 3, degv], 'uniform': uni,
                      'edge': ['fEq', 'null', 'periodic'][k % 3], 'nruns': 14 if big else 7, 'k': k, 'vdom': vdom})
    return cases


def object_lines(c, o):
    mode = {'fEq': 1, 'null': 1, 'periodic': 2}[c['edge']]     # fEq: the model gives the inside values (0 outside); outside checked directly
    lines = []
    for rn in o['runs']:
        lines.append('vp.eval %d %d %s %s %s %s %s | %s | %s | %s | %s' % (
            mode, o['deg'], '1' if o['cu'] else '0', qstr(fr(rn['r'])), qstr(fr(o['pts'][0])), qstr(fr(o['pts'][-1])),
            qs([fr(x) for x in o['consts']]), qs([fr(x) for x in rn['f']]), qs([fr(x) for x in rn['vPts']]),
            qs([fr(x) for x in o['knots']]), qs([fr(x) for x in rn['coeffs']])))
    return lines


def judge_object(chk, c, o, answers):
    vMin, vMax = o['pts'][0], o['pts'][-1]
    w = vMax - vMin
    desc = {'vdom': c.get('vdom'), 'npts_v': len(o['pts']), 'degree': o['deg'], 'cubic_uniform': o['cu'], 'edge': c['edge'], 'uniform': c['uniform'][3]}
    for rn, ans in zip(o['runs'], answers):
        st = 'step-float/%s/%s/%s' % ('cu' if o['cu'] else 'nu', c['edge'], rn['cls'])
        chk.count(('vpf', c['k'], rn['cls'], rn['c']), nontrivial=(rn['cls'] != 'zero'), stratum=st,
                  sample={'case': desc, 'c': rn['c'], 'dt': rn['dt'], 'r': rn['r']})
        m = ac.parse_list(ans)
        rep = {'case': desc, 'c': rn['c'], 'dt': rn['dt'], 'r': rn['r'], 'f': rn['f'], 'feet': rn['vPts'], 'code_out': rn['out'],
               'model_out': [float(x) for x in m] if isinstance(m, list) else m}
        if not isinstance(m, list):
            chk.violation('VParallelAdvection.step:model-refuses', 'model answers %r' % ans, rep, no_input=True)
            continue
        cmax = max(1e-300, max(abs(x) for x in rn['coeffs']))
        for i, (v, got, ref) in enumerate(zip(rn['vPts'], rn['out'], m)):
            outside = v < vMin or v > vMax
            where = 'outside' if outside else 'on-boundary' if v in (vMin, vMax) else 'inside'
            key = 'VParallelAdvection.step:%s:foot-%s' % (c['edge'], where)
            rep_i = dict(rep, index=i, foot=v)
            if outside and c['edge'] == 'fEq':
                if got != rn['feq'][i]:
                    chk.violation(key, 'foot %r outside [vMin,vMax]: value %r is not f_eq(r, foot) = %r' % (v, got, rn['feq'][i]), rep_i)
                continue
            if outside and c['edge'] == 'null':
                if got != 0.0:
                    chk.violation(key, 'foot %r outside [vMin,vMax]: value %r is not 0' % (v, got), rep_i)
                continue
            k_iter = int(abs(v - vMin) / w) + 2 if outside else 0
            tol, delta = vp_tol(o['deg'], cmax, o['hmin'], k_iter, max(abs(v), abs(vMin), abs(vMax)) + k_iter * w)
            if outside:
                # exact periodic image; the float loop may stop one turn earlier / later when the image is within delta of an end
                fv = fr(v)
                img = fr(vMin) + (fv - fr(vMin)) % fr(w) if v < vMin else fr(vMax) - (fr(vMax) - fv) % fr(w)
                if min(img - fr(vMin), fr(vMax) - img) <= delta:
                    chk.cov['float_ambiguous'] = chk.cov.get('float_ambiguous', 0) + 1
                    continue
            err = abs(fr(got) - ref)
            chk.cov['max_err_over_tol'] = max(chk.cov.get('max_err_over_tol', 0.0), float(err) / tol)
            if err > tol:
                chk.violation(key, 'value %r differs from the interpolant at the foot by %.3g > %.3g' % (got, float(err), tol), rep_i)


# ------------------------------------------------------------------------------------------------

def coq_term(c):
    sp = c['sp']

    def q(x):
        x = F(x)
        return '(spq_of (%d) %d)' % (x.numerator, x.denominator)

    def ql(l):
        return '[' + '; '.join(q(x) for x in l) + ']'
    pts = c['pts']
    vPts = [p - c['c'] * c['dt'] for p in pts]
    return ('spq_show_list (vpq_eval_step %s %s %s %s %s %s %d %s %s (%d)%%Z %s)'
            % (ql(c['f0']), ql(vPts), q(c['r']), q(pts[0]), q(pts[-1]), ql(sp['knots']), sp['degree'], ql(c['coeffs']),
               ' '.join(q(x) for x in c['consts']), c['bound'], 'true' if sp['cu'] else 'false'))


def coq_matches(coq_ans, model_ans):
    m = ac.parse_list(model_ans)
    if not isinstance(m, list):
        return False
    nums = re.findall(r'\(\s*\(?(-?\d+)\)?%Z\s*,\s*(\d+)%positive\s*\)', coq_ans)
    return len(nums) == len(m) and all(F(int(n), int(d)) == x for (n, d), x in zip(nums, m))


def run():
    chk = core.Check('C11', 'proof')
    proof = core.proof_stage('C11')
    warnings.simplefilter('ignore')
    # grid-level entry points on distributed layouts (local-index glue, state between entry points)
    adv_grid.stage(chk, ['vpar'])
    cases = gen_exact_cases(chk)
    res = implrun.run_cases('props.c11', 'exact_case', cases, tmo=300.0)
    ans = ac.model_par([model_line(c) for c in cases])
    n_or = 0
    for c, r, m in zip(cases, res, ans):
        small = {'op': c['op'], 'kind': c['sp']['kind'], 'degree': c['sp']['degree'], 'bound': c['bound'], 'cls': c['cls'],
                 'shift': str(c.get('shift')), 'dt': str(c.get('dt'))}
        chk.count((c['op'], c['k']), nontrivial=(c['cls'] != 'zero'), stratum=stratum(c), sample=small)
        if not isinstance(r, dict):
            chk.violation('v_parallel_advection_eval_step:outcome', 'implementation run ended with %r' % (r,), {'case': small}, no_input=True)
            continue
        n_or += r['n_or']
        impl = r['impl']
        if impl.startswith('ok') and m.startswith('ok'):
            same = [qparse(t) for t in impl.split()[1:]] == [qparse(t) for t in m.split()[1:]]
        else:
            same = impl.split(' ')[:2] == m.split(' ')[:2]
        replay = {'case': json.loads(json.dumps(c, default=str)), 'impl': impl, 'model': m, 'oracle': r.get('bad')}
        site = {'eval': 'v_parallel_advection_eval_step', 'method': 'VParallelAdvection.step(exact)', 'feq': 'f_eq'}[c['op']]
        if r['orc']:
            chk.cov['disagreements_checked'] += 1
            chk.violation('%s:%s:%s' % (site, r['orc'][0], c['cls']), 'direct oracle fails on the exact output of the code: %r (model %s)'
                          % (r.get('bad'), 'agrees with the code' if same else 'disagrees too'), replay)
        elif not same:
            chk.cov['disagreements_checked'] += 1
            chk.violation('%s:model-mismatch:mode-%d:%s' % (site, c['bound'], c['cls']),
                          'exact output of the code differs from the model: %s / %s' % (impl[:100], m[:100]), replay,
                          no_input=((c['op'] != 'feq' and impl.startswith('ok')) or
                                    (impl.startswith('exc') and ('SimpleNamespace' in impl or 'Fraction' in impl or '<lambda>' in impl))))
    # ---- stated guard: vMax <= vMin in periodic mode
    dcases = [{'v': F(-1), 'vMin': F(0), 'vMax': F(0), 'knots': [F(0), F(1), F(1, 4), F(4)], 'coeffs': [F(1)] * 7},
              {'v': F(-3), 'vMin': F(1), 'vMax': F(-1), 'knots': [F(-1), F(1), F(1, 2), F(4)], 'coeffs': [F(1)] * 7}]
    dres = implrun.run_cases('props.c11', 'diverge_case', dcases, tmo=1.5, chunk=1)
    dans = core.model(['vp.wrap %s %s %s' % (qstr(c['v']), qstr(c['vMin']), qstr(c['vMax'])) for c in dcases])
    for c, r, m in zip(dcases, dres, dans):
        chk.count(('diverge', str(c['vMin']), str(c['vMax'])), stratum='periodic/vMax<=vMin', sample={k: str(v) for k, v in c.items() if k != 'coeffs'})
        if tuple(r) != ('timeout',) or m != 'err fuel':
            chk.violation('v_parallel_advection_eval_step:periodic:vMax<=vMin', 'expected non-termination (code) and exhausted fuel (model): %r / %r'
                          % (r, m), {'case': {k: str(v) for k, v in c.items()}}, no_input=True)
    # ---- real objects
    ocases = gen_object_cases(chk)
    ores = implrun.run_cases('props.c11', 'object_case', ocases, tmo=600.0, chunk=1)
    olines, oown = [], []
    for idx, (c, o) in enumerate(zip(ocases, ores)):
        if not isinstance(o, dict):
            chk.violation('VParallelAdvection:construction', 'building / stepping the real object ended with %r' % (o,), {'case': c})
            continue
        ls = object_lines(c, o)
        olines += ls
        oown += [idx] * len(ls)
    oans = ac.model_par(olines)
    grouped = {}
    for idx, a in zip(oown, oans):
        grouped.setdefault(idx, []).append(a)
    for idx, (c, o) in enumerate(zip(ocases, ores)):
        if isinstance(o, dict):
            judge_object(chk, c, o, grouped[idx])
    # ---- Coq re-evaluation of a small sample
    small = [(i, c) for i, c in enumerate(cases) if c['op'] == 'eval' and 'vlim' not in c][:4]
    vals = core.coq_eval([coq_term(c) for _, c in small],
                         'From Coq Require Import List ZArith QArith Qcanon.\nImport ListNotations.\n'
                         'From PGV Require Import SplineModel SplineQc AdvCommon VParAdv AdvQc.', tag='c11cases')
    for (i, c), v in zip(small, vals):
        chk.cov['certificates_checked'] += 1
        if not coq_matches(v, ans[i]):
            chk.violation('extraction:vpq_eval_step', 'vm_compute and the extracted model disagree', {'coq': v[:300], 'model': ans[i][:300]}, no_input=True)
    chk.assumptions = [
        'exp, tanh, sqrt, pi are parameters of the model; the exact differential binds them to the rational stand-ins of AdvQc.vpq_ext',
        'the spline interpolation (compute_interpolant) is C08: spline coefficients are inputs of the model',
        'rounding is not modelled: exact execution of the real source is the gate; float runs are compared under an a-priori bound']
    return chk.finish(proof, rule='distinct (op, case id); zero shift is counted trivial',
                      extra={'direct_oracles_evaluated': n_or, 'exact_cases': len(cases), 'real_objects': len(ocases)},
                      uncovered=['floating-point rounding (bounded a posteriori on the sampled runs only)',
                                 'a whole-vector statement for shifts by uniform cells: false on clamped spaces (the Greville points next to the ends are off the lattice); the per-node statement is proved (c11_interp_then_foot_on_node), zero speed is composed with C08 (c11_interp_then_zero_speed_id)',
                                 'grid-level step: the parallel gradient at the same global position is used as speed (C05, defects 9.4 repaired)',
                                 'accuracy of the scheme (upstream tolerance tests)'])


def replay(path):
    """re-execute the recorded exact case against the current tree (cases are regenerated from seed and tier);
    failures recorded on real objects (float link) are replayed by re-running the check with the same seed"""
    core.setup_paths()
    import os
    body = json.load(open(path))
    print(json.dumps({k: body[k] for k in ('property', 'key', 'what')}, indent=1)[:2000])
    os.environ['VERIF_SEED'] = str(body.get('seed'))
    os.environ['VERIF_TIER'] = str(body.get('tier'))
    rc = body.get('replay', {}).get('case', {}) if isinstance(body.get('replay'), dict) else {}
    if isinstance(body.get('replay'), dict) and body['replay'].get('kind') == 'grid-entry':
        ok, what = adv_grid.replay_case(body['replay']['case'])
        print('grid-level entry points vs single-process run:', what)
        return 0 if ok else 1
    if isinstance(rc, dict) and 'k' in rc and 'op' in rc:
        chk = core.Check('C11', 'proof')
        chk.seed, chk.tier = int(body['seed']), body['tier']
        hit = [c for c in gen_exact_cases(chk) if c['k'] == rc['k'] and c['op'] == rc['op']]
        if hit:
            c = hit[0]
            r = exact_case(c)
            m = core.model([model_line(c)])
            print('implementation:', str(r['impl'])[:600])
            print('model         :', str(m[0])[:600])
            print('failed direct oracles:', r['orc'])
            impl = r['impl']
            if isinstance(impl, str) and impl.startswith('ok') and m[0].startswith('ok'):
                same = [qparse(t) for t in impl.split()[1:]] == [qparse(t) for t in m[0].split()[1:]]
            else:
                same = isinstance(impl, str) and impl.split(' ')[:2] == m[0].split(' ')[:2]
            if isinstance(impl, list):
                same = all(x.replace(' ', '') == y[2:].replace(' ', '') for x, y in zip(impl, m))
            print('agree' if same and not r['orc'] else 'STILL FAILING')
            return 0 if same and not r['orc'] else 1
    return run()
