"""
C06 - all ranks issue matching collectives; no layout change can deadlock; same route on every rank.
Proof: Props/C06.v (Collectives.v, TraceCheck.v, Routes.v, RoutesGeneral.v: route table independent of the set
iteration order for every number of layouts).
Tie: the simulated MPI records every collective call (operation, communicator, root, count, datatype)
of real runs of: layout-handler / swapper construction and transposes, Grid min/max/figure gathers,
diagnostic reduction, save set-up, the plot-thread set-up (rank owning empty blocks).  Each scenario
is run under several arrival orders (all priority orders for <= 3 ranks); the runs must end normally,
issue the same per-rank traces whatever the order, and the traces must be accepted by the proven
checker traces_ok (=> no schedule deadlocks or mismatches).  Route maps are computed in fresh
interpreters under different PYTHONHASHSEEDs and compared with each other and with the Coq model.
"""
import itertools
import json
import os
import random
import subprocess
import tempfile
import shutil

import core
import gens
import implrun


# ------------------------------------------------------------------ scenarios (run on every simulated rank)
def _std(N, nprocs):
    import numpy as np
    eta = [np.arange(n, dtype=float) for n in N]
    return eta


def scenario(c):
    """c = (kind, params, order or None, seed) -> (outcome, detail, traces, comms, per-rank results)"""
    import numpy as np
    import warnings
    from mpi4py import MPI
    kind, P, order, seed = c
    tmp = None

    if kind == 'handler':
        N, nprocs, layouts = P
        nranks = int(np.prod(nprocs))

        def work(comm):
            from pygyro.model.layout import getLayoutHandler
            eta = _std(N, nprocs)
            names = ['L%d' % i for i in range(len(layouts))]
            h = getLayoutHandler(comm, dict(zip(names, [list(l) for l in layouts])), list(nprocs), eta)
            bs = h.bufferSize
            for a in names:
                for b in names:
                    s = np.zeros(bs)
                    dd = np.zeros(bs)
                    h.transpose(s, dd, a, b)
                    h.transpose(s, dd, a, b, np.zeros(bs))
            return {a: {b: list(h._route_map[a][b]) for b in names if b != a} for a in names} if len(names) > 1 else {}
    elif kind == 'swapper':
        N, nprocs = P
        nranks = int(np.prod(nprocs))

        def work(comm):
            from pygyro.model.layout import LayoutSwapper
            eta = _std(N, nprocs)
            sw = LayoutSwapper(comm, [{'v_parallel_2d': [0, 2, 1], 'mode_solve': [1, 2, 0]}, {'v_parallel_1d': [0, 2, 1]},
                                      {'poloidal': [2, 1, 0]}], [list(nprocs), nprocs[0], nprocs[1]], eta, 'mode_solve')
            names = ['v_parallel_2d', 'mode_solve', 'v_parallel_1d', 'poloidal']
            bs = sw.bufferSize
            for a in names:
                for b in names:
                    s = np.zeros(bs, dtype=complex)
                    dd = np.zeros(bs, dtype=complex)
                    sw.transpose(s, dd, a, b)
                    sw.transpose(s, dd, a, b, np.zeros(bs, dtype=complex))
            return {a: {b: list(sw._route_map[a][b]) for b in names if b != a} for a in names}
    elif kind == 'gridreduce':
        N, nprocs, layouts, root = P
        nranks = int(np.prod(nprocs))

        def work(comm):
            from pygyro.model.layout import getLayoutHandler
            from pygyro.model.grid import Grid
            eta = _std(N, nprocs)
            names = ['L%d' % i for i in range(len(layouts))]
            h = getLayoutHandler(comm, dict(zip(names, [list(l) for l in layouts])), list(nprocs), eta)
            g = Grid(eta, [None] * len(N), h, names[0], comm)
            g.getAllData()[:] = comm.Get_rank() + 1.0
            out = []
            for nm in names:
                g.setLayout(nm)
                out.append(g.getMin(root))
                out.append(g.getMax(root))
                for ax in range(len(N)):
                    for fix in (0, N[ax] - 1, N[ax] // 2):
                        out.append(g.getMin(root, ax, fix))
                        out.append(g.getMax(root, ax, fix))
                out.append(g.getMin(root, [0, 1], [0, N[1] - 1]))
                d = len(N)
                blk = g.getBlockFromDict({0: 0}, comm, root)
                blk = g.getBlockFromDict({d - 1: N[d - 1] - 1, 0: range(0, max(1, N[0] // 2))}, comm, root)
                # gather 'in the direction of a communicator': the root is a rank OF THAT communicator (its numbering
                # differs from the numbering of the grid's own communicator)
                for sub in h.communicators:
                    sroot = (root + 1) % sub.Get_size()
                    blk = g.getBlockFromDict({0: 0}, sub, sroot)
                    if sub.Get_rank() == sroot:
                        out.append(float(len(blk[3])))
                    blk = g.getBlockForFig([None] * d, sub, sub.Get_size() - 1)
            # a complex grid (phi is one) gathered for a figure: the imaginary parts are round-off of different size on
            # different ranks (none on the first rank); every rank must hand the same datatype to the gather
            gc = Grid(eta, [None] * len(N), h, names[0], comm, dtype=np.complex128)
            rk = comm.Get_rank()
            gc.getAllData()[:] = (rk + 1.0) + 1j * (0.0 if rk == 0 else 1.0e-9 * (rk + 1))
            for nm in names[:2]:
                gc.setLayout(nm)
                blk = gc.getBlockForFig([None] * len(N), comm, root)
                for sub in h.communicators:
                    blk = gc.getBlockForFig([None] * len(N), sub, sub.Get_size() - 1)
                    blk = gc.getBlockForFig([None] * len(N), sub, 0)
            return [None if x is None else float(x) for x in out]
    elif kind == 'setupsave':
        nranks, given = P[:2]
        sroot = P[2] if len(P) > 2 else 0
        tmp = tempfile.mkdtemp(dir='/var/tmp', prefix='pgv_c06_')

        def work(comm):
            from pygyro.utilities.savingTools import setupSave
            from pygyro.initialisation.constants import Constants
            c0 = Constants()
            if given:
                f1 = setupSave(c0, os.path.join(tmp, 'given'), comm=comm, root=sroot)
            else:
                f1 = setupSave(c0, None, comm=comm, root=sroot)      # creates simulation_<i> in the cwd (= tmp)
            return os.path.basename(str(f1))
    elif kind == 'setupsplit':
        # several simulations in one job: every object built by the set-up routines lives on the communicator it was given
        nranks, fresh = P
        tmp = tempfile.mkdtemp(dir='/var/tmp', prefix='pgv_c06s_')
        import json as _json
        for gidx in (0, 1):
            os.makedirs(os.path.join(tmp, 'sim%d' % gidx))
            _json.dump({'npts': [8, 8, 8, 8], 'splineDegrees': [3, 3, 3, 3], 'dt': 2}, open(os.path.join(tmp, 'sim%d' % gidx, 'initParams.json'), 'w'))

        def work(comm):
            from pygyro.initialisation.setups import setupFromFile, setupCylindricalGrid
            colour = comm.Get_rank() % 2
            sub = comm.Split(colour, comm.Get_rank())
            folder = os.path.join(tmp, 'sim%d' % colour)
            if not fresh:
                g0, c0, t0 = setupCylindricalGrid(layout='v_parallel', npts=[8, 8, 8, 8], comm=sub)
                g0.writeH5Dataset(folder, 0)
            grid, constants, t = setupFromFile(folder, comm=sub, **({'layout': 'v_parallel'} if fresh else {}))
            out = []
            if colour == 0:                       # only one of the simulations asks for its extrema
                out.append(grid.getMin(0))
                out.append(grid.getMax(0, 0, 1))
            else:
                grid.setLayout('poloidal')
            return [None if x is None else float(x) for x in out]
    elif kind == 'plotthread':
        nranks, npts = P

        def work(comm):
            from pygyro.initialisation.setups import setupCylindricalGrid
            grid, constants, t = setupCylindricalGrid(layout='v_parallel', npts=list(npts), comm=comm, plotThread=True, drawRank=0,
                                                      allocateSaveMemory=True)
            out = []
            for nm in ('flux_surface', 'poloidal', 'v_parallel'):
                grid.setLayout(nm)
                out.append(grid.getMin(0))
                out.append(grid.getMax(0, 0, 1))
            return [None if x is None else float(x) for x in out]
    elif kind == 'diagnostics':
        nranks, npts, saveStep = P

        def work(comm):
            from pygyro.initialisation.setups import setupCylindricalGrid
            from pygyro.model.layout import LayoutSwapper
            from pygyro.model.grid import Grid
            from pygyro.diagnostics.diagnostic_collector import DiagnosticCollector
            f, constants, t = setupCylindricalGrid(layout='v_parallel', npts=list(npts), comm=comm, allocateSaveMemory=True)
            nprocs = f.getLayout(f.currentLayout).nprocs[:2]
            sw = LayoutSwapper(comm, [{'v_parallel_2d': [0, 2, 1], 'mode_solve': [1, 2, 0]}, {'v_parallel_1d': [0, 2, 1]},
                                      {'poloidal': [2, 1, 0]}], [nprocs, nprocs[0], nprocs[1]], f.eta_grid[:3], 'v_parallel_2d')
            phi = Grid(f.eta_grid[:3], f.getSpline(slice(0, 3)), sw, 'v_parallel_2d', comm, dtype=np.complex128)
            phi.getAllData()[:] = 1.0
            dc = DiagnosticCollector(comm, saveStep, constants.dt, f, phi)
            for k in range(saveStep):
                dc.collect(f, phi, k * constants.dt)
            dc.reduce()
            return dc.getLine(0) if comm.Get_rank() == 0 else None
    else:
        raise ValueError(kind)

    def wrapped(comm):
        with warnings.catch_warnings():
            warnings.simplefilter('ignore')
            return work(comm)
    cwd = os.getcwd()
    try:
        if tmp:
            os.chdir(tmp)
        R = MPI.run(nranks, wrapped, seed=seed, order=list(order) if order is not None else None, timeout=240)
    finally:
        os.chdir(cwd)
        if tmp:
            shutil.rmtree(tmp, ignore_errors=True)
    return (R.outcome, R.detail[:500], [[list(t) for t in tr] for tr in R.trace], {str(k): v for k, v in R.comms.items()},
            R.results if R.outcome == 'ok' else None)


# ------------------------------------------------------------------ route maps under different hash seeds
ROUTE_SCRIPT = r'''
import sys, json
sys.path.insert(0, %(shims)r); sys.path.insert(1, %(repo)r)
from pygyro.model.layout import LayoutManager
class D(LayoutManager):
    pass
graphs = json.load(open(sys.argv[1]))
out = []
for names, edges in graphs:
    n = len(names)
    conn = [(nm, []) for nm in names]
    for b in range(n):
        for a in range(b):
            if [a, b] in edges:
                conn[a][1].append(names[b]); conn[b][1].append(names[a])
    d = D()
    full = d._makeConnectionMap(dict(conn))
    rm = getattr(d, '_route_map', None)
    out.append([bool(full), {a: {b: rm[a][b] for b in rm[a]} for a in rm} if rm is not None else None])
json.dump(out, open(sys.argv[2], 'w'))
'''


def route_maps(graphs, hashseed, workdir):
    gi = os.path.join(workdir, 'graphs.json')
    go = os.path.join(workdir, 'out_%s.json' % hashseed)
    json.dump(graphs, open(gi, 'w'))
    sc = os.path.join(workdir, 'routes.py')
    open(sc, 'w').write(ROUTE_SCRIPT % {'shims': core.SHIMS, 'repo': core.REPO})
    env = dict(os.environ, PYTHONHASHSEED=str(hashseed), PYTHONDONTWRITEBYTECODE='1')
    env.pop('PYTHONPATH', None)
    p = subprocess.run([core.PY, sc, gi, go], env=env, capture_output=True, text=True, timeout=600)
    if p.returncode != 0:
        return None, p.stderr[-500:]
    return json.load(open(go)), ''


def sig_codes(traces):
    """map (op, root, count, dtype) signatures to small integer codes"""
    codes = {}
    out = []
    for tr in traces:
        row = []
        for op, cid, root, count, dtype in tr:
            # Gatherv / gather legitimately carry a different count on every rank
            k = (op, root, None if op in ('Gatherv', 'gather', 'allgather', 'bcast', 'reduce', 'allreduce') else count, dtype)
            if k not in codes:
                codes[k] = len(codes)
            row += [cid, codes[k]]
        out.append(row)
    return out


def run():
    chk = core.Check('C06', 'proof')
    proof = core.proof_stage('C06')
    rng = random.Random(chk.seed)
    quick = chk.tier == 'quick'
    scen = []
    std3 = [[0, 3, 1, 2], [0, 2, 1, 3], [3, 2, 1, 0]]
    for nprocs in ([1, 2], [2, 1], [1, 3], [3, 1], [2, 2], [2, 3]) if quick else ([1, 2], [2, 1], [1, 3], [3, 1], [2, 2], [2, 3], [3, 2], [1, 4], [4, 2], [2, 4]):
        scen.append(('handler', ([4, 5, 7, 8], nprocs, std3)))
        scen.append(('swapper', ([5, 6, 7], nprocs)))
        scen.append(('gridreduce', ([4, 5, 6, 5], nprocs, std3, rng.randrange(nprocs[0] * nprocs[1]))))
    # processes with empty blocks (fewer points than processes along a distributed dimension): every member of a
    # sub-communicator must still issue the Alltoall (the first two hung before 61c5b80)
    scen.append(('handler', ([2, 1, 1], [2, 3, 1], [[1, 0, 2], [1, 2, 0], [0, 2, 1]])))
    scen.append(('handler', ([1, 1, 3], [2, 1, 3], [[2, 1, 0], [1, 2, 0], [1, 0, 2]])))
    scen.append(('handler', ([4, 4, 2, 2], [2, 3], std3)))
    # (LayoutSwapper is exercised with p <= n only: its constructor orders two handlers by comparing block sizes and
    # raises IndexError on every rank concerned when both blocks are empty, before any communication)
    for _ in range(10 if quick else 80):
        N, nprocs, layouts = gens.handler_config(rng, max_ranks=6, max_extent=6)
        scen.append(('handler', (N, nprocs, layouts)))
    for _ in range(4 if quick else 30):
        N, nprocs, layouts = gens.handler_config(rng, max_ranks=6, max_extent=6)
        nr = 1
        for p in nprocs:
            nr *= p
        scen.append(('gridreduce', (N, nprocs, layouts, rng.randrange(nr))))
    for nr in (1, 2, 3):
        scen.append(('setupsave', (nr, True)))
        scen.append(('setupsave', (nr, False)))
    # a root other than rank 0 (every member must name the same root in the broadcast of the folder name)
    scen.append(('setupsave', (3, False, 2)))
    scen.append(('setupsave', (2, False, 1)))
    scen.append(('setupsave', (3, True, 1)))
    scen.append(('plotthread', (3, [8, 8, 8, 8])))
    scen.append(('setupsplit', (4, True)))
    scen.append(('setupsplit', (4, False)))
    scen.append(('setupsplit', (3, True)))
    scen.append(('diagnostics', (2, [8, 8, 8, 8], 3)))
    scen.append(('diagnostics', (4, [8, 8, 8, 8], 2)))
    if not quick:
        scen.append(('plotthread', (5, [8, 8, 8, 8])))
        scen.append(('diagnostics', (6, [8, 8, 8, 8], 5)))
    cases = []
    for si, (kind, P) in enumerate(scen):
        nr = {'handler': lambda: _prod(P[1]), 'swapper': lambda: _prod(P[1]), 'gridreduce': lambda: _prod(P[1]),
              'setupsave': lambda: P[0], 'setupsplit': lambda: P[0], 'plotthread': lambda: P[0], 'diagnostics': lambda: P[0]}[kind]()
        orders = [list(p) for p in itertools.permutations(range(nr))] if nr <= 3 else []
        if kind in ('plotthread', 'diagnostics', 'setupsplit'):
            orders = orders[:2]
        for o in orders:
            cases.append((si, (kind, P, o, 0)))
        for k in range(2 if quick else 6):
            cases.append((si, (kind, P, None, rng.randrange(10 ** 6))))
    res = implrun.run_cases('props.c06', 'scenario', [c for _, c in cases], tmo=300.0, chunk=1)
    by_scen = {}
    for (si, c), r in zip(cases, res):
        by_scen.setdefault(si, []).append((c, r))
    lines = []
    keys = []
    for si, runs_ in by_scen.items():
        kind, P = scen[si]
        ref = None
        for c, r in runs_:
            nontriv = kind != 'setupsave' and len(r[2]) > 1 if r[0] not in ('exc', 'timeout') else True
            chk.count((si, c[2], c[3]), nontrivial=bool(nontriv), stratum='%s:%s' % (kind, 'order' if c[2] is not None else 'seeded'),
                      sample={'scenario': kind, 'params': P, 'arrival_priority': c[2], 'seed': c[3],
                              'collectives_rank0': len(r[2][0]) if r[0] == 'ok' else None})
            if r[0] in ('exc', 'timeout'):
                chk.violation('collectives:%s:harness-%s' % (kind, r[0]), 'scenario %s %r: %r' % (kind, P, r), {'kind': 'impl', 'scenario': [kind, P], 'order': c[2], 'seed': c[3], 'observed': list(r)})
                continue
            if r[0] != 'ok':
                chk.violation('collectives:%s:%s' % (kind, r[0]),
                              'scenario %s %r with arrival priority %r / seed %d: run ends in %s: %s' % (kind, P, c[2], c[3], r[0], r[1]),
                              {'kind': 'impl', 'scenario': [kind, P], 'order': c[2], 'seed': c[3], 'outcome': r[0], 'detail': r[1]})
                continue
            tr = r[2]
            if ref is None:
                ref = (c, tr, r[4])
                mems = r[3]
                nc = max(int(k) for k in mems) + 1
                ml = ' ; '.join(' '.join(map(str, mems.get(str(k), []))) for k in range(nc))
                tl = ' ; '.join(' '.join(map(str, row)) for row in sig_codes(tr))
                lines.append('tracesok %s || %s' % (ml, tl))
                keys.append((si, c))
                # same route on every rank
                if kind in ('handler', 'swapper'):
                    if any(x != r[4][0] for x in r[4]):
                        chk.violation('collectives:%s:routes-differ-between-ranks' % kind, 'scenario %s %r: ranks chose different routes' % (kind, P),
                                      {'kind': 'impl', 'scenario': [kind, P], 'routes': r[4]})
            else:
                if tr != ref[1]:
                    chk.violation('collectives:%s:trace-depends-on-arrival-order' % kind,
                                  'scenario %s %r: per-rank collective sequence differs between arrival orders %r and %r' % (kind, P, ref[0][2:], c[2:]),
                                  {'kind': 'impl', 'scenario': [kind, P], 'orders': [ref[0][2:], c[2:]]})
                if r[4] != ref[2]:
                    chk.violation('collectives:%s:result-depends-on-arrival-order' % kind,
                                  'scenario %s %r: results differ between arrival orders' % (kind, P),
                                  {'kind': 'impl', 'scenario': [kind, P], 'orders': [ref[0][2:], c[2:]]})
    for (si, c), ok in zip(keys, core.model_parallel(lines)):
        chk.cov['certificates_checked'] += 1
        if ok != '1':
            kind, P = scen[si]
            chk.violation('collectives:%s:traces-rejected' % kind,
                          'scenario %s %r: recorded per-rank traces are rejected by traces_ok (a communicator whose members disagree on '
                          'operation/root/count/datatype, or no order of firing completes them)' % (kind, P),
                          {'kind': 'certificate', 'theorem': 'c06_traces_ok_sound', 'scenario': [kind, P], 'order': c[2], 'seed': c[3]})

    # ---- route maps: hash seeds, model
    ngraphs = 150 if quick else 1500
    graphs = []
    pool = ['flux_surface', 'v_parallel', 'poloidal', 'mode_solve', 'v_parallel_2d', 'v_parallel_1d', 'a', 'B', 'zeta', 'Alpha', 'm', 'x9', 'x10']
    for _ in range(ngraphs):
        n = rng.randint(2, 8)
        names = rng.sample(pool, n)
        pairs = [[a, b] for b in range(n) for a in range(b)]
        if n >= 4 and rng.random() < 0.25:
            # graphs with many shortest routes of equal length (ties of min and of the route comparison), relabelled at random
            kind = rng.choice(['cycle', 'bipartite', 'ladder', 'complete', 'cube'])
            if kind == 'cycle':
                raw = [(i, (i + 1) % n) for i in range(n)]
            elif kind == 'bipartite':
                k = rng.randint(1, n - 1)
                raw = [(i, j) for i in range(k) for j in range(k, n)]
            elif kind == 'ladder':
                h = n // 2
                raw = [(i, i + 1) for i in range(h - 1)] + [(h + i, h + i + 1) for i in range(h - 1)] + [(i, h + i) for i in range(h)]
            elif kind == 'complete':
                raw = [(a, b) for a, b in pairs]
            else:
                raw = [(a, a ^ (1 << k)) for a in range(n) for k in range(3) if a < a ^ (1 << k) < n]
            lab = list(range(n))
            rng.shuffle(lab)
            edges = sorted({tuple(sorted((lab[a], lab[b]))) for a, b in raw})
            edges = [list(e) for e in edges]
        else:
            # connected-ish: spanning tree plus random extra edges
            edges = []
            for b in range(1, n):
                edges.append(sorted([rng.randrange(b), b]))
            for pr in pairs:
                if pr not in edges and rng.random() < 0.3:
                    edges.append(pr)
            if rng.random() < 0.1 and edges:
                edges.pop(rng.randrange(len(edges)))
        graphs.append((names, edges))
    seeds = [0, 1, 2, 3] if quick else list(range(0, 64))
    wd = tempfile.mkdtemp(dir='/var/tmp', prefix='pgv_c06r_')
    try:
        maps = {}
        for hs in seeds:
            m, err = route_maps(graphs, hs, wd)
            if m is None:
                chk.violation('layout._makeConnectionMap:crash', 'route search failed under PYTHONHASHSEED=%s: %s' % (hs, err), {'kind': 'impl', 'hashseed': hs, 'stderr': err})
            else:
                maps[hs] = m
    finally:
        shutil.rmtree(wd, ignore_errors=True)
    mlines = []
    for names, edges in graphs:
        n = len(names)
        srt = sorted(names)
        # edges in the order LayoutHandler meets them: for b, for a < b
        el = [(a, b) for b in range(n) for a in range(b) if [a, b] in edges]
        mlines.append('routes %d | %s | %s | %s' % (n, ' '.join('%d %d' % e for e in el), ' '.join(str(srt.index(x)) for x in names),
                                                  ' '.join(map(str, range(n)))))
    mres = core.model_parallel(mlines) if maps else []
    first = maps[seeds[0]] if seeds[0] in maps else None
    for gi, (names, edges) in enumerate(graphs):
        if first is None:
            break
        n = len(names)
        chk.count(('graph', tuple(names), tuple(map(tuple, edges))), nontrivial=(n >= 3), stratum='routes:%dnodes' % n,
                  sample={'names': names, 'edges': edges, 'routes': first[gi][1]})
        for hs in seeds[1:]:
            if hs in maps and maps[hs][gi] != first[gi]:
                chk.violation('layout._makeConnectionMap:hash-seed-dependent',
                              'graph names=%r edges=%r: route map under PYTHONHASHSEED=%s differs from seed %s' % (names, edges, hs, seeds[0]),
                              {'kind': 'impl', 'names': names, 'edges': edges, 'hashseeds': [seeds[0], hs], 'maps': [first[gi], maps[hs][gi]]})
                break
        full, rm = first[gi]
        mt = [[[int(x) for x in cell.split()] for cell in row.split(',')] for row in mres[gi].split(';')]
        imp = [[[names.index(x) for x in rm[names[a]][names[b]]] if a != b else [] for b in range(n)] for a in range(n)]
        if imp != mt:
            # direct oracle: every route is a valid shortest path
            okp = _routes_valid(n, edges, imp, full)
            chk.cov['disagreements_checked'] += 1
            chk.violation('layout._makeConnectionMap:model-mismatch' if okp else 'layout._makeConnectionMap:invalid-route',
                          'graph names=%r edges=%r: routes %r, model %r' % (names, edges, imp, mt),
                          {'kind': 'correspondence' if okp else 'impl', 'theorem': 'Routes.route_table / c06_routes_order_independent_le4',
                           'names': names, 'edges': edges, 'observed': imp, 'model': mt}, no_input=okp)
    sweep5 = None
    if not quick:
        # order independence for every graph on 5 layouts: the Coq function order_independent_slice run by the extracted code,
        # 16 slices in parallel; by RoutesSweep.slices_cover all slices true => order_independent_upto 5 = true.
        # Since RoutesGeneral.order_independent_upto_all proves this for every n, the sweep is a cross-check of the extraction only.
        # (4 of the 16 slices per run, chosen by the seed, now that the general theorem covers every n)
        from concurrent.futures import ThreadPoolExecutor
        slices5 = sorted(set((chk.seed + 4 * j) % 16 for j in range(4)))
        with ThreadPoolExecutor(4) as ex:
            outs = list(ex.map(lambda k: core.model(['routesweep 5 %d 16' % k], 3000)[0], slices5))
        sweep5 = all(o == '1' for o in outs)
        chk.cov['certificates_checked'] += len(slices5)
        if not sweep5:
            chk.violation('layout._makeConnectionMap:order-dependent-on-5-layouts', 'the route model depends on the set iteration order for some graph on 5 layouts '
                          '(slices %r of 16 fail)' % [k for k, o in zip(slices5, outs) if o != '1'],
                          {'kind': 'model', 'theorem': 'RoutesSweep.slices_cover / order_independent_upto 5', 'slices': outs}, no_input=True)
    chk.assumptions += ['each rank is a deterministic function of its inputs and of the results of its collectives (checked: traces identical '
                        'across arrival orders)', 'a real MPI library behaves as the standard specifies for matched collectives (progress engine, '
                        'eager/rendezvous limits are outside the model)']
    return chk.finish(proof,
                      rule='scenarios x arrival orders: every priority order for <= 3 ranks plus seeded random scheduling; %d random layout graphs '
                           '(2-8 layouts, a quarter of them tie-rich: cycles, complete bipartite, ladders, complete, cube) x %d PYTHONHASHSEEDs; non-trivial = more than one rank / more than two layouts' % (ngraphs, len(seeds)),
                      extra={'scenarios': len(scen), 'hash_seeds': seeds, 'graphs': ngraphs, 'route_sweep_5_layouts_all_orders': sweep5},
                      uncovered=['order independence of the route search is now a theorem for EVERY number of layouts (c06_routes_order_independent: any symmetric '
                                 'connection table, any injective name ranking, any two iteration orders); what remains tested, not proved, is that '
                                 'Routes.route_table is _makeConnectionMap (checked here on 2-8 layouts against the implementation under several hash seeds) '
                                 'and that CPython iterates a set in an order that removals do not change (the model filters one fixed order)',
                                 'behaviour of a real MPI runtime'])


def _prod(l):
    p = 1
    for x in l:
        p *= x
    return p


def _routes_valid(n, edges, imp, full):
    adj = {a: set() for a in range(n)}
    for a, b in edges:
        adj[a].add(b)
        adj[b].add(a)
    import collections
    for a in range(n):
        dist = {a: 0}
        q = collections.deque([a])
        while q:
            x = q.popleft()
            for y in adj[x]:
                if y not in dist:
                    dist[y] = dist[x] + 1
                    q.append(y)
        for b in range(n):
            if a == b:
                continue
            r = imp[a][b]
            if b not in dist:
                if r:
                    return False
                continue
            if len(r) != dist[b] or r[-1] != b:
                return False
            cur = a
            for x in r:
                if x not in adj[cur]:
                    return False
                cur = x
    return True


def replay(path):
    core.setup_paths()
    body = json.load(open(path))
    rp = body['replay']
    if 'scenario' in rp:
        kind, P = rp['scenario']
        P = tuple(tuple(x) if isinstance(x, list) and x and not isinstance(x[0], list) else x for x in P) if False else P
        r = scenario((kind, P, rp.get('order'), rp.get('seed', 0)))
        print('outcome', r[0], r[1])
        return 0 if r[0] == 'ok' else 1
    print(json.dumps(rp)[:3000])
    return 1
