"""
C08 - interpolants reproduce their data (SplineInterpolator1D / SplineInterpolator2D).

Proof: Props/C08.v (InterpModel.v / InterpTheory.v / Interp2D.v / GrevilleTheory.v / MarsdenTheory.v / EndValueTheory.v / InterpQc.v on top of the spline model of C07).

Tie.  spline_interpolators.py and splines.py are numpy/scipy-level code (LAPACK, SuperLU): they are run
as they are, on binary64, and every double they produce (knots, Greville points, collocation matrix,
coefficients) is converted to the exact rational it is.
  * the extracted Qc model is run on the code's OWN knots and interpolation points: collocation matrix
    (entries and zero pattern), coefficients of the 1-D interpolant of several data vectors (one
    factorisation), 2-D coefficients for the four boundary combinations; the float results must agree with
    the exact ones within a condition-number-scaled bound (BOUND_C below);
  * direct oracle, independent of the interpolation model: S(x_i) - u_i is evaluated EXACTLY on the code's
    own float coefficients, by the model's evaluation (SplineModel, proved in C07) and by an independent
    Cox - de Boor recursion on Fractions written here; the two must agree exactly and the residual must be
    below BOUND_R;
  * exact structural checks on the code's output: periodic wrap c[n+j] == c[j] (both directions in 2-D),
    power-of-two rescaling of the data rescales the coefficients bit for bit, complex data on clamped
    spaces = real and imaginary parts (never through Spline1D.eval(array)), polynomial reproduction on
    clamped spaces (degree <= p): exactly on the model, within the bound on the code;
  * a sample of the model answers is recomputed inside Coq (vm_compute).

Bounds (never the gate for the model itself, which is exact).  The code solves C_f c = u with a backward
stable banded / sparse LU; C_f has entries within a few ulp of the exact collocation matrix C (rows are
non-negative and sum to one, ||C||_inf = 1).  Hence  ||c_f - c||_inf <= k n eps ||C^-1||_inf ||c_f||_inf  and
||C c_f - u||_inf <= k n eps ||c_f||_inf  with a modest k; we use k = 512 (BOUND_C, BOUND_R), 2 orders of
magnitude above the largest ratio observed on seeds 1..5 (reported in the evidence as max_ratio_*) and
10+ orders below the effect of any wrong index (O(1)).
"""
import json
import os
import random
import warnings
from fractions import Fraction as F

import numpy as np

import core
import implrun
import qlift
from qlift import qstr, qparse, frac_of_float as ff

EPS = 2.0 ** -52
KB = 512.0
SITE1 = 'spline_interpolators.SplineInterpolator1D'
SITE2 = 'spline_interpolators.SplineInterpolator2D'


def qs(l):
    return ' '.join(qstr(x) for x in l)


def fl(tok):
    """a wire rational that is a double -> float"""
    return float(qparse(tok))


# ------------------------------------------------------------------------------------------------
# independent exact B-splines (Cox - de Boor on Fractions; half-open intervals, last cell closed)

def bspl_all(T, p, x, hi=None):
    """values at x of all len(T)-p-1 B-splines of degree p on the knot list T (domain [T[p], T[hi]]); outside
    the domain (a Greville point rounded to 15 decimals may leave it by an ulp) the first / last polynomial piece
    is continued, which is what nu_find_span's clamping does"""
    n = len(T) - 1
    hi = len(T) - 1 - p if hi is None else hi
    N = [F(0)] * n
    if x >= T[hi]:
        k = max(i for i in range(hi) if T[i] < T[i + 1])
    elif x <= T[p]:
        k = p
    else:
        k = [i for i in range(n) if T[i] <= x < T[i + 1]][0]
    N[k] = F(1)
    for d in range(1, p + 1):
        M = [F(0)] * (n - d)
        for i in range(n - d):
            a = F(0)
            if T[i + d] != T[i]:
                a += (x - T[i]) / (T[i + d] - T[i]) * N[i]
            if T[i + d + 1] != T[i + 1]:
                a += (T[i + d + 1] - x) / (T[i + d + 1] - T[i + 1]) * N[i + 1]
            M[i] = a
        N = M
    return N


def full_knots(sp):
    """the knot vector on which the space really evaluates: its own, or the uniform extension of the cubic path"""
    if sp['cubic']:
        xmin, xmax, dx, nc = sp['knots']
        return [xmin + (i - 3) * dx for i in range(int(nc) + 7)], 3 + int(nc)
    return sp['knots'], None


def eval_exact(sp, coeffs, x):
    T, hi = full_knots(sp)
    N = bspl_all(T, sp['p'], x, hi)
    return sum(c * b for c, b in zip(coeffs, N))


# ------------------------------------------------------------------------------------------------
# spaces

def gen_breaks(rng, nc, kind, p):
    """breakpoints as exact doubles; 'nice' = multiples of 105/2^k, so that Greville points (averages of p <= 8
    knots), thirds of a cell and the 15-decimal rounding are all exact and the rationals stay small"""
    if kind == 'raw':
        xs = sorted(rng.random() for _ in range(nc - 1))
        br = [0.0] + [x for x in xs] + [1.0]
        if len(set(br)) != len(br):
            br = [i / nc for i in range(nc + 1)]
        a = rng.choice([0.0, -1.25, 3.5])
        s = rng.choice([1.0, 2.5, 0.3])
        return [a + s * b for b in br]
    if kind == 'rawgentle':    # almost uniform: cell widths vary by a few 1e-7 relative (below the default tolerances of np.allclose)
        w = [1.0 + 3e-7 * rng.randint(-9, 9) for _ in range(nc)]
        a = rng.choice([0.0, -0.7, 2.0])
        c = [a]
        for x in w:
            c.append(c[-1] + x * (1.0 / nc))
        return c
    if kind == 'rawtinyjit':   # a very small domain with strongly non-uniform cells (absolute tolerances see it as uniform)
        w = [rng.uniform(0.7, 1.3) for _ in range(nc)]
        c = [0.0]
        for x in w:
            c.append(c[-1] + x * 1e-7 / nc)
        return c
    if kind == 'rawtiny':      # a very small domain: absolute tolerances (1e-8 and the like) are larger than a cell
        return list(np.linspace(0.0, 1e-7, nc + 1))
    if kind == 'rawfar':       # a domain far from the origin: tolerances relative to |x| are larger than a cell
        a = rng.choice([1000.0, 1.0e4])
        return list(np.linspace(a, a + rng.choice([1.0, 6.283185307179586]), nc + 1))
    if kind in ('rawint', 'rawintuniform'):     # whole-number breakpoints; build() hands the knots over as an integer array
        a = rng.choice([0, -3, 5])
        step = rng.choice([1, 2, 3])
        c = [float(a)]
        for _ in range(nc):
            c.append(c[-1] + (step if kind == 'rawintuniform' else rng.randint(1, 3)))
        return c
    if kind == 'rawuniform':
        a = rng.choice([0.0, -0.7, 2.0])
        b = a + rng.choice([1.0, 6.283185307179586, 0.37])
        return list(np.linspace(a, b, nc + 1))
    if kind == 'uniform':
        steps = [1] * nc
    else:
        steps = [rng.randint(1, 4) for _ in range(nc)]
        if nc > 1 and len(set(steps)) == 1:
            steps[0] += 1
    tot = sum(steps)
    k = 0
    while tot * 105.0 / 2 ** k >= 8.0:
        k += 1
    off = rng.choice([0, 0, -3, 5])
    c = [off]
    for s in steps:
        c.append(c[-1] + s)
    return [x * 105.0 / 2 ** k for x in c]


def make_space(rng, nc, p, periodic, kind):
    """kind: nonuniform | uniform | raw | rawuniform ; uniform + degree 3 is the uniform-cubic fast path"""
    return {'nc': nc, 'p': p, 'periodic': periodic, 'kind': kind, 'uniform': kind in ('uniform', 'rawuniform', 'rawtiny', 'rawfar', 'rawintuniform'),
            'breaks': qs([ff(b) for b in gen_breaks(rng, nc, kind, p)])}


def build(spd):
    from pygyro.splines.splines import make_knots, BSplines
    br = np.array([fl(t) for t in spd['breaks'].split()])
    kn = make_knots(br, spd['p'], spd['periodic'])
    if spd.get('kind', '').startswith('rawint'):
        # knots that are whole numbers may reach the class as an integer array (hand-written knots, np.arange)
        kn = kn.astype(np.int64)
    return BSplines(kn, spd['p'], spd['periodic'], spd['uniform'])


def space_info(b):
    return {'knots': qs([ff(t) for t in b.knots]), 'xs': qs([ff(t) for t in b.greville]), 'nbasis': int(b.nbasis),
            'cubic': bool(b.cubic_uniform), 'ncoef': int(b.ncells + b.degree)}


def space_tag(spd):
    return '%s:%s:p%d' % ('periodic' if spd['periodic'] else 'clamped',
                          ('cubic' if spd['uniform'] and spd['p'] == 3 else spd['kind']), spd['p'])


def gen_data(rng, n, style):
    if style == 'const':
        v = rng.choice([1.0, -2.5, 0.375])
        return [v] * n
    if style == 'small':
        return [rng.randint(-64, 64) / 16.0 for _ in range(n)]
    if style == 'delta':
        d = [0.0] * n
        d[rng.randrange(n)] = 1.0
        return d
    if style == 'bad':         # badly scaled
        return [rng.uniform(-1, 1) * 10.0 ** rng.randint(-8, 8) for _ in range(n)]
    return [rng.uniform(-2, 2) for _ in range(n)]


# ------------------------------------------------------------------------------------------------
# implementation side (worker processes)

def impl_1d(c):
    """run the real SplineInterpolator1D; every double is returned as the exact rational it is"""
    import warnings
    warnings.simplefilter('ignore')
    from pygyro.splines.splines import Spline1D
    from pygyro.splines.spline_interpolators import SplineInterpolator1D
    b = build(c['space'])
    out = space_info(b)
    it = SplineInterpolator1D(b)
    out['imat'] = [qs([ff(v) for v in row]) for row in it._imat]
    try:
        inv = np.linalg.inv(it._imat)
        out['kappa'] = float(np.abs(inv).sum(axis=1).max()) * float(np.abs(it._imat).sum(axis=1).max())
    except Exception:
        out['kappa'] = float('inf')
    s = Spline1D(b)
    out['coeffs'] = []
    out['scale_ok'] = []
    for di, d in enumerate(c['data']):
        u = np.array([fl(t) for t in d.split()])
        if di % 2 == 1:
            # the caller's data may be a strided view (every second cell of a buffer); it must come back unchanged
            u0 = u
            u = np.full(2 * len(u0), np.nan)[::2]
            u[...] = u0
            it.compute_interpolant(u, s)
            if not np.array_equal(u, u0):
                out['input_modified'] = di
        it.compute_interpolant(u, s)
        cf = s.coeffs.copy()
        out['coeffs'].append(qs([ff(v) for v in cf]))
        ok = True
        for k in c.get('scales', []):
            it.compute_interpolant(u * 2.0 ** k, s)
            ok = ok and bool(np.array_equal(s.coeffs, cf * 2.0 ** k))
        out['scale_ok'].append(ok)
    # the interpolant read back at its interpolation points through the in-place entry point, into arrays held as views
    # (a column of a table, every second cell, the real part of a complex buffer): the same values as Spline1D.eval
    xs_ = np.array(b.greville, dtype=float)
    ref_ = np.array(s.eval(xs_), dtype=float)
    ev = {}
    for nm_ in ('column', 'every-second', 'real-of-complex'):
        y_ = {'column': lambda: np.full((len(xs_), 3), np.nan)[:, 1], 'every-second': lambda: np.full(2 * len(xs_), np.nan)[::2],
              'real-of-complex': lambda: np.full(len(xs_), np.nan + 0j).real}[nm_]()
        try:
            s.eval_vector(xs_, y_)
            ev[nm_] = 0.0 if np.array_equal(y_, ref_) else float(np.nan_to_num(np.abs(y_ - ref_), nan=np.inf).max())
        except Exception as e:
            ev[nm_] = 'raised %s: %s' % (type(e).__name__, str(e)[:80])
    # a result the caller keeps must not change when the same spline is evaluated again on as many points
    kept = s.eval(xs_)
    kept0 = np.array(kept, copy=True)
    again = s.eval(xs_[::-1].copy(), 1)
    ev['kept-result'] = 0.0 if (np.array_equal(kept, kept0) and not np.shares_memory(kept, again)) else \
        float(np.nan_to_num(np.abs(np.asarray(kept) - kept0), nan=np.inf).max()) or 'shares memory with the next result'
    out['evalvec'] = ev
    # data type of the interpolator and of the spline it fills need not agree (the Poisson solver fills real and complex
    # splines from a complex interpolator): real data must give the same coefficients through every combination
    u0 = np.array([fl(t) for t in c['data'][0].split()])
    it.compute_interpolant(u0, s)
    ref = s.coeffs.copy()
    mixed = {}
    for nm, dti, dts in (('real-interpolator/complex-spline', float, complex), ('complex-interpolator/real-spline', complex, float),
                         ('complex-interpolator/complex-spline', complex, complex)):
        if b.periodic and dti is complex:
            continue            # a complex interpolator on a periodic space is refused by the code (SuperLU factor of a real matrix)
        try:
            s2 = Spline1D(b, dtype=dts)
            SplineInterpolator1D(b, dtype=dti).compute_interpolant(u0.astype(dti) if dti is complex else u0, s2)
            mixed[nm] = float(np.abs(np.asarray(s2.coeffs) - ref).max())
        except Exception as e:
            mixed[nm] = 'raised %s: %s' % (type(e).__name__, str(e)[:80])
    # the data type argument may be spelt any way numpy accepts; complex data on clamped spaces (the supported case)
    if not b.periodic:
        uc = u0 + 1j * u0[::-1]
        sref = Spline1D(b, dtype=complex)
        SplineInterpolator1D(b, dtype=complex).compute_interpolant(uc, sref)
        for nm, dti in (('numpy.dtype(complex)', np.dtype(complex)), ('numpy.complex128', np.complex128), ("'complex128'", 'complex128'),
                        ('data.dtype', uc.dtype)):
            try:
                s2 = Spline1D(b, dtype=dti)
                with warnings.catch_warnings():
                    warnings.simplefilter('ignore')
                    SplineInterpolator1D(b, dtype=dti).compute_interpolant(uc, s2)
                mixed['dtype=' + nm] = float(np.abs(np.asarray(s2.coeffs) - sref.coeffs).max())
            except Exception as e:
                mixed['dtype=' + nm] = 'raised %s: %s' % (type(e).__name__, str(e)[:80])
    out['mixed'] = mixed
    out['mixed_scale'] = float(np.abs(ref).max())
    if c.get('complex'):
        itc = SplineInterpolator1D(b, dtype=complex)
        sc = Spline1D(b, dtype=complex)
        ur = np.array([fl(t) for t in c['data'][0].split()])
        ui = np.array([fl(t) for t in c['data'][-1].split()])
        itc.compute_interpolant(ur + 1j * ui, sc)
        out['cre'] = qs([ff(v) for v in sc.coeffs.real])
        out['cim'] = qs([ff(v) for v in sc.coeffs.imag])
        # scalar evaluation keeps both parts (array evaluation is the known finding splines.Spline1D.eval:complex-array)
        x0 = float(b.greville[len(b.greville) // 2])
        v = sc.eval(x0)
        out['cscalar'] = [qstr(ff(np.real(v))), qstr(ff(np.imag(v))), qstr(ff(x0))]
    if c.get('poly') is not None:     # float evaluation of the interpolant of x^k at a few points of the domain
        k = c['poly']
        xs = b.greville
        it.compute_interpolant(np.array([float(x) ** k for x in xs]), s)
        a, bb = b.domain
        pts = [float(a), float(bb)] + [float(a + (bb - a) * t) for t in (0.123, 0.5, 0.877)]
        out['poly'] = [(qstr(ff(x)), qstr(ff(s.eval(x)))) for x in pts]
        out['polyscale'] = float(max(abs(v) for v in s.coeffs))
    return out


def impl_2d(c):
    import warnings
    warnings.simplefilter('ignore')
    from pygyro.splines.splines import Spline2D
    from pygyro.splines.spline_interpolators import SplineInterpolator2D
    b1, b2 = build(c['space1']), build(c['space2'])
    out = {'s1': space_info(b1), 's2': space_info(b2)}
    it = SplineInterpolator2D(b1, b2)
    s = Spline2D(b1, b2)
    out['kappa'] = 1.0
    for i1d in (it._interp1, it._interp2):
        out['kappa'] *= float(np.abs(np.linalg.inv(i1d._imat)).sum(axis=1).max())
    ug = np.array([[fl(t) for t in row.split()] for row in c['ug']])
    if (ug.shape[0] + ug.shape[1]) % 2:
        # the caller's data may be a view with other strides (Fortran order / a plane of a larger block); unchanged afterwards
        ug0 = ug
        ug = np.full((ug0.shape[0], 2, ug0.shape[1]), np.nan)[:, 1, :] if ug0.shape[0] % 2 else np.asfortranarray(ug0.copy())
        ug[...] = ug0
        it.compute_interpolant(ug, s)
        if not np.array_equal(ug, ug0):
            out['input_modified'] = True
    it.compute_interpolant(ug, s)
    out['coeffs'] = [qs([ff(v) for v in row]) for row in s.coeffs]
    x1_, x2_ = np.array(b1.greville, dtype=float), np.array(b2.greville, dtype=float)
    ref_ = np.array(s.eval(x1_, x2_), dtype=float)
    ev = {}
    for nm_ in ('fortran', 'plane', 'transposed-buffer'):
        y_ = {'fortran': lambda: np.asfortranarray(np.full(ref_.shape, np.nan)), 'plane': lambda: np.full((ref_.shape[0], 2, ref_.shape[1]), np.nan)[:, 1, :],
              'transposed-buffer': lambda: np.full(ref_.shape[::-1], np.nan).T}[nm_]()
        try:
            s.eval_vector(x1_, x2_, y_)
            ev[nm_] = 0.0 if np.array_equal(y_, ref_) else float(np.nan_to_num(np.abs(y_ - ref_), nan=np.inf).max())
        except Exception as e:
            ev[nm_] = 'raised %s: %s' % (type(e).__name__, str(e)[:80])
    out['evalvec'] = ev
    x0, y0 = float(b1.greville[0]), float(b2.greville[-1])
    out['scalar'] = [qstr(ff(x0)), qstr(ff(y0)), qstr(ff(s.eval(x0, y0)))]
    return out


# ------------------------------------------------------------------------------------------------
# model requests

def head(spd, info):
    return '%d %d %d' % (spd['p'], 1 if spd['periodic'] else 0, 1 if info['cubic'] else 0)


def model_par(lines, nproc=16):
    if not lines:
        return []
    idx = list(range(len(lines)))
    idx.sort(key=lambda i: -len(lines[i]))
    nproc = max(1, min(nproc, len(lines)))
    parts = [idx[k::nproc] for k in range(nproc)]
    from concurrent.futures import ThreadPoolExecutor
    with ThreadPoolExecutor(nproc) as ex:
        outs = list(ex.map(lambda part: core.model([lines[i] for i in part], timeout=3000), parts))
    ans = [None] * len(lines)
    for part, out in zip(parts, outs):
        for i, a in zip(part, out):
            ans[i] = a
    return ans


def parse_vec(a):
    return [qparse(t) for t in a.split()[1:]]


def parse_mat(a):
    body = a[3:].strip()
    return [[qparse(t) for t in row.split()] for row in body.split(';')]


def spinfo_exact(spd, info):
    return {'p': spd['p'], 'periodic': spd['periodic'], 'cubic': info['cubic'],
            'knots': [qparse(t) for t in info['knots'].split()], 'xs': [qparse(t) for t in info['xs'].split()],
            'nb': info['nbasis'], 'ncoef': info['ncoef']}


def is_small_periodic(spd):
    return spd['periodic'] and spd['nc'] <= spd['p']


# ------------------------------------------------------------------------------------------------
# case generation

def gen_cases_1d(chk):
    rng = random.Random(chk.seed * 7919 + 8)
    quick = chk.tier == 'quick'
    cases = []
    combos = []
    maxnc = 16
    # stratified: every (boundary, kind, degree), cell counts spread over 1..16 incl. the smallest admissible ones
    for periodic in (False, True):
        for kind in ('nonuniform', 'uniform'):
            for p in range(1, 9):
                ncs = {1, 2, p, p + 1, p + 2, rng.randint(1, maxnc), rng.randint(5, maxnc), maxnc if p <= 5 else 12}
                if not quick:
                    ncs |= {rng.randint(1, maxnc) for _ in range(6)} | {3, 4, 7, 11, 16}
                for nc in sorted(ncs):
                    if periodic and nc < p:
                        continue
                    if kind == 'nonuniform' and nc == 1:
                        continue
                    if quick and p >= 6 and nc > 10:
                        continue
                    combos.append((nc, p, periodic, kind))
    nraw = 24 if quick else 150
    for _ in range(nraw):
        p = rng.randint(1, 3)
        periodic = rng.random() < 0.5
        nc = rng.randint(max(2, p + 1 if periodic else 2), 4 if quick else 5)
        combos.append((nc, p, periodic, rng.choice(['raw', 'raw', 'rawuniform'])))
    for j in range(8 if quick else 60):        # larger raw spaces: direct oracle only (the exact solve is too slow on 53-bit data)
        p = rng.randint(1, 5)
        periodic = rng.random() < 0.5
        nc = rng.randint(max(6, p + 1), 16)
        combos.append((nc, p, periodic, rng.choice(['raw', 'rawuniform'])))
    # magnitudes: tiny domains and domains far from the origin (direct oracle only), both boundary types, general path
    for j, p in enumerate([1, 2, 4, 5] if quick else [1, 2, 3, 4, 5, 2, 4, 5]):
        combos.append((16, p, j % 4 != 3, 'rawtiny'))
        combos.append((rng.choice([96, 128]), p, j % 4 != 1, 'rawfar'))
    for j, p in enumerate([3, 3, 1, 2, 3, 4, 5, 3]):      # integer knot arrays; degree 3 uniform is the uniform-cubic path
        combos.append((rng.randint(max(2, p + 1), 9), p, j % 2 == 1, 'rawintuniform' if j % 3 != 2 else 'rawint'))
    for (nc, p, periodic, kind) in combos:
        spd = make_space(rng, nc, p, periodic, kind)
        n = nc if periodic else nc + p
        raw = kind.startswith('raw')
        styles = ['small', 'delta', 'const'] if not raw else ['small', 'rand']
        if not quick:
            styles = styles + ['bad' if raw else 'small']
        data = [qs([ff(v) for v in gen_data(rng, n, st)]) for st in styles]
        c = {'space': spd, 'data': data, 'styles': styles, 'scales': [60, -45],
             'solve': (not raw) or n <= 6,
             'complex': (not periodic) and rng.random() < (0.5 if quick else 0.7)}
        if (not periodic) and not raw and rng.random() < 0.6:
            c['poly'] = rng.randint(0, p)
        cases.append(c)
    return cases


def gen_cases_2d(chk):
    rng = random.Random(chk.seed * 104729 + 8)
    quick = chk.tier == 'quick'
    cases = []
    reps = 5 if quick else 16
    for per1 in (False, True):
        for per2 in (False, True):
            for r in range(reps):
                cubic = (r % 3 == 2)
                sp = []
                for per in (per1, per2):
                    p = 3 if cubic else rng.choice([1, 2, 2, 3, 4, 5] if not quick else [1, 2, 3, 4])
                    lo = p + 1 if per else 1
                    nc = rng.randint(lo, lo + (3 if quick else 6))
                    kind = 'uniform' if cubic else rng.choice(['nonuniform', 'nonuniform', 'uniform'])
                    if kind == 'uniform' and p == 3 and not cubic:
                        kind = 'nonuniform'
                    if kind == 'nonuniform' and nc == 1:
                        nc = 2
                    sp.append(make_space(rng, nc, p, per, kind))
                n1 = sp[0]['nc'] + (0 if per1 else sp[0]['p'])
                n2 = sp[1]['nc'] + (0 if per2 else sp[1]['p'])
                ug = [qs([ff(rng.randint(-32, 32) / 8.0) for _ in range(n2)]) for _ in range(n1)]
                cases.append({'space1': sp[0], 'space2': sp[1], 'ug': ug})
    # periodic directions with ncells == degree (repeated collocation columns; ordinary strict cases since 6a5dc09)
    for p in range(1, 6):
        for kind in ('uniform', 'nonuniform'):
            if kind == 'nonuniform' and p == 1:
                continue
            if quick and (p + (kind == 'uniform')) % 2 == chk.seed % 2 and p > 2:
                continue
            cubic = (kind == 'uniform' and p == 3)
            spa = make_space(rng, p, p, True, kind)
            if cubic:
                spb = make_space(rng, rng.randint(1, 4), 3, rng.random() < 0.5, 'uniform')
                if spb['periodic']:
                    spb = make_space(rng, rng.randint(3, 5), 3, True, 'uniform')
            else:
                pb = rng.choice([1, 2, 4])
                perb = rng.random() < 0.5
                spb = make_space(rng, pb if perb else rng.randint(2, 4), pb, perb, 'nonuniform' if pb > 1 or not perb else 'uniform')
                if spb['kind'] == 'nonuniform' and spb['nc'] == 1:
                    spb = make_space(rng, 2, pb, perb, 'nonuniform')
            pair = (spa, spb) if rng.random() < 0.5 else (spb, spa)
            n1 = pair[0]['nc'] + (0 if pair[0]['periodic'] else pair[0]['p'])
            n2 = pair[1]['nc'] + (0 if pair[1]['periodic'] else pair[1]['p'])
            cases.append({'space1': pair[0], 'space2': pair[1],
                          'ug': [qs([ff(rng.randint(-32, 32) / 8.0) for _ in range(n2)]) for _ in range(n1)]})
    return cases


# ------------------------------------------------------------------------------------------------

def check_1d(chk, c, r, stats):
    """compare one 1-D case; returns the model request lines needed (already answered in `r['model']`)"""
    spd = c['space']
    tag = space_tag(spd)
    small = is_small_periodic(spd)
    rep = {'kind': '1d', 'case': c}
    if isinstance(r, tuple):
        what = 'timeout' if r[0] == 'timeout' else 'raised %s: %s' % (r[1], r[2])
        for j in range(len(c['data'])):
            chk.count((spd['breaks'], spd['p'], spd['periodic'], j), stratum='1d:' + tag + (':ncells<=degree' if small else ''),
                      sample={'space': spd, 'outcome': what})
        chk.violation('%s:exception:%s' % (SITE1, tag), 'SplineInterpolator1D on %s (%d cells): %s' % (tag, spd['nc'], what),
                      dict(rep, observed=what))
        return
    sp = spinfo_exact(spd, r)
    nb, p = sp['nb'], sp['p']
    kappa = r['kappa']
    m = r.get('model', {})
    # collocation matrix: entries and zero pattern
    if 'colloc' in m:
        a = m['colloc']
        if not a.startswith('ok'):
            raise core.BrokenCheck('model collocation matrix: %s on %s' % (a, tag))
        else:
            Cm = parse_mat(a)
            Cf = [[qparse(t) for t in row.split()] for row in r['imat']]
            bad = None
            for i in range(nb):
                for k in range(nb):
                    # zero pattern: exact on "nice" spaces; on raw doubles an offset of 1e-16 that binary64 rounds to 0 is
                    # a basis value of 1e-49 in exact arithmetic, so only the magnitude is compared there
                    strict = not spd['kind'].startswith('raw')
                    if (strict and (Cm[i][k] == 0) != (Cf[i][k] == 0)) or abs(Cm[i][k] - Cf[i][k]) > 64 * (p + 1) ** 2 * EPS:
                        bad = (i, k, float(Cm[i][k]), float(Cf[i][k]))
            chk.cov['certificates_checked'] += 1
            if bad:
                chk.violation('spline_interpolators.collocation_matrix:%s' % tag,
                              'collocation matrix entry (%d,%d): exact %r, code %r on %s (cells %d)' % (bad + (tag, spd['nc'])),
                              dict(rep, observed=r['imat']))
    # the interpolation points are the Greville abscissae (t_{j+1} + ... + t_{j+p})/p of the code's own knots (periodic:
    # starting at j = p//2, reduced to the period), up to the rounding to 15 decimals; the uniform-cubic path has its own points
    if not sp['cubic']:
        T = sp['knots']
        s0 = 1 + p // 2 if sp['periodic'] else 1
        lo, hi = T[p], T[len(T) - 1 - p]
        for i in range(nb):
            g = sum(T[s0 + i:s0 + i + p]) / p
            if sp['periodic']:
                g = lo + (g - lo) % (hi - lo)
            dgr = abs(float(g - sp['xs'][i]))
            if sp['periodic']:
                dgr = min(dgr, abs(dgr - float(hi - lo)))
            if dgr > 4e-15 * max(1.0, abs(float(g)), float(hi - lo)):
                chk.violation('splines.BSplines.greville:%s' % tag,
                              'interpolation point %d is %r, the Greville abscissa of the knots is %r (%s, %d cells)'
                              % (i, float(sp['xs'][i]), float(g), tag, spd['nc']), dict(rep, observed=r['xs']))
                break
        chk.cov['certificates_checked'] += 1
    for j, d in enumerate(c['data']):
        u = [qparse(t) for t in d.split()]
        cf = [qparse(t) for t in r['coeffs'][j].split()]
        st = '1d:' + tag + (':ncells<=degree' if small else '')
        chk.count((spd['breaks'], spd['p'], spd['periodic'], d), nontrivial=(len(set(u)) > 1), stratum=st,
                  sample={'space': spd, 'data': d[:200], 'coeffs': r['coeffs'][j][:200]})
        scale = max([abs(float(v)) for v in cf] + [1e-300])
        # direct oracle: exact residual on the code's coefficients (independent Cox - de Boor)
        ev = m.get('eval', [None] * len(c['data']))[j]
        indep = not (sp['cubic'] and spd['kind'].startswith('raw'))     # xmax != xmin + ncells*dx in binary64: the fast
        if indep:                                                       # path's offset at the right end is not the true one
            res = [eval_exact(sp, cf, x) - ui for x, ui in zip(sp['xs'], u)]
        else:
            if ev is None or not ev.startswith('ok'):
                raise core.BrokenCheck('model evaluation answers %s' % ev)
            res = [v - ui for v, ui in zip(parse_vec(ev), u)]
        rmax = max(abs(float(v)) for v in res)
        bound_r = KB * nb * EPS * scale
        oracle_ok = rmax <= bound_r
        stats['max_ratio_residual'] = max(stats['max_ratio_residual'], rmax / bound_r)
        # the model's evaluation of the same spline must be the same rational
        if ev is not None and indep:
            if not ev.startswith('ok'):
                raise core.BrokenCheck('model evaluation answers %s' % ev)
            if [x + ui for x, ui in zip(res, u)] != parse_vec(ev):
                raise core.BrokenCheck('SplineModel evaluation and the independent Cox - de Boor recursion disagree on %s' % tag)
        wrap_ok = (not sp['periodic']) or all(cf[nb + k] == cf[k] for k in range(p))
        rep_j = dict(rep, data_index=j, observed=r['coeffs'][j], residual_max=rmax, bound=bound_r)
        if not oracle_ok:
            chk.violation('%s.compute_interpolant:%s' % (SITE1, tag),
                          'S(x_i) - u_i = %.3g (bound %.3g) on %s, %d cells, data %s' % (rmax, bound_r, tag, spd['nc'], c['styles'][j]), rep_j)
        if not wrap_ok:
            chk.violation('%s._solve_system_periodic:wrap:%s' % (SITE1, tag),
                          'periodic coefficients are not wrapped: c[n:n+p] != c[0:p] on %s' % tag, rep_j)
        if j == 0:
            for nm_, dv_ in sorted(r.get('evalvec', {}).items()):
                chk.count((spd['breaks'], spd['p'], spd['periodic'], 'evalvec', nm_), stratum='read-back:eval_vector:%s' % nm_)
                if dv_ != 0.0 and nm_ == 'kept-result':
                    chk.violation('splines.Spline1D.eval:result-not-owned', 'the values of the interpolant at its interpolation points, kept by the caller, change (by %s) '
                                  'when the same spline is evaluated again on as many points, on %s' % (dv_, tag), dict(rep_j, what='kept result'))
                elif dv_ != 0.0:
                    chk.violation('splines.Spline1D.eval_vector:out-array:%s' % nm_, 'the interpolant read back at its interpolation points through Spline1D.eval_vector '
                                  'into an out array held as %s differs from Spline1D.eval by %s on %s' % (nm_, dv_, tag), dict(rep_j, out_array=nm_))
        if j == 0 and r.get('input_modified') is not None:
            chk.violation('%s.compute_interpolant:input-modified' % SITE1, 'compute_interpolant changed the caller\'s data array (held as a strided view) on %s' % tag, rep_j)
        if not r['scale_ok'][j]:
            chk.violation('%s.compute_interpolant:rescaling:%s' % (SITE1, tag),
                          'power-of-two rescaling of the data does not rescale the coefficients exactly on %s' % tag, rep_j)
        if j == 0:
            for nm, dv in sorted(r.get('mixed', {}).items()):
                chk.count((spd['breaks'], spd['p'], spd['periodic'], nm), stratum='dtypes:%s:%s' % (nm, tag))
                bound_m = KB * nb * EPS * kappa * max(r.get('mixed_scale', 0.0), 1e-300)
                if isinstance(dv, str) or not dv <= bound_m:
                    chk.violation('%s.compute_interpolant:dtype-combination:%s' % (SITE1, nm),
                                  '%s gives coefficients that differ from the reference interpolation by %s (bound %.3g) on %s, %d cells'
                                  % ('complex data through an interpolator built with ' + nm + ' (reference: dtype=complex)' if nm.startswith('dtype=')
                                     else 'real data through a ' + nm.replace('/', ' filling a '), dv if isinstance(dv, str) else '%.3g' % dv, bound_m, tag, spd['nc']),
                                  dict(rep_j, dtype_combination=nm))
        # model coefficients
        if 'interp' in m:
            a = m['interp']
            if not a.startswith('ok'):
                raise core.BrokenCheck('model answers %s for an admissible space %s / %d cells' % (a, tag, spd['nc']))
            cm = parse_mat(a)[j]
            err = max(abs(float(x - y)) for x, y in zip(cm, cf))
            bound_c = KB * nb * EPS * kappa * scale
            chk.cov['disagreements_checked'] += 0 if err <= bound_c else 1
            stats['max_ratio_coeffs'] = max(stats['max_ratio_coeffs'], err / bound_c)
            if err > bound_c and oracle_ok and wrap_ok:
                chk.violation('%s.compute_interpolant:model-mismatch' % SITE1,
                              'code coefficients differ from the exact ones by %.3g (bound %.3g) although S(x_i) = u_i holds: '
                              'correspondence InterpModel.ip_interp1d no longer checks (%s)' % (err, bound_c, tag),
                              dict(rep_j, kind='correspondence', theorem='InterpModel.ip_interp1d', model=a[:300]), no_input=True)
            elif err > bound_c and oracle_ok:
                chk.violation('%s.compute_interpolant:%s' % (SITE1, tag), 'coefficients off by %.3g on %s' % (err, tag), rep_j)
            # the model's own interpolant takes the data exactly (c08_interp1d_exact on the instance)
            if any(eval_exact(sp, cm, x) != ui for x, ui in zip(sp['xs'], u)) and indep:
                raise core.BrokenCheck('the exact interpolant of the model misses its data on %s: c08_interp1d_exact' % tag)
    # complex data = real and imaginary parts
    if 'cre' in r and 'interp' in m and m['interp'].startswith('ok'):
        cm = parse_mat(m['interp'])
        for part, col in (('cre', 0), ('cim', len(c['data']) - 1)):
            cz = [qparse(t) for t in r[part].split()]
            u = [qparse(t) for t in c['data'][col].split()]
            scale = max([abs(float(v)) for v in cz] + [1e-300])
            err = max(abs(float(x - y)) for x, y in zip(cm[col], cz))
            rmax = max(abs(float(eval_exact(sp, cz, x) - ui)) for x, ui in zip(sp['xs'], u))
            chk.count((spd['breaks'], spd['p'], 'complex', part), stratum='1d:complex:' + tag)
            if rmax > KB * nb * EPS * scale or err > KB * nb * EPS * kappa * scale:
                chk.violation('%s.compute_interpolant:complex:%s' % (SITE1, tag),
                              '%s part of the complex interpolant: residual %.3g, distance to the exact real solve %.3g' % (part, rmax, err),
                              dict(rep, observed=r[part]))
        vr, vi, x0 = [qparse(t) for t in r['cscalar']]
        er = eval_exact(sp, [qparse(t) for t in r['cre'].split()], x0)
        ei = eval_exact(sp, [qparse(t) for t in r['cim'].split()], x0)
        csc = max([abs(fl(t)) for t in r['cre'].split()] + [abs(fl(t)) for t in r['cim'].split()] + [1e-300])
        if abs(float(vr - er)) > KB * EPS * csc * (p + 1) or abs(float(vi - ei)) > KB * EPS * csc * (p + 1):
            chk.violation('splines.Spline1D.eval:complex-scalar', 'scalar evaluation of a complex spline loses a part', dict(rep, observed=r['cscalar']))
    # polynomial reproduction (clamped): float evaluation of the interpolant of x^k
    if 'poly' in r:
        k = c['poly']
        for xt, vt in r['poly']:
            x, v = qparse(xt), qparse(vt)
            chk.count((spd['breaks'], spd['p'], 'poly', k, xt), nontrivial=k > 0, stratum='1d:poly%d:%s' % (k, tag))
            tol = KB * nb * EPS * kappa * max(r['polyscale'], 1.0) * (p + 1)
            if abs(float(v - x ** k)) > tol:
                chk.violation('%s.compute_interpolant:polynomial-degree-%d:%s' % (SITE1, k, tag),
                              'interpolant of x^%d at x = %s is %s (off by %.3g, tolerance %.3g)' % (k, float(x), float(v), abs(float(v - x ** k)), tol),
                              dict(rep, observed=r['poly']))
        if 'polym' in m and m['polym'].startswith('ok'):
            cm = parse_mat(m['polym'])[0]
            a, b = sp['xs'][0], sp['xs'][-1]
            for t in (F(0), F(1), F(1, 3), F(5, 7), F(113, 128)):
                x = a + (b - a) * t
                if eval_exact(sp, cm, x) != x ** k:
                    chk.violation('%s:model:polynomial-degree-%d' % (SITE1, k),
                                  'the exact interpolant of x^%d does not reproduce it at %s on %s' % (k, x, tag),
                                  dict(rep, kind='model-only'), no_input=True)
            stats['poly_exact'] += 1


def requests_1d(c, r):
    """model request lines for one answered implementation case: dict name -> line"""
    if isinstance(r, tuple):
        return {}
    spd = c['space']
    h = head(spd, r)
    out = {}
    out['colloc'] = 'ip.colloc %s | %s | %s' % (h, r['knots'], r['xs'])
    if c['solve']:
        out['interp'] = 'ip.interpm %s %d | %s | %s | %s' % (h, r['nbasis'], r['knots'], r['xs'], ' '.join(c['data']))
    cmd = 'sp.cu1v' if r['cubic'] else 'sp.nu1v'
    for j in range(len(c['data'])):
        out[('eval', j)] = '%s %d 0 | %s | %s | %s' % (cmd, spd['p'], r['xs'], r['knots'], r['coeffs'][j])
    if c.get('poly') is not None and c['solve']:
        k = c['poly']
        xs = [qparse(t) for t in r['xs'].split()]
        out['polym'] = 'ip.interpm %s %d | %s | %s | %s' % (h, r['nbasis'], r['knots'], r['xs'], qs([x ** k for x in xs]))
    return out


def check_2d(chk, c, r, m, stats):
    sp1d, sp2d = c['space1'], c['space2']
    tag = '%s x %s' % (space_tag(sp1d), space_tag(sp2d))
    small = is_small_periodic(sp1d) or is_small_periodic(sp2d)
    rep = {'kind': '2d', 'case': c}
    chk.count((sp1d['breaks'], sp2d['breaks'], sp1d['p'], sp2d['p'], sp1d['periodic'], sp2d['periodic'], tuple(c['ug'])),
              stratum='2d:%s-%s%s%s' % ('periodic' if sp1d['periodic'] else 'clamped', 'periodic' if sp2d['periodic'] else 'clamped',
                                        ':cubic' if sp1d['uniform'] and sp1d['p'] == 3 else '', ':ncells<=degree' if small else ''),
              sample={'space1': sp1d, 'space2': sp2d, 'ug': c['ug'][:2]})
    if isinstance(r, tuple):
        what = 'timeout' if r[0] == 'timeout' else 'raised %s: %s' % (r[1], r[2])
        chk.violation('%s:exception' % SITE2, 'SplineInterpolator2D on %s: %s' % (tag, what), dict(rep, observed=what))
        return
    s1, s2 = spinfo_exact(sp1d, r['s1']), spinfo_exact(sp2d, r['s2'])
    n1, n2, p1, p2 = s1['nb'], s2['nb'], s1['p'], s2['p']
    W = [[qparse(t) for t in row.split()] for row in r['coeffs']]
    ug = [[qparse(t) for t in row.split()] for row in c['ug']]
    scale = max(abs(float(v)) for row in W for v in row) or 1e-300
    T1, h1 = full_knots(s1)
    T2, h2 = full_knots(s2)
    B1 = [bspl_all(T1, p1, x, h1)[:s1['ncoef']] for x in s1['xs']]
    B2 = [bspl_all(T2, p2, y, h2)[:s2['ncoef']] for y in s2['xs']]
    rmax = 0.0
    for i in range(n1):
        rowv = [sum(B1[i][a] * W[a][b] for a in range(s1['ncoef'])) for b in range(s2['ncoef'])]
        for j in range(n2):
            rmax = max(rmax, abs(float(sum(rowv[b] * B2[j][b] for b in range(s2['ncoef'])) - ug[i][j])))
    bound_r = KB * (n1 + n2) * EPS * scale * r['kappa']
    oracle_ok = rmax <= bound_r
    wrap_ok = True
    if s1['periodic']:
        wrap_ok = wrap_ok and all(W[n1 + k] == W[k] for k in range(p1))
    if s2['periodic']:
        wrap_ok = wrap_ok and all(row[n2 + k] == row[k] for row in W for k in range(p2))
    stats['max_ratio_residual_2d'] = max(stats['max_ratio_residual_2d'], rmax / bound_r)
    if not oracle_ok:
        chk.violation('%s.compute_interpolant:%s' % (SITE2, tag),
                      '2-D interpolant misses its data by %.3g (bound %.3g) on %s' % (rmax, bound_r, tag), dict(rep, observed=r['coeffs']))
    if not wrap_ok:
        chk.violation('%s.compute_interpolant:wrap:%s' % (SITE2, tag), '2-D periodic coefficients are not wrapped consistently on %s' % tag,
                      dict(rep, observed=r['coeffs']))
    for nm_, dv_ in sorted(r.get('evalvec', {}).items()):
        chk.count((tag, n1, n2, 'evalvec', nm_), stratum='read-back:Spline2D.eval_vector:%s' % nm_)
        if dv_ != 0.0:
            chk.violation('splines.Spline2D.eval_vector:out-array:%s' % nm_, 'the 2-D interpolant read back through Spline2D.eval_vector into an out array held as %s '
                          'differs from Spline2D.eval by %s on %s' % (nm_, dv_, tag), dict(rep, out_array=nm_))
    if r.get('input_modified') is not None:
        chk.violation('%s.compute_interpolant:input-modified' % SITE2, 'compute_interpolant changed the caller\'s data array (held as a view) on %s' % tag, rep)
    # the scalar entry point at one grid point
    x0, y0, v0 = [qparse(t) for t in r['scalar']]
    if abs(float(v0 - ug[0][n2 - 1])) > bound_r * 4:
        chk.violation('splines.Spline2D.eval:scalar', 'Spline2D.eval at a grid point: %s, data %s' % (float(v0), float(ug[0][n2 - 1])), rep)
    a = m['interp2d']
    if not a.startswith('ok'):
        raise core.BrokenCheck('model interp2d answers %s on %s' % (a, tag))
    Wm = parse_mat(a)
    if len(Wm) != len(W) or any(len(x) != len(y) for x, y in zip(Wm, W)):
        raise core.BrokenCheck('model interp2d shape differs from Spline2D.coeffs on %s' % tag)
    err = max(abs(float(x - y)) for rm, rf in zip(Wm, W) for x, y in zip(rm, rf))
    bound_c = KB * (n1 + n2) * EPS * scale * r['kappa']
    stats['max_ratio_coeffs_2d'] = max(stats['max_ratio_coeffs_2d'], err / bound_c)
    if err > bound_c and oracle_ok and wrap_ok:
        chk.violation('%s.compute_interpolant:model-mismatch' % SITE2,
                      '2-D code coefficients differ from the exact ones by %.3g (bound %.3g) although the data are reproduced: '
                      'correspondence InterpModel.ip_interp2d no longer checks (%s)' % (err, bound_c, tag),
                      dict(rep, kind='correspondence', theorem='InterpModel.ip_interp2d'), no_input=True)
    # the model's own interpolant reproduces the data exactly (c08_interp2d_exact on the instance)
    if True:
        for i in range(n1):
            rowv = [sum(B1[i][a2] * Wm[a2][b] for a2 in range(s1['ncoef'])) for b in range(s2['ncoef'])]
            for j in range(n2):
                if sum(rowv[b] * B2[j][b] for b in range(s2['ncoef'])) != ug[i][j]:
                    chk.violation('%s:model:interp2d_exact' % SITE2, 'the exact 2-D interpolant of the model misses its data on %s' % tag,
                                  dict(rep, kind='model-only'), no_input=True)
                    return
        stats['interp2d_exact_on_model'] += 1
    m2 = m.get('eval2d')
    if m2 is not None:
        if not m2.startswith('ok') or qparse(m2.split()[1]) != sum(
                sum(B1[0][a2] * W[a2][b] for a2 in range(s1['ncoef'])) * B2[n2 - 1][b] for b in range(s2['ncoef'])):
            raise core.BrokenCheck('SplineModel 2-D evaluation and the independent tensor Cox - de Boor sum disagree on %s (%s)' % (tag, m2[:80]))


def requests_2d(c, r):
    if isinstance(r, tuple):
        return {}
    s1, s2 = r['s1'], r['s2']
    cub = 1 if s1['cubic'] else 0
    out = {'interp2d': 'ip.interp2d %d %d %d %d %d %d | %s | %s | %s | %s | %s' % (
        c['space1']['p'], int(c['space1']['periodic']), c['space2']['p'], int(c['space2']['periodic']), cub, s2['nbasis'],
        s1['knots'], s1['xs'], s2['knots'], s2['xs'], ' '.join(c['ug']))}
    out['eval2d'] = 'ip.eval2d %d %d %d %d %s %s | %s | %s | %s' % (
        c['space1']['p'], c['space2']['p'], cub, s2['ncoef'], s1['xs'].split()[0], s2['xs'].split()[-1], s1['knots'], s2['knots'],
        ' '.join(r['coeffs']))
    return out


COQ_IMPORTS = ('From Coq Require Import List ZArith QArith Qcanon. Import ListNotations. '
               'From PGV Require Import SplineModel SplineQc InterpModel InterpQc. Open Scope Z_scope.')


def _cq(q):
    q = F(q)
    return '(spq_of (%d) %d%%positive)' % (q.numerator, q.denominator)


def _cl(l):
    return '[' + '; '.join(_cq(x) for x in l) + ']'


def coq_crosscheck(chk, cases, results, answers):
    """re-evaluate a few small model answers inside Coq"""
    cand = []
    for c, r, m in zip(cases, results, answers):
        if isinstance(r, tuple) or 'interp' not in m or not m['interp'].startswith('ok'):
            continue
        if r['nbasis'] <= 5 and c['space']['kind'] in ('nonuniform', 'uniform') and c['space']['p'] <= 3:
            cand.append((c, r, m))
    random.Random(chk.seed + 3).shuffle(cand)
    cand = cand[:6]
    terms = []
    for c, r, m in cand:
        kn = [qparse(t) for t in r['knots'].split()]
        xs = [qparse(t) for t in r['xs'].split()]
        u = [qparse(t) for t in c['data'][0].split()]
        terms.append('spq_show_list (ipq_interp1d %s %d%%nat %s %s %s %s)' % (
            _cl(kn), c['space']['p'], 'true' if c['space']['periodic'] else 'false', 'true' if r['cubic'] else 'false', _cl(xs), _cl(u)))
    if not terms:
        return 0
    import re
    vals = core.coq_eval(terms, COQ_IMPORTS, tag='c08')
    for (c, r, m), v in zip(cand, vals):
        pairs = re.findall(r'\(\s*(-?\d+)\s*,\s*(\d+)\s*\)', v.replace('%positive', '').replace('%Z', ''))
        got = [F(int(a), int(b)) for a, b in pairs]
        if got != parse_mat(m['interp'])[0]:
            raise core.BrokenCheck('extracted model and vm_compute disagree on ip_interp1d (%s)' % space_tag(c['space']))
    return len(terms)


def run_all(chk):
    stats = {'max_ratio_residual': 0.0, 'max_ratio_coeffs': 0.0, 'max_ratio_residual_2d': 0.0, 'max_ratio_coeffs_2d': 0.0,
             'poly_exact': 0, 'interp2d_exact_on_model': 0}
    cases = gen_cases_1d(chk)
    res = implrun.run_cases('props.c08', 'impl_1d', cases, tmo=60.0)
    reqs = [requests_1d(c, r) for c, r in zip(cases, res)]
    cases2 = gen_cases_2d(chk)
    res2 = implrun.run_cases('props.c08', 'impl_2d', cases2, tmo=120.0)
    reqs2 = [requests_2d(c, r) for c, r in zip(cases2, res2)]
    flat = [(i, k, line) for i, rq in enumerate(reqs) for k, line in rq.items()]
    flat2 = [(i, k, line) for i, rq in enumerate(reqs2) for k, line in rq.items()]
    ans = model_par([l for _, _, l in flat] + [l for _, _, l in flat2])
    answers = [dict() for _ in cases]
    for (i, k, _), a in zip(flat, ans[:len(flat)]):
        if isinstance(k, tuple):
            answers[i].setdefault('eval', [None] * len(cases[i]['data']))[k[1]] = a
        else:
            answers[i][k] = a
    answers2 = [dict() for _ in cases2]
    for (i, k, _), a in zip(flat2, ans[len(flat):]):
        answers2[i][k] = a
    for c, r, m in zip(cases, res, answers):
        if not isinstance(r, tuple):
            r['model'] = m
        check_1d(chk, c, r, stats)
    for c, r, m in zip(cases2, res2, answers2):
        check_2d(chk, c, r, m, stats)
    ncoq = coq_crosscheck(chk, cases, res, answers)
    return stats, ncoq, len(cases), len(cases2), len(flat) + len(flat2)


UNCOVERED = [
    'non-singularity of the collocation matrix for all admissible spaces (Schoenberg-Whitney) is not formalised: theorems that '
    'need uniqueness carry the certificate ip_inverse_ok, the solver returns an error on a singular matrix',
    'rounding, LAPACK ?gbtrf/?gbtrs and SuperLU are not modelled: the float results are compared with the exact ones under '
    'the condition-number-scaled bound',
]


def run():
    chk = core.Check('C08', 'proof')
    proof = core.proof_stage('C08')
    stats, ncoq, n1, n2, nreq = run_all(chk)
    chk.assumptions += [
        'the collocation matrix, knots and Greville points compared are the doubles the code computes, converted exactly; '
        'the model solves the exact system on these inputs',
        'bounds: |c_f - c| <= %g n eps kappa |c_f|, |C c_f - u| <= %g n eps |c_f| (backward stability of banded / sparse LU, '
        'collocation entries within a few ulp); they gate the float link only' % (KB, KB),
        'complex coefficients are never routed through Spline1D.eval(array) (known finding splines.Spline1D.eval:complex-array)',
        'the model solve is run on every "nice" space (breakpoints multiples of 105/2^k: all quantities exact and small) and on raw '
        'random-double spaces with at most 6 basis functions; larger raw spaces are covered by the direct oracle only',
    ]
    return chk.finish(
        proof,
        rule='one evaluation = one data vector interpolated on one space (1-D), one data matrix (2-D), one part of a complex '
             'interpolant, or one evaluation point of a polynomial-reproduction case; distinct = distinct (breakpoints, degree, '
             'boundary, data); non-trivial = the data are not constant',
        extra=dict(stats, spaces_1d=n1, cases_2d=n2, model_requests=nreq, coq_vm_compute_crosschecked=ncoq,
                   bound_constant=KB),
        uncovered=UNCOVERED)


def replay(path):
    core.setup_paths()
    body = json.load(open(path))
    rp = body['replay']
    chk = core.Check('C08', 'proof')
    chk.known = []
    stats = {'max_ratio_residual': 0.0, 'max_ratio_coeffs': 0.0, 'max_ratio_residual_2d': 0.0, 'max_ratio_coeffs_2d': 0.0,
             'poly_exact': 0, 'interp2d_exact_on_model': 0}
    c = rp['case']
    if rp['kind'] == '2d':
        r = implrun.run_cases('props.c08', 'impl_2d', [c], tmo=120.0)[0]
        rq = requests_2d(c, r)
        keys = list(rq)
        m = dict(zip(keys, core.model([rq[k] for k in keys])))
        check_2d(chk, c, r, m, stats)
    else:
        r = implrun.run_cases('props.c08', 'impl_1d', [c], tmo=60.0)[0]
        rq = requests_1d(c, r)
        keys = list(rq)
        m = {}
        for k, a in zip(keys, core.model([rq[k] for k in keys])):
            if isinstance(k, tuple):
                m.setdefault('eval', [None] * len(c['data']))[k[1]] = a
            else:
                m[k] = a
        if not isinstance(r, tuple):
            r['model'] = m
        check_1d(chk, c, r, stats)
    bad = [v for v in chk.violations if v is not None]
    for _, _, what in bad:
        print('still failing:', what[:300])
    print('replay: %d violation(s)' % len(bad), stats)
    return 1 if bad else 0
