"""
C18, part (c): run the REAL fullSimulation.main() with the physics classes replaced by cheap
deterministic stand-ins.  Grid, LayoutHandler/LayoutSwapper, DiagnosticCollector, writeH5Dataset,
setupCylindricalGrid, setupFromFile, setupSave, Constants stay real.

Stand-in physics: every kernel call is an element-wise affine map on integer-valued cells
(x -> (A*x + B) mod M), hence independent of the process decomposition and exact in binary64.
One loop iteration of the driver performs the fixed call sequence of fullSimulation.py
(3 flux-surface, 2+1 v-parallel, 2 poloidal steps with a save/restore in between); its effect on the
global field is the function `step_cell` below (direct oracle, computed on Python ints).

The wall-clock stop `timeForLoop` is driven by an oracle (list of booleans): `time` as seen by
fullSimulation.main() is a stand-in module whose clock jumps beyond tMax as soon as the oracle says stop.
"""
import os
import sys
import glob
import shutil
import tempfile
import threading
import types
import json

M = 1000003          # cell values stay below 2^53: exact in float64
TMAX = 10 ** 6       # the tMax argument; the fake clock jumps by 10^9 to stop


# ---------------------------------------------------------------- stand-in physics
def _aff(grid, a, b):
    grid._f[:] = (grid._f * a + b) % M


def step_cell(x):
    """effect of one driver loop iteration on a cell (mirrors the call sequence of fullSimulation.py)"""
    # first half: flux (saved before), vpar, pol -- then the field is restored to the saved one
    saved = x
    # second half starts from the restored values
    x = saved
    x = (x * 3 + 1) % M      # fluxAdv.gridStep
    x = (x * 5 + 2) % M      # vParAdv.gridStep
    x = (x * 7 + 3) % M      # polAdv.gridStep
    x = (x * 11 + 4) % M     # vParAdv.gridStepKeepGradient
    x = (x * 3 + 1) % M      # fluxAdv.gridStep
    return x


class _Ctl(threading.local):
    steps = 0


class StubFlux:
    def __init__(self, *a, **k):
        pass

    def gridStep(self, f):
        assert f.currentLayout == 'flux_surface'
        _aff(f, 3, 1)


class StubVPar:
    def __init__(self, *a, **k):
        pass

    def gridStep(self, f, phi, parGrad, parGradVals, dt):
        assert f.currentLayout == 'v_parallel'
        _aff(f, 5, 2)

    def gridStepKeepGradient(self, f, parGradVals, dt):
        assert f.currentLayout == 'v_parallel'
        _aff(f, 11, 4)


class StubPol:
    def __init__(self, *a, **k):
        pass

    def gridStep(self, f, phi, dt):
        assert f.currentLayout == 'poloidal'
        _aff(f, 7, 3)


class StubParGrad:
    def __init__(self, *a, **k):
        pass


class StubDensity:
    def __init__(self, *a, **k):
        pass

    def getPerturbedRho(self, f, rho):
        pass


class StubQN:
    """phi := a decomposition-independent function of the global index (so that phi checkpoints are checkable)"""

    def __init__(self, *a, **k):
        pass

    def getModes(self, rho):
        pass

    def solveEquation(self, phi, rho):
        pass

    def findPotential(self, phi):
        import numpy as np
        lay = phi._layout
        idx = np.indices(lay.shape)
        g = 0
        for ax in range(len(lay.shape)):
            g = g * 64 + (idx[ax] + lay.starts[ax])
        phi._f[:] = g


def initial_cell(lin):
    return (lin * 17 + 5) % M


class FakeTime(types.ModuleType):
    """the `time` module as seen by fullSimulation.main(): real clock, plus 10^9 s once the stop oracle
    says so.  The oracle is consulted through ctl.loops_done(), counted per rank by the poloidal stub."""

    def __init__(self, stop_after):
        super().__init__('time')
        import time as _t
        self._t = _t
        self.stop_after = stop_after      # None or number of loop iterations after which timeForLoop is False
        self.tl = threading.local()

    def time(self):
        n = getattr(self.tl, 'nfull', 0)
        if self.stop_after is not None and n >= self.stop_after:
            return self._t.time() + 1e9
        return self._t.time()

    def __getattr__(self, name):
        return getattr(self._t, name)


def run_driver(nranks, cwd, tEnd, saveStep, folder=None, const_file=None, stop_after=None, seed=0,
               init_linear=True, stub=True, timeout=300.0):
    """one invocation of the real fullSimulation.main() on `nranks` simulated ranks in directory cwd.
    returns dict(outcome, detail)"""
    from mpi4py import MPI
    import pygyro.advection.advection as adv
    import pygyro.poisson.poisson_solver as ps
    import pygyro.initialisation.setups as setups
    import pygyro.initialisation.initialiser as initialiser
    import fullSimulation

    fake = FakeTime(stop_after)

    saved = {}

    def patch(mod, name, val):
        saved[(mod, name)] = getattr(mod, name)
        setattr(mod, name, val)

    class CountingFlux(StubFlux):
        # the last physics call of a loop iteration is the 3rd fluxAdv.gridStep
        def gridStep(self, f):
            StubFlux.gridStep(self, f)
            k = getattr(fake.tl, 'nflux', 0) + 1
            fake.tl.nflux = k
            if k % 3 == 0:
                fake.tl.nfull = k // 3

    def init_v_parallel(grid, constants):
        import numpy as np
        lay = grid._layout
        idx = np.indices(lay.shape)
        # global index in (r, theta, z, v) order
        gi = [None] * 4
        for ax in range(4):
            gi[lay.dims_order[ax]] = idx[ax] + lay.starts[ax]
        npts = constants.npts
        lin = ((gi[0] * npts[1] + gi[1]) * npts[2] + gi[2]) * npts[3] + gi[3]
        grid._f[:] = (lin * 17 + 5) % M

    if stub:
        patch(adv, 'FluxSurfaceAdvection', CountingFlux)
        patch(adv, 'VParallelAdvection', StubVPar)
        patch(adv, 'PoloidalAdvection', StubPol)
        patch(adv, 'ParallelGradient', StubParGrad)
        patch(ps, 'DensityFinder', StubDensity)
        patch(ps, 'QuasiNeutralitySolver', StubQN)
        if init_linear:
            patch(setups, 'initialise_v_parallel', init_v_parallel)
    real_time_mod = sys.modules['time']
    argv = ['fullSimulation.py', str(tEnd), str(TMAX), '-s', str(saveStep)]
    if folder is not None:
        argv += ['-f', folder]
    if const_file is not None:
        argv += ['-c', const_file]
    old_argv = sys.argv
    old_cwd = os.getcwd()
    old_stdout = sys.stdout

    def work(comm):
        fullSimulation.main()
        return True

    try:
        sys.argv = argv
        os.chdir(cwd)
        if stub:
            sys.modules['time'] = fake
        sys.stdout = open(os.devnull, 'w')
        R = MPI.run(nranks, work, seed=seed, timeout=timeout)
    finally:
        sys.stdout.close()
        sys.stdout = old_stdout
        sys.modules['time'] = real_time_mod
        os.chdir(old_cwd)
        sys.argv = old_argv
        for (mod, name), val in saved.items():
            setattr(mod, name, val)
    return {'outcome': R.outcome, 'detail': R.detail}


def read_state(folder):
    """observables of a simulation folder: grid/phi file names, time column of phiDat.txt, raw lines"""
    import h5py
    import numpy as np
    files = sorted(os.path.basename(p) for p in glob.glob(os.path.join(folder, '*.h5')))
    lines = []
    p = os.path.join(folder, 'phiDat.txt')
    if os.path.exists(p):
        lines = [l.rstrip('\n') for l in open(p)]
    return files, lines


def read_dataset(path):
    import h5py
    import numpy as np
    f = h5py.File(path, 'r')
    d = f['/dset']
    arr = np.array(d[...])
    order = [int(x) for x in d.attrs['Layout']]
    f.close()
    return arr, order


def write_constants(path, npts, dt=2, extra=None):
    d = {'npts': list(npts), 'dt': dt, 'splineDegrees': [3, 3, 3, 3]}
    if extra:
        d.update(extra)
    json.dump(d, open(path, 'w'))
