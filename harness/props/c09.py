"""
C09 - spline quadrature weights integrate the interpolant exactly.

Proof: Props/C09.v (InterpModel.v: ip_integrals = BSplines._build_integrals as written, ip_quad_from =
get_quadrature_coefficients; InterpTheory.v: duality, weight sum, equal-weights certificate; QuadTheory.v / QuadSumTheory.v: closed form of the
clamped integrals, weights sum to the domain length on every general space; CirculantTheory.v: equal weights on the
uniform-cubic periodic path; CubicQuadTheory.v: the uniform-cubic clamped
integrals and weights sum to ncells*dx for every ncells >= 1; InterpQc.v: positive instances of the three repaired defects).

Tie (the code is numpy/scipy level: it is run on binary64 and every double is converted exactly):
  * BSplines.integrals and the quadrature weights of the code vs. the extracted Qc model run on the code's
    own knots and Greville points, under bounds (integrals: a few ulp of the domain length per operation of
    the degree-raised evaluation; weights: condition-number scaled, as in C08);
  * direct oracle independent of the model: every (unwrapped) basis function is integrated over the domain
    exactly - piecewise, with closed Newton-Cotes weights on Fractions applied to an independent Cox - de Boor
    recursion - and compared with the stored integrals; the integral of random interpolants (the code's own
    coefficients, integrated piecewise exactly) is compared with sum_i w_i u_i for the code's weights; the
    weights must sum to the domain length and be all equal to dx on uniform periodic spaces;
  * exact checks on the model alone (clauses that are not proved for all inputs): integrals of clamped
    general spaces equal (t_{j+p+1} - t_j)/(p+1) and the exact integral; the hypotheses of the certificate
    theorem c09_weights_equal_cert (column sums, folded integrals, checked inverse) on uniform periodic spaces;
    the duality identity of c09_quadrature_integrates_interpolant on the instance;
  * a sample of the model answers is recomputed inside Coq (vm_compute).
"""
import json
import random
import re
from fractions import Fraction as F

import numpy as np

import core
import implrun
from qlift import qstr, qparse, frac_of_float as ff
from props import c08
from props.c08 import qs, fl, EPS, KB, bspl_all, full_knots, space_tag, make_space, build, space_info, spinfo_exact, \
    parse_vec, parse_mat, model_par, head, is_small_periodic

_NC = {}


def nc_weights(p):
    """closed Newton-Cotes weights on [0,1] with p+1 equispaced nodes (exact for degree p)"""
    if p in _NC:
        return _NC[p]
    nodes = [F(m, p) for m in range(p + 1)]
    ws = []
    for m in range(p + 1):
        poly = [F(1)]                       # coefficients, lowest degree first
        den = F(1)
        for q in range(p + 1):
            if q != m:
                poly = [(poly[k - 1] if k > 0 else 0) - nodes[q] * (poly[k] if k < len(poly) else 0) for k in range(len(poly) + 1)]
                den *= nodes[m] - nodes[q]
        ws.append(sum(c / (k + 1) for k, c in enumerate(poly)) / den)
    _NC[p] = ws
    return ws


def exact_integrals(sp):
    """integral over the domain of every unwrapped basis function (ncells + p of them), piecewise exactly"""
    T, hi = full_knots(sp)
    p = sp['p']
    hi = len(T) - 1 - p if hi is None else hi
    cells = [(T[k], T[k + 1]) for k in range(p, hi) if T[k] < T[k + 1]]
    ws = nc_weights(p)
    tot = [F(0)] * sp['ncoef']
    for a, b in cells:
        h = b - a
        for m, w in enumerate(ws):
            x = a + h * F(m, p)
            # the polynomial piece of THIS cell: evaluate strictly inside when the node is the right end
            N = bspl_piece(T, p, x, a, hi)
            for j in range(sp['ncoef']):
                tot[j] += w * h * N[j]
    return tot


def bspl_piece(T, p, x, a, hi):
    """B-spline values at x using the polynomial pieces of the cell that starts at knot value a"""
    n = len(T) - 1
    k = max(i for i in range(hi) if T[i] == a and T[i] < T[i + 1])
    N = [F(0)] * n
    N[k] = F(1)
    for d in range(1, p + 1):
        M = [F(0)] * (n - d)
        for i in range(n - d):
            v = F(0)
            if T[i + d] != T[i]:
                v += (x - T[i]) / (T[i + d] - T[i]) * N[i]
            if T[i + d + 1] != T[i + 1]:
                v += (T[i + d + 1] - x) / (T[i + d + 1] - T[i + 1]) * N[i + 1]
            M[i] = v
        N = M
    return N


# ------------------------------------------------------------------------------------------------

def impl_quad(c):
    import warnings
    warnings.simplefilter('ignore')
    from pygyro.splines.splines import Spline1D
    from pygyro.splines.spline_interpolators import SplineInterpolator1D
    b = build(c['space'])
    out = space_info(b)
    out['integrals'] = qs([ff(v) for v in b.integrals])
    it = SplineInterpolator1D(b)
    try:
        inv = np.linalg.inv(it._imat)
        out['kappa'] = float(np.abs(inv).sum(axis=1).max()) * float(np.abs(inv).sum(axis=0).max()) ** 0 * 1.0
        out['kappa'] = max(float(np.abs(inv).sum(axis=1).max()), float(np.abs(inv).sum(axis=0).max()))
    except Exception:
        out['kappa'] = float('inf')
    w = it.get_quadrature_coefficients()
    out['weights'] = qs([ff(v) for v in w])
    # the weights are a function of the space: a second request, a second interpolator on the same BSplines
    # object and the stored integrals afterwards must not depend on the requests made before
    # (the array handed out belongs to the caller, who may fold a Jacobian into it in place)
    w *= 3.0
    out['weights_again'] = qs([ff(v) for v in it.get_quadrature_coefficients()])
    out['weights_other'] = qs([ff(v) for v in SplineInterpolator1D(b).get_quadrature_coefficients()])
    out['integrals_after'] = qs([ff(v) for v in b.integrals])
    s = Spline1D(b)
    out['coeffs'] = []
    for d in c['data']:
        u = np.array([fl(t) for t in d.split()])
        it.compute_interpolant(u, s)
        out['coeffs'].append(qs([ff(v) for v in s.coeffs]))
    a, bb = b.domain
    out['domain'] = [qstr(ff(a)), qstr(ff(bb))]
    return out


def gen_cases(chk):
    rng = random.Random(chk.seed * 15485863 + 9)
    quick = chk.tier == 'quick'
    combos = []
    for periodic in (False, True):
        for kind in ('nonuniform', 'uniform'):
            for p in range(1, 6):
                ncs = {1, 2, 3, p, p + 1, rng.randint(2, 16), rng.randint(6, 16)}
                if not quick:
                    ncs |= {rng.randint(1, 16) for _ in range(8)} | {4, 5, 9, 16}
                for nc in sorted(ncs):
                    if periodic and nc < p:
                        continue
                    if kind == 'nonuniform' and nc == 1:
                        continue
                    combos.append((nc, p, periodic, kind))
    for p in (6, 7, 8):
        for periodic in (False, True):
            combos.append((rng.randint(p + 1, 10), p, periodic, rng.choice(['nonuniform', 'uniform'])))
    for _ in range(30 if quick else 200):
        p = rng.randint(1, 5)
        periodic = rng.random() < 0.5
        nc = rng.randint(max(2, p + 1 if periodic else 2), 16)
        combos.append((nc, p, periodic, rng.choice(['raw', 'raw', 'rawuniform'])))
    # almost uniform grids and tiny strongly non-uniform ones (a 'uniform grid' shortcut decided with default tolerances)
    for j, p in enumerate([1, 2, 3, 4, 5]):
        combos.append((rng.randint(6, 12), p, True, 'rawgentle'))
        combos.append((16, p, True, 'rawtinyjit'))
        if j % 2 == 0:
            combos.append((rng.randint(6, 12), p, False, 'rawgentle'))
            combos.append((12, p, False, 'rawtinyjit'))
    for j, p in enumerate([3, 3, 3, 1, 2, 3, 4, 5, 3, 3]):      # integer knot arrays; degree 3 uniform is the uniform-cubic path
        combos.append((rng.randint(max(2, p + 1), 12) if j else 1, p, j % 2 == 1 and j > 0, 'rawintuniform' if j % 4 != 3 else 'rawint'))
    cases = []
    for (nc, p, periodic, kind) in combos:
        spd = make_space(rng, nc, p, periodic, kind)
        n = nc if periodic else nc + p
        raw = kind.startswith('raw')
        data = [qs([ff(v) for v in c08.gen_data(rng, n, st)]) for st in (['small', 'const'] if not raw else ['rand', 'small'])]
        cases.append({'space': spd, 'data': data, 'solve': (not raw) or n <= 6})
    return cases


def requests(c, r):
    if isinstance(r, tuple):
        return {}
    spd = c['space']
    h = head(spd, r)
    out = {'integrals': 'ip.integrals %s | %s' % (h, r['knots'])}
    if c['solve']:
        out['quad'] = 'ip.quad %s | %s | %s' % (h, r['knots'], r['xs'])
        out['interp'] = 'ip.interpm %s %d | %s | %s | %s' % (h, r['nbasis'], r['knots'], r['xs'], ' '.join(c['data']))
        if spd['kind'] == 'uniform' and spd['periodic']:
            out['colloc'] = 'ip.colloc %s | %s | %s' % (h, r['knots'], r['xs'])
            if r['nbasis'] <= 10:
                out['inverse'] = 'ip.inverse %s | %s | %s' % (h, r['knots'], r['xs'])
    return out


def defect_key(spd, cubic):
    """no defect class is known on the current tree (periodic non-uniform integrals, periodic ncells == degree and the
    uniform-cubic clamped 1-2 cell integrals were repaired in /repo by 38b0bf4, 6a5dc09, 974ae9f): every space is strict"""
    return None


def check_case(chk, c, r, m, stats):
    spd = c['space']
    tag = space_tag(spd)
    rep = {'kind': 'quad', 'case': c}
    if isinstance(r, tuple):
        what = 'timeout' if r[0] == 'timeout' else 'raised %s: %s' % (r[1], r[2])
        chk.count((spd['breaks'], spd['p'], spd['periodic']), stratum='quad:' + tag + ':exception', sample={'space': spd, 'outcome': what})
        chk.violation('spline_interpolators.get_quadrature_coefficients:exception:%s' % tag,
                      'quadrature on %s (%d cells): %s' % (tag, spd['nc'], what), dict(rep, observed=what))
        return
    sp = spinfo_exact(spd, r)
    p, nb, ncoef = sp['p'], sp['nb'], sp['ncoef']
    known = defect_key(spd, sp['cubic'])
    cls = ':ncells<=degree' if is_small_periodic(spd) else (':cubic-clamped-1-2-cells' if sp['cubic'] and not spd['periodic'] and spd['nc'] <= 2 else '')
    a, b = [qparse(t) for t in r['domain']]
    L = float(b - a)
    If = [qparse(t) for t in r['integrals'].split()]
    wf = [qparse(t) for t in r['weights'].split()]
    kappa = r['kappa']
    Itrue = exact_integrals(sp)
    raw = spd['kind'].startswith('raw')
    rep_i = dict(rep, observed={'integrals': r['integrals'], 'weights': r['weights']})
    chk.count((spd['breaks'], spd['p'], spd['periodic'], 'integrals'), stratum='integrals:' + tag + cls,
              sample={'space': spd, 'integrals': r['integrals'][:200]})
    # --- stored integrals vs exact integration (direct oracle)
    # periodic spaces: what the quadrature uses is the FOLDED integral of each wrapped basis function,
    # integrals[j] + integrals[n+j] (j < p); the uniform-cubic branch stores dx / 0 directly, the general branch the
    # unwrapped pieces: both are compared in folded form
    def fold(v):
        return [v[k] + (v[nb + k] if k < p else 0) for k in range(nb)] if sp['periodic'] else list(v)
    bound_i = 64 * (p + 2) ** 2 * EPS * L
    erri = max(abs(float(x - y)) for x, y in zip(fold(If), fold(Itrue))) if len(If) == ncoef else float('inf')
    ikey = known
    if len(If) != ncoef or erri > bound_i:
        if ikey:
            chk.violation(ikey, 'stored basis integrals differ from the exact integrals by %.3g on %s' % (erri, tag), rep_i)
        else:
            chk.violation('splines._build_integrals:%s' % tag,
                          'stored basis integrals differ from the exact integrals by %.3g (bound %.3g) on %s, %d cells'
                          % (erri, bound_i, tag, spd['nc']), rep_i)
    elif known is None:
        stats['max_ratio_integrals'] = max(stats['max_ratio_integrals'], erri / bound_i)
    # --- model integrals (faithful, including the defects) vs the code's
    mi = m['integrals']
    if not mi.startswith('ok'):
        raise core.BrokenCheck('model integrals answer %s on %s' % (mi, tag))
    Im = parse_vec(mi)
    errm = max(abs(float(x - y)) for x, y in zip(Im, If)) if len(Im) == len(If) else float('inf')
    chk.cov['certificates_checked'] += 1
    if errm > bound_i:
        ok_oracle = erri <= bound_i
        chk.violation('splines._build_integrals:model-mismatch',
                      'stored integrals differ from the model\'s by %.3g on %s%s: correspondence InterpModel.ip_integrals no longer checks'
                      % (errm, tag, ' although they equal the exact integrals' if ok_oracle else ''),
                      dict(rep_i, kind='correspondence', theorem='InterpModel.ip_integrals', model=mi[:300]), no_input=ok_oracle)
    # exact facts about the model alone: clamped general spaces  I_j = (t_{j+p+1} - t_j)/(p+1) = exact integral
    if not sp['cubic'] and not sp['periodic']:
        T = sp['knots']
        if Im != [(T[j + p + 1] - T[j]) / (p + 1) for j in range(ncoef)] or Im != Itrue:
            chk.violation('splines._build_integrals:model:integral_formula_clamped',
                          'the model integrals are not (t_{j+p+1}-t_j)/(p+1) on %s' % tag, dict(rep_i, kind='model-only'), no_input=True)
        stats['integral_formula_clamped_exact'] += 1
    if known is None and not raw and fold(Im) != fold(Itrue):
        chk.violation('splines._build_integrals:model:exact', 'the model integrals are not the exact integrals on %s' % tag,
                      dict(rep_i, kind='model-only'), no_input=True)
    # --- weights
    chk.count((spd['breaks'], spd['p'], spd['periodic'], 'weights'), stratum='weights:' + tag + cls,
              sample={'space': spd, 'weights': r['weights'][:200]})
    sumw = float(sum(wf))
    bound_w = KB * nb * EPS * kappa * max(L, max(abs(float(v)) for v in wf))
    if abs(sumw - L) > bound_w:
        chk.violation(known or 'spline_interpolators.get_quadrature_coefficients:sum:%s' % tag,
                      'weights sum to %.15g, domain length %.15g (bound %.3g) on %s, %d cells' % (sumw, L, bound_w, tag, spd['nc']), rep_i)
    elif known is None:
        stats['max_ratio_weight_sum'] = max(stats['max_ratio_weight_sum'], abs(sumw - L) / bound_w)
    if spd['uniform'] and spd['periodic'] and known is None:
        dx = L / spd['nc']
        dev = max(abs(float(v) - dx) for v in wf)
        chk.count((spd['breaks'], spd['p'], 'equal'), stratum='weights-equal:' + tag)
        if dev > bound_w:
            chk.violation('spline_interpolators.get_quadrature_coefficients:uniform-periodic-equal:%s' % tag,
                          'weights of a uniform periodic space differ from dx by %.3g' % dev, rep_i)
    # integral of random interpolants: sum_i w_i u_i  vs  exact piecewise integration of the code's own spline
    for j, d in enumerate(c['data']):
        u = [qparse(t) for t in d.split()]
        cf = [qparse(t) for t in r['coeffs'][j].split()]
        chk.count((spd['breaks'], spd['p'], spd['periodic'], d), nontrivial=len(set(u)) > 1, stratum='interpolant:' + tag + cls,
                  sample={'space': spd, 'data': d[:120]})
        lhs = sum(w * ui for w, ui in zip(wf, u))
        rhs = sum(cj * Ij for cj, Ij in zip(cf, Itrue))
        sc = sum(abs(float(w * ui)) for w, ui in zip(wf, u)) + sum(abs(float(cj * Ij)) for cj, Ij in zip(cf, Itrue)) + 1e-300
        bound_q = KB * nb * EPS * kappa * sc
        dq = abs(float(lhs - rhs))
        if dq > bound_q:
            chk.violation(known or 'spline_interpolators.get_quadrature_coefficients:interpolant:%s' % tag,
                          'sum w_i u_i = %.15g but the interpolant integrates to %.15g (bound %.3g) on %s, %d cells'
                          % (float(lhs), float(rhs), bound_q, tag, spd['nc']), dict(rep_i, data_index=j))
        elif known is None:
            stats['max_ratio_interpolant'] = max(stats['max_ratio_interpolant'], dq / bound_q)
    # --- repeated requests (state left behind by an earlier request)
    chk.count((spd['breaks'], spd['p'], spd['periodic'], 'repeat'), stratum='repeated-request:' + tag + cls)
    if r.get('integrals_after', r['integrals']) != r['integrals']:
        Ia = [qparse(t) for t in r['integrals_after'].split()]
        erra = max(abs(float(x - y)) for x, y in zip(fold(Ia), fold(Itrue)))
        chk.violation('splines.integrals:changed-by-quadrature-request:%s' % tag,
                      'BSplines.integrals changed after get_quadrature_coefficients(): now off the exact integrals by %.3g on %s, %d cells'
                      % (erra, tag, spd['nc']), dict(rep_i, integrals_after=r['integrals_after']), no_input=(erra <= bound_i))
    for label, fld in (('a second request on the same interpolator', 'weights_again'),
                       ('a second interpolator on the same BSplines object', 'weights_other')):
        if r.get(fld, r['weights']) == r['weights']:
            continue
        w2 = [qparse(t) for t in r[fld].split()]
        worst = 0.0
        for j, d in enumerate(c['data']):
            u = [qparse(t) for t in d.split()]
            cf = [qparse(t) for t in r['coeffs'][j].split()]
            lhs = sum(w * ui for w, ui in zip(w2, u))
            rhs = sum(cj * Ij for cj, Ij in zip(cf, Itrue))
            sc = sum(abs(float(w * ui)) for w, ui in zip(w2, u)) + sum(abs(float(cj * Ij)) for cj, Ij in zip(cf, Itrue)) + 1e-300
            worst = max(worst, abs(float(lhs - rhs)) / (KB * nb * EPS * kappa * sc))
        chk.violation('spline_interpolators.get_quadrature_coefficients:repeated-request:%s' % tag,
                      'the weights returned by %s differ from the first ones; sum w_i u_i is off the integral of the interpolant by '
                      '%.3g times the bound on %s, %d cells' % (label, worst, tag, spd['nc']),
                      dict(rep_i, which=fld, weights_repeated=r[fld]), no_input=(worst <= 1.0))
    # --- model weights
    if 'quad' in m:
        mq = m['quad']
        if not mq.startswith('ok'):
            raise core.BrokenCheck('model quadrature answers %s on %s' % (mq, tag))
        wm = parse_vec(mq)
        errw = max(abs(float(x - y)) for x, y in zip(wm, wf))
        if errw > bound_w:
            chk.violation('spline_interpolators.get_quadrature_coefficients:model-mismatch',
                          'code weights differ from the model\'s by %.3g (bound %.3g) on %s: correspondence InterpModel.ip_quadrature '
                          'no longer checks' % (errw, bound_w, tag), dict(rep_i, kind='correspondence', theorem='InterpModel.ip_quadrature',
                                                                            model=mq[:300]), no_input=(abs(sumw - L) <= bound_w))
        elif known is None:
            stats['max_ratio_weights'] = max(stats['max_ratio_weights'], errw / bound_w)
        # duality on the instance (exact): sum w_i u_i = sum_j I_j c_j over all ncells+p integrals and wrapped coefficients
        if m.get('interp', '').startswith('ok'):
            cm = parse_mat(m['interp'])
            for j, d in enumerate(c['data']):
                u = [qparse(t) for t in d.split()]
                if sum(w * ui for w, ui in zip(wm, u)) != sum(Ij * cj for Ij, cj in zip(Im, cm[j])):
                    raise core.BrokenCheck('duality identity fails on the model (%s): c09_quadrature_integrates_interpolant' % tag)
            stats['duality_exact_on_model'] += 1
        if known is None and not raw and sum(wm) != b - a:
            chk.violation('spline_interpolators.get_quadrature_coefficients:model:sum', 'the model weights do not sum to the domain length on %s' % tag,
                          dict(rep_i, kind='model-only'), no_input=True)
        if known is None and spd['periodic'] and not spd['uniform'] and not raw:
            stats['periodic_nonuniform_weight_sum_exact_on_model'] += 1
        if sp['cubic'] and not spd['periodic'] and not raw and sum(Im) == b - a:
            stats['cubic_clamped_integral_sum_exact_on_model'] += 1
        # certificate theorem on uniform periodic spaces
        if 'colloc' in m and m['colloc'].startswith('ok'):
            A = parse_mat(m['colloc'])
            dxq = (b - a) / spd['nc']
            cols = all(sum(A[i][k] for i in range(nb)) == 1 for k in range(nb))
            folded = [Im[k] + (Im[nb + k] if k < p else 0) for k in range(nb)]
            hyp = cols and all(v == dxq for v in folded) and ('inverse' not in m or m['inverse'].startswith('ok'))
            if hyp and 'inverse' in m:
                stats['equal_weight_certificates'] += 1
                chk.cov['certificates_checked'] += 1
            if not cols or any(v != dxq for v in wm):
                chk.violation('spline_interpolators.get_quadrature_coefficients:model:uniform_periodic_equal',
                              'uniform periodic space %s: model column sums / weights are not 1 / dx' % tag, dict(rep_i, kind='model-only'), no_input=True)


COQ_IMPORTS = c08.COQ_IMPORTS


def coq_crosscheck(chk, cases, results, answers):
    cand = [(c, r, m) for c, r, m in zip(cases, results, answers)
            if not isinstance(r, tuple) and m.get('quad', '').startswith('ok') and r['nbasis'] <= 5
            and not c['space']['kind'].startswith('raw') and c['space']['p'] <= 3]
    random.Random(chk.seed + 4).shuffle(cand)
    cand = cand[:6]
    terms = []
    for c, r, m in cand:
        kn = [qparse(t) for t in r['knots'].split()]
        xs = [qparse(t) for t in r['xs'].split()]
        terms.append('spq_show_list (ipq_quadrature %s %d%%nat %s %s %s)' % (
            c08._cl(kn), c['space']['p'], 'true' if c['space']['periodic'] else 'false', 'true' if r['cubic'] else 'false', c08._cl(xs)))
    if not terms:
        return 0
    vals = core.coq_eval(terms, COQ_IMPORTS, tag='c09')
    for (c, r, m), v in zip(cand, vals):
        pairs = re.findall(r'\(\s*(-?\d+)\s*,\s*(\d+)\s*\)', v.replace('%positive', '').replace('%Z', ''))
        if [F(int(x), int(y)) for x, y in pairs] != parse_vec(m['quad']):
            raise core.BrokenCheck('extracted model and vm_compute disagree on ip_quadrature (%s)' % space_tag(c['space']))
    return len(terms)


STATS0 = {'max_ratio_integrals': 0.0, 'max_ratio_weights': 0.0, 'max_ratio_weight_sum': 0.0, 'max_ratio_interpolant': 0.0,
          'integral_formula_clamped_exact': 0, 'duality_exact_on_model': 0, 'equal_weight_certificates': 0,
          'periodic_nonuniform_weight_sum_exact_on_model': 0, 'cubic_clamped_integral_sum_exact_on_model': 0}

UNCOVERED = [
    'that (t_{j+p+1}-t_j)/(p+1) is the integral of B_j (and, on periodic spaces, that each stored piece is the integral of the '
    'unwrapped basis function over the domain) is the classical antiderivative identity (cited): the harness integrates every '
    'basis function exactly, independently of the model; what IS proved: the clamped closed form (c09_integral_formula_clamped) '
    'and that the stored values of every general space sum to the domain length (c09_integrals_general_sum)',
    'equal weights on uniform periodic spaces are proved for EXACTLY uniform knots and points (c09_weights_equal_uniform_periodic, '
    'c09_weights_equal_cubic; per-instance hypothesis: the checked inverse); the binary64 knots / Greville points of the code are '
    'uniform only up to rounding, there the weights are compared with dx under the bound and exactly on "nice" spaces',
    'rounding, LAPACK / SuperLU transposed solves are not modelled (bounds)',
]


def run():
    chk = core.Check('C09', 'proof')
    proof = core.proof_stage('C09')
    stats = dict(STATS0)
    cases = gen_cases(chk)
    res = implrun.run_cases('props.c09', 'impl_quad', cases, tmo=60.0)
    reqs = [requests(c, r) for c, r in zip(cases, res)]
    flat = [(i, k, line) for i, rq in enumerate(reqs) for k, line in rq.items()]
    ans = model_par([l for _, _, l in flat])
    answers = [dict() for _ in cases]
    for (i, k, _), a in zip(flat, ans):
        answers[i][k] = a
    for c, r, m in zip(cases, res, answers):
        check_case(chk, c, r, m, stats)
    ncoq = coq_crosscheck(chk, cases, res, answers)
    chk.assumptions += [
        'knots, Greville points, integrals, weights and coefficients compared are the doubles the code computes, converted exactly',
        'bounds: integrals 64 (p+2)^2 eps L; weights / integrals of interpolants %g n eps kappa scale (backward stability of the '
        'transposed banded / sparse LU solve); they gate the float link only' % KB,
        'the domain of a uniform-cubic space is [xmin, xmin + ncells*dx] (the knots the fast path really uses)',
        'model solves run on "nice" spaces and on raw random-double spaces with at most 6 basis functions; the integrals of every '
        'space are compared with the model',
    ]
    return chk.finish(
        proof,
        rule='one evaluation = the stored integrals of one space, its weights, the equal-weight test, or the integral of one '
             'interpolant; distinct = distinct (breakpoints, degree, boundary, data); non-trivial = non-constant data '
             '(integrals / weights are always non-trivial)',
        extra=dict(stats, spaces=len(cases), model_requests=len(flat), coq_vm_compute_crosschecked=ncoq, bound_constant=KB),
        uncovered=UNCOVERED)


def replay(path):
    core.setup_paths()
    body = json.load(open(path))
    c = body['replay']['case']
    chk = core.Check('C09', 'proof')
    chk.known = []
    stats = dict(STATS0)
    r = implrun.run_cases('props.c09', 'impl_quad', [c], tmo=60.0)[0]
    rq = requests(c, r)
    keys = list(rq)
    m = dict(zip(keys, core.model([rq[k] for k in keys])))
    check_case(chk, c, r, m, stats)
    bad = [v for v in chk.violations if v is not None]
    for _, _, what in bad:
        print('still failing:', what[:300])
    print('replay: %d violation(s)' % len(bad), stats)
    return 1 if bad else 0
