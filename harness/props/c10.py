"""
C10 - flux-surface advection is a field-aligned shift along z.

Proof: Props/C10.v (FluxAdv.v, AdvCommon.v).

Tie (the gate, exact): the real source of get_lagrange_vals / flux_advection
(pygyro/advection/accelerated_advection_steps.py) is executed on fractions.Fraction (qlift) - single
calls and the whole loop of FluxSurfaceAdvection.step - and compared, as reduced rationals, with the
extracted Qc model (fx.glv / fx.flux / fx.step).  The real *methods* FluxSurfaceAdvection.step and
._getLagrangePts (numpy level) are executed unchanged on duck-typed objects holding Fraction arrays
(adv_common.exact_advection_module) and compared exactly with fx.step / fx.pts (for _getLagrangePts:
feet that are not on a node - the on-node `where` divides by zero on exact numbers; that branch is tied
through the float tables).  Direct oracles that do not use the model are evaluated on the exact output of
the code: the gather formula sum_j c_j S_{(i+s_j)%nz}((theta_k + thetaShift_j) % 2pi), constants, linearity,
commutation with z shifts, exact circular shift for whole-cell displacements without twist.

Float link (numpy-level set-up code): real FluxSurfaceAdvection objects are built on real
BSplines / Layout / Constants; the tables _shifts, _thetaShifts, _lagrangeCoeffs are read back and compared
with the model evaluated on the exact rationals of the doubles the code used (dz, dtheta, zDist, z):
shifts exactly (unless zDist/dz is within 4 ulp of an integer: then either neighbour is accepted),
theta shifts to 2 ulp, Lagrange coefficients under the a-priori bound derived in `lag_tol`.
FluxSurfaceAdvection.step is run end-to-end on doubles and compared with fx.step fed with the code's own
tables and spline coefficients (as exact rationals) under the bound of `step_tol`.

A sample of the exact cases is re-evaluated inside Coq (vm_compute on Qc).
"""
import hashlib
import json
import math
import random
import types
import warnings
from fractions import Fraction as F

import numpy as np

import core
import implrun
from qlift import qstr, qparse
from props import adv_common as ac
from props import adv_grid
from props.adv_common import PI, U, fr, frl, qs, oarr

OFFS = [-2, -1, 0, 1, 2, 3]


# ------------------------------------------------------------------------------------------------
# exact Lagrange tables (input side of the kernel cases; an independent transcription, also compared
# with the model)

def lag_pts_exact(dz, dtheta, zDist, z, n=6):
    fl = math.floor(zDist / dz)
    offs = list(range((-n) // 2 + 1, n // 2 + 1))
    shifts = [fl + o for o in offs]
    tss = [dtheta * s for s in shifts]
    zPts = [z + dz * s for s in shifts]
    zPos = z + zDist
    lc = []
    for j, t in enumerate(zPts):
        v = F(1)
        for m, tm in enumerate(zPts):
            if m != j:
                v *= (zPos - tm) / (t - tm)
        lc.append(v)
    return shifts, tss, lc


def gen_displacement(rng, nz, dz, cls):
    """zDist by class; many cells, both signs, exact multiples of dz, just above / below a node"""
    sgn = rng.choice([-1, 1])
    if cls == 'zero':
        return F(0)
    if cls == 'sub-cell':
        return sgn * dz * F(rng.randint(1, 19), 20)
    if cls == 'multi-cell':
        return sgn * dz * (rng.randint(1, nz) + F(rng.randint(1, 29), 30))
    if cls == 'many-periods':
        return sgn * dz * (rng.randint(nz, 3 * nz) + F(rng.randint(1, 9), 10))
    if cls == 'on-node':
        return sgn * dz * rng.randint(1, 2 * nz)
    if cls == 'near-node':
        return sgn * dz * rng.randint(1, nz) + rng.choice([-1, 1]) * dz * F(1, 2 ** 40)
    if cls == 'shift-zero':
        # the stencil floor(zDist/dz) + (-2..3) contains the plane itself at position j: that line has no z shift and
        # no theta shift although the field lines are twisted
        j = rng.randint(0, 5)
        return dz * ((2 - j) + F(rng.randint(1, 19), 20))
    raise ValueError(cls)


DISP = ['zero', 'sub-cell', 'multi-cell', 'many-periods', 'on-node', 'near-node', 'shift-zero']


def gen_kernel_case(rng, k, tier):
    big = tier == 'thorough'
    kind = 'cu' if (k // len(DISP)) % 2 == 0 else 'nu'
    nq = rng.randint(7, 16 if big else 11)
    nz = rng.randint(7, 16 if big else 11)
    deg = 3 if kind == 'cu' else rng.choice([1, 2, 3, 3, 4, 5])
    sp = ac.theta_space(rng, kind, nq, deg, uniform=(rng.random() < 0.5))
    dz = F(rng.randint(1, 9), rng.choice([2, 3, 5]))
    cls = DISP[k % len(DISP)]
    zDist = gen_displacement(rng, nz, dz, cls)
    twist = 'no-twist' if ((k // len(DISP)) % 3 == 1 and cls != 'shift-zero') else 'twist'     # independent of the class
    iota = F(0) if twist == 'no-twist' else F(rng.choice([4, -13, 7, -3]), rng.choice([5, 10, 3]))
    dtheta = dz * iota / F(rng.choice([239, 100, 17]), rng.choice([1, 3]))
    z = dz * rng.choice([0, 1, 1, 2])
    shifts, tss, lc = lag_pts_exact(dz, dtheta, zDist, z)
    style = 'const' if k % 11 == 5 else 'random'
    cs = [ac.periodic_coeffs(rng, sp, style) for _ in range(nz)]
    if style == 'const':
        cs = [cs[0]] * nz
    return {'sp': sp, 'nq': nq, 'nz': nz, 'dz': dz, 'dtheta': dtheta, 'zDist': zDist, 'z': z, 'shifts': shifts, 'tss': tss,
            'lc': lc, 'cs': cs, 'cls': cls, 'twist': twist, 'style': style, 'kind': kind, 'k': k}


# ------------------------------------------------------------------------------------------------
# running the lifted kernels

def run_step_lifted(sp, nz, qv, cs, shifts, tss, lc):
    _, _, _, adv = ac.lifted()
    nq = len(qv)
    vals = np.empty((nz, nq, len(shifts)), dtype=object)
    kn = oarr(sp['knots'])
    sh = np.array(shifts, dtype=int)
    for i in range(nz):
        adv['get_lagrange_vals'](i, sh, vals, oarr(qv), oarr(tss), kn, sp['degree'], oarr(cs[i]), sp['cu'])
    f = np.empty((nq, nz), dtype=object)
    adv['flux_advection'](nq, nz, f, oarr(lc), vals)
    return [[f[k, i] for i in range(nz)] for k in range(nq)]


def rows_str(rows):
    return 'ok ' + ' ; '.join(' '.join(qstr(x) for x in r) for r in rows)


def gather_formula(sp, nz, qv, cs, shifts, tss, lc, twopi=2 * PI):
    """independent of the model and of the kernel's bookkeeping: the formula of the property"""
    out = []
    for k, q in enumerate(qv):
        row = []
        for i in range(nz):
            acc = F(0)
            for j, s in enumerate(shifts):
                acc += lc[j] * ac.spline_eval(sp, cs[(i + s) % nz], (q + tss[j]) % twopi)
            row.append(acc)
        out.append(row)
    return out


def exact_case(c):
    """worker: one exact case of the kernels / methods; returns impl answer string + failed oracles"""
    op = c['op']
    r = {'impl': None, 'orc': [], 'n_or': 0}
    sp = c['sp']
    qv = sp['nodes']
    try:
        if op == 'glv':
            _, _, _, adv = ac.lifted()
            nz, nq, npt = c['nz'], len(qv), len(c['shifts'])
            vals = np.empty((nz, nq, npt), dtype=object)
            adv['get_lagrange_vals'](c['i'], np.array(c['shifts'], dtype=int), vals, oarr(qv), oarr(c['tss']), oarr(sp['knots']),
                                     sp['degree'], oarr(c['cs'][c['i']]), sp['cu'])
            r['impl'] = 'ok ' + ' '.join('_' if v is None else qstr(v) for v in vals.ravel())
            # oracle: exactly the rows (i - s) % nz are written, with the spline of row i at the shifted points
            ok = True
            for j, s in enumerate(c['shifts']):
                for a in range(nz):
                    for k in range(nq):
                        exp = ac.spline_eval(sp, c['cs'][c['i']], (qv[k] + c['tss'][j]) % (2 * PI)) if a == (c['i'] - s) % nz else None
                        ok = ok and vals[a, k, j] == exp
            r['n_or'] += 1
            if not ok:
                r['orc'].append('glv-rows')
        elif op == 'flux':
            _, _, _, adv = ac.lifted()
            nq, nr, npt = c['nq'], c['nz'], len(c['lc'])
            vals = oarr(c['vals'])
            f = np.empty((nq, nr), dtype=object)
            adv['flux_advection'](nq, nr, f, oarr(c['lc']), vals)
            r['impl'] = rows_str([[f[k, i] for i in range(nr)] for k in range(nq)])
            ok = all(f[k, i] == sum((c['lc'][j] * c['vals'][i][k][j] for j in range(npt)), F(0)) for k in range(nq) for i in range(nr))
            r['n_or'] += 1
            if not ok:
                r['orc'].append('flux-sum')
        elif op == 'step':
            nz = c['nz']
            out = run_step_lifted(sp, nz, qv, c['cs'], c['shifts'], c['tss'], c['lc'])
            r['impl'] = rows_str(out)
            r['n_or'] += 1
            if out != gather_formula(sp, nz, qv, c['cs'], c['shifts'], c['tss'], c['lc']):
                r['orc'].append('step-formula')
            if c['style'] == 'const':
                r['n_or'] += 1
                cval = ac.spline_eval(sp, c['cs'][0], qv[0])
                if sum(c['lc']) != 1 or any(x != cval for row in out for x in row):
                    r['orc'].append('constants')
            if c.get('extra'):
                rng = random.Random(c['k'])
                # linearity
                cs2 = [ac.periodic_coeffs(rng, sp) for _ in range(nz)]
                a, b = F(rng.randint(-5, 5), 3), F(rng.randint(1, 7), 2)
                cs3 = [[a * x + b * y for x, y in zip(r1, r2)] for r1, r2 in zip(c['cs'], cs2)]
                o2 = run_step_lifted(sp, nz, qv, cs2, c['shifts'], c['tss'], c['lc'])
                o3 = run_step_lifted(sp, nz, qv, cs3, c['shifts'], c['tss'], c['lc'])
                r['n_or'] += 1
                if any(o3[k][i] != a * out[k][i] + b * o2[k][i] for k in range(len(qv)) for i in range(nz)):
                    r['orc'].append('linearity')
                # commutation with a circular shift of the z rows
                rot = rng.randint(1, nz - 1)
                o4 = run_step_lifted(sp, nz, qv, [c['cs'][(m + rot) % nz] for m in range(nz)], c['shifts'], c['tss'], c['lc'])
                r['n_or'] += 1
                if any(o4[k][i] != out[k][(i + rot) % nz] for k in range(len(qv)) for i in range(nz)):
                    r['orc'].append('z-shift')
            if c['cls'] in ('on-node', 'zero') and c['twist'] == 'no-twist':
                # whole number of cells, no twist: exact circular shift of the nodal values of the splines
                n = int(c['zDist'] / c['dz'])
                r['n_or'] += 1
                if any(out[k][i] != ac.spline_eval(sp, c['cs'][(i + n) % nz], qv[k]) for k in range(len(qv)) for i in range(nz)):
                    r['orc'].append('integer-shift')
        elif op == 'method-step':
            nz, nq = c['nz'], len(qv)
            fake = types.SimpleNamespace(
                _nPoints=(nq, nz), _interpolator=ac.FakeInterp(c['cs'], key=lambda ug: int(ug[0])),
                _thetaSpline=ac.FakeSpline(sp, c['cs']), _points=(oarr(qv), None),
                _shifts=np.array(c['tab_shifts'], dtype=int), _thetaShifts=oarr(c['tab_tss']), _lagrangeCoeffs=oarr(c['tab_lc']),
                _LagrangeVals=np.empty((nz, nq, 6), dtype=object))
            f = np.empty((nq, nz), dtype=object)
            for i in range(nz):
                for k in range(nq):
                    f[k, i] = F(i) if k == 0 else F(k * 31 + i, 7)
            with ac.exact_advection_module() as A:
                A.FluxSurfaceAdvection.step(fake, f, c['cIdx'], c['rIdx'])
            r['impl'] = rows_str([[f[k, i] for i in range(nz)] for k in range(nq)])
        elif op == 'method-pts':
            nR, nV = len(c['r']), len(c['v'])
            fake = types.SimpleNamespace(_zLagrangePts=6)
            lay = types.SimpleNamespace(starts=[0, 0, 0, 0], ends=[nR, nV, c['nq'], c['nz']], shape=[nR, nV, c['nq'], c['nz']],
                                        inv_dims_order=[0, 2, 3, 1])
            eta = [oarr(c['r']), oarr([F(0)] * c['nq']), oarr([c['dz'] * i for i in range(c['nz'])]), oarr(c['v'])]
            iota = (lambda rr, _c=c: oarr([_c['iota0'] * (1 + _c['slope'] * x) for x in rr]))
            with ac.exact_advection_module() as A:
                A.FluxSurfaceAdvection._getLagrangePts(fake, eta, lay, c['dt'], iota, c['R0'])
            out = []
            for a in range(nR):
                for b in range(nV):
                    out.append('%s | %s | %s' % (' '.join(str(int(x)) for x in fake._shifts[a, b]),
                                                 qs(list(fake._thetaShifts[a, b])), qs(list(fake._lagrangeCoeffs[a, b]))))
            r['impl'] = out
    except Exception as e:
        if isinstance(e, implrun.CaseTimeout):
            raise
        r['impl'] = ac.exc_class(e) + ' ' + str(e)[:80]
    return r


def model_lines(c):
    op, sp = c['op'], c['sp']
    qv = sp['nodes']
    cu = '1' if sp['cu'] else '0'
    if op == 'glv':
        nq, npt = len(qv), len(c['shifts'])
        return ['fx.glv %d %d %d %s %s | %s | %s | %s | %s | %s | %s' % (
            c['nz'], c['i'], sp['degree'], cu, qstr(PI), ' '.join(map(str, c['shifts'])), qs(qv), qs(c['tss']), qs(sp['knots']),
            qs(c['cs'][c['i']]), ' '.join(['_'] * (c['nz'] * nq * npt)))]
    if op == 'flux':
        flat = [c['vals'][i][k][j] for i in range(c['nz']) for k in range(c['nq']) for j in range(len(c['lc']))]
        return ['fx.flux %d %d %d | %s | %s' % (c['nq'], c['nz'], len(c['lc']), qs(c['lc']), qs(flat))]
    if op == 'step':
        return [step_line(sp, c['nz'], qv, c['cs'], c['shifts'], c['tss'], c['lc'], PI)]
    if op == 'method-step':
        a, b = c['rIdx'], c['cIdx']
        return [step_line(sp, c['nz'], qv, c['cs'], c['tab_shifts'][a][b], c['tab_tss'][a][b], c['tab_lc'][a][b], PI)]
    if op == 'method-pts':
        out = []
        for rr in c['r']:
            io = c['iota0'] * (1 + c['slope'] * rr)
            dth = c['dz'] * io / c['R0']
            bz = 1 / ac.SQRT(1 + (rr * io / c['R0']) ** 2)
            for v in c['v']:
                out.append('fx.pts 6 %s %s %s %s' % (qstr(c['dz']), qstr(dth), qstr(-v * bz * c['dt']), qstr(c['dz'])))
        return out
    raise ValueError(op)


def step_line(sp, nz, qv, cs, shifts, tss, lc, pi):
    return 'fx.step %d %d %s %d %s | %s | %s | %s | %s | %s | %s' % (
        nz, sp['degree'], '1' if sp['cu'] else '0', len(cs[0]), qstr(pi), qs(qv), qs([x for row in cs for x in row]),
        ' '.join(str(int(s)) for s in shifts), qs(tss), qs(lc), qs(sp['knots']))


def gen_exact_cases(chk):
    rng = random.Random(chk.seed * 7919 + 10)
    big = chk.tier == 'thorough'
    cases = []
    nstep = 600 if big else 42
    for k in range(nstep):
        c = gen_kernel_case(rng, k, chk.tier)
        c['op'] = 'step'
        c['extra'] = (k % 4 == 1)
        cases.append(c)
    for k in range(nstep):
        c = gen_kernel_case(rng, k + 1000, chk.tier)
        c['op'] = 'glv'
        c['i'] = rng.randrange(c['nz'])
        cases.append(c)
    for k in range(nstep // 2):
        c = gen_kernel_case(rng, k + 2000, chk.tier)
        c['op'] = 'flux'
        npt = rng.choice([6, 6, 6, 1, 4])
        c['lc'] = (c['lc'] + [F(1, 3)] * 6)[:npt] if k % 3 else [F(rng.randint(-9, 9), rng.choice([1, 2, 7])) for _ in range(npt)]
        c['vals'] = [[[F(rng.randint(-50, 50), rng.choice([1, 3, 4])) for _ in range(npt)] for _ in range(c['nq'])] for _ in range(c['nz'])]
        cases.append(c)
    for k in range(150 if big else 12):
        c = gen_kernel_case(rng, k + 3000, chk.tier)
        c['op'] = 'method-step'
        nR, nV = rng.randint(1, 3), rng.randint(2, 4)
        tabs = [[lag_pts_exact(c['dz'], c['dtheta'] * (a + 1), gen_displacement(rng, c['nz'], c['dz'], rng.choice(DISP)), c['z'])
                 for _ in range(nV)] for a in range(nR)]
        c['tab_shifts'] = [[t[0] for t in row] for row in tabs]
        c['tab_tss'] = [[t[1] for t in row] for row in tabs]
        c['tab_lc'] = [[t[2] for t in row] for row in tabs]
        c['rIdx'], c['cIdx'] = rng.randrange(nR), rng.randrange(nV)
        cases.append(c)
    for k in range(100 if big else 10):
        c = {'op': 'method-pts', 'sp': ac.theta_space(rng, 'cu', 7), 'k': k + 4000, 'nq': rng.randint(7, 9), 'nz': rng.randint(7, 12)}
        c['dz'] = F(rng.randint(1, 9), rng.choice([2, 3, 5]))
        c['r'] = [F(rng.randint(1, 40), 3) for _ in range(rng.randint(1, 3))]
        # velocities of both signs; dt of either sign; feet never on a node (irrational-looking ratios)
        c['v'] = sorted({F(rng.randint(-60, 60), 7) + F(1, 1013) for _ in range(rng.randint(2, 5))})
        c['dt'] = rng.choice([-1, 1]) * F(rng.randint(1, 40), rng.choice([1, 3, 10]))
        c['iota0'] = F(0) if k % 3 == 0 else F(rng.choice([4, -13, 7]), 5)
        c['slope'] = F(0) if k % 2 == 0 else F(1, 10)
        c['R0'] = F(rng.choice([239, 10, 3]))
        c['cls'] = 'exact-tables'
        c['twist'] = 'no-twist' if c['iota0'] == 0 else 'twist'
        cases.append(c)
    return cases


def stratum(c):
    if c['op'] == 'method-pts':
        return 'method:_getLagrangePts/' + c['twist']
    return '%s/%s/%s/%s' % (c['op'], c['sp']['kind'], c['cls'], c['twist'])


# ------------------------------------------------------------------------------------------------
# real objects: float tables and end-to-end steps

def lag_tol(dz, z, zDist, shifts):
    """a-priori bound of |computed - exact| Lagrange coefficient (exact = the model on the doubles dz, z, zDist).
    Every zDiff_m = fl(fl(z+zDist) - fl(z + fl(dz*s_m))) carries an absolute error <= E with
    E = 4u(|z| + max|dz*s_m| + |zDist|).  With the stencil centred on the foot (|zDiff_m| <= 3|dz|) and
    |prod_{m != j}(t_j - t_m)| >= 12|dz|^5, d c_j / d zDiff_m is bounded by (3|dz|)^4 / (12|dz|^5) = 6.75/|dz|; the node
    differences carry a relative error rho <= 4E/|dz|; 16 roundings in the products / quotient; |c_j| <= 2.
    Near a node the `where` branch differs from the formula by the same first-order term."""
    E = 4 * U * (abs(z) + max(abs(dz * s) for s in shifts) + abs(zDist))
    rho = 4 * E / abs(dz)
    return 5 * 6.75 * E / abs(dz) + 2 * (32 * U + 8 * rho)


def step_tol(p, nq, cmax, lc, tss):
    """bound of |float step - exact model on the same tables and coefficients|:
    one spline value: A2.2 / the cubic closed form add non-negative terms: relative error <= 16(p+1)u of
    sum|c_j|B_j <= cmax; the evaluation point (theta + shift) % 2pi carries <= 4u(2pi + |shift|) and
    |S'| <= 2 p cmax / h with h = 2pi/nq; the 6-term combination adds 16u per term."""
    h = 2 * math.pi / nq
    dx = 4 * U * (2 * math.pi + max(abs(t) for t in tss))
    eS = 16 * (p + 1) * U * cmax + (2 * p * cmax / h) * dx
    return 4 * sum(abs(x) for x in lc) * (eS + 16 * U * cmax) + 1e-300


def object_case(c):
    """worker: one real FluxSurfaceAdvection object; returns tables and end-to-end runs"""
    warnings.simplefilter('ignore')
    from pygyro.advection.advection import FluxSurfaceAdvection
    rng = random.Random(c['seed'])
    bs, eta = ac.real_spaces(c['npts'], c['degrees'], uniform=c['uniform'], rng=rng, dom=c.get('dom'))
    const = ac.real_constants(iota=c['iota'], slope=c['slope'])
    lay = ac.real_layout('flux_surface', [0, 3, 1, 2], eta)
    if c.get('almost_node'):
        # dt such that the foot of velocity j lies `delta` cells beside the node `cells` cells away (b_z = 1: no twist)
        j, cells, delta = c['almost_node']
        j = j % len(eta[3])
        if eta[3][j] == 0.0:
            j = (j + 1) % len(eta[3])
        c = dict(c, dt=-(cells + delta) * float(eta[2][2] - eta[2][1]) / float(eta[3][j]), almost_node=[j, cells, delta])
    if c.get('twist_node'):
        # twisted field lines AND a foot that lies exactly (in binary64, by the operations of the code) on a z node `cells`
        # cells away for one (r, v): the step is then the node value displaced along theta, not a plain circular shift in z
        j, ri, cells = c['twist_node']
        j, ri = j % len(eta[3]), ri % len(eta[0])
        if eta[3][j] == 0.0:
            j = (j + 1) % len(eta[3])
        io_ = const.iota(eta[0])
        bz_ = 1 / np.sqrt(1 + (eta[0] * io_ / const.R0) ** 2)
        dz_, z1_ = eta[2][2] - eta[2][1], eta[2][1]
        dtc = -(cells * dz_) / (eta[3][j] * bz_[ri])
        found = None
        for direction in (np.inf, -np.inf):
            d = dtc
            for _ in range(12):
                if z1_ + (-eta[3][j] * bz_[ri]) * d == z1_ + dz_ * cells:
                    found = d
                    break
                d = np.nextafter(d, direction)
            if found is not None:
                break
        c = dict(c, twist_node=[int(j), int(ri), int(cells)] if found is not None else None, dt=float(found) if found is not None else c['dt'])
    obj = FluxSurfaceAdvection(eta, [bs[1], bs[2]], lay, c['dt'], const)
    # the inputs of _getLagrangePts, by the same IEEE operations as the code
    r = eta[0]
    dz = eta[2][2] - eta[2][1]
    io = const.iota(r)
    dtheta = dz * io / const.R0
    bz = 1 / np.sqrt(1 + (r * io / const.R0) ** 2)
    zDist = -eta[3][None, :] * bz[:, None] * c['dt']
    out = {'dz_spec': float((bs[2].domain[1] - bs[2].domain[0]) / len(eta[2])), 'dz': float(dz), 'z': float(eta[2][1]), 'dtheta': [float(x) for x in dtheta], 'zDist': zDist.tolist(),
           'shifts': obj._shifts.tolist(), 'tss': obj._thetaShifts.tolist(), 'lc': obj._lagrangeCoeffs.tolist(),
           'q': [float(x) for x in eta[1]], 'knots': [float(x) for x in bs[1].knots], 'deg': int(bs[1].degree),
           'cu': bool(bs[1].cubic_uniform), 'steps': [], 'twist_node': c.get('twist_node')}
    nq, nz = len(eta[1]), len(eta[2])
    for t in range(c['nsteps']):
        rIdx, vIdx = rng.randrange(len(r)), rng.randrange(len(eta[3]))
        if t == 1:
            vIdx = rng.choice([0, len(eta[3]) - 1])                         # the longest displacement of the object
        if t == 2 and c.get('almost_node'):
            vIdx = c['almost_node'][0]                                      # the foot that lies just beside a node
        if t == 2 and c.get('twist_node'):
            vIdx, rIdx = c['twist_node'][0], c['twist_node'][1]             # the foot that lies exactly on a node, twisted field
        if t == 0:
            f = np.full((nq, nz), 0.75)                                    # constants
        else:
            f = np.array([[rng.uniform(-1, 1) for _ in range(nz)] for _ in range(nq)])
        cs = ac.spline_coeff_rows(*ac.own_tools(bs[1]), [f[:, i] for i in range(nz)])
        g = f.copy()
        if t == 1:
            # the caller's slice may be a view: a plane of a larger block (same values, other strides)
            g = np.full((nq, 2, nz), np.nan)[:, 1, :]
            g[...] = f
        obj.step(g, vIdx, rIdx)
        # exact reference: the formula of the property evaluated with the real spline kernels on the exact
        # rationals of the code's own tables and coefficients (2*pi = the double the kernel uses)
        sp = {'degree': int(bs[1].degree), 'cu': bool(bs[1].cubic_uniform), 'knots': frl(bs[1].knots)}
        ref = gather_formula(sp, nz, frl(eta[1]), [frl(x) for x in cs], [int(x) for x in obj._shifts[rIdx, vIdx]],
                             frl(obj._thetaShifts[rIdx, vIdx]), frl(obj._lagrangeCoeffs[rIdx, vIdx]), twopi=2 * fr(math.pi))
        err = max(abs(fr(g[k, i]) - ref[k][i]) for k in range(nq) for i in range(nz))
        # end-to-end reference that does not use the tables of the object: stencil, theta shifts and Lagrange
        # weights of the property for the foot z - v*b_z*dt (the double zDist formed above), exact arithmetic
        ssh, sts, slc = lag_pts_exact(fr(dz), fr(dtheta[rIdx]), fr(zDist[rIdx, vIdx]), fr(eta[2][1]))
        ref2 = gather_formula(sp, nz, frl(eta[1]), [frl(x) for x in cs], ssh, sts, slc, twopi=2 * fr(math.pi))
        err2 = max(abs(fr(g[k, i]) - ref2[k][i]) for k in range(nq) for i in range(nz))
        out['steps'].append({'err_spec': float(err2), 'spec_shifts': [int(x) for x in ssh],'rIdx': rIdx, 'vIdx': vIdx, 'f': f.tolist(), 'cs': [x.tolist() for x in cs], 'out': g.tolist(),
                             'kind': 'const' if t == 0 else 'random', 'err_formula': float(err),
                             'ref': [[float(x) for x in row] for row in ref],
                             'ref_sha': hashlib.sha1(' '.join('%d/%d' % (x.numerator, x.denominator) for row in ref for x in row).encode()).hexdigest()})
    return out


def gen_object_cases(chk):
    rng = random.Random(chk.seed * 104729 + 10)
    big = chk.tier == 'thorough'
    cases = []
    for k in range(100 if big else 10):
        degq = 3 if k % 2 == 0 else rng.choice([2, 4, 5, 1])
        uni = [True, True, True, True]
        if k % 4 == 3:
            uni[1] = False
        nq = rng.randint(max(7, degq + 2), 16 if big else 10)
        nz = rng.randint(7, 16 if big else 10)
        npts = [rng.randint(4, 6), nq, nz, rng.randint(5, 8)]
        # displacement v*bz*dt / dz: dz = zMax/nz ~ 1500/nz; |v| <= 7.3: dt up to 3 periods
        # the z period is a constant of its own (zMax): on odd cases it is not 2 pi R0, so that the twist per z step
        # dz iota / R0 is not 2 pi iota / nz
        zlen = 1506.759067 if k % 2 == 0 else [1000.0, 333.3, 2500.0][k % 3]
        dz = zlen / nz
        dt = rng.choice([-1, 1]) * rng.choice([2.0, 0.37 * dz, 1.3 * dz, dz * nz * 0.4, dz / 7.32, 3 * dz / 7.32, dz * 0.5])
        iota = [0.0, 0.8, -1.3][k % 3]
        case = {'seed': chk.seed * 31 + k, 'npts': npts, 'degrees': [3, degq, 3 if k % 3 else [5, 1, 4][k % 9 // 3], 3], 'uniform': uni, 'dt': dt, 'iota': iota,
                'slope': (0.05 if k % 5 == 4 else None), 'nsteps': 4 if big else 3, 'k': k,
                'dom': None if k % 2 == 0 else [[0.1, 14.5], [0.0, 2 * math.pi], [0.0, zlen], [-7.32, 7.32]]}
        if k % 5 == 2:
            # whole-cell displacements on a real object: dz = 1/2, v = -4..4 (degree 1: Greville = break points),
            # no twist (bz = 1): zDist = -v*dt is an exact multiple of dz for every v
            case.update(degrees=[3, degq, 3, 1], npts=[npts[0], nq, nz, 9], iota=0.0, slope=None, uniform=[True, uni[1], True, True],
                        dt=rng.choice([-1, 1]) * 0.5 * rng.randint(1, nz),
                        dom=[[0.1, 14.5], [0.0, 2 * math.pi], [0.0, 0.5 * nz], [-4.0, 4.0]])
        if k % 5 == 3:
            # the foot of one velocity lies a tiny fraction of a cell beside a node, many cells away (no twist, b_z = 1):
            # the exact-node branch of the Lagrange table must not be taken for a neighbour of the node
            j = rng.choice([0, 1, 2, 6, 7, 8])
            cells = rng.choice([3, nz + 2, 10 * nz, 25 * nz + 1])
            delta = rng.choice([1e-7, 1e-6, 1e-5] if cells < 200 else [1e-7, 1e-5, 2e-3])
            case.update(degrees=[3, degq, 3, 1], npts=[npts[0], nq, nz, 9], iota=0.0, slope=None, uniform=[True, uni[1], True, True],
                        dt=1.0, almost_node=[int(j), int(cells), delta],
                        dom=[[0.1, 14.5], [0.0, 2 * math.pi], [0.0, 0.5 * nz], [-4.0, 4.0]])
        if k % 5 in (0, 1) and case.get('almost_node') is None:
            case.update(iota=[0.8, -1.3][k % 2], twist_node=[rng.randrange(9), rng.randrange(6), rng.choice([1, -2, 3, nz + 1])])
        cases.append(case)
    return cases


def check_object(chk, c, o):
    """compare the tables and the end-to-end steps of one real object with the model; returns model requests
    first (phase 'lines'), is called again with the answers (phase 'judge')"""
    lines = []
    if o.get('twist_node'):
        chk.count(('twist-node', c['k']), stratum='object/twisted-field-exact-node', sample={'twist_node': o['twist_node'], 'dt': c.get('dt'), 'iota': c.get('iota')})
    for a, dth in enumerate(o['dtheta']):
        for b, zd in enumerate(o['zDist'][a]):
            lines.append('fx.pts 6 %s %s %s %s' % (qstr(fr(o['dz'])), qstr(fr(dth)), qstr(fr(zd)), qstr(fr(o['z']))))
    sp = {'degree': o['deg'], 'cu': o['cu'], 'knots': [fr(x) for x in o['knots']]}
    pi = fr(math.pi)
    for n, s in enumerate(o['steps']):
        a, b = s['rIdx'], s['vIdx']
        # the extracted model on 53-bit inputs is slow (inductive positives): one small step per object, low degree
        s['use_model'] = (n == 1 and o['deg'] <= 3 and len(o['q']) * len(s['cs']) <= 100)
        if s['use_model']:
            lines.append(step_line(sp, len(s['cs']), [fr(x) for x in o['q']], [[fr(x) for x in row] for row in s['cs']],
                                   o['shifts'][a][b], [fr(x) for x in o['tss'][a][b]], [fr(x) for x in o['lc'][a][b]], pi))
    return lines


def judge_object(chk, c, o, answers):
    t = 0
    if abs(o['dz'] - o['dz_spec']) > 64 * U * abs(o['dz_spec']):
        chk.violation('FluxSurfaceAdvection._getLagrangePts:dz', 'the z spacing used for the stencil is %r but the grid has spacing %r (period / points)'
                      % (o['dz'], o['dz_spec']), {'case': {k: c[k] for k in ('npts', 'degrees', 'dt', 'iota')}, 'dz': o['dz'], 'dz_spec': o['dz_spec']})
    nv = len(o['zDist'][0])
    desc = {'npts': c['npts'], 'degrees': c['degrees'], 'uniform': c['uniform'], 'dt': c['dt'], 'iota': c['iota'], 'slope': c['slope']}
    for a, dth in enumerate(o['dtheta']):
        for b, zd in enumerate(o['zDist'][a]):
            ans = answers[t]
            t += 1
            q = fr(zd) / fr(o['dz'])
            near = abs(q - round(q)) <= 4 * U * max(1, abs(q))
            st = 'table/%s/%s' % ('neg' if zd < 0 else 'pos' if zd > 0 else 'zero',
                                  'on-node' if q == round(q) else 'near-integer' if near else 'generic')
            chk.count(('tab', c['k'], a, b), stratum=st, sample={'dz': o['dz'], 'zDist': zd, 'dtheta': dth, 'shifts': o['shifts'][a][b]})
            if not ans.startswith('ok'):
                chk.violation('_getLagrangePts:model-refuses', 'model answers %r for dz=%r zDist=%r' % (ans, o['dz'], zd),
                              {'case': desc, 'r': a, 'v': b}, no_input=True)
                continue
            msh, mts, mlc = [x.split() for x in ans[2:].split('|')]
            msh = [int(x) for x in msh]
            mts = [qparse(x) for x in mts]
            mlc = [qparse(x) for x in mlc]
            csh = o['shifts'][a][b]
            rep = {'case': desc, 'r_index': a, 'v_index': b, 'dz': o['dz'], 'zDist': zd, 'dtheta': dth, 'code_shifts': csh,
                   'model_shifts': msh, 'code_coeffs': o['lc'][a][b], 'model_coeffs': [float(x) for x in mlc]}
            if csh != msh:
                if near and csh in ([s - 1 for s in msh], [s + 1 for s in msh]):
                    chk.cov['float_ambiguous'] = chk.cov.get('float_ambiguous', 0) + 1
                    continue
                sign = 'negative' if zd < 0 else 'positive'
                # a table that differs from the model's is a broken correspondence; the failing input, if there is
                # one, is a step whose result leaves the field line (end-to-end stage below)
                chk.violation('_getLagrangePts.shifts:%s-displacement' % sign,
                              'stencil shifts %r but floor(zDist/dz)+(-2..3) = %r for zDist/dz = %.6g' % (csh, msh, float(q)), rep,
                              no_input=True)
                continue
            tol_t = [2 * 2.0 ** -52 * abs(float(x)) + 1e-300 for x in mts]
            if any(abs(fr(x) - y) > tt for x, y, tt in zip(o['tss'][a][b], mts, tol_t)):
                chk.violation('_getLagrangePts.thetaShifts', 'theta shifts differ from dtheta*shift', rep)
                continue
            tol = lag_tol(o['dz'], o['z'], zd, csh)
            err = max(abs(fr(x) - y) for x, y in zip(o['lc'][a][b], mlc))
            chk.cov['max_lagrange_err_over_tol'] = max(chk.cov.get('max_lagrange_err_over_tol', 0.0), float(err) / tol)
            if err > tol:
                chk.violation('_getLagrangePts.coeffs:%s' % ('on-node' if q == round(q) else 'off-node'),
                              'Lagrange coefficients differ from the barycentric form by %.3g > %.3g' % (float(err), tol), rep)
            # direct oracle on the code's own numbers: the coefficients sum to one
            s1 = abs(sum(fr(x) for x in o['lc'][a][b]) - 1)
            if s1 > 6 * tol:
                chk.violation('_getLagrangePts.coeffs:sum-one', 'coefficients sum to 1%+.3g' % float(s1), rep)
    for s in o['steps']:
        a, b = s['rIdx'], s['vIdx']
        zd = o['zDist'][a][b]
        st = 'step-float/%s/%s/%s' % ('cu' if o['cu'] else 'nu', 'neg' if zd < 0 else 'pos', s['kind'])
        chk.count(('stepf', c['k'], a, b, s['kind']), stratum=st, sample={'case': desc, 'rIdx': a, 'vIdx': b})
        rep = {'case': desc, 'rIdx': a, 'vIdx': b, 'zDist_over_dz': zd / o['dz'], 'shifts': o['shifts'][a][b], 'f': s['f'],
               'code_out': s['out'], 'formula_out': s['ref']}
        if s['use_model']:
            ans = answers[t]
            t += 1
            rows = ac.parse_rows(ans)
            chk.cov['certificates_checked'] += 1
            if not isinstance(rows, list):
                chk.violation('FluxSurfaceAdvection.step:model-refuses', 'model answers %r' % ans, rep, no_input=True)
            else:
                sha = hashlib.sha1(' '.join('%d/%d' % (x.numerator, x.denominator) for row in rows for x in row).encode()).hexdigest()
                if sha != s['ref_sha']:
                    chk.violation('FluxSurfaceAdvection.step:model-vs-formula', 'the model and the exact formula (real spline kernels) '
                                  'differ on the code\'s own tables', rep, no_input=True)
        cmax = max(1e-300, max(abs(x) for row in s['cs'] for x in row))
        tol = step_tol(o['deg'], len(o['q']), cmax, o['lc'][a][b], o['tss'][a][b])
        err = s['err_formula']
        chk.cov['max_step_err_over_tol'] = max(chk.cov.get('max_step_err_over_tol', 0.0), err / tol)
        if err > tol:
            sign = 'negative' if zd < 0 else 'positive'
            chk.violation('FluxSurfaceAdvection.step:%s-displacement' % sign,
                          'step differs from sum_j c_j S_{(i+s_j)%%nz}(theta+shift_j) by %.3g > %.3g' % (err, tol), rep)
        q = fr(zd) / fr(o['dz'])
        near = abs(q - round(q)) <= 4 * U * max(1, abs(q))
        if not near or s['spec_shifts'] == o['shifts'][a][b]:
            tol2 = tol + 8 * lag_tol(o['dz'], o['z'], zd, s['spec_shifts']) * cmax \
                + (2 * o['deg'] * cmax / (2 * math.pi / len(o['q']))) * 8 * U * max(abs(o['dtheta'][a] * x) for x in s['spec_shifts'])
            chk.cov['max_step_spec_err_over_tol'] = max(chk.cov.get('max_step_spec_err_over_tol', 0.0), s['err_spec'] / tol2)
            if s['err_spec'] > tol2:
                chk.violation('FluxSurfaceAdvection.step:field-line:%s' % ('twist' if o['dtheta'][a] != 0.0 else 'no-twist'),
                              'step differs from the degree-5 Lagrange interpolation along the field line through the foot '
                              '(displacement %.4g cells of %d) by %.3g > %.3g' % (float(q), len(s['cs']), s['err_spec'], tol2), rep)
        if q == round(q) and o['dtheta'][a] == 0.0:
            # direct oracle: whole number of cells, no twist -> circular shift of the nodal values (the spline
            # interpolates them up to the conditioning of the collocation solve: 1e-12 * max|f| is ample)
            n = int(q)
            nz_ = len(s['cs'])
            dev = max(abs(s['out'][k][i] - s['f'][k][(i + n) % nz_]) for k in range(len(s['f'])) for i in range(nz_))
            chk.cov['integer_shift_float_checks'] = chk.cov.get('integer_shift_float_checks', 0) + 1
            if dev > 1e-12 * max(1.0, max(abs(x) for r1 in s['f'] for x in r1)):
                chk.violation('FluxSurfaceAdvection.step:integer-shift', 'displacement of %d cells without twist is not the circular '
                              'shift of the nodal values: deviation %.3g' % (n, dev), rep)
        if s['kind'] == 'const':
            dev = max(abs(x - 0.75) for r1 in s['out'] for x in r1)
            if dev > tol + 64 * U:
                chk.violation('FluxSurfaceAdvection.step:constants', 'constant 0.75 not preserved: deviation %.3g' % dev, rep)


# ------------------------------------------------------------------------------------------------

def coq_term(c):
    sp = c['sp']

    def q(x):
        x = F(x)
        return '(spq_of (%d) %d)' % (x.numerator, x.denominator)

    def ql(l):
        return '[' + '; '.join(q(x) for x in l) + ']'
    return ('advq_show_rows (fxq_step %s %d %s [%s] [%s]%%Z %s %s %s %d %s)'
            % (q(PI), c['nz'], ql(sp['nodes']), '; '.join(ql(r) for r in c['cs']), '; '.join('(%d)' % s for s in c['shifts']),
               ql(c['tss']), ql(c['lc']), ql(sp['knots']), sp['degree'], 'true' if sp['cu'] else 'false'))


def coq_matches(coq_ans, model_ans):
    rows = ac.parse_rows(model_ans)
    if not isinstance(rows, list):
        return False
    import re
    nums = re.findall(r'\(\s*\(?(-?\d+)\)?%Z\s*,\s*(\d+)%positive\s*\)', coq_ans)
    flat = [x for r in rows for x in r]
    return len(nums) == len(flat) and all(F(int(n), int(d)) == x for (n, d), x in zip(nums, flat))


def run():
    chk = core.Check('C10', 'proof')
    proof = core.proof_stage('C10')
    warnings.simplefilter('ignore')
    # grid-level entry points on distributed layouts (local-index glue, state between entry points)
    adv_grid.stage(chk, ['flux'])
    cases = gen_exact_cases(chk)
    res = implrun.run_cases('props.c10', 'exact_case', cases, tmo=600.0)
    lines, owner = [], []
    for idx, c in enumerate(cases):
        ls = model_lines(c)
        lines += ls
        owner += [idx] * len(ls)
    ans = ac.model_par(lines)
    by_case = {}
    for idx, a in zip(owner, ans):
        by_case.setdefault(idx, []).append(a)
    n_or = 0
    for idx, (c, r) in enumerate(zip(cases, res)):
        st = stratum(c)
        small = {'op': c['op'], 'kind': c['sp']['kind'], 'degree': c['sp']['degree'], 'nz': c.get('nz'), 'nq': c.get('nq'),
                 'cls': c.get('cls'), 'twist': c.get('twist'), 'shifts': c.get('shifts')}
        chk.count((c['op'], c['k']), nontrivial=(c.get('cls') != 'zero'), stratum=st, sample=small)
        if not isinstance(r, dict):
            chk.violation('%s:outcome' % c['op'], 'implementation run ended with %r' % (r,), {'case': small}, no_input=True)
            continue
        n_or += r['n_or']
        m = by_case[idx]
        impl = r['impl']
        replay = {'op': c['op'], 'case': json.loads(json.dumps(c, default=str)), 'impl': impl if isinstance(impl, str) else impl, 'model': m}
        if c['op'] == 'method-pts':
            bad = None
            if not isinstance(impl, list):
                bad = 'method raised: %s' % impl
            else:
                for t, (x, y) in enumerate(zip(impl, m)):
                    if not y.startswith('ok'):
                        bad = 'model answers %r' % y
                        break
                    xs, ys = [p.split() for p in x.split('|')], [p.split() for p in y[2:].split('|')]
                    same = xs[0] == ys[0] and all([qparse(u) for u in xs[i]] == [qparse(u) for u in ys[i]] for i in (1, 2))
                    if not same:
                        sign = 'negative' if int(ys[0][2]) < 0 else 'positive'
                        bad = 'entry %d: code %s / model %s' % (t, x[:120], y[:120])
                        chk.violation('_getLagrangePts(exact):%s-displacement' % sign, bad, replay)
                        bad = ''
                        break
            if bad:
                # an exception about the Fraction stand-in means the exact run could not execute the code: the correspondence broke
                chk.violation('_getLagrangePts(exact):outcome', bad, replay, no_input=('model answers' in bad or "'Fraction' object" in bad or 'ufunc' in bad or 'not supported for the input types' in bad or 'SimpleNamespace' in bad))
            continue
        same = False
        if isinstance(impl, str) and impl.startswith('ok') and m[0].startswith('ok'):
            if c['op'] == 'glv':
                same = [None if t == '_' else qparse(t) for t in impl.split()[1:]] == [None if t == '_' else qparse(t) for t in m[0].split()[1:]]
            else:
                same = ac.parse_rows(impl) == ac.parse_rows(m[0])
        elif isinstance(impl, str):
            same = impl.split(' ')[:2] == m[0].split(' ')[:2]
        site = {'glv': 'get_lagrange_vals', 'flux': 'flux_advection', 'step': 'get_lagrange_vals+flux_advection',
                'method-step': 'FluxSurfaceAdvection.step(exact)'}[c['op']]
        if r['orc']:
            chk.cov['disagreements_checked'] += 1
            chk.violation('%s:%s:%s' % (site, r['orc'][0], c.get('cls')), 'direct oracle(s) %r fail on the exact output of the code (model %s)'
                          % (r['orc'], 'agrees' if same else 'disagrees too'), replay)
        elif not same:
            chk.cov['disagreements_checked'] += 1
            # the gather formula oracle passed on this input (or does not apply): classify
            no_input = (c['op'] == 'step' and isinstance(impl, str) and impl.startswith('ok')) or \
                (isinstance(impl, str) and impl.startswith('exc') and ('SimpleNamespace' in impl or "'Fraction' object" in impl or 'ufunc' in impl or '<lambda>' in impl))
            chk.violation('%s:model-mismatch:%s' % (site, c.get('cls')),
                          'exact output of the code differs from the model: %s / %s' % (str(impl)[:100], m[0][:100]), replay, no_input=no_input)
    # ---- real objects
    ocases = gen_object_cases(chk)
    ores = implrun.run_cases('props.c10', 'object_case', ocases, tmo=600.0, chunk=1)
    olines, oown = [], []
    for idx, (c, o) in enumerate(zip(ocases, ores)):
        if not isinstance(o, dict):
            chk.violation('FluxSurfaceAdvection:construction', 'building / stepping the real object ended with %r' % (o,),
                          {'case': {k: v for k, v in c.items()}})
            continue
        ls = check_object(chk, c, o)
        olines += ls
        oown += [idx] * len(ls)
    oans = ac.model_par(olines)
    grouped = {}
    for idx, a in zip(oown, oans):
        grouped.setdefault(idx, []).append(a)
    for idx, (c, o) in enumerate(zip(ocases, ores)):
        if isinstance(o, dict):
            judge_object(chk, c, o, grouped[idx])
    # ---- Coq re-evaluation of a small sample
    small = [(i, c) for i, c in enumerate(cases) if c['op'] == 'step' and c['nz'] * c['nq'] <= 90][:3]
    if small:
        vals = core.coq_eval([coq_term(c) for _, c in small],
                             'From Coq Require Import List ZArith QArith Qcanon.\nImport ListNotations.\n'
                             'From PGV Require Import SplineModel SplineQc AdvCommon FluxAdv AdvQc.', tag='c10cases')
        for (i, c), v in zip(small, vals):
            chk.cov['certificates_checked'] += 1
            if not coq_matches(v, by_case[i][0]):
                chk.violation('extraction:fxq_step', 'vm_compute and the extracted model disagree', {'coq': v[:300], 'model': by_case[i][0][:300]},
                              no_input=True)
    chk.assumptions = [
        'the theta-spline interpolation (compute_interpolant) is C08: spline coefficients are inputs of the model',
        'rounding is not modelled: exact execution of the real source is the gate; float runs are compared under a-priori bounds',
        'bz = 1/sqrt(1+(r iota/R0)^2) enters through zDist (computed by the harness with the same IEEE operations as the code)']
    return chk.finish(proof, rule='distinct (op, case id); the zero-displacement class is counted trivial',
                      extra={'direct_oracles_evaluated': n_or, 'exact_cases': len(cases), 'real_objects': len(ocases)},
                      uncovered=['convergence order of the scheme (asymptotic statement)',
                                 'floating-point rounding (only bounded a posteriori on the sampled runs)',
                                 'non-singularity of the collocation matrix (Schoenberg-Whitney) stays C08\'s per-instance certificate ip_inverse_ok in c10_interp_then_step_constants; the interpolation itself is now composed (c10_interp_then_step_constants, c10_interp_then_integer_shift)',
                                 'grid-level loops FluxSurfaceAdvection.gridStep (C05)',
                                 'stencil sizes other than 6 for lagrange_sum_one (zDegree is always 5 in the code base; on-node indicator is proved for any size)'])


def replay(path):
    """re-execute the recorded exact case against the current tree (cases are regenerated from seed and tier);
    failures recorded on real objects (float link) are replayed by re-running the check with the same seed"""
    core.setup_paths()
    import os
    body = json.load(open(path))
    print(json.dumps({k: body[k] for k in ('property', 'key', 'what')}, indent=1)[:2000])
    os.environ['VERIF_SEED'] = str(body.get('seed'))
    os.environ['VERIF_TIER'] = str(body.get('tier'))
    rc = body.get('replay', {}).get('case', {}) if isinstance(body.get('replay'), dict) else {}
    if isinstance(body.get('replay'), dict) and body['replay'].get('kind') == 'grid-entry':
        ok, what = adv_grid.replay_case(body['replay']['case'])
        print('grid-level entry points vs single-process run:', what)
        return 0 if ok else 1
    if isinstance(rc, dict) and 'k' in rc and 'op' in rc:
        chk = core.Check('C10', 'proof')
        chk.seed, chk.tier = int(body['seed']), body['tier']
        hit = [c for c in gen_exact_cases(chk) if c['k'] == rc['k'] and c['op'] == rc['op']]
        if hit:
            c = hit[0]
            r = exact_case(c)
            m = core.model(model_lines(c))
            print('implementation:', str(r['impl'])[:600])
            print('model         :', str(m[0])[:600])
            print('failed direct oracles:', r['orc'])
            impl = r['impl']
            if isinstance(impl, str) and impl.startswith('ok') and m[0].startswith('ok'):
                same = [None if t == '_' else qparse(t) for t in impl.replace(';', ' ').split()[1:]] == [None if t == '_' else qparse(t) for t in m[0].replace(';', ' ').split()[1:]]
            else:
                same = isinstance(impl, str) and impl.split(' ')[:2] == m[0].split(' ')[:2]
            if isinstance(impl, list):
                same = all(x.replace(' ', '') == y[2:].replace(' ', '') for x, y in zip(impl, m))
            print('agree' if same and not r['orc'] else 'STILL FAILING')
            return 0 if same and not r['orc'] else 1
    return run()
