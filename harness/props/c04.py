"""
C04 - Grid layout changes and save/restore behave like a single global array.
Proof: Props/C04.v (GridSM.v).  Tie: operation histories (exhaustive up to a bounded length,
random beyond) on real Grid objects over LayoutHandler and LayoutSwapper under simulated MPI;
after every operation the refusal, currentLayout and the field seen through getAllData() on every
rank are compared with the extracted concrete state machine (ctrace) and with the single-array
specification (atrace) -- the latter is also the direct oracle.
"""
import itertools
import json
import random

import core
import implrun

BIG = 100003

CONFIGS = {
    # name: (N, manager kind, nprocs, layouts, hasSave, dtype)
    'h3-2x1-save': ([4, 3, 5, 3], 'handler', [2, 1], [[0, 3, 1, 2], [0, 2, 1, 3], [3, 2, 1, 0]], True, 'f'),
    'h3-1x2-nosave': ([3, 4, 5, 2], 'handler', [1, 2], [[0, 3, 1, 2], [0, 2, 1, 3], [3, 2, 1, 0]], False, 'f'),
    'h3-2x2-save-c': ([4, 3, 5, 4], 'handler', [2, 2], [[0, 3, 1, 2], [0, 2, 1, 3], [3, 2, 1, 0]], True, 'c'),
    'h4-3-save': ([5, 3, 4], 'handler', [3], [[0, 1, 2], [1, 0, 2], [2, 1, 0], [2, 0, 1]], True, 'f'),
    'sw-2x2-save': ([4, 5, 4], 'swapper', [2, 2], None, True, 'c'),
    'sw-1x3-save': ([4, 5, 6], 'swapper', [1, 3], None, True, 'f'),
    'sw-2x1-nosave': ([5, 4, 3], 'swapper', [2, 1], None, False, 'c'),
    'h3-2x3-save': ([5, 4, 7, 6], 'handler', [2, 3], [[0, 3, 1, 2], [0, 2, 1, 3], [3, 2, 1, 0]], True, 'f'),
}
# layouts that differ by a cyclic reordering of undistributed dimensions (the local transposition is not its own inverse)
CONFIGS['h4d-cyclic-save'] = ([4, 3, 3, 3], 'handler', [2], [[0, 1, 2, 3], [0, 2, 3, 1], [0, 3, 1, 2], [1, 0, 2, 3]], True, 'f')
CONFIGS['h4d-cyclic-uneven-save-c'] = ([5, 2, 3, 4], 'handler', [3], [[0, 1, 2, 3], [0, 2, 3, 1], [0, 3, 1, 2], [3, 2, 1, 0]], True, 'c')

# a chain of four layouts on two distributed directions: the ends are three transposition steps apart (the grids of the
# simulation never need more than two); generic extents and one point per process
CONFIGS['h4-chain-2x2-save'] = ([4, 5, 6], 'handler', [2, 2], [[0, 1, 2], [0, 2, 1], [1, 2, 0], [1, 0, 2]], True, 'f')
CONFIGS['h4-chain-2x2-unit-save-c'] = ([2, 2, 2], 'handler', [2, 2], [[0, 1, 2], [0, 2, 1], [1, 2, 0], [1, 0, 2]], True, 'c')
CONFIGS['h4-chain-2x2-nosave'] = ([3, 4, 2], 'handler', [2, 2], [[0, 1, 2], [0, 2, 1], [1, 2, 0], [1, 0, 2]], False, 'f')

# a square of layouts (every diagonal has two equally short two-step routes): the route map's tie-break by names is exercised
# with names whose alphabetical order differs from the insertion order (suffix = names of the four layouts in insertion order)
for _nm, _N in (('DACB', [4, 4, 4, 4]), ('CBAD', [5, 6, 3, 7]), ('BDCA', [4, 4, 4, 4]), ('DCBA', [5, 6, 3, 7])):
    CONFIGS['h4sq-tied-' + _nm] = (_N, 'handler', [2, 2], [[0, 1, 2, 3], [2, 1, 0, 3], [0, 3, 2, 1], [2, 3, 0, 1]], _nm in ('DACB', 'DCBA'), 'fc'[_nm < 'C'])


def _random_configs():
    # seeded random handler configurations (the workers rebuild the same ones from VERIF_SEED)
    import os
    import gens
    rng = random.Random(int(os.environ.get('VERIF_SEED', '20260925')) * 7 + 1)
    out = {}
    for k in range(6):
        N, nprocs, layouts = gens.handler_config(rng, max_ranks=4, max_extent=5, dmin=3, dmax=4, nlayouts=rng.randint(3, 4))
        out['rnd%d' % k] = (N, 'handler', nprocs, layouts, rng.random() < 0.75, rng.choice('fc'))
    return out


CONFIGS.update(_random_configs())

SW_LAYOUTS = [('v_parallel_2d', [0, 2, 1]), ('mode_solve', [1, 2, 0]), ('v_parallel_1d', [0, 2, 1]), ('poloidal', [2, 1, 0])]


def cfg_layouts(cfg):
    N, kind, nprocs, layouts, hs, dt = CONFIGS[cfg]
    if kind == 'handler':
        if cfg.startswith('h4sq-tied-'):
            return list(zip(list(cfg.split('-')[-1]), layouts))
        return [('L%d' % i, l) for i, l in enumerate(layouts)]
    return SW_LAYOUTS


def impl_batch(c):
    """c = (cfgname, [op sequences], seed); ops: ('L',k) ('W',g) 'S' 'R' 'F'"""
    import numpy as np
    import warnings
    from mpi4py import MPI
    from pygyro.model.layout import getLayoutHandler, LayoutSwapper
    from pygyro.model.grid import Grid
    cfg, seqs, seed = c
    N, kind, nprocs, layouts, hasSave, dt = CONFIGS[cfg]
    lays = cfg_layouts(cfg)
    d = len(N)
    eta = [np.arange(n, dtype=float) for n in N]
    nranks = 1
    for p in nprocs:
        nranks *= p
    dtype = np.complex128 if dt == 'c' else float

    def value(g, L):
        idx = np.indices(L.shape)
        gl = [None] * d
        for a in range(d):
            gl[L.dims_order[a]] = idx[a] + L.starts[a]
        v = np.zeros(L.shape, dtype=np.int64)
        for e in range(d):
            v = v * N[e] + gl[e]
        v = (v + g * BIG).astype(dtype)
        if dt == 'c':
            v = v + 1j * (g + 1)
        return v

    def observe(grid, man):
        L = man.getLayout(grid.currentLayout)
        f = grid.getAllData()
        if tuple(f.shape) != tuple(L.shape):
            return -2
        if f.size == 0:
            return -3
        g = int(round(float(np.real(f.flat[0])))) // BIG
        return g if np.array_equal(f, value(g, L)) else -1

    def work(comm):
        with warnings.catch_warnings():
            warnings.simplefilter('ignore')
            if kind == 'handler':
                man = getLayoutHandler(comm, {n: l for n, l in lays}, list(nprocs), eta)
            else:
                man = LayoutSwapper(comm, [{'v_parallel_2d': [0, 2, 1], 'mode_solve': [1, 2, 0]}, {'v_parallel_1d': [0, 2, 1]},
                                           {'poloidal': [2, 1, 0]}], [list(nprocs), nprocs[0], nprocs[1]], eta, lays[0][0])
            out = []
            names = [n for n, _ in lays]
            for seq in seqs:
                grid = Grid(eta, [None] * d, man, names[0], comm, dtype=dtype, allocateSaveMemory=hasSave)
                grid.getAllData()[:] = value(7, man.getLayout(names[0]))
                tr = []
                for op in seq:
                    refused = False
                    try:
                        if op[0] == 'L':
                            grid.setLayout(names[op[1]])
                        elif op[0] == 'W':
                            grid.getAllData()[:] = value(op[1], man.getLayout(grid.currentLayout))
                        elif op == 'S':
                            grid.saveGridValues()
                        elif op == 'R':
                            grid.restoreGridValues()
                        elif op == 'F':
                            grid.freeGridSave()
                    except AssertionError:
                        refused = True
                    tr.append((refused, names.index(grid.currentLayout), observe(grid, man)))
                out.append(tr)
        return out
    R = MPI.run(nranks, work, seed=seed, timeout=600)
    if R.outcome != 'ok':
        return ('fail', R.outcome, R.detail[:400])
    return ('ok', R.results)


def op_str(op):
    return op if isinstance(op, str) else '%s%d' % (op[0], op[1])


def alphabet(nl, pos):
    return [('L', k) for k in range(nl)] + [('W', 100 + pos), 'S', 'R', 'F']


def run():
    chk = core.Check('C04', 'proof')
    proof = core.proof_stage('C04')
    rng = random.Random(chk.seed)
    quick = chk.tier == 'quick'
    exh_len = 5 if quick else 6
    exh_cfgs = ['h3-2x1-save', 'h3-1x2-nosave', 'sw-2x2-save'] if quick else ['h3-2x1-save', 'h3-1x2-nosave', 'sw-2x2-save', 'h4-3-save', 'sw-2x1-nosave']
    rnd_cfgs = list(CONFIGS)
    nrand = 25 if quick else 150
    rlen = 20 if quick else 40
    batches = []
    exhaustive_count = 0
    for cfg in exh_cfgs:
        nl = len(cfg_layouts(cfg))
        seqs = [list(s) for s in itertools.product(*[alphabet(nl, i) for i in range(exh_len)])]
        if not CONFIGS[cfg][4]:
            # without save memory every S/R/F is refused and changes nothing: keep sequences with at most two of them
            seqs = [s for s in seqs if sum(1 for o in s if isinstance(o, str)) <= 2]
        exhaustive_count += len(seqs)
        k = max(1, len(seqs) // 10)
        for i in range(0, len(seqs), k):
            batches.append((cfg, seqs[i:i + k], rng.randrange(10 ** 6), 'exhaustive'))
    for cfg in rnd_cfgs:
        nl = len(cfg_layouts(cfg))
        seqs = []
        for _ in range(nrand):
            s = []
            for i in range(rlen):
                x = rng.random()
                s.append(('L', rng.randrange(nl)) if x < 0.45 else ('W', 100 + i) if x < 0.6 else rng.choice('SRF'))
            seqs.append(s)
        batches.append((cfg, seqs, rng.randrange(10 ** 6), 'random'))
    impl = implrun.run_cases('props.c04', 'impl_batch', [b[:3] for b in batches], tmo=900.0, chunk=1)
    mlines = []
    for (cfg, seqs, seed, kind) in batches:
        hs = 1 if CONFIGS[cfg][4] else 0
        for s in seqs:
            mlines.append('gridsm %d 7 0 %s' % (hs, ' '.join(op_str(o) for o in s)))
    mres = core.model_parallel(mlines)
    mi = 0
    for (cfg, seqs, seed, kind), r in zip(batches, impl):
        if r[0] != 'ok':
            mi += len(seqs)
            chk.count((cfg, kind, seed), stratum='failed-run')
            chk.violation('grid.Grid:%s' % r[1], 'config %s: run outcome %s %s' % (cfg, r[1], r[2]),
                          {'kind': 'impl', 'config': cfg, 'sequences': [[op_str(o) for o in s] for s in seqs[:50]], 'seed': seed, 'observed': list(r)})
            continue
        for si, s in enumerate(seqs):
            m = mres[mi]
            mi += 1
            conc, spec = m.split(' / ')
            ops = [op_str(o) for o in s]
            nontriv = any(o[0] == 'L' for o in ops) and any(o in ('S', 'R') for o in ops)
            chk.count((cfg, tuple(ops)), nontrivial=nontriv, stratum='%s:%s:len%d' % (kind, cfg, len(s)),
                      sample={'config': cfg, 'ops': ops, 'model': conc})
            if conc != spec:
                raise core.BrokenCheck('concrete and abstract machine differ on %r (contradicts c04_observations_refine)' % (ops,))
            exp = [(x.split(':')[0] == 'X', int(x.split(':')[1]), int(x.split(':')[2])) for x in conc.split()]
            for rk, rank_out in enumerate(r[1]):
                # a rank whose block is empty in the current layout (extent smaller than the process count) sees no cell:
                # its field observation (-3) is vacuous, refusal and layout are still compared
                got = [tuple(t) if t[2] != -3 else (t[0], t[1], e[2]) for t, e in zip(rank_out[si], exp)]
                if got != exp:
                    k = next(i for i in range(len(exp)) if got[i] != exp[i])
                    chk.violation('grid.Grid:history-mismatch',
                                  'config %s rank %d, ops %s: after op %d (%s) grid shows (refused,layout,field)=%r, single array shows %r'
                                  % (cfg, rk, ' '.join(ops[:k + 1]), k, ops[k], got[k], exp[k]),
                                  {'kind': 'impl', 'config': cfg, 'ops': ops[:k + 1], 'seed': seed, 'rank': rk, 'observed': list(got[k]), 'expected': list(exp[k])})
                    break
    vals = core.coq_eval(['ctrace nat nat true 0 (cinit nat nat 7 0) [Save nat nat; SetLayout nat nat 1; Write nat nat 9; Restore nat nat; Free nat nat]'],
                         'From Coq Require Import List. Import ListNotations. From PGV Require Import GridSM.', tag='c04')
    m = core.model(['gridsm 1 7 0 S L1 W9 R F'])[0].split(' / ')[0]
    coqv = vals[0].replace('Done', 'D').replace('Refused', 'X').replace('Some ', '').replace('None', '-')
    import re
    toks = re.findall(r'\(\s*([DX]),\s*\((\d+),\s*(\d+|-)\)\)', coqv)
    if ' '.join('%s:%s:%s' % t for t in toks) != m:
        raise core.BrokenCheck('extraction and vm_compute disagree: %s vs %s' % (coqv, m))
    chk.assumptions += ['transposes enter the state machine through the contract proved in C01/C03 (destination holds the field in the new '
                        'layout; source kept when a spare buffer is lent, clobbered otherwise)', 'simulated MPI']
    return chk.finish(proof,
                      rule='all operation sequences of length %d over {setLayout x each layout, write, save, restore, free} on %d grid '
                           'configurations (handler and swapper, with/without save memory), plus %d random sequences of length %d on each of %d '
                           'configurations (real/complex); non-trivial = contains a layout change and a save or restore'
                           % (exh_len, len(exh_cfgs), nrand, rlen, len(rnd_cfgs)),
                      extra={'exhaustive': True, 'exhaustive_length': exh_len, 'exhaustive_sequences': exhaustive_count,
                             'configs': {k: {'N': v[0], 'manager': v[1], 'nprocs': v[2], 'save_memory': v[4], 'dtype': v[5]} for k, v in CONFIGS.items()}},
                      uncovered=['the per-cell contents of the scratch buffers are abstracted to Junk in the state machine'])


def replay(path):
    core.setup_paths()
    body = json.load(open(path))
    rp = body['replay']
    ops = []
    for o in rp.get('ops', []):
        ops.append(o if o in ('S', 'R', 'F') else (o[0], int(o[1:])))
    r = impl_batch((rp['config'], [ops], rp.get('seed', 1)))
    hs = 1 if CONFIGS[rp['config']][4] else 0
    m = core.model(['gridsm %d 7 0 %s' % (hs, ' '.join(rp['ops']))])[0]
    print('implementation (refused, layout, field) per op on each rank:', r)
    print('model:', m)
    if r[0] != 'ok':
        return 1
    exp = [(x.split(':')[0] == 'X', int(x.split(':')[1]), int(x.split(':')[2])) for x in m.split(' / ')[0].split()]
    return 0 if all([tuple(t) for t in ro[0]] == exp for ro in r[1]) else 1
