"""
C01 - LayoutHandler transposes preserve the global field.  Proof: Props/C01.v.
Tie: real LayoutHandler.transpose under simulated MPI on stratified configurations
(rank 2-4, uneven / equal-to-p extents, leading grid extent 1, every ordered pair of layouts,
buffer given or not, float / complex / int payloads) against the extracted list-level model
(run_route over the handler's own route, which is validated by route_ok_b = the hypothesis of
c01_route_correct).  Direct oracle: slices of the known global array; source block unchanged
when a buffer is given.
"""
import json
import random

import core
import gens
import implrun


def gfield(N, dims, starts, shape):
    """global linear index (eta order) of every local cell of a block, as an int array"""
    import numpy as np
    d = len(N)
    idx = np.indices(shape) if all(s > 0 for s in shape) else None
    if idx is None:
        return np.zeros(shape, dtype=np.int64)
    gl = [None] * d
    for a in range(d):
        gl[dims[a]] = idx[a] + starts[a]
    v = np.zeros(shape, dtype=np.int64)
    for e in range(d):
        v = v * N[e] + gl[e]
    return v


MEM_CELLS = 2500    # whole-array comparison only when all ranks' arrays together have at most this many cells


def impl_case(c):
    """c = (N, nprocs, layouts, pairs, seed): pairs = [(src_idx, dst_idx, use_buf, dtype)]"""
    import numpy as np
    import warnings
    from mpi4py import MPI
    from pygyro.model.layout import getLayoutHandler
    N, nprocs, layouts, pairs, seed = c
    d = len(N)
    eta = [np.arange(n, dtype=float) for n in N]
    names = ['L%d' % i for i in range(len(layouts))]
    nranks = 1
    for p in nprocs:
        nranks *= p

    def work(comm):
        out = []
        with warnings.catch_warnings():
            warnings.simplefilter('ignore')
            h = getLayoutHandler(comm, dict(zip(names, [list(x) for x in layouts])), list(nprocs), eta)
            routes = {a: {b: list(h._route_map[a][b]) for b in names if b != a} for a in names} if len(names) > 1 else {}
            bs = int(h.bufferSize)
            for (si, di, use_buf, dt) in pairs:
                a, b = names[si], names[di]
                la, lb = h.getLayout(a), h.getLayout(b)
                dtype = {'f': np.float64, 'c': np.complex128, 'i': np.int64}[dt]
                ga = gfield(N, la.dims_order, la.starts, la.shape)
                src = np.full(bs, -7, dtype=dtype)
                dst = np.full(bs, -8, dtype=dtype)
                val = ga.astype(dtype)
                if dt == 'c':
                    val = val + 1j * (2 * ga + 1)
                src[:la.size] = val.reshape(-1)
                before = src[:la.size].copy()
                buf = np.full(bs, -9, dtype=dtype) if use_buf else None
                h.transpose(src, dst, a, b, buf)
                got = dst[:lb.size]
                if dt == 'c':
                    okc = bool((got.imag == 2 * got.real + 1).all())
                    got = got.real
                else:
                    okc = True
                rec = {'dest': [int(x) for x in got], 'cplx_ok': okc,
                       'src_same': bool((src[:la.size] == before).all()),
                       'srcblock': [int(x) for x in ga.reshape(-1)],
                       'expect': [int(x) for x in gfield(N, lb.dims_order, lb.starts, lb.shape).reshape(-1)]}
                if bs * nranks <= MEM_CELLS:
                    # the complete arrays afterwards (real parts), for the whole-memory model (frame theorems)
                    rec['mem'] = [[int(x) for x in np.real(arr)] if arr is not None else None for arr in (src, dst, buf)]
                out.append(rec)
        return {'coords': [int(x) for x in h.mpiCoords], 'routes': routes, 'out': out, 'bs': bs}
    R = MPI.run(nranks, work, seed=seed, timeout=90)
    if R.outcome != 'ok':
        return ('fail', R.outcome, R.detail[:400])
    return ('ok', R.results, [[(t[0], t[1], t[3], t[4]) for t in tr] for tr in R.trace])


def gen(chk):
    rng = random.Random(chk.seed)
    quick = chk.tier == 'quick'
    ncfg = 220 if quick else 2500
    cases = []
    # fixed corpus first: the configuration of the repaired defect and the grids named in the property
    corpus = [([4, 5, 7, 8], [1, 3], [[0, 3, 1, 2], [0, 2, 1, 3], [3, 2, 1, 0]]),
              ([4, 2], [1, 2], [[1, 0], [0, 1]]),
              ([4, 5, 7, 8], [2, 3], [[0, 3, 1, 2], [0, 2, 1, 3], [3, 2, 1, 0]]),
              ([3, 3, 3, 3], [3, 1], [[0, 3, 1, 2], [0, 2, 1, 3], [3, 2, 1, 0]]),
              ([6, 4, 4, 6], [2, 2], [[0, 3, 1, 2], [0, 2, 1, 3], [3, 2, 1, 0]]),
              # fewer points than processes along a distributed dimension: processes with empty blocks (the first two
              # hung before 61c5b80: a process with buffer size 0 skipped the Alltoall its neighbours were waiting in)
              ([2, 1, 1], [2, 3, 1], [[1, 0, 2], [1, 2, 0], [0, 2, 1]]),
              ([1, 1, 3], [2, 1, 3], [[2, 1, 0], [1, 2, 0], [1, 0, 2]]),
              ([4, 4, 2, 2], [2, 3], [[0, 3, 1, 2], [0, 2, 1, 3], [3, 2, 1, 0]])]
    cfgs = list(corpus)
    while len(cfgs) < ncfg:
        cfgs.append(gens.handler_config(rng, max_ranks=6 if quick else 12, max_extent=6 if quick else 9))
    for (N, nprocs, layouts) in cfgs:
        n = len(layouts)
        allpairs = [(i, j) for i in range(n) for j in range(n) if i != j] + [(0, 0)]
        rng.shuffle(allpairs)
        keep = allpairs if (not quick or len(allpairs) <= 14) else allpairs[:14]
        pairs = [(i, j, rng.random() < 0.5, rng.choice('ffci')) for (i, j) in keep]
        # the handler must be stateless: repeat ordered pairs on the same handler object, buffered first
        # (multi-step routes included), then again with and without a buffer
        rep = [pr for pr in keep if pr[0] != pr[1]]
        rng.shuffle(rep)
        for (i, j) in rep[:6]:
            pairs += [(i, j, True, 'f'), (i, j, True, rng.choice('fci')), (i, j, False, 'f')]
        cases.append((N, nprocs, layouts, pairs, rng.randrange(10 ** 6)))
    return cases


def stratum(N, nprocs, layouts, si, di, use_buf, route_len):
    src = layouts[si]
    div = []
    for a, p in enumerate(nprocs):
        if p > 1:
            n = N[src[a]]
            div.append('eq' if n == p else 'div' if n % p == 0 else 'uneven')
    lead1 = 'lead1' if nprocs[0] == 1 and any(p > 1 for p in nprocs) else ''
    return '%dd:steps%d:%s:%s%s' % (len(N), route_len, '+'.join(sorted(set(div))) or 'serial', 'buf' if use_buf else 'nobuf', ':' + lead1 if lead1 else '')


def run():
    chk = core.Check('C01', 'proof')
    proof = core.proof_stage('C01')
    cases = gen(chk)
    impl = implrun.run_cases('props.c01', 'impl_case', cases, tmo=150.0, chunk=1)
    mlines = []
    mkeys = []
    rok_lines = []
    rok_keys = []
    for ci, (c, r) in enumerate(zip(cases, impl)):
        N, nprocs, layouts, pairs, seed = c
        if r[0] != 'ok':
            continue
        res = r[1]
        routes = res[0]['routes']
        # certificate: every route of the handler's own route map must be acceptable to the theorem
        for a in routes:
            for b in routes[a]:
                rt = [layouts[int(x[1:])] for x in routes[a][b]]
                rok_lines.append('rok %s | %s | %s | %s' % (' '.join(map(str, N)), ' '.join(map(str, nprocs)),
                                                           ' '.join(map(str, layouts[int(a[1:])])),
                                                           ' / '.join(' '.join(map(str, l)) for l in rt)))
                rok_keys.append((ci, a, b, routes[a][b]))
        for pi_, (si, di, use_buf, dt) in enumerate(pairs):
            if si == di:
                continue
            rt = [layouts[int(x[1:])] for x in routes['L%d' % si]['L%d' % di]]
            bufs = ' ; '.join(' '.join(map(str, res[rk]['out'][pi_]['srcblock'])) for rk in range(len(res)))
            mlines.append('troute %s | %s | %s | %s ; %s' % (' '.join(map(str, N)), ' '.join(map(str, nprocs)),
                                                            ' '.join(map(str, layouts[si])),
                                                            ' / '.join(' '.join(map(str, l)) for l in rt), bufs))
            mkeys.append((ci, pi_))
    # whole-memory model: complete source / dest / buf arrays of every rank after the transpose (frame theorems
    # c01_run_step_frame / c01_run_route_frame), and the certificate that every step stays inside bufferSize
    flines, fkeys, eok_lines, eok_keys = [], [], [], []
    for ci, (c, r) in enumerate(zip(cases, impl)):
        N, nprocs, layouts, pairs, seed = c
        if r[0] != 'ok':
            continue
        res = r[1]
        routes = res[0]['routes']
        bss = [res[rk]['bs'] for rk in range(len(res))]          # bufferSize is a per-process quantity
        for pi_, (si, di, use_buf, dt) in enumerate(pairs):
            if any('mem' not in res[rk]['out'][pi_] for rk in range(len(res))):
                continue
            rt = [] if si == di else [layouts[int(x[1:])] for x in routes['L%d' % si]['L%d' % di]]
            head = '%s | %s | %s | %s' % (' '.join(map(str, N)), ' '.join(map(str, nprocs)), ' '.join(map(str, layouts[si])),
                                          ' / '.join(' '.join(map(str, l)) for l in rt))
            srcs = ' ; '.join(' '.join(map(str, res[rk]['out'][pi_]['srcblock'] + [-7] * (bss[rk] - len(res[rk]['out'][pi_]['srcblock']))))
                              for rk in range(len(res)))
            dsts = ' ; '.join(' '.join(['-8'] * bss[rk]) for rk in range(len(res)))
            bufs = ' ; '.join(' '.join(['-9'] * bss[rk]) for rk in range(len(res)))
            flines.append('mtr %s | %d 0 ; %s ;; %s ;; %s' % (head, 1 if use_buf else 0, srcs, dsts, bufs))
            fkeys.append((ci, pi_))
            if rt:
                eok_lines.append('mok %s | %s' % (head, ' '.join(map(str, bss))))
                eok_keys.append((ci, pi_))
    # certificate: every step of every route of the handler's route map joins two layouts the constructor paired
    # (route_enum_b, the hypothesis of c01_route_within_buffer); and handler_bufsize (hbuf) = bufferSize on every rank
    en_lines, en_keys = [], []
    for (ci, a, b, route) in rok_keys:
        N, nprocs, layouts, pairs, seed = cases[ci]
        rt = [layouts[int(x[1:])] for x in route]
        en_lines.append('renum %s | %s | %s | %s' % (' '.join(map(str, nprocs)), ' / '.join(' '.join(map(str, l)) for l in layouts),
                                                    ' '.join(map(str, layouts[int(a[1:])])), ' / '.join(' '.join(map(str, l)) for l in rt)))
        en_keys.append((ci, a, b, route))
    for (ci, a, b, route), ok in zip(en_keys, core.model_parallel(en_lines)):
        chk.cov['certificates_checked'] += 1
        if ok != '1':
            N, nprocs, layouts, pairs, seed = cases[ci]
            chk.violation('layout.LayoutHandler:route-step-not-an-enumerated-pair',
                          'N=%r nprocs=%r layouts=%r: route %s->%s = %r has a step between layouts the constructor did not pair'
                          % (N, nprocs, layouts, a, b, route),
                          {'kind': 'certificate', 'theorem': 'c01_route_within_buffer (route_enum_b)', 'case': [N, nprocs, layouts], 'route': [a, b, route]},
                          no_input=True)
    hb_lines, hb_keys = [], []
    for ci, (c, r) in enumerate(zip(cases, impl)):
        if r[0] != 'ok':
            continue
        N, nprocs, layouts, pairs, seed = c
        for rk in range(len(r[1])):
            hb_lines.append('hbuf %s | %s | %s | %d' % (' '.join(map(str, N)), ' '.join(map(str, nprocs)),
                                                       ' / '.join(' '.join(map(str, l)) for l in layouts), rk))
            hb_keys.append((ci, rk))
    for (ci, rk), m in zip(hb_keys, core.model_parallel(hb_lines)):
        chk.cov['certificates_checked'] += 1
        if m != str(impl[ci][1][rk]['bs']):
            N, nprocs, layouts, pairs, seed = cases[ci]
            chk.violation('layout.LayoutHandler.__init__:bufferSize-differs-from-handler_bufsize',
                          'N=%r nprocs=%r layouts=%r: rank %d has bufferSize %r, handler_bufsize gives %s'
                          % (N, nprocs, layouts, rk, impl[ci][1][rk]['bs'], m),
                          {'kind': 'correspondence', 'theorem': 'handler_bufsize (C02) / c01_route_within_buffer', 'case': [N, nprocs, layouts]},
                          no_input=True)
    fres = dict(zip(fkeys, core.model_parallel(flines)))
    eres = dict(zip(eok_keys, core.model_parallel(eok_lines)))
    mres = dict(zip(mkeys, core.model_parallel(mlines)))
    rres = core.model_parallel(rok_lines)
    for (ci, a, b, route), ok in zip(rok_keys, rres):
        chk.cov['certificates_checked'] += 1
        if ok != '1':
            N, nprocs, layouts, pairs, seed = cases[ci]
            chk.violation('layout.LayoutHandler:route-not-valid',
                          'config N=%r nprocs=%r layouts=%r: route %s->%s = %r has a step that is not a single compatible swap'
                          % (N, nprocs, layouts, a, b, route),
                          {'kind': 'certificate', 'theorem': 'c01_route_correct (route_ok_b)', 'case': [N, nprocs, layouts], 'route': [a, b, route]},
                          no_input=True)
    for ci, (c, r) in enumerate(zip(cases, impl)):
        N, nprocs, layouts, pairs, seed = c
        if r[0] != 'ok':
            chk.count((N, nprocs, layouts), stratum='failed-run', sample={'N': N, 'nprocs': nprocs, 'layouts': layouts, 'result': list(r)})
            key = 'layout.LayoutHandler:%s' % r[1]
            chk.violation(key, 'config N=%r nprocs=%r layouts=%r pairs=%r: run outcome %s %s' % (N, nprocs, layouts, pairs, r[1], r[2]),
                          {'kind': 'impl', 'case': [N, nprocs, layouts, pairs, seed], 'observed': list(r)})
            continue
        res = r[1]
        routes = res[0]['routes']
        for pi_, (si, di, use_buf, dt) in enumerate(pairs):
            rl = 0 if si == di else len(routes['L%d' % si]['L%d' % di])
            st = stratum(N, nprocs, layouts, si, di, use_buf, rl)
            chk.count((N, nprocs, layouts[si], layouts[di], use_buf, dt), nontrivial=(si != di and len(res) > 1), stratum=st,
                      sample={'N': N, 'nprocs': nprocs, 'source': layouts[si], 'dest': layouts[di], 'buffer': use_buf, 'dtype': dt, 'route_steps': rl})
            bad = None
            for rk in range(len(res)):
                o = res[rk]['out'][pi_]
                if o['dest'] != o['expect'] or not o['cplx_ok']:
                    bad = 'rank %d holds %r in the destination block, the global field there is %r' % (rk, o['dest'][:12], o['expect'][:12])
                    break
                if use_buf and not o['src_same']:
                    bad = 'rank %d: source block modified although a spare buffer was supplied' % rk
                    break
            if bad:
                chk.violation('layout.LayoutHandler.transpose:wrong-data',
                              'N=%r nprocs=%r %r -> %r buffer=%s dtype=%s: %s' % (N, nprocs, layouts[si], layouts[di], use_buf, dt, bad),
                              {'kind': 'impl', 'case': [N, nprocs, layouts, [[si, di, use_buf, dt]], seed], 'what': bad})
                continue
            if si != di:
                m = mres[(ci, pi_)]
                got = ' ; '.join(' '.join(map(str, res[rk]['out'][pi_]['dest'])) for rk in range(len(res)))
                if ' '.join(m.split()) != ' '.join(got.split()):
                    chk.cov['disagreements_checked'] += 1
                    chk.violation('layout.LayoutHandler.transpose:model-mismatch',
                                  'N=%r nprocs=%r %r -> %r: implementation matches the global field but the model run_route differs (%s)'
                                  % (N, nprocs, layouts[si], layouts[di], m[:80]),
                                  {'kind': 'correspondence', 'theorem': 'c01_route_correct / run_route', 'case': [N, nprocs, layouts, [[si, di, use_buf, dt]], seed]},
                                  no_input=True)
    frame_cmp = 0
    for (ci, pi_), m in fres.items():
        N, nprocs, layouts, pairs, seed = cases[ci]
        si, di, use_buf, dt = pairs[pi_]
        res = impl[ci][1]
        if any(res[rk]['out'][pi_]['dest'] != res[rk]['out'][pi_]['expect'] for rk in range(len(res))):
            continue            # reported above as wrong data
        frame_cmp += 1
        groups = [g.strip() for g in m.split(';;')]
        for gi, nm in enumerate(('source', 'dest', 'buf')):
            if nm == 'buf' and not use_buf:
                continue
            got = ' ; '.join(' '.join(map(str, res[rk]['out'][pi_]['mem'][gi])) for rk in range(len(res)))
            if len(groups) != 3 or groups[gi].split() != got.split():
                chk.cov['disagreements_checked'] += 1
                chk.violation('layout.LayoutHandler.transpose:%s-array-differs-from-memory-model' % nm,
                              'N=%r nprocs=%r %r -> %r buffer=%s: the %s arrays after the transpose are %s, the whole-memory model '
                              '(mh_transpose) gives %s' % (N, nprocs, layouts[si], layouts[di], use_buf, nm, got[:200], (groups[gi] if len(groups) == 3 else m)[:200]),
                              {'kind': 'correspondence', 'theorem': 'c01_run_step_frame / c01_run_route_frame (mh_transpose)',
                               'case': [N, nprocs, layouts, [[si, di, use_buf, dt]], seed]}, no_input=True)
                break
    for (ci, pi_), ok in eres.items():
        chk.cov['certificates_checked'] += 1
        if ok != '1':
            N, nprocs, layouts, pairs, seed = cases[ci]
            si, di, use_buf, dt = pairs[pi_]
            chk.violation('layout.LayoutHandler:step-extent-exceeds-bufferSize',
                          'N=%r nprocs=%r %r -> %r: a step of the route needs more cells than bufferSize=%r (mh_route_ok false)'
                          % (N, nprocs, layouts[si], layouts[di], [x['bs'] for x in impl[ci][1]]),
                          {'kind': 'certificate', 'theorem': 'c01_run_route_frame (mh_route_ok with E = bufferSize)',
                           'case': [N, nprocs, layouts, [[si, di, use_buf, dt]], seed]}, no_input=True)
    # cross-check of the extraction on two small cases inside Coq
    vals = core.coq_eval(['run_step nat 99 [2; 3] [2] [0; 1] [1; 0] 1 [[0; 1; 2]; [3; 4; 5]]',
                          'run_step nat 99 [3; 2] [1; 2] [0; 1] [1; 0] 1 [[0; 1; 2; 3; 4; 5]; [0; 1; 2; 3; 4; 5]]'],
                         'From Coq Require Import List. Import ListNotations. From PGV Require Import TransposeExec.', tag='c01')
    m2 = core.model(['troute 2 3 | 2 | 0 1 | 1 0 ; 0 1 2 ; 3 4 5', 'troute 3 2 | 1 2 | 0 1 | 1 0 ; 0 1 2 3 4 5 ; 0 1 2 3 4 5'])
    for v, m in zip(vals, m2):
        if v.replace('[', '').replace(']', ' ;').replace(';', ' ').split() != m.replace(';', ' ').split():
            raise core.BrokenCheck('extraction and vm_compute disagree: %s vs %s' % (v, m))
    chk.assumptions += ['numpy view/reshape/transpose/slice assignment semantics (read into gather form in TransposeStep.v)',
                        'simulated MPI Alltoall: equal chunks by rank',
                        'the whole-memory model composes pack / Alltoall / unpack with the same array arguments as _transpose and '
                        '_transpose_source_intact; the complete source / dest / buf arrays are compared with it on every case small enough']
    return chk.finish(proof, extra={'whole_array_comparisons': frame_cmp},
                      rule='corpus (incl. the repaired [4,5,7,8]/(1,3) case) + seeded random accepted handler configurations of rank 2-4, '
                           'extents 1-%d, <=%d ranks, 2-5 layouts; every ordered pair (capped in quick), buffer or not, float/complex/int; '
                           'non-trivial = different layouts on more than one rank; distinct = (shape, grid, source, dest, buffer, dtype)'
                           % (6 if chk.tier == 'quick' else 9, 6 if chk.tier == 'quick' else 12),
                      uncovered=['the routes themselves are taken from the handler (certificate validated by route_ok_b); that every pair the handler connects directly is acceptable is proved (c01_compatible_step_ok)',
                                 'reads: that pack / Alltoall / unpack only read below the extent is visible in the model (data positions, unpack_addr_facts) but not stated as a separate read-frame theorem',
                                 'fast path (whole-buffer transpose) = per-rank unpack: covered by the differential strata div/eq, not a separate theorem'])


def replay(path):
    core.setup_paths()
    body = json.load(open(path))
    c = body['replay']['case']
    if len(c) == 3:
        n = len(c[2])
        c = [c[0], c[1], c[2], [[i, j, False, 'f'] for i in range(n) for j in range(n) if i != j], 1]
    r = impl_case((c[0], c[1], c[2], [tuple(p) for p in c[3]], c[4]))
    if r[0] != 'ok':
        print('run outcome', r)
        return 1
    bad = 0
    for pi_, p in enumerate(c[3]):
        for rk, res in enumerate(r[1]):
            o = res['out'][pi_]
            if o['dest'] != o['expect'] or (p[2] and not o['src_same']):
                bad += 1
                print('pair', p, 'rank', rk, 'dest', o['dest'][:16], 'expected', o['expect'][:16], 'source intact', o['src_same'])
    print('replayed %d transposes, %d wrong' % (len(c[3]), bad))
    return 1 if bad else 0
