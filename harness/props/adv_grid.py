"""
Grid-level entry points of the advection operators on distributed layouts (shared by C10, C11, C12).

The per-surface kernels and methods are tied to the models on single-process objects; what those objects cannot show
is the glue between an operator and the layout it is handed: which global r, v, z a local index stands for when the
block of a rank does not start at 0, and state kept between two entry points of the same object.  Here everything
fullSimulation.py builds (harness/simdriver.Sim, real classes, simulated MPI, every admissible process grid) is set to
a field that is a function of the GLOBAL index, one grid-level entry point (or a sequence of two on the same object)
is applied on every rank, and the assembled global result must be bitwise the result of the single-process run:
each line is processed by the same kernel on the same numbers whatever the decomposition (Props/C05: decomposition_free).
A rotational transform that depends on r is used so that a wrong radius changes bits; the field and the potential are
pseudo-random functions of the global index so that a wrong velocity or z plane does.
"""
import random
import warnings

import numpy as np

import implrun

OPS = {
    'flux': ('FluxSurfaceAdvection', ['gridStep']),
    'vpar': ('VParallelAdvection', ['gridStep', 'gridStepKeepGradient']),
    'pol': ('PoloidalAdvection', ['gridStep', 'gridStep_SplinesUnchanged']),
    'pol-impl': ('PoloidalAdvection', ['gridStep', 'gridStep_SplinesUnchanged']),
}


def grid_entry_case(c):
    from mpi4py import MPI
    import simdriver
    op, npts, nprocs, seed, extra = c

    def work(comm):
        warnings.simplefilter('ignore')
        ex = dict(extra)
        ex.setdefault('iota_slope', 0.07)
        S = simdriver.Sim(comm, npts, nprocs, iota=0.8, dt=1.5, extra=ex, pol_explicit=(op != 'pol-impl'))     # half step 0.75: no factor is 1
        f, phi = S.f, S.phi
        out = []
        checks = {}
        if op == 'flux':
            f.setLayout('flux_surface')
            S.set_f(salt=seed)
            S.fluxAdv.gridStep(f)
            out.append(simdriver.block_info(f))
            S.fluxAdv.gridStep(f)                      # the same object again (tables must not have been consumed)
            out.append(simdriver.block_info(f))
        elif op == 'vpar':
            f.setLayout('v_parallel')
            S.set_f(salt=seed)
            S.set_phi('v_parallel_1d', salt=seed + 1, scale=4.0)
            f0 = np.array(f.getAllData(), copy=True)
            S.vParAdv.gridStep(f, phi, S.parGrad, S.parGradVals, S.half)
            out.append(simdriver.block_info(f))
            # what gridStep leaves in the caller's array is the parallel gradient itself (gridStepKeepGradient relies on it):
            # compare with the gradient computed into a fresh array, and the step with line-by-line step() calls
            L = f.getLayout(f.currentLayout)
            fresh = np.empty_like(S.parGradVals)
            ref = np.array(f0, copy=True)
            zStart = int(L.starts[1])
            for i, r in f.getCoords(0):
                S.parGrad.parallel_gradient(np.real(phi.get2DSlice(i)), i, fresh[i])
                for j in range(ref.shape[1]):
                    for k in range(ref.shape[2]):
                        S.vParAdv.step(ref[i, j, k], S.half, fresh[i, zStart + j, k], r)
            checks['gradient_kept'] = bool(np.array_equal(fresh, S.parGradVals))
            checks['gridStep_is_linewise_step'] = bool(np.array_equal(ref, f.getAllData()))
            S.vParAdv.gridStepKeepGradient(f, S.parGradVals, S.full)
            for i, r in f.getCoords(0):
                for j in range(ref.shape[1]):
                    for k in range(ref.shape[2]):
                        S.vParAdv.step(ref[i, j, k], S.full, fresh[i, zStart + j, k], r)
            checks['gridStepKeepGradient_is_linewise_step'] = bool(np.array_equal(ref, f.getAllData()))
            out.append(simdriver.block_info(f))
        else:
            f.setLayout('poloidal')
            S.set_f(salt=seed)
            # implicit scheme: a small potential (the iteration is a contraction, see the C12 finding)
            S.set_phi('poloidal', salt=seed + 1, scale=(1.0 if op == 'pol' else 1e-3))
            f0 = np.array(f.getAllData(), copy=True)
            S.polAdv.gridStep(f, phi, S.half)
            out.append(simdriver.block_info(f))
            S.polAdv.gridStep_SplinesUnchanged(f, S.full)
            out.append(simdriver.block_info(f))
            # the scratch arrays of the operator are scratch: with every float work array of the object replaced by a fresh,
            # separate one the same two calls must give the same bits (two stages sharing storage change the scheme)
            after = np.array(f.getAllData(), copy=True)
            shape2 = tuple(S.polAdv._nPoints)
            renewed = 0
            for name, val in list(vars(S.polAdv).items()):
                if isinstance(val, np.ndarray) and val.dtype == np.float64 and tuple(val.shape) == shape2:
                    setattr(S.polAdv, name, np.full(shape2, np.nan))
                    renewed += 1
            f.getAllData()[:] = f0
            S.polAdv.gridStep(f, phi, S.half)
            S.polAdv.gridStep_SplinesUnchanged(f, S.full)
            checks['independent_of_scratch_storage'] = bool(renewed >= 4 and np.array_equal(after, f.getAllData()))
        return [{'dims': b['dims'], 'starts': b['starts'], 'shape': b['shape'], 'data': b['data'].tobytes().hex(),
                 'dtype': str(b['data'].dtype), 'checks': checks} for b in out]
    R = MPI.run(nprocs[0] * nprocs[1], work, seed=seed, timeout=900)
    if R.outcome != 'ok':
        return ('fail', R.outcome, R.detail[:500])
    return ('ok', R.results)


def _assemble(results, k, npts):
    import simdriver
    blocks = []
    for res in results:
        b = res[k]
        blocks.append({'dims': b['dims'], 'starts': b['starts'], 'shape': b['shape'],
                       'data': np.frombuffer(bytes.fromhex(b['data']), dtype=b['dtype']).reshape(b['shape'])})
    return simdriver.assemble(blocks, npts)


def stage(chk, ops, extra=None):
    """serial-vs-distributed bitwise comparison of the grid-level entry points `ops` (keys of OPS)"""
    quick = chk.tier == 'quick'
    rng = random.Random(chk.seed + 77)
    shapes = [[8, 8, 8, 8]] if quick else [[8, 8, 8, 8], [9, 7, 8, 10], [6, 9, 10, 8]]
    grids = [(2, 1), (1, 2), (2, 2), (3, 2)] if quick else [(2, 1), (1, 2), (3, 1), (1, 3), (2, 2), (3, 2), (2, 3), (4, 2), (5, 1), (1, 5)]
    cases = []
    for op in ops:
        for npts in shapes:
            seed = rng.randrange(1000)
            cases.append((op, npts, (1, 1), seed, dict(extra or {})))
            for g in grids:
                if g[0] <= min(npts[0], npts[3]) and g[1] <= min(npts[2], npts[3]):
                    cases.append((op, npts, g, seed, dict(extra or {})))
        # one radius / one z plane per process (extent equal to the process count: local extents of 1)
        seed = rng.randrange(1000)
        cases.append((op, [7, 8, 7, 8], (1, 1), seed, dict(extra or {})))
        cases.append((op, [7, 8, 7, 8], (7, 1), seed, dict(extra or {})))
        cases.append((op, [7, 8, 7, 8], (1, 7), seed, dict(extra or {})))
    res = implrun.run_cases('props.adv_grid', 'grid_entry_case', cases, tmo=1200.0, chunk=1)
    ref = {}
    for c, r in zip(cases, res):
        op, npts, g, seed, ex = c
        cls, entries = OPS[op]
        rep = {'kind': 'grid-entry', 'case': [op, npts, list(g), seed, ex]}
        if not isinstance(r, tuple) or r[0] != 'ok':
            chk.violation('advection.%s.gridStep:run' % cls, '%s grid-level entry points on process grid %r: %r' % (cls, g, r), rep)
            continue
        failed = sorted(set(k for res in r[1] for k, v in res[0].get('checks', {}).items() if not v))
        if failed:
            chk.violation('advection.%s:%s' % (cls, failed[0]), '%s on process grid %r (npts %r): %s does not hold (gridStep / gridStepKeepGradient are the line-by-line '
                          'application of step() with the parallel gradient of the potential, which the array handed to gridStep holds afterwards; '
                          'the result does not depend on which memory the scratch arrays of the operator occupy)' % (cls, g, npts, ', '.join(failed)),
                          dict(rep, failed=failed))
        if g == (1, 1):
            ref[(op, tuple(npts))] = [_assemble(r[1], k, npts)[0] for k in range(len(entries) if op != 'flux' else 2)]
            continue
        base = ref.get((op, tuple(npts)))
        if base is None:
            continue
        for k in range(len(base)):
            name = entries[min(k, len(entries) - 1)] + (' (second call)' if op == 'flux' and k == 1 else '')
            chk.count(('grid-entry', op, tuple(npts), g, k), stratum='grid-entry/%s/%s' % (op, name.split(' ')[0]),
                      sample={'npts': npts, 'process_grid': list(g), 'entry': name})
            full, cnt = _assemble(r[1], k, npts)
            if not (cnt == 1).all():
                chk.violation('advection.%s.%s:coverage' % (cls, name.split(' ')[0]), 'blocks do not tile the global array', rep)
                break
            if full.tobytes() != base[k].tobytes():
                diff = np.argwhere(full != base[k])
                where = diff[0].tolist() if len(diff) else None
                chk.violation('advection.%s.%s:decomposition' % (cls, name.split(' ')[0]),
                              '%s.%s on process grid %r (npts %r): %d cells differ from the single-process result, first at global '
                              'index (r,theta,z,v) = %r (max abs diff %.3g): a local index stands for the wrong global r / v / z, or '
                              'state of the object differs between ranks'
                              % (cls, name, g, npts, len(diff), where, float(np.max(np.abs(full - base[k])))), dict(rep, entry=name))
                break


def replay_case(case):
    """re-run one recorded case together with its single-process reference; returns True when they agree bitwise"""
    op, npts, g, seed, ex = case
    a = grid_entry_case((op, npts, (1, 1), seed, ex))
    b = grid_entry_case((op, npts, tuple(g), seed, ex))
    if a[0] != 'ok' or b[0] != 'ok':
        return False, (a if a[0] != 'ok' else b)
    failed = sorted(set(k for res in b[1] for k, v in res[0].get('checks', {}).items() if not v))
    if failed:
        return False, 'checks failed: %s' % ', '.join(failed)
    n = len(a[1][0])
    for k in range(n):
        if _assemble(a[1], k, npts)[0].tobytes() != _assemble(b[1], k, npts)[0].tobytes():
            return False, 'entry %d differs' % k
    return True, 'bitwise equal'
