"""
Grid-level entry points of the advection operators on distributed layouts (shared by C10, C11, C12).

The per-surface kernels and methods are tied to the models on single-process objects; what those objects cannot show
is the glue between an operator and the layout it is handed: which global r, v, z a local index stands for when the
block of a rank does not start at 0, and state kept between two entry points of the same object.  Here everything
fullSimulation.py builds (harness/simdriver.Sim, real classes, simulated MPI, every admissible process grid) is set to
a field that is a function of the GLOBAL index, one grid-level entry point (or a sequence of two on the same object)
is applied on every rank, and the assembled global result must be bitwise the result of the single-process run:
each line is processed by the same kernel on the same numbers whatever the decomposition (Props/C05: decomposition_free).
A rotational transform that depends on r is used so that a wrong radius changes bits; the field and the potential are
pseudo-random functions of the global index so that a wrong velocity or z plane does.
"""
import random
import warnings

import numpy as np

import implrun

OPS = {
    'flux': ('FluxSurfaceAdvection', ['gridStep']),
    'vpar': ('VParallelAdvection', ['gridStep', 'gridStepKeepGradient']),
    'pol': ('PoloidalAdvection', ['gridStep', 'gridStep_SplinesUnchanged']),
    'pol-impl': ('PoloidalAdvection', ['gridStep', 'gridStep_SplinesUnchanged']),
}


def grid_entry_case(c):
    from mpi4py import MPI
    import simdriver
    op, npts, nprocs, seed, extra = c

    def work(comm):
        warnings.simplefilter('ignore')
        ex = dict(extra)
        ex.setdefault('iota_slope', 0.07)
        S = simdriver.Sim(comm, npts, nprocs, iota=0.8, extra=ex, pol_explicit=(op != 'pol-impl'))
        f, phi = S.f, S.phi
        out = []
        if op == 'flux':
            f.setLayout('flux_surface')
            S.set_f(salt=seed)
            S.fluxAdv.gridStep(f)
            out.append(simdriver.block_info(f))
            S.fluxAdv.gridStep(f)                      # the same object again (tables must not have been consumed)
            out.append(simdriver.block_info(f))
        elif op == 'vpar':
            f.setLayout('v_parallel')
            S.set_f(salt=seed)
            S.set_phi('v_parallel_1d', salt=seed + 1, scale=4.0)
            S.vParAdv.gridStep(f, phi, S.parGrad, S.parGradVals, S.half)
            out.append(simdriver.block_info(f))
            S.vParAdv.gridStepKeepGradient(f, S.parGradVals, S.full)
            out.append(simdriver.block_info(f))
        else:
            f.setLayout('poloidal')
            S.set_f(salt=seed)
            # implicit scheme: a small potential (the iteration is a contraction, see the C12 finding)
            S.set_phi('poloidal', salt=seed + 1, scale=(1.0 if op == 'pol' else 1e-3))
            S.polAdv.gridStep(f, phi, S.half)
            out.append(simdriver.block_info(f))
            S.polAdv.gridStep_SplinesUnchanged(f, S.full)
            out.append(simdriver.block_info(f))
        return [{'dims': b['dims'], 'starts': b['starts'], 'shape': b['shape'], 'data': b['data'].tobytes().hex(),
                 'dtype': str(b['data'].dtype)} for b in out]
    R = MPI.run(nprocs[0] * nprocs[1], work, seed=seed, timeout=900)
    if R.outcome != 'ok':
        return ('fail', R.outcome, R.detail[:500])
    return ('ok', R.results)


def _assemble(results, k, npts):
    import simdriver
    blocks = []
    for res in results:
        b = res[k]
        blocks.append({'dims': b['dims'], 'starts': b['starts'], 'shape': b['shape'],
                       'data': np.frombuffer(bytes.fromhex(b['data']), dtype=b['dtype']).reshape(b['shape'])})
    return simdriver.assemble(blocks, npts)


def stage(chk, ops, extra=None):
    """serial-vs-distributed bitwise comparison of the grid-level entry points `ops` (keys of OPS)"""
    quick = chk.tier == 'quick'
    rng = random.Random(chk.seed + 77)
    shapes = [[8, 8, 8, 8]] if quick else [[8, 8, 8, 8], [9, 7, 8, 10], [6, 9, 10, 8]]
    grids = [(2, 1), (1, 2), (2, 2), (3, 2)] if quick else [(2, 1), (1, 2), (3, 1), (1, 3), (2, 2), (3, 2), (2, 3), (4, 2), (5, 1), (1, 5)]
    cases = []
    for op in ops:
        for npts in shapes:
            seed = rng.randrange(1000)
            cases.append((op, npts, (1, 1), seed, dict(extra or {})))
            for g in grids:
                if g[0] <= min(npts[0], npts[3]) and g[1] <= min(npts[2], npts[3]):
                    cases.append((op, npts, g, seed, dict(extra or {})))
    res = implrun.run_cases('props.adv_grid', 'grid_entry_case', cases, tmo=1200.0, chunk=1)
    ref = {}
    for c, r in zip(cases, res):
        op, npts, g, seed, ex = c
        cls, entries = OPS[op]
        rep = {'kind': 'grid-entry', 'case': [op, npts, list(g), seed, ex]}
        if not isinstance(r, tuple) or r[0] != 'ok':
            chk.violation('advection.%s.gridStep:run' % cls, '%s grid-level entry points on process grid %r: %r' % (cls, g, r), rep)
            continue
        if g == (1, 1):
            ref[(op, tuple(npts))] = [_assemble(r[1], k, npts)[0] for k in range(len(entries) if op != 'flux' else 2)]
            continue
        base = ref.get((op, tuple(npts)))
        if base is None:
            continue
        for k in range(len(base)):
            name = entries[min(k, len(entries) - 1)] + (' (second call)' if op == 'flux' and k == 1 else '')
            chk.count(('grid-entry', op, tuple(npts), g, k), stratum='grid-entry/%s/%s' % (op, name.split(' ')[0]),
                      sample={'npts': npts, 'process_grid': list(g), 'entry': name})
            full, cnt = _assemble(r[1], k, npts)
            if not (cnt == 1).all():
                chk.violation('advection.%s.%s:coverage' % (cls, name.split(' ')[0]), 'blocks do not tile the global array', rep)
                break
            if full.tobytes() != base[k].tobytes():
                diff = np.argwhere(full != base[k])
                where = diff[0].tolist() if len(diff) else None
                chk.violation('advection.%s.%s:decomposition' % (cls, name.split(' ')[0]),
                              '%s.%s on process grid %r (npts %r): %d cells differ from the single-process result, first at global '
                              'index (r,theta,z,v) = %r (max abs diff %.3g): a local index stands for the wrong global r / v / z, or '
                              'state of the object differs between ranks'
                              % (cls, name, g, npts, len(diff), where, float(np.max(np.abs(full - base[k])))), dict(rep, entry=name))
                break


def replay_case(case):
    """re-run one recorded case together with its single-process reference; returns True when they agree bitwise"""
    op, npts, g, seed, ex = case
    a = grid_entry_case((op, npts, (1, 1), seed, ex))
    b = grid_entry_case((op, npts, tuple(g), seed, ex))
    if a[0] != 'ok' or b[0] != 'ok':
        return False, (a if a[0] != 'ok' else b)
    n = len(a[1][0])
    for k in range(n):
        if _assemble(a[1], k, npts)[0].tobytes() != _assemble(b[1], k, npts)[0].tobytes():
            return False, 'entry %d differs' % k
    return True, 'bitwise equal'
