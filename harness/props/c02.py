"""
C02 - block decomposition, accessors, buffer sizes.  Proof: Props/C02.v (Blocks.v, Handler.v).
Tie: (a) ExprT - the start / max-shape expressions of Layout.__init__ are re-translated from the
current source and proved equal to the model for all n, p, k on every run; (b) exhaustive
differential of Layout's tables against the extracted model for all 1 <= p <= n <= box;
(c) random N-d layouts / process grids / ranks; (d) real LayoutHandler + Grid objects under
simulated MPI: buffer size vs model, accessors vs model and vs the partition, every transpose
run with arrays of exactly bufferSize.
"""
import ast
import json
import os
import random

import core
import exprt
import implrun
import gens


# ----------------------------------------------------------------------------- ExprT
def exprt_stage():
    """returns (ok, info)"""
    try:
        src = open(os.path.join(core.REPO, 'pygyro/model/layout.py')).read()
        fn = exprt.find_function(ast.parse(src), ['Layout', '__init__'])
        asg = exprt.simple_assignments(fn.body)
        env = {'n': 'n', 'nRanks': 'p', 'ranks': 'k'}
        lets = []
        start_e = None
        max_e = None
        for tgt, val in asg:
            if tgt in ('small_size', 'big_size', 'nBig'):
                lets.append((tgt, exprt.expr(val, dict(env, **{t: t for t, _ in lets}))))
            elif tgt == 'starts' and start_e is None and lets:
                start_e = exprt.expr(val, dict(env, **{t: t for t, _ in lets}))
            elif tgt == 'self._max_shape[i]':
                max_e = exprt.expr(val, dict(env, **{t: t for t, _ in lets}))
        if start_e is None or max_e is None:
            raise exprt.Untranslatable('start / max_shape expressions not found in Layout.__init__')
        # the loop must take n from the grid of the layout's own dimension and the rank's own entries
        need = {'n': 'len(eta_grids[dims_order[i]])', 'ranks': 'np.arange(0, nRanks + 1)',
                'self._starts[i]': 'starts[myRanks[i]]', 'self._ends[i]': 'starts[myRanks[i] + 1]',
                'self._shape[i]': 'self._ends[i] - self._starts[i]'}
        have = {t: ast.unparse(v) for t, v in asg}
        for t, v in need.items():
            if have.get(t) != v:
                raise exprt.Untranslatable('%s = %s (expected %s)' % (t, have.get(t), v))
    except (exprt.Untranslatable, SyntaxError, OSError) as e:
        return False, 'translation failed: %s' % e
    let_s = ' '.join('let %s := %s in' % (t, v) for t, v in lets)
    text = """From Coq Require Import ZArith Lia.
From PGV Require Import Blocks.
Open Scope Z_scope.
Ltac Zify.zify_post_hook ::= Z.to_euclidean_division_equations.
Definition start_src (n p k : Z) : Z := %s %s.
Definition maxshape_src (n p : Z) : Z := %s %s.
Lemma start_src_ok : forall n p k, 0 <= n -> 0 < p -> 0 <= k -> start_src n p k = bstartZ n p k.
Proof. intros n p k Hn Hp Hk. unfold start_src, bstartZ. cbv zeta. first [reflexivity | nia]. Qed.
Lemma maxshape_src_ok : forall n p, 0 <= n -> 0 < p -> maxshape_src n p = bmaxZ n p.
Proof. intros n p Hn Hp. unfold maxshape_src, bmaxZ. cbv zeta.
  first [reflexivity | (destruct (Z.ltb_spec 0 (n mod p)); destruct (Z.gtb_spec (n mod p) 0); lia)
        | (repeat match goal with |- context [if ?c then _ else _] => destruct c eqn:? end; lia)]. Qed.
Print Assumptions start_src_ok.
Print Assumptions maxshape_src_ok.
""" % (let_s, start_e, let_s, max_e)
    gen = os.path.join(core.COQ, 'gen')
    os.makedirs(gen, exist_ok=True)
    path = os.path.join(gen, 'ExprT_C02.v')
    open(path, 'w').write(text)
    rc, out, err = core.sh(['timeout', '120', 'coqc', '-Q', 'theories', 'PGV', '-w', '-deprecated', 'gen/ExprT_C02.v'], 150, cwd=core.COQ)
    if rc != 0:
        return False, 'lemma start_src_ok / maxshape_src_ok no longer proved for the translated source: ' + err[-400:]
    blocks = core.parse_assumptions(out)
    if len(blocks) != 2 or any(blocks):
        return False, 'unexpected assumptions %r' % (blocks,)
    return True, {'start_src': start_e, 'maxshape_src': max_e}


# ----------------------------------------------------------------------------- implementation side
def impl_tables(c):
    """1-D tables of one (n, p): mpi_starts+[n], mpi_lengths, max_block_shape and one rank's starts/ends/shape"""
    import numpy as np
    from pygyro.model.layout import Layout
    n, p, k = c
    L = Layout('x', [p], [0], [np.arange(n, dtype=float)], [k])
    return ([int(x) for x in L.mpi_starts(0)], [int(x) for x in L.mpi_lengths(0)], int(L.max_block_shape[0]),
            int(L.starts[0]), int(L.ends[0]), int(L.shape[0]), int(L.size), int(L.max_block_size))


def impl_layout(c):
    import numpy as np
    from pygyro.model.layout import Layout
    N, nprocs, dims, coords = c
    L = Layout('x', list(nprocs), list(dims), [np.arange(n, dtype=float) for n in N], list(coords))
    return ([int(x) for x in L.starts], [int(x) for x in L.ends], [int(x) for x in L.shape],
            [int(x) for x in L.max_block_shape], int(L.size), int(L.max_block_size), [int(x) for x in L.inv_dims_order],
            [int(x) for x in L.fullShape],
            [[int(x) for x in L.mpi_starts(i)] for i in range(len(dims))], [[int(x) for x in L.mpi_lengths(i)] for i in range(len(dims))])


def impl_handler(c):
    """real LayoutHandler + Grid on every simulated rank"""
    import numpy as np
    import warnings
    from mpi4py import MPI
    from pygyro.model.layout import getLayoutHandler
    from pygyro.model.grid import Grid
    N, nprocs, layouts, seed = c
    d = len(N)
    eta = [np.arange(n) * 0.5 + 1.0 + 10 * e for e, n in enumerate(N)]
    names = ['L%d' % i for i in range(len(layouts))]
    nranks = 1
    for p in nprocs:
        nranks *= p

    def gfield(l):
        idx = np.indices(l.shape)
        g = np.zeros(l.shape, dtype=float)
        for a in range(d):
            g = g * 16 + (idx[a] + l.starts[a] if False else 0)
        # value = global linear index in eta order
        gl = [None] * d
        for a in range(d):
            gl[l.dims_order[a]] = idx[a] + l.starts[a]
        v = np.zeros(l.shape, dtype=float)
        for e in range(d):
            v = v * N[e] + gl[e]
        return v

    def work(comm):
        rng = random.Random(seed * 1000 + comm.Get_rank())
        with warnings.catch_warnings():
            warnings.simplefilter('ignore')
            h = getLayoutHandler(comm, dict(zip(names, [list(x) for x in layouts])), list(nprocs), eta)
            out = {'coords': [int(x) for x in h.mpiCoords], 'bufsize': int(h.bufferSize), 'layouts': {}, 'acc': {}, 'tr': []}
            for nm in names:
                L = h.getLayout(nm)
                out['layouts'][nm] = ([int(x) for x in L.starts], [int(x) for x in L.ends], [int(x) for x in L.shape],
                                      [int(x) for x in L.max_block_shape], int(L.size), int(L.max_block_size))
                g = Grid(eta, [None] * d, h, nm, comm)
                acc = {}
                for i in range(d):
                    acc['gidx%d' % i] = [int(x) for x in g.getGlobalIdxVals(i)]
                    acc['coords%d' % i] = [(int(a), float(b)) for a, b in g.getCoords(i)]
                    acc['cvals%d' % i] = [float(x) for x in g.getCoordVals(i)]
                    acc['eta%d' % i] = [(int(a), float(b)) for a, b in g.getEta(i)]
                if all(s > 0 for s in L.shape):
                    loc = [rng.randrange(s) for s in L.shape]
                    acc['ggi'] = (loc, [int(x) for x in g.getGlobalIndices(*loc)])
                out['acc'][nm] = acc
            # every ordered pair with arrays of exactly bufferSize (numpy raises on any out-of-range view)
            bs = int(h.bufferSize)
            for a in names:
                for b in names:
                    if a == b:
                        continue
                    src = np.full(bs, -1.0)
                    dst = np.full(bs, -2.0)
                    la, lb = h.getLayout(a), h.getLayout(b)
                    src[:la.size] = gfield(la).reshape(-1)
                    h.transpose(src, dst, a, b)
                    ok = bool((dst[:lb.size].reshape(lb.shape) == gfield(lb)).all())
                    out['tr'].append((a, b, ok))
        return out
    R = MPI.run(nranks, work, seed=seed, timeout=60)
    if R.outcome != 'ok':
        return ('fail', R.outcome, R.detail[:300])
    return ('ok', R.results)


def impl_swapper(c):
    """LayoutSwapper (fullSimulation's grouping): the advertised bufferSize must be large enough for every layout's block and
    arrays of exactly that size must suffice for every transpose (gather, scatter, handler-internal), with and without a buffer"""
    import numpy as np
    import warnings
    from mpi4py import MPI
    from pygyro.model.layout import LayoutSwapper
    N, nprocs, seed = c
    eta = [np.arange(n, dtype=float) for n in N]
    names = ['v_parallel_2d', 'mode_solve', 'v_parallel_1d', 'poloidal']

    def gfield(l):
        idx = np.indices(l.shape)
        gl = [None] * 3
        for a in range(3):
            gl[l.dims_order[a]] = idx[a] + l.starts[a]
        v = np.zeros(l.shape, dtype=float)
        for e in range(3):
            v = v * N[e] + gl[e]
        return v

    def work(comm):
        with warnings.catch_warnings():
            warnings.simplefilter('ignore')
            sw = LayoutSwapper(comm, [{'v_parallel_2d': [0, 2, 1], 'mode_solve': [1, 2, 0]}, {'v_parallel_1d': [0, 2, 1]},
                                      {'poloidal': [2, 1, 0]}], [list(nprocs), nprocs[0], nprocs[1]], eta, 'mode_solve')
            bs = int(sw.bufferSize)
            out = {'bufsize': bs, 'sizes': {n: int(sw.getLayout(n).size) for n in names}, 'tr': []}
            for a in names:
                for b in names:
                    if a == b:
                        continue
                    for use_buf in (False, True):
                        la, lb = sw.getLayout(a), sw.getLayout(b)
                        src = np.full(bs, -1.0)
                        dst = np.full(bs, -2.0)
                        src[:la.size] = gfield(la).reshape(-1)
                        sw.transpose(src, dst, a, b, np.full(bs, -3.0) if use_buf else None)
                        out['tr'].append((a, b, use_buf, bool((dst[:lb.size].reshape(lb.shape) == gfield(lb)).all())))
            # accessors of grids that live on a swapper: they must follow the grid's own layout, whatever layout the swapper
            # (shared by several grids, or left elsewhere by a save / restore) handled last
            from pygyro.model.grid import Grid
            out['acc_bad'] = []

            def acc_check(g, tag):
                L = g.getLayout(g.currentLayout)
                for i in range(3):
                    if [int(x) for x in g.getGlobalIdxVals(i)] != list(range(int(L.starts[i]), int(L.ends[i]))):
                        out['acc_bad'].append('%s: getGlobalIdxVals(%d)' % (tag, i))
                    if [float(x) for x in g.getCoordVals(i)] != [float(x) for x in eta[L.dims_order[i]][L.starts[i]:L.ends[i]]]:
                        out['acc_bad'].append('%s: getCoordVals(%d)' % (tag, i))
                if all(n_ > 0 for n_ in L.shape):
                    loc = [n_ - 1 for n_ in L.shape]
                    exp = [None] * 3
                    for i in range(3):
                        exp[L.dims_order[i]] = loc[i] + int(L.starts[i])
                    got = [int(x) for x in g.getGlobalIndices(*loc)]
                    if got != exp:
                        out['acc_bad'].append('%s: getGlobalIndices%r = %r, expected %r' % (tag, tuple(loc), got, exp))
            for start in ('v_parallel_1d', 'poloidal', 'mode_solve'):
                sw2 = LayoutSwapper(comm, [{'v_parallel_2d': [0, 2, 1], 'mode_solve': [1, 2, 0]}, {'v_parallel_1d': [0, 2, 1]},
                                           {'poloidal': [2, 1, 0]}], [list(nprocs), nprocs[0], nprocs[1]], eta, start)
                g2 = Grid(eta, [None] * 3, sw2, 'v_parallel_2d', comm, allocateSaveMemory=True)      # grid layout != swapper's start layout
                acc_check(g2, 'grid on v_parallel_2d, swapper started on %s' % start)
                g3 = Grid(eta, [None] * 3, sw2, 'v_parallel_2d', comm)
                g3.setLayout('v_parallel_1d')                                                       # another grid moved last
                acc_check(g2, 'grid on v_parallel_2d after another grid of the same swapper moved to v_parallel_1d')
                acc_check(g3, 'second grid on v_parallel_1d')
                g2.saveGridValues()
                g2.setLayout('poloidal')
                acc_check(g2, 'after save and setLayout(poloidal)')
                g2.restoreGridValues()
                acc_check(g2, 'after restore to v_parallel_2d')
        return out
    R = MPI.run(nprocs[0] * nprocs[1], work, seed=seed, timeout=120)
    if R.outcome != 'ok':
        return ('fail', R.outcome, R.detail[:300])
    return ('ok', R.results)


# ----------------------------------------------------------------------------- check
def run():
    chk = core.Check('C02', 'proof')
    proof = core.proof_stage('C02')
    rng = random.Random(chk.seed)
    quick = chk.tier == 'quick'
    ok_t, info_t = exprt_stage()
    found_input = False

    # (b) exhaustive 1-D tables
    box = 64 if quick else 400
    cases = [(n, p, rng.randrange(p)) for n in range(1, box + 1) for p in range(1, n + 1)]
    impl = implrun.run_cases('props.c02', 'impl_tables', cases, tmo=5.0)
    mod = core.model_parallel(['starts %d %d' % (n, p) for n, p, k in cases])
    modm = core.model_parallel(['bmax %d %d' % (n, p) for n, p, k in cases])
    for (n, p, k), r, m, mm in zip(cases, impl, mod, modm):
        st = 'p=1' if p == 1 else 'p=n' if p == n else 'divisible' if n % p == 0 else 'uneven'
        chk.count((n, p), nontrivial=(p > 1), stratum='tables:' + st, sample={'n': n, 'p': p, 'rank': k, 'impl': r[:3] if r[0] != 'exc' else r})
        if r[0] in ('exc', 'timeout'):
            chk.violation('layout.Layout:exception', 'Layout(n=%d,p=%d) raised %r' % (n, p, r), {'kind': 'impl', 'case': [n, p, k], 'observed': list(r)})
            found_input = True
            continue
        starts, lens, mx, s, e, sh, sz, msz = r
        ms = [int(x) for x in m.split()]
        full = starts + [n]
        # direct oracle: tiling, balance, max, accessor consistency
        bad = None
        if full[0] != 0 or any(full[i] > full[i + 1] for i in range(p)) or lens != [full[i + 1] - full[i] for i in range(p)]:
            bad = 'blocks do not tile [0,n) in rank order: starts %r lengths %r' % (starts, lens)
        elif sum(lens) != n or (max(lens) - min(lens) > 1):
            bad = 'block lengths %r not a balanced partition of %d' % (lens, n)
        elif mx != max(lens):
            bad = 'max_block_shape %d but longest block %d' % (mx, max(lens))
        elif (s, e, sh) != (full[k], full[k + 1], full[k + 1] - full[k]) or sz != sh or msz != mx:
            bad = 'rank %d: starts/ends/shape/size (%d,%d,%d,%d,%d) disagree with table %r' % (k, s, e, sh, sz, msz, full)
        if bad:
            found_input = True
            chk.violation('layout.Layout:partition', 'n=%d p=%d: %s' % (n, p, bad),
                          {'kind': 'impl', 'case': [n, p, k], 'observed': [starts, lens, mx, s, e, sh], 'model_starts': ms})
        elif full != ms or mx != int(mm):
            chk.cov['disagreements_checked'] += 1
            chk.violation('layout.Layout:model-mismatch', 'n=%d p=%d: starts %r model %r (both valid partitions)' % (n, p, full, ms),
                          {'kind': 'correspondence', 'theorem': 'Blocks.bstart / c02_blocks_tile', 'case': [n, p, k],
                           'observed': full, 'model': ms}, no_input=True)

    # (c) random N-d layouts
    nrand = 400 if quick else 5000
    lcases = []
    for _ in range(nrand):
        d = rng.randint(2, 4)
        N = [rng.randint(1, 12) for _ in range(d)]
        dims = list(range(d))
        rng.shuffle(dims)
        nd = rng.randint(1, min(d, 3))
        nprocs = []
        for a in range(nd):
            n = N[dims[a]]
            nprocs.append(rng.choice([1, n, rng.randint(1, n), rng.randint(1, n)]))
        coords = [rng.randrange(p) for p in nprocs]
        lcases.append((N, nprocs, dims, coords))
    impl = implrun.run_cases('props.c02', 'impl_layout', lcases, tmo=5.0)
    mod = core.model_parallel(['layout %s | %s | %s | %s' % tuple(' '.join(map(str, x)) for x in c) for c in lcases])
    for c, r, m in zip(lcases, impl, mod):
        N, nprocs, dims, coords = c
        chk.count(c, nontrivial=any(p > 1 for p in nprocs), stratum='nd-layout:%dd' % len(N),
                  sample={'N': N, 'nprocs': nprocs, 'dims_order': dims, 'coords': coords, 'model': m})
        if r[0] in ('exc', 'timeout'):
            found_input = True
            chk.violation('layout.Layout:exception', 'Layout%r raised %r' % (c, r), {'kind': 'impl', 'case': list(c), 'observed': list(r)})
            continue
        parts = [x.split() for x in m.split('|')]
        mstarts, mends, mshape, mmax = ([int(x) for x in parts[i]] for i in range(4))
        msize, mmsize = int(parts[4][0]), int(parts[5][0])
        minv = [int(x) for x in parts[6]]
        got = (r[0], r[1], r[2], r[3], r[4], r[5], r[6])
        exp = (mstarts, mends, mshape, mmax, msize, mmsize, minv)
        # direct oracle on the implementation's own tables (independent of the model)
        bad = None
        d = len(N)
        np_full = list(nprocs) + [1] * (d - len(nprocs))
        co_full = list(coords) + [0] * (d - len(coords))
        for i in range(d):
            n = N[dims[i]]
            full = r[8][i] + [n]
            lens = r[9][i]
            if len(full) != np_full[i] + 1 or full[0] != 0 or lens != [full[j + 1] - full[j] for j in range(np_full[i])] \
                    or any(x < 0 for x in lens) or max(lens) - min(lens) > 1:
                bad = 'axis %d: mpi_starts %r / mpi_lengths %r are not a balanced tiling of %d' % (i, r[8][i], lens, n)
            elif (r[0][i], r[1][i], r[2][i]) != (full[co_full[i]], full[co_full[i] + 1], lens[co_full[i]]) or r[3][i] != max(lens):
                bad = 'axis %d: starts/ends/shape/max (%d,%d,%d,%d) disagree with the tables %r' % (i, r[0][i], r[1][i], r[2][i], r[3][i], full)
        prod = 1
        for x in r[2]:
            prod *= x
        mprod = 1
        for x in r[3]:
            mprod *= x
        if bad is None and (r[4] != prod or r[5] != mprod or r[7] != [N[e] for e in dims]
                            or [dims[i] for i in r[6]] != list(range(d))):
            bad = 'size/max_size/fullShape/inv_dims_order inconsistent: %r' % (r[4:8],)
        if bad:
            found_input = True
            chk.violation('layout.Layout:nd-tables', 'Layout%r: %s' % (c, bad),
                          {'kind': 'impl', 'case': list(c), 'observed': list(got), 'expected': list(exp)})
        elif got != exp:
            chk.cov['disagreements_checked'] += 1
            chk.violation('layout.Layout:nd-model-mismatch', 'Layout%r: tables %r, model %r (consistent balanced tiling)' % (c, got, exp),
                          {'kind': 'correspondence', 'theorem': 'Layouts.l_starts / c02_blocks_tile', 'case': list(c),
                           'observed': list(got), 'model': list(exp)}, no_input=True)

    # (d) real handlers + grids
    nh = 40 if quick else 400
    hcases = []
    for _ in range(nh):
        N, nprocs, layouts = gens.handler_config(rng, max_ranks=6 if quick else 12, max_extent=6 if quick else 8)
        hcases.append((N, nprocs, layouts, rng.randrange(10 ** 6)))
    impl = implrun.run_cases('props.c02', 'impl_handler', hcases, tmo=120.0, chunk=1)
    mlines = []
    mkeys = []
    for c, r in zip(hcases, impl):
        N, nprocs, layouts, seed = c
        if r[0] != 'ok':
            continue
        for rk, out in enumerate(r[1]):
            mlines.append('bufsize %s | %s | %s | %s' % (' '.join(map(str, N)), ' '.join(map(str, nprocs)),
                                                        ' '.join(map(str, out['coords'])),
                                                        ' ; '.join(' '.join(map(str, l)) for l in layouts)))
            mkeys.append((hcases.index(c), rk))
    mb = dict(zip(mkeys, core.model_parallel(mlines)))
    for ci, (c, r) in enumerate(zip(hcases, impl)):
        N, nprocs, layouts, seed = c
        d = len(N)
        chk.count((N, nprocs, layouts), nontrivial=any(p > 1 for p in nprocs), stratum='handler:%dd:%dlayouts' % (d, len(layouts)),
                  sample={'N': N, 'nprocs': nprocs, 'layouts': layouts})
        if r[0] != 'ok':
            found_input = True
            chk.violation('layout.LayoutHandler:construct-or-transpose', 'config %r: %r' % (c, r), {'kind': 'impl', 'case': list(c), 'observed': list(r)})
            continue
        for rk, out in enumerate(r[1]):
            if int(mb[(ci, rk)]) != out['bufsize']:
                # is the implementation's size still sufficient?  (every transpose ran with exactly that size)
                suff = all(ok for _, _, ok in out['tr'])
                chk.violation('layout.LayoutHandler:bufferSize', 'config %r rank %d: bufferSize %d, model %s'
                              % (c, rk, out['bufsize'], mb[(ci, rk)]),
                              {'kind': 'correspondence' if suff else 'impl', 'theorem': 'c02_bufsize_pair / Handler.handler_bufsize',
                               'case': list(c), 'rank': rk, 'observed': out['bufsize'], 'model': mb[(ci, rk)]}, no_input=suff)
                found_input = found_input or not suff
            for a, b, ok in out['tr']:
                if not ok:
                    found_input = True
                    chk.violation('layout.LayoutHandler:transpose-with-exact-buffer',
                                  'config %r rank %d: transpose %s->%s with arrays of exactly bufferSize is wrong' % (c, rk, a, b),
                                  {'kind': 'impl', 'case': list(c), 'rank': rk, 'pair': [a, b]})
            for li, nm in enumerate(sorted(out['layouts'])):
                dims = layouts[int(nm[1:])]
                st, en, sh, mx, sz, msz = out['layouts'][nm]
                acc = out['acc'][nm]
                eta = [[k * 0.5 + 1.0 + 10 * e for k in range(n)] for e, n in enumerate(N)]
                bad = None
                for i in range(d):
                    e = dims[i]
                    if acc['gidx%d' % i] != list(range(st[i], en[i])):
                        bad = 'getGlobalIdxVals(%d)' % i
                    if acc['coords%d' % i] != [(k, eta[e][st[i] + k]) for k in range(sh[i])]:
                        bad = 'getCoords(%d)' % i
                    if acc['cvals%d' % i] != [eta[e][st[i] + k] for k in range(sh[i])]:
                        bad = 'getCoordVals(%d)' % i
                    ie = dims.index(i)
                    if acc['eta%d' % i] != [(k, eta[i][st[ie] + k]) for k in range(sh[ie])]:
                        bad = 'getEta(%d)' % i
                # the Coq model of the accessors (Accessors.v: c02_coord_vals, c02_get_eta) on the same layout, values as indices
                ma = core.model(['acc %s | %s | %s | %s' % (' '.join(map(str, N)), ' '.join(map(str, nprocs)), ' '.join(map(str, dims)),
                                                            ' '.join(map(str, out['coords'])))])[0]
                try:
                    m_ax, m_eta = ma.split(' || ')
                    m_ax = [[int(x) for x in t.split()] for t in m_ax.split(' ; ')] if d > 1 else [[int(x) for x in m_ax.split()]]
                    m_eta = [[tuple(int(y) for y in x.split(':')) for x in t.split()] for t in (m_eta.split(' ; ') if d > 1 else [m_eta])]
                except ValueError:
                    raise core.BrokenCheck('acc: model answers %r' % ma)
                for i in range(d):
                    e = dims[i]
                    got_ax = [int(round((v - 1.0 - 10 * e) / 0.5)) for v in acc['cvals%d' % i]]
                    got_eta = [(k, int(round((v - 1.0 - 10 * i) / 0.5))) for k, v in acc['eta%d' % i]]
                    if got_ax != m_ax[i] or got_eta != m_eta[i]:
                        chk.violation('grid.Grid:accessor-model', 'config %r rank %d layout %s: getCoordVals(%d) / getEta(%d) = %r / %r, model %r / %r'
                                      % (c, rk, dims, i, i, got_ax, got_eta, m_ax[i], m_eta[i]),
                                      {'kind': 'correspondence' if not bad else 'impl', 'theorem': 'c02_coord_vals / c02_get_eta', 'case': list(c),
                                       'rank': rk, 'layout': dims}, no_input=not bad)
                        break
                if 'ggi' in acc:
                    loc, gi = acc['ggi']
                    exp = [None] * d
                    for i in range(d):
                        exp[dims[i]] = loc[i] + st[i]
                    if gi != exp:
                        bad = 'getGlobalIndices%r = %r, expected %r' % (tuple(loc), gi, exp)
                    chk.cov['certificates_checked'] += 1
                if bad:
                    found_input = True
                    chk.violation('grid.Grid:accessor', 'config %r rank %d layout %s: %s disagrees with the partition' % (c, rk, dims, bad),
                                  {'kind': 'impl', 'case': list(c), 'rank': rk, 'layout': dims, 'accessor': bad})

    # (d2) LayoutSwapper: exact-size buffers through gather / scatter / internal steps
    scases = []
    for nprocs in ([1, 2], [2, 1], [2, 2], [2, 3], [3, 2], [1, 3], [3, 1]) if quick else ([1, 2], [2, 1], [2, 2], [2, 3], [3, 2], [1, 3], [3, 1], [3, 3], [2, 4], [4, 2]):
        for _ in range(2 if quick else 6):
            N = [rng.randint(max(nprocs[0], 2), 8), rng.randint(max(nprocs[0], 2), 8), rng.randint(max(nprocs[1], 2), 8)]
            scases.append((N, nprocs, rng.randrange(10 ** 6)))
    simpl = implrun.run_cases('props.c02', 'impl_swapper', scases, tmo=200.0, chunk=1)
    for c, r in zip(scases, simpl):
        N, nprocs, seed = c
        uneven = any(N[e] % p for e, p in ((0, nprocs[0]), (1, nprocs[0]), (2, nprocs[1])))
        chk.count(('swapper', tuple(N), tuple(nprocs)), nontrivial=(nprocs[0] * nprocs[1] > 1), stratum='swapper:%s' % ('uneven' if uneven else 'even'),
                  sample={'N': N, 'nprocs': nprocs, 'manager': 'LayoutSwapper (fullSimulation grouping)'})
        if r[0] != 'ok':
            found_input = True
            chk.violation('layout.LayoutSwapper:exact-buffer-%s' % r[1], 'LayoutSwapper N=%r nprocs=%r: with arrays of exactly bufferSize the run ends in %s: %s'
                          % (N, nprocs, r[1], r[2]), {'kind': 'impl', 'case': ['swapper', N, nprocs, seed], 'observed': list(r)})
            continue
        for rk, out in enumerate(r[1]):
            small = [n for n, sz in out['sizes'].items() if sz > out['bufsize']]
            wrong = [(a, b, ub) for a, b, ub, ok in out['tr'] if not ok]
            if out.get('acc_bad'):
                found_input = True
                chk.violation('grid.Grid:accessor-on-swapper', 'LayoutSwapper N=%r nprocs=%r rank %d: %s disagree(s) with the partition of the grid\'s own layout'
                              % (N, nprocs, rk, '; '.join(out['acc_bad'][:3])), {'kind': 'impl', 'case': ['swapper', N, nprocs, seed], 'rank': rk, 'accessors': out['acc_bad'][:10]})
            if small or wrong:
                found_input = True
                chk.violation('layout.LayoutSwapper:bufferSize', 'LayoutSwapper N=%r nprocs=%r rank %d: bufferSize %d; layouts larger than it: %r; wrong transposes with exact-size arrays: %r'
                              % (N, nprocs, rk, out['bufsize'], small, wrong[:4]), {'kind': 'impl', 'case': ['swapper', N, nprocs, seed], 'rank': rk})
                break

    if not ok_t:
        chk.violation('layout.Layout:exprt', 'ExprT tie broken: %s' % info_t,
                      {'kind': 'correspondence', 'theorem': 'ExprT_C02.start_src_ok / maxshape_src_ok', 'detail': str(info_t)},
                      no_input=not found_input)
    else:
        proof['obligations'] += 2
        proof['discharged'] += 2
        proof['theorems'] += ['ExprT_C02.start_src_ok', 'ExprT_C02.maxshape_src_ok']
    # extraction cross-check
    samp = rng.sample(cases, 60)
    vals = core.coq_eval(['starts_table %d %d' % (n, p) for n, p, k in samp], 'From Coq Require Import List. Import ListNotations. From PGV Require Import Blocks.', tag='c02')
    for (n, p, k), v in zip(samp, vals):
        got = [int(x) for x in v.strip('[]').replace(';', ' ').split()]
        exp = [int(x) for x in mod_lookup(n, p)]
        if got != exp:
            raise core.BrokenCheck('extraction and vm_compute disagree on starts_table %d %d' % (n, p))
    chk.assumptions += ['numpy integer arithmetic on the extents used equals Z arithmetic (no overflow below 2^63)',
                        'simulated MPI: Create_cart row-major coordinates, Sub, Alltoall as the MPI standard specifies']
    return chk.finish(proof,
                      rule='all 1<=p<=n<=%d (one random rank each, full mpi tables) + random N-d layouts + random accepted '
                           'handler configurations on <=%d simulated ranks; non-trivial = some p>1' % (box, 6 if quick else 12),
                      extra={'exhaustive_box': box, 'exprt': info_t if ok_t else {'broken': info_t}},
                      uncovered=['buffer sufficiency is proved for the first layout and, for every enumerated pair, for both layouts and both orientations '
                                 'of the step (c02_bufsize_both_orientations, c02_bufsize_both_orientations_handler); a layout that is neither the first nor '
                                 'in any compatible pair cannot occur in a handler whose constructor succeeds (all layouts connected) - that implication is not formalised',
                                 ])


_mod_cache = {}


def mod_lookup(n, p):
    if (n, p) not in _mod_cache:
        _mod_cache[(n, p)] = core.model(['starts %d %d' % (n, p)])[0].split()
    return _mod_cache[(n, p)]


def replay(path):
    core.setup_paths()
    body = json.load(open(path))
    rp = body['replay']
    c = rp.get('case')
    if body['key'].startswith('layout.Layout:') and c and len(c) == 3:
        print('impl', impl_tables(tuple(c)), 'model starts', core.model(['starts %d %d' % (c[0], c[1])]))
    elif c and len(c) == 4 and isinstance(c[2][0], list):
        print(impl_handler((c[0], c[1], c[2], c[3])))
    elif c:
        print('impl', impl_layout(tuple(c)))
    print(json.dumps(rp)[:2000])
    return 1
