def run_float_stages(chk):
    return {}
def replay(rep):
    return 0
