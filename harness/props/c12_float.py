"""
C12, float stages (not the gate).

1. Termination of the real implicit kernel (binary64, worker processes under an alarm): potentials that
   satisfy the contraction predicate  |dt/(2 B0)| * Lip < 1/2  (Lip = sampled max row sum of the Jacobian of
   (d_r phi / r, d_theta phi / r)) must return; a run that does not return may be classified under
   poloidal_advection_step_impl:non-contractive-potential only if the predicate  |dt/(2 B0)| * Lip >= 1  holds
   (degree-1 spaces have discontinuous derivatives: Lip = inf).
2. Float link of the explicit scheme: PoloidalAdvection.step (nulEdge) on binary64 vs the exact execution of
   the lifted kernel on the tables the class built (coefficients, knots, points read back as exact rationals,
   pi = the double), under the running error bound of an absolute-value shadow run (C07's E numbers, extended
   by % and abs).  Nodes whose (first or final) foot is within 1e-9 of the radial boundary are excluded, a
   case whose shadow run meets an ambiguous comparison is skipped.  The exact model is evaluated on a few
   nodes of the same tables and must equal the exact execution.
"""
import math
import random
import time
import warnings
from fractions import Fraction as F

import numpy as np

import core
import implrun
import qlift
from qlift import qstr, qparse

KEY_NONTERM = 'poloidal_advection_step_impl:non-contractive-potential'
SAFETY = 8.0


# ------------------------------------------------------------------------------------------------
def _spaces(nq, nr, p, rmin=0.5, rmax=6.0, pr=None):
    """theta space of degree p, radial space of degree pr (default p); unequal degrees use the general path in both
    directions (Spline2D wants both or neither space on the uniform-cubic path)"""
    from pygyro.splines.splines import make_knots, BSplines
    pr = p if pr is None else pr
    qb = np.linspace(0, 2 * np.pi, nq + 1)
    rb = np.linspace(rmin, rmax, nr - pr + 1)
    uni = (pr == p)
    bq = BSplines(make_knots(qb, p, True), p, True, uni)
    br = BSplines(make_knots(rb, pr, False), pr, False, uni)
    return bq, br


class _Consts:
    CN0 = 0.1
    kN0 = 0.05
    deltaRN0 = 2.0
    rp = 3.0
    CTi = 1.0
    kTi = 0.1
    deltaRTi = 3.0
    B0 = 1.0


def _phi_values(kind, amp, q, r, rng):
    Q, R = np.meshgrid(q, r, indexing='ij')
    if kind == 'smooth':
        return amp * np.cos(2 * Q) * (R - r[0]) * (r[-1] - R)
    if kind == 'const':
        return amp * np.ones_like(Q)
    if kind == 'quad':
        return amp * R * R / 2
    return amp * (2 * rng.random(Q.shape) - 1)


def lipschitz(phi, bq, br, dt, B0):
    """sampled max row sum of |J| of G = (d_r phi / r, d_theta phi / r), times |dt/(2 B0)|"""
    if bq.degree < 2 or br.degree < 2:
        return math.inf
    q = np.linspace(0, 2 * np.pi, 8 * bq.ncells + 1)[:-1]
    r = np.linspace(br.domain[0], br.domain[1], 8 * br.ncells + 1)
    h = 1e-6
    worst = 0.0
    for x in q:
        for y in r:
            def G(a, b):
                b = min(max(b, br.domain[0]), br.domain[1])
                a = a % (2 * np.pi)
                return np.array([phi.eval(a, b, 0, 1) / b, phi.eval(a, b, 1, 0) / b])
            Jq = (G(x + h, y) - G(x - h, y)) / (2 * h)
            Jr = (G(x, y + h) - G(x, y - h)) / (2 * h)
            worst = max(worst, abs(Jq[0]) + abs(Jr[0]), abs(Jq[1]) + abs(Jr[1]))
    return abs(dt / (2 * B0)) * worst


def term_case(c):
    """worker: run the real implicit step; returns ('returned', seconds, L) - or the alarm fires"""
    warnings.simplefilter('ignore')
    from pygyro.splines.splines import Spline2D
    from pygyro.splines.spline_interpolators import SplineInterpolator2D
    from pygyro.advection.advection import PoloidalAdvection
    rng = random.Random(c['seed'])
    nprng = np.random.default_rng(c['seed'])
    bq, br = _spaces(c['nq'], c['nr'], c['p'], pr=c.get('pr'))
    pr_ = int(c.get('pr') or c['p'])
    q, r = bq.greville, br.greville
    adv = PoloidalAdvection([r, q, np.array([0.0]), np.array([0.0])], [bq, br], _Consts(), nulEdge=c['nul'],
                            explicitTrap=False, tol=c['tol'])
    phi = Spline2D(bq, br)
    SplineInterpolator2D(bq, br).compute_interpolant(_phi_values(c['kind'], c['amp'], q, r, nprng), phi)
    f = nprng.random((q.size, r.size))
    if c.get('predicate_only'):
        return ('predicate', 0.0, lipschitz(phi, bq, br, c['dt'], _Consts.B0))
    t0 = time.time()
    adv.step(f, c['dt'], phi, 0.0)
    return ('returned', time.time() - t0, None, bool(np.all(np.isfinite(f))))


def witness_case(c):
    """worker: the Coq witness of pol_impl_terminates_refuted on the real kernel (binary64, pi = 3 is replaced by
    numpy.pi: theta breaks 0, pi, 2 pi, node pi/2)"""
    from pygyro.advection.accelerated_advection_steps import poloidal_advection_step_impl
    pi = np.pi
    kq = np.array([-pi, 0.0, pi, 2 * pi, 3 * pi])
    kr = np.array([1.0, 1.0, 2.0, 2.0])
    s = 3.0 / pi * c.get('scale', 1.0)       # slope of a(theta) at pi/2 is 2 as in the exact witness
    cphi = np.array([[-3.0 * s / 1.0 * 1, 6.0 * s], [3.0 * s, -6.0 * s], [-3.0 * s, 6.0 * s]]) * (pi / 3.0)
    cpol = np.zeros((3, 2))
    f = np.zeros((1, 2))
    W = [np.zeros((1, 2)) for _ in range(8)]
    poloidal_advection_step_impl(f, 1.0, 0.0, np.array([1.0, 2.0]), np.array([pi / 2]), *W, kq, kr, cphi, 1, 1,
                                 kq, kr, cpol, 1, 1, 0.1, 0.05, 2.0, 3.0, 1.0, 0.1, 3.0, 1.0, 1e-10, False, True)
    return ('returned', 0.0, math.inf, True)


def clip_real_case(c):
    """worker: the binary64 kernel on the analogue of c12.clip_observation_case (pi = numpy.pi): both un-clipped feet are
    outside, nulBound is set, and the values written are the spline of f at the clipped feet (3 and 2), not 0"""
    from pygyro.advection.accelerated_advection_steps import poloidal_advection_step_impl
    pi = np.pi
    kq = np.array([-pi, 0.0, pi, 2 * pi, 3 * pi])
    kr = np.array([1.0, 1.0, 2.0, 2.0])
    cphi = np.array([[-pi, 2 * pi], [pi, -2 * pi], [-pi, 2 * pi]])     # a(theta) b(r): a(pi/2) = 0, a' = 2; b(1) = 1, b(2) = -2
    cpol = np.array([[1.0, 2.0], [3.0, 4.0], [1.0, 2.0]])
    f = np.full((1, 2), -7.0)
    W = [np.zeros((1, 2)) for _ in range(8)]
    poloidal_advection_step_impl(f, 2.0, 0.0, np.array([1.0, 2.0]), np.array([pi / 2]), *W, kq, kr, cphi, 1, 1,
                                 kq, kr, cpol, 1, 1, 0.1, 0.05, 2.0, 3.0, 1.0, 0.1, 3.0, 1.0, 3.0, False, True)
    return ('returned', [float(x) for x in f.flat], [float(x) for x in W[7].flat])


# ------------------------------------------------------------------------------------------------
_E = {}


def shadow_numbers():
    """C07's numbers with a running error bound, extended by % and abs (methods added to the class
    object at run time; c07.py itself is not edited)"""
    if 'E' not in _E:
        from props import c07
        E = c07.E

        def _mod(self, o):
            o = E.of(o)
            if o.v == 0:
                raise ZeroDivisionError('modulo by zero')
            k = math.floor(self.v / o.v)
            v = self.v - o.v * k
            p = self.e + abs(k) * o.e
            if p > 0 and (abs(float(v)) <= p or abs(float(o.v - v)) <= p):
                c07._FLAGS['ambig'] = True          # the float result may be on the other side of the wrap
            return E._fin(v, p)

        def _abs(self):
            return E(abs(self.v), self.e)

        def _floordiv(self, o):
            o = E.of(o)
            if o.v == 0:
                raise ZeroDivisionError('floor division by zero')
            q = self.v / o.v
            k = math.floor(q)
            p = (self.e + abs(float(q)) * o.e) / max(abs(float(o.v)) - o.e, 1e-300) + 4 * c07.U * abs(float(q))
            if abs(float(q - k)) <= p or abs(float(k + 1 - q)) <= p:
                c07._FLAGS['ambig'] = True          # the float quotient may floor to the neighbouring integer
            return E(F(k), 0.0)
        E.__floordiv__ = _floordiv
        E.__mod__ = _mod
        E.__abs__ = _abs
        _E['E'] = E
        _E['flags'] = c07._FLAGS
    return _E['E'], _E['flags']


def float_case(c):
    """worker: one explicit step of the real class on floats, the exact + shadow execution on its tables"""
    warnings.simplefilter('ignore')
    from pygyro.splines.splines import Spline2D
    from pygyro.splines.spline_interpolators import SplineInterpolator2D
    from pygyro.advection.advection import PoloidalAdvection
    E, flags = shadow_numbers()
    nprng = np.random.default_rng(c['seed'])
    bq, br = _spaces(c['nq'], c['nr'], c['p'], pr=c.get('pr'))
    pr_ = int(c.get('pr') or c['p'])
    q, r = bq.greville, br.greville
    adv = PoloidalAdvection([r, q, np.array([0.0]), np.array([0.0])], [bq, br], _Consts(), nulEdge=True, explicitTrap=True)
    phi = Spline2D(bq, br)
    SplineInterpolator2D(bq, br).compute_interpolant(_phi_values(c['kind'], c['amp'], q, r, nprng), phi)
    f0 = nprng.random((q.size, r.size))
    f = f0.copy()
    if c['seed'] % 2:
        # the caller's slice may be a view with other strides (a plane of a larger block)
        f = np.full((q.size, 2, r.size), np.nan)[:, 1, :]
        f[...] = f0
    adv.step(f, c['dt'], phi, 0.0)
    cu = bool(bq.cubic_uniform)
    ff = qlift.frac_of_float
    tabs = {'rPts': [ff(x) for x in adv._points[1]], 'qPts': [ff(x) for x in adv._points[0]],
            'kq': [ff(x) for x in bq.knots], 'kr': [ff(x) for x in br.knots],
            'cphi': [[ff(x) for x in row] for row in phi.coeffs], 'cpol': [[ff(x) for x in row] for row in adv._spline.coeffs],
            'dt': ff(c['dt']), 'B0': ff(_Consts.B0), 'PI': ff(math.pi), 'cu': cu, 'p': c['p'], 'pr': pr_}
    # shadow run of the lifted kernel (exact value + running error bound)
    nu, cun = qlift.load('pygyro/splines/spline_eval_funcs.py'), qlift.load('pygyro/splines/cubic_uniform_spline_eval_funcs.py')
    ini = qlift.load('pygyro/initialisation/initialiser_funcs.py', extra={'exp': None, 'tanh': None, 'sqrt': None, 'pi': None})
    advm = qlift.load('pygyro/advection/accelerated_advection_steps.py', extra={'pi': E(tabs['PI']), 'abs': abs}, prior=[nu, cun, ini])

    def oa(xs):
        a = np.empty(len(xs), dtype=object)
        for i, x in enumerate(xs):
            a[i] = E(x)
        return a

    def oa2(rows):
        a = np.empty((len(rows), len(rows[0])), dtype=object)
        for i, row in enumerate(rows):
            for j, x in enumerate(row):
                a[i, j] = E(x)
        return a
    nq, nr = len(tabs['qPts']), len(tabs['rPts'])
    fs = np.empty((nq, nr), dtype=object)
    W = [np.empty((nq, nr), dtype=object) for _ in range(8)]
    flags['ambig'] = False
    flags['ill'] = False
    advm['poloidal_advection_step_expl'](fs, E(tabs['dt']), E(F(0)), oa(tabs['rPts']), oa(tabs['qPts']), *W,
                                         oa(tabs['kq']), oa(tabs['kr']), oa2(tabs['cphi']), c['p'], pr_,
                                         oa(tabs['kq']), oa(tabs['kr']), oa2(tabs['cpol']), c['p'], pr_,
                                         *[E(F(1))] * 7, E(tabs['B0']), cu, True)
    ambig = flags['ambig'] or flags['ill']
    rmin, rmax = tabs['rPts'][0], tabs['rPts'][-1]
    eps = F(1, 10 ** 9)
    res = []
    for i in range(nq):
        for j in range(nr):
            for A in (fs, W[5], W[6], W[7]):
                A[i, j] = E.of(A[i, j])
            r1, r2 = W[5][i, j].v, W[7][i, j].v
            near = any(abs(x - b) <= eps for x in (r1, r2) for b in (rmin, rmax))
            res.append((i, j, float(f[i, j]), qstr(fs[i, j].v), fs[i, j].e, near, qstr(W[6][i, j].v), qstr(W[7][i, j].v),
                        float(adv._endPts_k2_q[i, j]), float(adv._endPts_k2_r[i, j]), W[6][i, j].e, W[7][i, j].e))
    tabs_s = {k: ([[str(x) for x in row] for row in v] if k in ('cphi', 'cpol') else [str(x) for x in v] if isinstance(v, list) else str(v))
              for k, v in tabs.items()}
    return {'ambig': ambig, 'nodes': res, 'tabs': tabs_s}


def model_on_tables(tabs, nodes_i, nodes_j):
    """the exact model on a few nodes of the float tables (rPts keeps both end points)"""
    T = {k: ([[F(x) for x in row] for row in v] if k in ('cphi', 'cpol') else [F(x) for x in v] if isinstance(v, list) else v)
         for k, v in tabs.items()}
    p = int(T['p'])
    pr = int(T.get('pr', p))
    cu = T['cu'] in (True, 'True')
    rsel = sorted(set([0] + list(nodes_j) + [len(T['rPts']) - 1]))
    qsel = sorted(set(nodes_i))
    ql = lambda xs: ' '.join(qstr(x) for x in xs)
    flat = lambda g: [x for row in g for x in row]
    nc = len(T['cphi'][0])
    line = 'pol.expl %d 1 %d %d %d %d %d %d %s %s %s %s | %s | %s | %s | %s | %s | %s | %s | %s | %s' % (
        1 if cu else 0, p, pr, nc, p, pr, nc, qstr(F(T['PI'])), qstr(F(T['dt'])), qstr(F(0)), qstr(F(T['B0'])),
        ql([F(1)] * 7), ql([T['rPts'][j] for j in rsel]), ql([T['qPts'][i] for i in qsel]),
        ql(T['kq']), ql(T['kr']), ql(flat(T['cphi'])), ql(T['kq']), ql(T['kr']), ql(flat(T['cpol'])))
    return line, qsel, rsel


def run_float_stages(chk):
    rng = random.Random(chk.seed * 31 + 7)
    quick = chk.tier == 'quick'
    out = {}
    # ---- 1. termination ------------------------------------------------------------------------
    cases = []
    for k in range(6 if quick else 30):
        nq, nr = rng.choice([(8, 8), (12, 10), (10, 8)])
        cases.append({'seed': rng.randint(1, 10 ** 6), 'nq': nq, 'nr': nr, 'p': rng.choice([2, 3, 3]), 'kind': 'smooth',
                      'amp': rng.choice([0.002, 0.005, 0.01]), 'dt': rng.choice([0.1, -0.1, 0.05]), 'tol': 1e-10,
                      'nul': rng.random() < 0.5, 'expect': 'contractive'})
    cases.append({'seed': 11, 'nq': 8, 'nr': 8, 'p': 3, 'kind': 'const', 'amp': 2.0, 'dt': 0.1, 'tol': 1e-10, 'nul': False,
                  'expect': 'contractive'})
    cases.append({'seed': 12, 'nq': 8, 'nr': 8, 'p': 3, 'kind': 'quad', 'amp': 0.5, 'dt': 0.1, 'tol': 1e-10, 'nul': False,
                  'expect': 'contractive'})
    for k in range(2 if quick else 8):
        cases.append({'seed': rng.randint(1, 10 ** 6), 'nq': 12, 'nr': 10, 'p': 3, 'kind': 'random', 'amp': rng.choice([0.1, 1.0]),
                      'dt': rng.choice([0.1, 1.0]), 'tol': 1e-10, 'nul': False, 'expect': 'rough'})
    res = implrun.run_cases('props.c12_float', 'term_case', cases, tmo=15.0 if quick else 30.0, chunk=1)
    pred = implrun.run_cases('props.c12_float', 'term_case', [dict(c, predicate_only=True) for c in cases], tmo=120.0, chunk=1)
    wit = implrun.run_cases('props.c12_float', 'witness_case', [{'scale': 1.0}], tmo=8.0, chunk=1)
    stats = {'returned': 0, 'not-returned-non-contractive': 0, 'max_L_returned': 0.0}
    for c, r, pr in zip(cases + [{'kind': 'coq-witness', 'expect': 'rough'}], res + wit, pred + [('predicate', 0.0, math.inf)]):
        L = pr[2] if isinstance(pr, tuple) and len(pr) > 2 else float('nan')
        chk.count(('term', repr(sorted(c.items()))), stratum='termination/' + c['kind'],
                  sample={'case': {k: v for k, v in c.items()}, 'contraction_number': L, 'outcome': r[0]})
        rep = {'kind': 'termination', 'case': c, 'contraction_number': L}
        if r[0] == 'returned':
            stats['returned'] += 1
            if L == L and L != math.inf:
                stats['max_L_returned'] = max(stats['max_L_returned'], L)
            if not r[3]:
                chk.violation('poloidal_advection_step_impl:non-finite-result', 'implicit step returned inf/nan: %r' % (c,), rep)
        elif r[0] == 'timeout':
            if not (L >= 1.0):
                # a loaded machine must not turn into a finding: once more, alone, with a long alarm
                r2 = implrun.run_cases('props.c12_float', 'term_case', [c], tmo=240.0, chunk=1)[0]
                if r2[0] == 'returned':
                    stats['returned'] += 1
                    stats['slow_returns'] = stats.get('slow_returns', 0) + 1
                    continue
            if L >= 1.0:
                stats['not-returned-non-contractive'] += 1
                chk.violation(KEY_NONTERM, 'implicit iteration does not stop (alarm) on %r; contraction number '
                              'dt/(2 B0) * Lip(grad phi / r) = %s >= 1' % (c, L), rep)
            else:
                chk.violation('poloidal_advection_step_impl:no-termination-contractive-potential',
                              'implicit iteration does not stop (alarm) although the contraction number is %s < 1: %r' % (L, c), rep)
        else:
            chk.violation('poloidal_advection_step_impl:exception', 'implicit step raised %r on %r' % (r, c), rep)
        if c.get('expect') == 'contractive' and not (L < 0.5):
            raise core.BrokenCheck('generator: case meant to be contractive has contraction number %s' % L)
    out['termination'] = stats
    # ---- 1b. observation: clipped foot on the real binary64 implicit kernel ------------------------
    rc = implrun.run_cases('props.c12_float', 'clip_real_case', [{}], tmo=30.0, chunk=1)[0]
    chk.count(('clip-real',), stratum='implicit-clipping-observation/binary64', sample={'outcome': list(rc)})
    out['implicit_clipping_binary64'] = {'outcome': list(rc), 'expected_f': [3.0, 2.0], 'expected_foot_r': [2.0, 1.0],
                                         'fill_clause_value': 0.0}
    if rc[0] != 'returned' or max(abs(a - b) for a, b in zip(rc[1], [3.0, 2.0])) > 1e-12 or rc[2] != [2.0, 1.0]:
        chk.violation('poloidal_advection_step_impl:clipped-foot-value',
                      'binary64 implicit kernel on the clipping observation case: %r; the model (pol_impl_fill_unreachable) and the '
                      'exact execution give f = [3, 2] at clipped feet r = [2, 1] - correspondence no longer checks' % (rc,),
                      {'kind': 'termination', 'case': {'kind': 'clip-real'}}, no_input=True)
    # ---- 2. float link of the explicit scheme ---------------------------------------------------
    fcases = []
    for k in range(3 if quick else 16):
        nq, nr = rng.choice([(6, 6), (8, 8), (12, 10)])
        fcases.append({'seed': rng.randint(1, 10 ** 6), 'nq': nq, 'nr': nr, 'p': [3, 2, 3, 4][k % 4],
                       'kind': ['random', 'smooth', 'quad'][k % 3], 'amp': rng.choice([0.05, 0.3, 1.0]),
                       'dt': rng.choice([0.1, -0.1, 0.5])})
    # different spline degrees in theta and r (the constants file sets them per dimension)
    for (pq_, pr2) in ((2, 4), (4, 2)) if quick else ((2, 4), (4, 2), (3, 2), (2, 3), (4, 5), (5, 4)):
        fcases.append({'seed': rng.randint(1, 10 ** 6), 'nq': 8, 'nr': 8, 'p': pq_, 'pr': pr2, 'kind': rng.choice(['smooth', 'quad']),
                       'amp': rng.choice([0.05, 0.3]), 'dt': rng.choice([0.1, -0.1])})
    fres = implrun.run_cases('props.c12_float', 'float_case', fcases, tmo=600.0, chunk=1)
    st = {'nodes_compared': 0, 'nodes_excluded_boundary': 0, 'cases_ambiguous': 0, 'worst_ratio': 0.0, 'model_nodes': 0}
    lines, wants = [], []
    for c, r in zip(fcases, fres):
        if not isinstance(r, dict):
            chk.violation('PoloidalAdvection.step:float-run-' + str(r[0]), 'float stage ended with %r on %r' % (r, c),
                          {'kind': 'float', 'case': c})
            continue
        chk.count(('float', repr(sorted(c.items()))), stratum='float-link/p%d/%s' % (c['p'], c['kind']),
                  sample={'case': c, 'ambiguous': r['ambig'], 'nodes': len(r['nodes'])})
        if r['ambig']:
            st['cases_ambiguous'] += 1
            continue
        nr = c['nr']
        for (i, j, fl, ex, e, near, q2, r2, fq, fr, eq, er) in r['nodes']:
            if near:
                st['nodes_excluded_boundary'] += 1
                continue
            st['nodes_compared'] += 1
            d = abs(F(fl) - qparse(ex))
            tol = SAFETY * e + 1e-300
            st['worst_ratio'] = max(st['worst_ratio'], float(d) / tol)
            if d > tol:
                chk.violation('PoloidalAdvection.step:float-link',
                              'node (%d,%d): binary64 result %r differs from the exact execution on the same tables by %.3g '
                              '(bound %.3g): %r' % (i, j, fl, float(d), tol, c), {'kind': 'float', 'case': c, 'node': [i, j]})
                break
        # the model on three nodes of these tables
        if c['p'] <= 3 and len(lines) < (1 if quick else 4):
            ii, jj = [0, c['nq'] // 2], [c['nr'] // 2]
            line, qsel, rsel = model_on_tables(r['tabs'], ii, jj)
            lines.append(line)
            wants.append((c, r, qsel, rsel))
    if lines:
        answers = core.model(lines, timeout=1500)
        for a, (c, r, qsel, rsel) in zip(answers, wants):
            parts = [p.split() for p in a[2:].split(';')]
            byij = {(n[0], n[1]): n for n in r['nodes']}
            k = 0
            for i in qsel:
                for j in rsel:
                    n = byij[(i, j)]
                    st['model_nodes'] += 1
                    if not a.startswith('ok') or parts[0][k] != n[3] or parts[1][k] != n[6] or parts[2][k] != n[7]:
                        chk.violation('poloidal_advection_step_expl:model-mismatch-on-float-tables',
                                      'node (%d,%d) of %r: model and exact execution differ on the tables built by the class' % (i, j, c),
                                      {'kind': 'float', 'case': c, 'node': [i, j]}, no_input=True)
                    k += 1
    out['float_link'] = st
    return out


def replay(rep):
    core.setup_paths()
    c = rep['case']
    if rep['kind'] == 'termination':
        fn = 'witness_case' if c.get('kind') == 'coq-witness' else 'clip_real_case' if c.get('kind') == 'clip-real' else 'term_case'
        r = implrun.run_cases('props.c12_float', fn, [c], tmo=20.0)[0]
        print('case', c, '->', r)
        return 0 if r[0] == 'returned' else 1
    r = implrun.run_cases('props.c12_float', 'float_case', [c], tmo=600.0)[0]
    bad = [n for n in r['nodes'] if not n[5] and abs(F(n[2]) - qparse(n[3])) > SAFETY * n[4]]
    print('case', c, 'ambiguous', r['ambig'], 'nodes outside the bound:', [(n[0], n[1]) for n in bad])
    return 1 if bad else 0
