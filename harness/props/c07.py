"""
C07 - spline evaluation equals the mathematical B-spline on every entry point.

Proof: Props/C07.v (SplineModel.v, SplineTheory.v, SplinePaths.v, SplineDeriv.v, SplinePeriodic.v, SplineQc.v,
SplineQcTheory.v, CoxDeBoorGen.v, CoxDeBoorDeriv.v, CoxDeBoorPeriodic.v on the seeds BasisCoxDeBoor.v, FindSpan.v,
CubicUniform.v).

Tie (the gate): every exported function of pygyro/splines/spline_eval_funcs.py and
cubic_uniform_spline_eval_funcs.py is executed *exactly* (qlift: the real source on
fractions.Fraction) and compared, as strings of reduced rationals, with the extracted Qc model.
Direct oracles that do not use the model are evaluated on the exact output of the code: partition
of unity, non-negativity, derivative basis sums to zero, an independent Cox-de Boor recursion
(half-open intervals, last interval of the domain closed) summed over *all* basis functions,
agreement of the entry points with each other, uniform-cubic fast path == general path on the
uniform extension knot vector, equal values and slopes at both ends of a period.  They classify a
mismatch: oracle fails -> failing input; oracle passes -> the correspondence no longer checks.

Float sanity link (not the gate): the un-lifted functions (and the dispatching classes BSplines /
Spline1D / Spline2D) are run on binary64 inputs and compared with the exact value under an
a-posteriori bound obtained from a third run of the same lifted statements on numbers (v, e) that
carry the exact value v and a running bound e of the rounding error - the absolute-value shadow
run of DESIGN 4.2 (|a|e_b + |b|e_a for a product, e_a + e_b for a sum *or difference*, one unit
roundoff of |result| per operation); tolerance = SAFETY * e.

A sample of the exact cases is re-evaluated inside Coq (vm_compute on Qc) to cross-check the
extraction.
"""
import json
import math
import random
import re
import warnings
from fractions import Fraction as F

import numpy as np

import core
import implrun
import qlift
from qlift import qstr, qparse

NU_MOD = 'pygyro/splines/spline_eval_funcs.py'
CU_MOD = 'pygyro/splines/cubic_uniform_spline_eval_funcs.py'
SITE = {'nu': 'spline_eval_funcs', 'cu': 'cubic_uniform'}
SAFETY = 4.0                       # tolerance of the float link = SAFETY * running error bound
U = 2.0 ** -53                     # unit roundoff of binary64
ULP = F(1, 2 ** 50)

_NS = {}


def lifted():
    """the two kernel modules of the tree under test, executed on exact numbers"""
    if 'nu' not in _NS:
        _NS['nu'] = qlift.load(NU_MOD)
        _NS['cu'] = qlift.load(CU_MOD)
    return _NS['nu'], _NS['cu']


def real_modules():
    if 'rnu' not in _NS:
        from pygyro.splines import spline_eval_funcs, cubic_uniform_spline_eval_funcs
        _NS['rnu'] = vars(spline_eval_funcs)
        _NS['rcu'] = vars(cubic_uniform_spline_eval_funcs)
    return _NS['rnu'], _NS['rcu']


# ------------------------------------------------------------------------------------------------
# numbers with a running error bound (the absolute-value shadow run)

_FLAGS = {'ambig': False, 'ill': False}


def _repr_err(q):
    """error committed when the exact constant q is written as a double (1/6 is, 0.5 is not)"""
    f = float(q)
    return 0.0 if F(f) == q else U * abs(f) * 1.0000001


class E:
    """exact value v together with a bound e of |binary64 result - v| for the same operations"""
    __slots__ = ('v', 'e')

    def __init__(self, v, e=0.0):
        self.v = v
        self.e = e

    @staticmethod
    def of(o):
        if isinstance(o, E):
            return o
        if isinstance(o, (int, np.integer)):
            return E(F(int(o)), 0.0)
        if isinstance(o, F):
            return E(o, _repr_err(o))
        raise TypeError('E.of(%r)' % type(o))

    @staticmethod
    def _fin(v, p):
        f = float(v)
        if p == 0.0 and F(f) == v:
            return E(v, 0.0)            # exact operands, representable result: a correctly rounded operation is exact
        return E(v, (p + U * (abs(f) + p)) * (1.0 + 1e-12))

    def __add__(self, o):
        o = E.of(o)
        return E._fin(self.v + o.v, self.e + o.e)
    __radd__ = __add__

    def __sub__(self, o):
        o = E.of(o)
        return E._fin(self.v - o.v, self.e + o.e)

    def __rsub__(self, o):
        o = E.of(o)
        return E._fin(o.v - self.v, self.e + o.e)

    def __mul__(self, o):
        o = E.of(o)
        p = abs(float(self.v)) * o.e + abs(float(o.v)) * self.e + self.e * o.e
        return E._fin(self.v * o.v, p)
    __rmul__ = __mul__

    @staticmethod
    def _div(a, b):
        if b.v == 0:
            raise ZeroDivisionError('division by zero')
        q = a.v / b.v
        ab = abs(float(b.v))
        if b.e >= ab:
            _FLAGS['ill'] = True
            return E(q, math.inf)
        return E._fin(q, (a.e + abs(float(q)) * b.e) / (ab - b.e))

    def __truediv__(self, o):
        return E._div(self, E.of(o))

    def __rtruediv__(self, o):
        return E._div(E.of(o), self)

    def __neg__(self):
        return E(-self.v, self.e)

    def __pos__(self):
        return self

    def _cmp(self, o):
        o = E.of(o)
        if (self.e > 0 or o.e > 0) and abs(float(self.v - o.v)) <= self.e + o.e:
            _FLAGS['ambig'] = True      # the float run may take the other branch
        return self.v, o.v

    def __lt__(self, o):
        a, b = self._cmp(o)
        return a < b

    def __le__(self, o):
        a, b = self._cmp(o)
        return a <= b

    def __gt__(self, o):
        a, b = self._cmp(o)
        return a > b

    def __ge__(self, o):
        a, b = self._cmp(o)
        return a >= b

    def __eq__(self, o):
        a, b = self._cmp(o)
        return a == b

    def __ne__(self, o):
        a, b = self._cmp(o)
        return a != b
    __hash__ = None

    def __int__(self):
        if self.e > 0:
            m = round(self.v)
            if abs(float(self.v - m)) <= self.e:
                _FLAGS['ambig'] = True  # int() of the float may be the neighbouring integer
        return int(self.v)


# ------------------------------------------------------------------------------------------------
# calling an entry point on a case (exact / shadow / float)

EPS_NU = ('nu_find_span', 'nu_basis_funs', 'nu_basis_funs_1st_der', 'nu_eval_spline_1d_scalar',
          'nu_eval_spline_1d_vector', 'nu_eval_spline_2d_scalar', 'nu_eval_spline_2d_cross',
          'nu_eval_spline_2d_vector')
EPS_CU = ('cu_find_span', 'cu_basis_funs', 'cu_basis_funs_1st_der', 'cu_eval_spline_1d_scalar',
          'cu_eval_spline_1d_vector', 'cu_eval_spline_2d_scalar', 'cu_eval_spline_2d_cross',
          'cu_eval_spline_2d_vector')


def _oarr(xs):
    a = np.empty(len(xs), dtype=object)
    for i, v in enumerate(xs):
        a[i] = v
    return a


def _oarr2(rows):
    a = np.empty((len(rows), len(rows[0])), dtype=object)
    for i, r in enumerate(rows):
        for j, v in enumerate(r):
            a[i, j] = v
    return a


def _oempty(shape):
    return np.empty(shape, dtype=object)


MODE_EXACT = (qparse, _oarr, _oarr2, _oempty)
MODE_SHADOW = (lambda s: E(qparse(s)), _oarr, _oarr2, _oempty)
MODE_FLOAT = (lambda s: float(qparse(s)), lambda xs: np.array(xs, dtype=float),
              lambda rows: np.array(rows, dtype=float), lambda shape: np.empty(shape, dtype=float))


def call_ep(funs, c, mode):
    """run the entry point c['ep'] of the name space `funs`; returns (kind, value):
    ('int', n) | ('list', [..]) | ('grid', [[..]]) | ('cuspan', (n, offset))"""
    conv, arr, arr2, empty = mode
    ep = c['ep']
    f = funs[ep]
    deg = c.get('deg')
    der = c.get('der')
    if ep == 'cu_find_span':
        k = [conv(s) for s in c['knots'][0]]
        s, o = f(k[0], k[1], k[2], conv(c['x'][0]), int(k[3]))
        return 'cuspan', (int(s), o)
    if ep in ('cu_basis_funs', 'cu_basis_funs_1st_der'):
        out = empty(4)
        if ep == 'cu_basis_funs':
            f(c['span'], conv(c['offset']), out)
        else:
            f(c['span'], conv(c['offset']), conv(c['dx']), out)
        return 'list', list(out)
    kn = [arr([conv(s) for s in k]) for k in c['knots']]
    if ep == 'nu_find_span':
        return 'int', int(f(kn[0], deg[0], conv(c['x'][0])))
    if ep in ('nu_basis_funs', 'nu_basis_funs_1st_der'):
        out = empty(deg[0] + 1)
        f(kn[0], deg[0], conv(c['x'][0]), c['span'], out)
        return 'list', list(out)
    xs = [conv(s) for s in c['x']]
    if ep.endswith('1d_scalar'):
        co = arr([conv(s) for s in c['coeffs']])
        return 'list', [f(xs[0], kn[0], deg[0], co, der[0])]
    if ep.endswith('1d_vector'):
        co = arr([conv(s) for s in c['coeffs']])
        out = empty(len(xs))
        f(arr(xs), kn[0], deg[0], co, out, der[0])
        return 'list', list(out)
    nc = c['ncols']
    flat = [conv(s) for s in c['coeffs']]
    co = arr2([flat[i:i + nc] for i in range(0, len(flat), nc)])
    ys = [conv(s) for s in c['y']]
    if ep.endswith('2d_scalar'):
        return 'list', [f(xs[0], ys[0], kn[0], deg[0], kn[1], deg[1], co, der[0], der[1])]
    if ep.endswith('2d_cross'):
        out = empty((len(xs), len(ys)))
        f(arr(xs), arr(ys), kn[0], deg[0], kn[1], deg[1], co, out, der[0], der[1])
        return 'grid', [list(r) for r in out]
    if ep.endswith('2d_vector'):
        out = empty(len(xs))
        f(arr(xs), arr(ys), kn[0], deg[0], kn[1], deg[1], co, out, der[0], der[1])
        return 'list', list(out)
    raise ValueError(ep)


def fmt(kind, v):
    """the answer line modelrun gives for this value"""
    if kind == 'int':
        return 'ok %d' % v
    if kind == 'cuspan':
        return 'ok %d %s' % (v[0], qstr(v[1]))
    if kind == 'list':
        return 'ok ' + ' '.join(qstr(q) for q in v)
    return 'ok ' + ' ; '.join(' '.join(qstr(q) for q in r) for r in v)


def flat(kind, v):
    if kind == 'int':
        return [v]
    if kind == 'cuspan':
        return [v[0], v[1]]
    if kind == 'list':
        return list(v)
    return [q for r in v for q in r]


def model_line(c):
    ep = c['ep']
    j = ' '.join
    if ep == 'nu_find_span':
        return 'sp.span %d %s | %s' % (c['deg'][0], c['x'][0], j(c['knots'][0]))
    if ep in ('nu_basis_funs', 'nu_basis_funs_1st_der'):
        return 'sp.basis %d %d %s %d | %s' % (c['deg'][0], int(ep.endswith('der')), c['x'][0], c['span'], j(c['knots'][0]))
    if ep == 'cu_find_span':
        k = c['knots'][0]
        return 'sp.cuspan %s | %s %s %s %d' % (c['x'][0], k[0], k[1], k[2], int(qparse(k[3])))
    if ep in ('cu_basis_funs', 'cu_basis_funs_1st_der'):
        return 'sp.cubasis %d %s %s' % (int(ep.endswith('der')), c['offset'], c['dx'])
    fam = ep[:2]
    if ep.endswith('1d_scalar'):
        return 'sp.%s1s %d %d %s | %s | %s' % (fam, c['deg'][0], c['der'][0], c['x'][0], j(c['knots'][0]), j(c['coeffs']))
    if ep.endswith('1d_vector'):
        return 'sp.%s1v %d %d | %s | %s | %s' % (fam, c['deg'][0], c['der'][0], j(c['x']), j(c['knots'][0]), j(c['coeffs']))
    head = '%d %d %d %d %d' % (c['deg'][0], c['deg'][1], c['der'][0], c['der'][1], c['ncols'])
    tail = '%s | %s | %s' % (j(c['knots'][0]), j(c['knots'][1]), j(c['coeffs']))
    if ep.endswith('2d_scalar'):
        return 'sp.%s2s %s %s %s | %s' % (fam, head, c['x'][0], c['y'][0], tail)
    if ep.endswith('2d_cross'):
        return 'sp.%s2c %s | %s | %s | %s' % (fam, head, j(c['x']), j(c['y']), tail)
    if ep.endswith('2d_vector'):
        return 'sp.%s2v %s | %s | %s | %s' % (fam, head, j(c['x']), j(c['y']), tail)
    raise ValueError(ep)


def npoints(c):
    ep = c['ep']
    if ep.endswith('2d_cross'):
        return len(c['x']) * len(c['y'])
    if ep.endswith('_vector'):
        return len(c['x'])
    return 1


# ------------------------------------------------------------------------------------------------
# independent oracles

def cdb(T, p, x, der):
    """Cox-de Boor recursion, written from the definition: N_{i,p}(x) (der = 0) or its first derivative
    (der = 1) for all i = 0 .. len(T)-p-2.  Half-open intervals [T[i], T[i+1]); the last interval of the
    domain [T[p], T[len-p-1]] is closed.  0/0 := 0."""
    m = len(T)
    n = m - p - 1
    if not (T[p] <= x <= T[n]):
        raise ValueError('cdb: x outside the domain')
    N = [F(0)] * (m - 1)
    if x == T[n]:
        i0 = max(i for i in range(n) if T[i] < T[i + 1])
    else:
        i0 = [i for i in range(m - 1) if T[i] <= x < T[i + 1]][0]
    N[i0] = F(1)
    top = p - 1 if der else p
    for k in range(1, top + 1):
        new = []
        for i in range(m - k - 1):
            v = F(0)
            if N[i] != 0 and T[i + k] != T[i]:
                v += (x - T[i]) / (T[i + k] - T[i]) * N[i]
            if N[i + 1] != 0 and T[i + k + 1] != T[i + 1]:
                v += (T[i + k + 1] - x) / (T[i + k + 1] - T[i + 1]) * N[i + 1]
            new.append(v)
        N = new
    if not der:
        return N[:n]
    D = []
    for i in range(n):
        v = F(0)
        if N[i] != 0 and T[i + p] != T[i]:
            v += p * N[i] / (T[i + p] - T[i])
        if N[i + 1] != 0 and T[i + p + 1] != T[i + 1]:
            v -= p * N[i + 1] / (T[i + p + 1] - T[i + 1])
        D.append(v)
    return D


def span_spec(T, p, x):
    """the span the property requires: T[s] <= x < T[s+1], the right end point belongs to the last cell"""
    n = len(T) - p - 1
    if x == T[n]:
        return n - 1
    return max(i for i in range(p, n) if T[i] <= x)


def uniform_ext(k4):
    """knot vector on which the uniform-cubic fast path evaluates: t_i = xmin + (i-3) dx, i = 0..ncells+6"""
    xmin, dx, nc = k4[0], k4[2], int(k4[3])
    return [xmin + (i - 3) * dx for i in range(nc + 7)]


def _general_case(c):
    """the same request addressed to the general (nu_) path on the uniform extension knot vectors"""
    g = dict(c)
    g['ep'] = 'nu' + c['ep'][2:]
    g['knots'] = [[qstr(t) for t in uniform_ext([qparse(s) for s in k])] for k in c['knots']]
    return g


def oracles(c, kind, out, nu, cu):
    """names of the direct oracles that fail on the exact output `out` of the code; number evaluated"""
    ep = c['ep']
    bad = []
    n_or = [0]

    def chk(name, ok):
        n_or[0] += 1
        if not ok and name not in bad:
            bad.append(name)

    fam = ep[:2]
    funs = nu if fam == 'nu' else cu
    if ep == 'nu_find_span':
        T = [qparse(s) for s in c['knots'][0]]
        p = c['deg'][0]
        x = qparse(c['x'][0])
        s = out
        nn = len(T) - p - 1
        chk('span-spec', p <= s <= nn - 1 and T[s] < T[s + 1] and T[s] <= x and (x < T[s + 1] or (x == T[nn] and s == nn - 1)))
        chk('span-spec', s == span_spec(T, p, x))
    elif ep in ('nu_basis_funs', 'nu_basis_funs_1st_der'):
        T = [qparse(s) for s in c['knots'][0]]
        p = c['deg'][0]
        x = qparse(c['x'][0])
        s = c['span']
        d = int(ep.endswith('der'))
        if d == 0:
            chk('partition-of-unity', sum(out) == 1)
            chk('non-negative', all(v >= 0 for v in out))
        else:
            chk('der-sum-zero', sum(out) == 0)
        ref = cdb(T, p, x, d)
        chk('cox-de-boor', list(out) == ref[s - p:s + 1])
        chk('cox-de-boor', all(v == 0 for i, v in enumerate(ref) if not s - p <= i <= s))
    elif ep == 'cu_find_span':
        k = [qparse(s) for s in c['knots'][0]]
        x = qparse(c['x'][0])
        s, o = out
        nc = int(k[3])
        chk('span-spec', 3 <= s <= nc + 2 and 0 <= o <= 1 and k[0] + (s - 3 + o) * k[2] == x
            and (o < 1 or x == k[1]))
    elif ep in ('cu_basis_funs', 'cu_basis_funs_1st_der'):
        o = qparse(c['offset'])
        d = int(ep.endswith('der'))
        dx = qparse(c['dx']) if d else F(1)
        if d == 0:
            chk('partition-of-unity', sum(out) == 1)
            chk('non-negative', all(v >= 0 for v in out))
        else:
            chk('der-sum-zero', sum(out) == 0)
        T = [(i - 3) * dx for i in range(8)]          # one cell [0, dx]
        chk('cu==cox-de-boor-on-uniform-extension', list(out) == cdb(T, 3, o * dx, d))
    else:
        dim = 1 if '_1d_' in ep else 2
        knq = [[qparse(s) for s in k] for k in c['knots']]
        Ts = knq if fam == 'nu' else [uniform_ext(k) for k in knq]
        degs = c['deg']
        ders = c['der']
        xs = [qparse(s) for s in c['x']]
        if dim == 1:
            co = [qparse(s) for s in c['coeffs']]
            ref = []
            for x in xs:
                B = cdb(Ts[0], degs[0], x, ders[0])
                ref.append(sum((a * b for a, b in zip(co, B)), F(0)))
            chk('cox-de-boor-sum' if fam == 'nu' else 'cu==cox-de-boor-on-uniform-extension',
                len(co) == len(Ts[0]) - degs[0] - 1 and list(out) == ref)
            if ep.endswith('_vector'):
                sc = dict(c)
                sc['ep'] = ep.replace('_vector', '_scalar')
                try:
                    one = []
                    for s in c['x']:
                        sc['x'] = [s]
                        one.append(call_ep(funs, sc, MODE_EXACT)[1][0])
                    chk('vector==map-scalar', one == list(out))
                except Exception as ex:
                    _no_timeout(ex)
                    chk('vector==map-scalar', False)
            if c.get('periodic_ends'):
                chk('periodic-ends-equal', out[0] == out[1])
        else:
            nc = c['ncols']
            fl = [qparse(s) for s in c['coeffs']]
            co = [fl[i:i + nc] for i in range(0, len(fl), nc)]
            ys = [qparse(s) for s in c['y']]
            B1 = [cdb(Ts[0], degs[0], x, ders[0]) for x in xs]
            B2 = [cdb(Ts[1], degs[1], y, ders[1]) for y in ys]

            def tensor(b1, b2):
                return sum((co[i][j] * b1[i] * b2[j] for i in range(len(b1)) if b1[i] != 0
                            for j in range(len(b2)) if b2[j] != 0), F(0))
            shape_ok = len(co) == len(Ts[0]) - degs[0] - 1 and nc == len(Ts[1]) - degs[1] - 1
            nm = 'cox-de-boor-tensor-sum' if fam == 'nu' else 'cu==cox-de-boor-on-uniform-extension'
            sc = dict(c)
            if ep.endswith('2d_cross'):
                chk(nm, shape_ok and out == [[tensor(b1, b2) for b2 in B2] for b1 in B1])
                sc['ep'] = ep.replace('_cross', '_scalar')
                try:
                    grid = []
                    for sx in c['x']:
                        row = []
                        for sy in c['y']:
                            sc['x'], sc['y'] = [sx], [sy]
                            row.append(call_ep(funs, sc, MODE_EXACT)[1][0])
                        grid.append(row)
                    chk('cross==grid-of-scalar', grid == out)
                except Exception as ex:
                    _no_timeout(ex)
                    chk('cross==grid-of-scalar', False)
            else:
                chk(nm, shape_ok and list(out) == [tensor(b1, b2) for b1, b2 in zip(B1, B2)])
                if ep.endswith('2d_vector'):
                    sc['ep'] = ep.replace('_vector', '_scalar')
                    try:
                        one = []
                        for sx, sy in zip(c['x'], c['y']):
                            sc['x'], sc['y'] = [sx], [sy]
                            one.append(call_ep(funs, sc, MODE_EXACT)[1][0])
                        chk('vector==scalar-at-pairs', one == list(out))
                    except Exception as ex:
                        _no_timeout(ex)
                        chk('vector==scalar-at-pairs', False)
        if fam == 'cu':
            # fast path == general path of the code itself on the uniform extension (values and slopes)
            try:
                gv = call_ep(nu, _general_case(c), MODE_EXACT)[1]
                chk('cu-path==nu-path-on-uniform-extension', gv == out)
            except Exception as ex:
                _no_timeout(ex)
                chk('cu-path==nu-path-on-uniform-extension', False)
    return bad, n_or[0]


# ------------------------------------------------------------------------------------------------
# worker: one case -> exact outcome, oracle verdicts, float link

def _no_timeout(e):
    """the per-case alarm of implrun must not be swallowed by the handlers that turn exceptions into outcomes"""
    if isinstance(e, implrun.CaseTimeout):
        raise e


def _outcome_of_exception(e):
    if isinstance(e, IndexError):
        return 'err index'
    if isinstance(e, ZeroDivisionError):
        return 'err div'
    return 'exc %s: %s' % (type(e).__name__, str(e)[:120])


def float_link(c, kind, out, nu, cu):
    """binary64 run of the un-lifted function (and the values a dispatching class returned, if any)
    against the exact value under SAFETY * running error bound"""
    fam = c['ep'][:2]
    rnu, rcu = real_modules()
    _FLAGS['ambig'] = False
    _FLAGS['ill'] = False
    sk, sv = call_ep(nu if fam == 'nu' else cu, c, MODE_SHADOW)
    sh = [E.of(v) for v in flat(sk, sv)]
    ex = flat(kind, out)
    res = {'ratio': 0.0, 'ok': True, 'skipped': None, 'why': None}
    if [s.v for s in sh] != [F(v) for v in ex]:
        res.update(ok=False, why='shadow run does not reproduce the exact run')
        return res
    if _FLAGS['ambig'] or _FLAGS['ill']:
        res['skipped'] = 'branch-within-rounding' if _FLAGS['ambig'] else 'ill-conditioned'
        return res
    runs = []
    with warnings.catch_warnings():
        warnings.simplefilter('ignore')
        try:
            fk, fv = call_ep(rnu if fam == 'nu' else rcu, c, MODE_FLOAT)
            runs.append(('kernel', flat(fk, fv)))
        except Exception as e:
            _no_timeout(e)
            res.update(ok=False, why='float run raised %s' % _outcome_of_exception(e))
            return res
    if c.get('dispatch_out') is not None:
        runs.append(('dispatch ' + c.get('form', '') + (' [%s arrays]' % c['storage'] if c.get('storage') else ''), list(c['dispatch_out'])))
    for name, fl in runs:
        why = None
        if len(fl) != len(sh):
            why = '%s: %d values for %d expected' % (name, len(fl), len(sh))
            fl = []
        for f, s in zip(fl, sh):
            f = float(f)
            if not math.isfinite(f):
                why = '%s: non-finite value %r' % (name, f)
                break
            d = abs(F(f) - s.v)
            if d == 0:
                continue
            bound = SAFETY * s.e
            r = float(d) / bound if bound > 0 else math.inf
            if r <= 1.0:
                res['ratio'] = max(res['ratio'], r)
            else:
                why = '%s: float %r exact %s |diff| %.3e > bound %.3e' % (name, f, qstr(s.v), float(d), bound)
                break
        if why and name == 'kernel':
            res.update(ok=False, why=why)
        elif why:
            res['dispatch_fail'] = why      # the kernel is inside the bound on these inputs, the class is not
    return res


def exact_eval(c):
    """worker: the real source on Fractions, the direct oracles on its output, the float link"""
    nu, cu = lifted()
    funs = nu if c['ep'][:2] == 'nu' else cu
    r = {'impl': None, 'orc': [], 'n_or': 0, 'flt': None}
    try:
        kind, out = call_ep(funs, c, MODE_EXACT)
    except Exception as e:
        _no_timeout(e)
        r['impl'] = _outcome_of_exception(e)
        return r
    try:
        r['impl'] = fmt(kind, out)
    except Exception as e:           # e.g. None left in the output array
        _no_timeout(e)
        r['impl'] = 'exc output %s' % type(e).__name__
        return r
    r['orc'], r['n_or'] = oracles(c, kind, out, nu, cu)
    if c.get('flt'):
        r['flt'] = float_link(c, kind, out, nu, cu)
    return r


# ------------------------------------------------------------------------------------------------
# spaces, points, coefficients

def make_knots_exact(breaks, p, periodic):
    """pygyro.splines.splines.make_knots rebuilt on exact numbers (validated against the real one)"""
    if periodic:
        period = breaks[-1] - breaks[0]
        return [x - period for x in breaks[-p - 1:-1]] + list(breaks) + [x + period for x in breaks[1:p + 1]]
    return [breaks[0]] * p + list(breaks) + [breaks[-1]] * p


def is_double(q):
    try:
        return F(float(q)) == q
    except OverflowError:
        return False


def gen_breaks(rng, ncells, uniform, dyadic):
    if dyadic:
        a = F(rng.randint(-32, 48), 16)
        steps = [F(1, 8), F(1, 4), F(3, 8), F(1, 2), F(3, 4), F(1), F(5, 4), F(1, 16)]
    else:
        a = F(rng.randint(-12, 18), rng.choice([3, 5, 6, 7]))
        steps = [F(1, 3), F(2, 5), F(1, 7), F(3, 4), F(1), F(5, 6), F(1, 10), F(7, 5), F(1, 2)]
    if uniform:
        h = rng.choice(steps)
        return [a + i * h for i in range(ncells + 1)]
    br = [a]
    hs = [rng.choice(steps) for _ in range(ncells)]
    if ncells > 1 and len(set(hs)) == 1:
        hs[0] = hs[0] * 2 if hs[0] * 2 != hs[1] else hs[0] * 3
    for h in hs:
        br.append(br[-1] + h)
    return br


def gen_space(rng, p, periodic, uniform, dyadic, small=False):
    if periodic:
        nc = rng.randint(p, p + (2 if small else 4))
    else:
        nc = rng.choice([1, 1, 2, 3, 4] if small else [1, 2, 3, 4, 5, 6, 7])
    if not uniform and nc < 2:
        nc = 2
    nc = max(nc, 1)
    br = gen_breaks(rng, nc, uniform, dyadic)
    return {'p': p, 'periodic': periodic, 'uniform': uniform, 'dyadic': dyadic, 'breaks': br,
            'knots': make_knots_exact(br, p, periodic), 'ncells': nc}


def ulp_scale(t):
    a = abs(t)
    s = F(1)
    while s * 2 <= a:
        s *= 2
    return s


def rand_inside(rng, lo, hi, dyadic):
    if dyadic:
        return lo + (hi - lo) * F(rng.randrange(1, 64), 64)
    return lo + (hi - lo) * F(rng.randrange(1, 21), rng.choice([21, 22, 23, 27]))


def gen_points(rng, breaks, dyadic, full, n_ulp=None, n_knot=None):
    """classified evaluation points of a space: [(class, x)]"""
    a, b = breaks[0], breaks[-1]
    pts = [('left-end', a), ('right-end', b)]
    inner = list(breaks[1:-1])
    ulps = []
    for t in breaks:
        e = ULP * ulp_scale(t)
        if t + e < b:
            ulps.append(t + e)
        if t - e > a:
            ulps.append(t - e)
    cells = list(zip(breaks[:-1], breaks[1:]))
    if full:
        pts += [('on-knot', t) for t in inner]
        pts += [('interior', (lo + hi) / 2) for lo, hi in cells]
        for _ in range(2):
            lo, hi = rng.choice(cells)
            pts.append(('interior', rand_inside(rng, lo, hi, dyadic)))
        if n_ulp is not None and len(ulps) > n_ulp:
            keep = [ulps[0], ulps[-1]] + rng.sample(ulps[1:-1], max(0, n_ulp - 2))
            ulps = keep[:max(n_ulp, 1)]
        pts += [('ulp-inside', x) for x in ulps]
    else:
        if inner:
            for t in rng.sample(inner, min(len(inner), n_knot or 1)):
                pts.append(('on-knot', t))
        lo, hi = rng.choice(cells)
        pts.append(('interior', (lo + hi) / 2 if rng.random() < 0.4 else rand_inside(rng, lo, hi, dyadic)))
        k = n_ulp if n_ulp is not None else 1
        # the two points next to the end points are the most delicate ones: keep them likely
        pool = [ulps[0], ulps[-1]] if rng.random() < 0.5 else ulps
        for x in rng.sample(pool, min(k, len(pool))):
            pts.append(('ulp-inside', x))
    return pts


def gen_coeffs(rng, n, dyadic, style, p=0, ncells=0):
    if style == 'ones':
        c = [F(1)] * n
    elif style == 'unit':
        c = [F(0)] * n
        c[rng.randrange(n)] = F(1)
    else:
        dens = [1, 2, 4, 8] if dyadic else [1, 2, 3, 5, 6, 7]
        c = [F(rng.randint(-40, 40), rng.choice(dens)) for _ in range(n)]
        if len(set(c)) == 1:
            c[0] += 1
    if style in ('wrapped', 'unit-wrapped'):
        if style == 'unit-wrapped':
            c = [F(0)] * n
            c[rng.randrange(ncells)] = F(1)
        for j in range(p):
            c[ncells + j] = c[j]
    return c


def qs(l):
    return [qstr(q) for q in l]


def case_flt(c):
    """all inputs are binary64 numbers: the float link can run on exactly the same inputs"""
    vals = list(c.get('x', [])) + list(c.get('y', [])) + [s for k in c.get('knots', []) for s in k] + list(c.get('coeffs', []))
    for k in ('offset', 'dx'):
        if k in c:
            vals.append(c[k])
    return all(is_double(qparse(s)) for s in vals)


def nu_1d_cases(rng, sp, full, heavy_cap):
    """all 1-D entry points of the general path on one space"""
    p, T = sp['p'], sp['knots']
    bc = 'periodic' if sp['periodic'] else 'clamped'
    n_ulp = None
    if p > 6:
        n_ulp = heavy_cap
    elif not full:
        n_ulp = 1
    pts = gen_points(rng, sp['breaks'], sp['dyadic'], full, n_ulp=n_ulp)
    nb = len(T) - p - 1
    kn = [qs(T)]
    cA = gen_coeffs(rng, nb, sp['dyadic'], 'random')
    styleB = rng.choice(['wrapped', 'unit-wrapped', 'ones'] if sp['periodic'] else ['random', 'unit', 'ones'])
    cB = gen_coeffs(rng, nb, sp['dyadic'], styleB, p, sp['ncells'])
    out = []
    base = {'knots': kn, 'deg': [p], 'bc': bc}
    for cls, x in pts:
        xs = [qstr(x)]
        s = span_spec(T, p, x)
        out.append(dict(base, ep='nu_find_span', x=xs, cls=cls, stratum='nu-span:%s:%s' % (bc, cls)))
        out.append(dict(base, ep='nu_basis_funs', x=xs, span=s, cls=cls, stratum='nu-basis:%s:%s' % (bc, cls)))
        out.append(dict(base, ep='nu_basis_funs_1st_der', x=xs, span=s, cls=cls, stratum='nu-ders:%s:%s' % (bc, cls)))
        for der in (0, 1):
            out.append(dict(base, ep='nu_eval_spline_1d_scalar', x=xs, der=[der], coeffs=qs(cA), cls=cls,
                            stratum='nu1d:%s:%s' % (bc, cls)))
    order = list(pts)
    rng.shuffle(order)
    for der in (0, 1):
        out.append(dict(base, ep='nu_eval_spline_1d_vector', x=qs([x for _, x in order]), der=[der], coeffs=qs(cB),
                        cls='vector', classes=[k for k, _ in order], const=(styleB == 'ones'), per_point=True,
                        stratum='nu1d:%s' % bc))
    if sp['periodic']:
        cW = gen_coeffs(rng, nb, sp['dyadic'], 'wrapped', p, sp['ncells'])
        for der in (0, 1):
            out.append(dict(base, ep='nu_eval_spline_1d_vector', x=qs([sp['breaks'][0], sp['breaks'][-1]]), der=[der],
                            coeffs=qs(cW), cls='period-ends', classes=['left-end', 'right-end'],
                            # a degree-1 spline is only continuous: its one-sided slopes at the two ends differ
                            periodic_ends=not (p == 1 and der == 1),
                            stratum='nu1d:periodic:ends-equal'))
    return out


def pick2d(rng, pts, k):
    """k points of a classified list, covering the classes as evenly as possible"""
    by = {}
    for cls, x in pts:
        by.setdefault(cls, []).append(x)
    order = list(by)
    rng.shuffle(order)
    # ends first: the 2-D code takes its special branches there
    order.sort(key=lambda s: 0 if s.endswith('end') else 1)
    out = []
    i = 0
    while len(out) < k and any(by.values()):
        cls = order[i % len(order)]
        if by[cls]:
            out.append((cls, by[cls].pop(rng.randrange(len(by[cls])))))
        i += 1
    return out


def cls2d(cx, cy):
    e = [c.endswith('end') for c in (cx, cy)]
    if all(e):
        return 'corner'
    if any(e):
        return 'edge'
    if 'ulp-inside' in (cx, cy):
        return 'ulp-inside'
    if 'on-knot' in (cx, cy):
        return 'on-knot'
    return 'interior'


def two_d_cases(rng, fam, sp1, sp2, kn, npt, nscal):
    """scalar / cross / vector entry points on a tensor space for the four (der1, der2) branches"""
    d1, d2 = sp1['p'], sp2['p']
    n1 = sp1['ncells'] + d1
    n2 = sp2['ncells'] + d2
    dy = sp1['dyadic'] and sp2['dyadic']
    P1 = pick2d(rng, gen_points(rng, sp1['breaks'], sp1['dyadic'], True, n_ulp=2), npt)
    P2 = pick2d(rng, gen_points(rng, sp2['breaks'], sp2['dyadic'], True, n_ulp=2), npt)
    rng.shuffle(P1)
    rng.shuffle(P2)
    style = rng.choice(['random', 'random', 'random', 'ones', 'unit'])
    co = gen_coeffs(rng, n1 * n2, dy, style)
    base = {'knots': kn, 'deg': [d1, d2], 'ncols': n2, 'coeffs': qs(co), 'const': style == 'ones'}
    out = []
    for e1 in (0, 1):
        for e2 in (0, 1):
            tag = 'd%d%d' % (e1, e2)
            out.append(dict(base, ep=fam + '_eval_spline_2d_cross', x=qs([x for _, x in P1]), y=qs([y for _, y in P2]),
                            der=[e1, e2], cls=tag, classes=[cls2d(a, b) for a, _ in P1 for b, _ in P2],
                            stratum='%s2d:cross:%s' % (fam, tag)))
            k = min(len(P1), len(P2))
            Q2 = list(P2)
            rng.shuffle(Q2)
            out.append(dict(base, ep=fam + '_eval_spline_2d_vector', x=qs([x for _, x in P1[:k]]),
                            y=qs([y for _, y in Q2[:k]]), der=[e1, e2], cls=tag,
                            classes=[cls2d(a, b) for (a, _), (b, _) in zip(P1[:k], Q2[:k])],
                            stratum='%s2d:vector:%s' % (fam, tag)))
            for _ in range(nscal):
                (ca, x), (cb, y) = rng.choice(P1), rng.choice(P2)
                out.append(dict(base, ep=fam + '_eval_spline_2d_scalar', x=[qstr(x)], y=[qstr(y)], der=[e1, e2],
                                cls=tag + ':' + cls2d(ca, cb), classes=[cls2d(ca, cb)],
                                stratum='%s2d:scalar:%s' % (fam, tag)))
    return out


def gen_cu_space(rng, nc, dyadic):
    br = gen_breaks(rng, nc, True, dyadic)
    dx = br[1] - br[0]
    return {'p': 3, 'ncells': nc, 'breaks': br, 'dyadic': dyadic, 'dx': dx,
            'k4': [br[0], br[-1], dx, F(nc)], 'periodic': False, 'uniform': True}


def cu_1d_cases(rng, sp, full, wrapped):
    nc = sp['ncells']
    k4 = [qs(sp['k4'])]
    bc = 'periodic-style' if wrapped else 'clamped-style'
    pts = gen_points(rng, sp['breaks'], sp['dyadic'], full, n_ulp=None if full else 2)
    cA = gen_coeffs(rng, nc + 3, sp['dyadic'], 'wrapped' if wrapped and nc >= 3 else 'random', 3, nc)
    cB = gen_coeffs(rng, nc + 3, sp['dyadic'], rng.choice(['random', 'unit', 'ones']))
    base = {'knots': k4, 'deg': [3], 'bc': bc}
    out = []
    for cls, x in pts:
        xs = [qstr(x)]
        out.append(dict(base, ep='cu_find_span', x=xs, cls=cls, stratum='cu-span:%s' % cls))
        # the (span, offset) the property requires at x
        if x == sp['breaks'][-1]:
            s, o = nc + 2, F(1)
        else:
            cell = max(i for i in range(nc) if sp['breaks'][i] <= x)
            s, o = cell + 3, (x - sp['breaks'][cell]) / sp['dx']
        out.append(dict(ep='cu_basis_funs', span=s, offset=qstr(o), dx=qstr(sp['dx']), cls=cls,
                        stratum='cu-basis:%s' % cls))
        out.append(dict(ep='cu_basis_funs_1st_der', span=s, offset=qstr(o), dx=qstr(sp['dx']), cls=cls,
                        stratum='cu-ders:%s' % cls))
        for der in (0, 1):
            out.append(dict(base, ep='cu_eval_spline_1d_scalar', x=xs, der=[der], coeffs=qs(cA), cls=cls,
                            stratum='cu1d:%s:%s' % (bc, cls)))
    order = list(pts)
    rng.shuffle(order)
    for der in (0, 1):
        out.append(dict(base, ep='cu_eval_spline_1d_vector', x=qs([x for _, x in order]), der=[der], coeffs=qs(cB),
                        cls='vector', classes=[k for k, _ in order], per_point=True, stratum='cu1d:%s' % bc))
    if wrapped and nc >= 3:
        for der in (0, 1):
            out.append(dict(base, ep='cu_eval_spline_1d_vector', x=qs([sp['breaks'][0], sp['breaks'][-1]]), der=[der],
                            coeffs=qs(cA), cls='period-ends', classes=['left-end', 'right-end'], periodic_ends=True,
                            stratum='cu1d:periodic-style:ends-equal'))
    return out


def gen_exact_cases(chk):
    rng = random.Random(chk.seed)
    thorough = chk.tier == 'thorough'
    reps = 4 if thorough else 1
    cases = []
    spaces = []
    # general path, 1-D, degrees 1..10
    for rep in range(reps):
        for p in range(1, 11):
            for periodic in (False, True):
                for uniform in (True, False):
                    sp = gen_space(rng, p, periodic, uniform, dyadic=rng.random() < 0.6)
                    spaces.append(sp)
                    cases += nu_1d_cases(rng, sp, thorough, heavy_cap=3 if thorough else 1)
    # general path, 2-D, degrees 1..5 x 1..5
    pairs = [(a, b) for a in range(1, 6) for b in range(1, 6)]
    if thorough:
        pairs = pairs * 3
    else:
        rng.shuffle(pairs)
        keep = pairs[:10]
        for d in range(1, 6):       # every degree on both axes
            if not any(a == d for a, _ in keep):
                keep.append((d, rng.randint(1, 5)))
            if not any(b == d for _, b in keep):
                keep.append((rng.randint(1, 5), d))
        pairs = keep
    for d1, d2 in pairs:
        s1 = gen_space(rng, d1, rng.random() < 0.5, rng.random() < 0.5, rng.random() < 0.6, small=True)
        s2 = gen_space(rng, d2, rng.random() < 0.5, rng.random() < 0.5, rng.random() < 0.6, small=True)
        spaces += [s1, s2]
        cases += two_d_cases(rng, 'nu', s1, s2, [qs(s1['knots']), qs(s2['knots'])],
                             npt=6 if thorough else 3, nscal=5 if thorough else 2)
    # uniform cubic fast path, 1..8 cells
    for rep in range(reps):
        for nc in range(1, 9):
            for wrapped in (False, True):
                sp = gen_cu_space(rng, nc, dyadic=rng.random() < 0.6)
                cases += cu_1d_cases(rng, sp, thorough, wrapped)
    for _ in range(30 if thorough else 6):
        s1 = gen_cu_space(rng, rng.randint(1, 8), rng.random() < 0.6)
        s2 = gen_cu_space(rng, rng.randint(1, 8), rng.random() < 0.6)
        cases += two_d_cases(rng, 'cu', s1, s2, [qs(s1['k4']), qs(s2['k4'])],
                             npt=6 if thorough else 3, nscal=5 if thorough else 2)
    for c in cases:
        c['flt'] = case_flt(c)
    return cases, spaces


# ------------------------------------------------------------------------------------------------
# dispatch through the real classes

FORMS_1D = ('Spline1D.eval-scalar', 'Spline1D.eval-array', 'Spline1D.eval_vector', 'BSplines[i].eval-scalar',
            'BSplines[i].eval-array', 'Spline1D.eval-scalar-complex')
FORMS_2D = ('Spline2D.eval-scalar', 'Spline2D.eval-arrays', 'Spline2D.eval_vector')


def gen_dispatch_cases(chk):
    rng = random.Random(chk.seed + 7)
    thorough = chk.tier == 'thorough'
    n1, n2 = (1500, 450) if thorough else (150, 45)
    out = []
    for i in range(n1):
        form = FORMS_1D[i % len(FORMS_1D)]
        cub = (i // len(FORMS_1D)) % 3 == 0          # a third of the spaces take the uniform-cubic fast path
        p = 3 if cub else rng.choice([1, 2, 3, 4, 5, 6, 7, 8, 9, 10])
        # the `uniform` flag of BSplines is the caller's statement about the knots: only set on uniform ones
        uniform = cub or (p != 3 and rng.random() < 0.4)
        sp = gen_space(rng, p, rng.random() < 0.5, uniform, True, small=False)
        pts = pick2d(rng, gen_points(rng, sp['breaks'], True, True, n_ulp=3), 1 if 'scalar' in form else rng.randint(2, 6))
        nb = sp['ncells'] + p
        c = {'form': form, 'spaces': [{'p': p, 'breaks': qs(sp['breaks']), 'periodic': sp['periodic'], 'uniform': sp['uniform']}],
             'x': qs([x for _, x in pts]), 'classes': [k for k, _ in pts], 'der': [rng.randint(0, 1)],
             'storage': STORAGES[(i // len(FORMS_1D)) % len(STORAGES)]}
        if form.startswith('BSplines[i]'):
            c['i'] = rng.randrange(sp['ncells'] if sp['periodic'] else nb)
        else:
            c['coeffs'] = qs(gen_coeffs(rng, nb, True, rng.choice(['random', 'random', 'wrapped']) if sp['periodic'] else 'random',
                                        p, sp['ncells']))
            if form.endswith('complex'):
                c['coeffs_im'] = qs(gen_coeffs(rng, nb, True, 'random'))
        out.append(c)
    for i in range(n2):
        cub = (i // len(FORMS_2D)) % 3 == 0
        sps = []
        for _ in range(2):
            p = 3 if cub else rng.randint(1, 5)
            sp = gen_space(rng, p, rng.random() < 0.5, cub or (p != 3 and rng.random() < 0.4), True, small=True)
            sps.append(sp)
        form = FORMS_2D[i % len(FORMS_2D)]
        k = 1 if 'scalar' in form else rng.randint(2, 3)
        P1 = pick2d(rng, gen_points(rng, sps[0]['breaks'], True, True, n_ulp=2), k)
        P2 = pick2d(rng, gen_points(rng, sps[1]['breaks'], True, True, n_ulp=2), k)
        nb1, nb2 = sps[0]['ncells'] + sps[0]['p'], sps[1]['ncells'] + sps[1]['p']
        out.append({'form': form,
                    'spaces': [{'p': s['p'], 'breaks': qs(s['breaks']), 'periodic': s['periodic'], 'uniform': s['uniform']} for s in sps],
                    'x': qs([x for _, x in P1]), 'y': qs([y for _, y in P2]),
                    'classes': [cls2d(a, b) for a, _ in P1 for b, _ in P2],
                    'der': [rng.randint(0, 1), rng.randint(0, 1)], 'ncols': nb2,
                    'storage': STORAGES[(i // len(FORMS_2D)) % len(STORAGES)],
                    'coeffs': qs(gen_coeffs(rng, nb1 * nb2, True, 'random'))})
    return out


STORAGES = ('contiguous', 'every-second', 'column', 'reversed')


def _stored(vals, storage, shape=None):
    """an array holding `vals` (or NaN, shape given) the way a caller may hold it: C-contiguous, every second
    element of a buffer, a column / Fortran-ordered block of a larger buffer, or a reversed view"""
    if shape is None:
        shape = (len(vals),)
    n = shape[0]
    if storage == 'every-second':
        a = np.full((2 * n,) + tuple(shape[1:]), np.nan)[::2]
    elif storage == 'column':
        if len(shape) == 1:
            a = np.full((n, 3), np.nan)[:, 1]
        else:
            a = np.full((shape[0], 2, shape[1]), np.nan)[:, 1, :]
    elif storage == 'reversed':
        a = np.full(shape, np.nan)[::-1]
        if len(shape) == 2:
            a = np.asfortranarray(np.full(shape, np.nan))
    else:
        a = np.full(shape, np.nan)
    if vals is not None:
        a[...] = vals
    return a


def dispatch_stage(c):
    """worker: build the real BSplines / Spline1D / Spline2D objects on floats, evaluate, and return the
    values together with the kernel request(s) the dispatch has to be equivalent to"""
    from pygyro.splines.splines import make_knots, BSplines, Spline1D, Spline2D
    form = c['form']
    bases = []
    kns = []
    fams = []
    with warnings.catch_warnings():
        warnings.simplefilter('ignore')
        for s in c['spaces']:
            br = np.array([float(qparse(q)) for q in s['breaks']])
            T = make_knots(br, s['p'], s['periodic'])
            b = BSplines(T, s['p'], s['periodic'], s['uniform'])
            want_cu = s['p'] == 3 and s['uniform']
            if bool(b.cubic_uniform) != want_cu:
                return {'bad': 'BSplines.cubic_uniform is %r for degree %d uniform=%r' % (b.cubic_uniform, s['p'], s['uniform'])}
            nb = len(br) - 1 if s['periodic'] else len(br) - 1 + s['p']
            if b.nbasis != nb or b.degree != s['p'] or b.ncells != len(br) - 1:
                return {'bad': 'BSplines nbasis/degree/ncells = %r/%r/%r' % (b.nbasis, b.degree, b.ncells)}
            bases.append(b)
            kns.append([qstr(qlift.frac_of_float(t)) for t in b.knots])
            fams.append('cu' if want_cu else 'nu')
        storage = c.get('storage', 'contiguous')
        xs = _stored([float(qparse(q)) for q in c['x']], storage)
        xs0 = xs.copy()
        der = c['der']
        fam = fams[0]
        kc = {'knots': kns, 'deg': [s['p'] for s in c['spaces']], 'der': der, 'x': c['x'], 'form': form, 'storage': storage,
              'classes': c['classes'], 'flt': True}
        if len(bases) == 1:
            b = bases[0]
            p, n = b.degree, b.ncells
            if form.startswith('BSplines[i]'):
                spl = b[c['i']]
                co = [F(0)] * (n + p)
                co[c['i']] = F(1)
                if b.periodic:
                    for j in range(p):
                        co[n + j] = co[j]
                kc['coeffs'] = qs(co)
            elif form.endswith('complex'):
                spl = Spline1D(b, dtype=complex)
                spl.coeffs[:] = [complex(float(qparse(a)), float(qparse(bb))) for a, bb in zip(c['coeffs'], c['coeffs_im'])]
            else:
                spl = Spline1D(b)
                spl.coeffs[:] = [float(qparse(a)) for a in c['coeffs']]
                kc['coeffs'] = c['coeffs']
            co0 = None if form.startswith('BSplines[i]') else np.array(spl.coeffs, copy=True)
            if form.endswith('scalar') or form.endswith('complex'):
                v = spl.eval(float(xs[0]), der[0])
                kc['ep'] = fam + '_eval_spline_1d_scalar'
                if form.endswith('complex'):
                    v = complex(v)
                    k1 = dict(kc, coeffs=c['coeffs'], dispatch_out=[v.real], part='re')
                    k2 = dict(kc, coeffs=c['coeffs_im'], dispatch_out=[v.imag], part='im')
                    if not np.array_equal(np.asarray(spl.coeffs), co0):
                        return {'bad': '%s modified the coefficients of the spline it evaluates' % form}
                    return {'kcs': [k1, k2]}
                kc['dispatch_out'] = [float(v)]
            elif form.endswith('array'):
                v = spl.eval(xs, der[0])
                kc['ep'] = fam + '_eval_spline_1d_vector'
                kc['dispatch_out'] = [float(t) for t in v]
            else:
                y = _stored(None, storage, (len(xs),))
                spl.eval_vector(xs, y, der[0])
                kc['ep'] = fam + '_eval_spline_1d_vector'
                kc['dispatch_out'] = [float(t) for t in y]
            if not np.array_equal(xs, xs0):
                return {'bad': '%s (%s arrays) modified the array of evaluation points' % (form, storage)}
            if co0 is not None and not np.array_equal(np.asarray(spl.coeffs), co0):
                return {'bad': '%s modified the coefficients of the spline it evaluates' % form}
            return {'kcs': [kc]}
        ys = _stored([float(qparse(q)) for q in c['y']], storage)
        ys0 = ys.copy()
        spl = Spline2D(bases[0], bases[1])
        nc = c['ncols']
        fl = [float(qparse(a)) for a in c['coeffs']]
        spl.coeffs[:, :] = np.array(fl).reshape((-1, nc))
        co0 = np.array(spl.coeffs, copy=True)
        kc.update(y=c['y'], coeffs=c['coeffs'], ncols=nc)
        if form.endswith('scalar'):
            v = spl.eval(float(xs[0]), float(ys[0]), der[0], der[1])
            kc['ep'] = fam + '_eval_spline_2d_scalar'
            kc['dispatch_out'] = [float(v)]
        elif form.endswith('arrays'):
            v = spl.eval(xs, ys, der[0], der[1])
            kc['ep'] = fam + '_eval_spline_2d_cross'
            kc['dispatch_out'] = [float(t) for t in np.asarray(v).ravel()]
        else:
            z = _stored(None, storage, (len(xs), len(ys)))
            spl.eval_vector(xs, ys, z, der[0], der[1])
            kc['ep'] = fam + '_eval_spline_2d_cross'
            kc['dispatch_out'] = [float(t) for t in z.ravel()]
        if not (np.array_equal(xs, xs0) and np.array_equal(ys, ys0)):
            return {'bad': '%s (%s arrays) modified the arrays of evaluation points' % (form, storage)}
        if not np.array_equal(np.asarray(spl.coeffs), co0):
            return {'bad': '%s modified the coefficients of the spline it evaluates (max change %.3g): every later evaluation of the object is wrong'
                    % (form, float(np.abs(np.asarray(spl.coeffs) - co0).max()))}
        return {'kcs': [kc]}


# ------------------------------------------------------------------------------------------------
# model, Coq cross-check

def model_par(lines, nproc=16):
    """modelrun over `nproc` processes; the requests are dealt round-robin after a fixed shuffle so that
    the expensive ones (high degree, 2^-50 points) are spread; answers come back in request order"""
    if not lines:
        return []
    idx = list(range(len(lines)))
    random.Random(12345).shuffle(idx)
    nproc = max(1, min(nproc, len(lines) // 8 or 1))
    parts = [idx[k::nproc] for k in range(nproc)]
    from concurrent.futures import ThreadPoolExecutor
    with ThreadPoolExecutor(nproc) as ex:
        outs = list(ex.map(lambda part: core.model([lines[i] for i in part]), parts))
    ans = [None] * len(lines)
    for part, out in zip(parts, outs):
        for i, a in zip(part, out):
            ans[i] = a
    return ans


COQ_IMPORTS = ('From Coq Require Import List ZArith QArith Qcanon. Import ListNotations. '
               'From PGV Require Import SplineModel SplineQc. Open Scope Z_scope.')


def _cq(s):
    q = qparse(s)
    return '(spq_of (%d) %d%%positive)' % (q.numerator, q.denominator)


def _cl(l):
    return '[' + '; '.join(_cq(s) for s in l) + ']'


def coq_term(c):
    ep = c['ep']
    if ep == 'nu_find_span':
        return 'spq_nu_find_span %s %d%%nat %s' % (_cl(c['knots'][0]), c['deg'][0], _cq(c['x'][0]))
    if ep in ('nu_basis_funs', 'nu_basis_funs_1st_der'):
        return 'spq_show_list (spq_%s %s %d%%nat %s %d%%nat)' % (ep, _cl(c['knots'][0]), c['deg'][0], _cq(c['x'][0]), c['span'])
    if ep == 'cu_basis_funs':
        return 'map spq_show (spq_cu_basis_funs %s)' % _cq(c['offset'])
    if ep == 'cu_basis_funs_1st_der':
        return 'map spq_show (spq_cu_basis_funs_1st_der %s %s)' % (_cq(c['offset']), _cq(c['dx']))
    fam = ep[:2]
    if ep.endswith('1d_scalar'):
        return 'spq_show_res (spq_%s_eval_1d_scalar %s %s %d%%nat %s %d%%nat)' % (
            fam, _cq(c['x'][0]), _cl(c['knots'][0]), c['deg'][0], _cl(c['coeffs']), c['der'][0])
    if ep.endswith('1d_vector'):
        return 'spq_show_list (spq_%s_eval_1d_vector %s %s %d%%nat %s %d%%nat)' % (
            fam, _cl(c['x']), _cl(c['knots'][0]), c['deg'][0], _cl(c['coeffs']), c['der'][0])
    if ep.endswith('2d_scalar'):
        nc = c['ncols']
        rows = '[' + '; '.join(_cl(c['coeffs'][i:i + nc]) for i in range(0, len(c['coeffs']), nc)) + ']'
        return 'spq_show_res (spq_%s_eval_2d_scalar %s %s %s %d%%nat %s %d%%nat %s %d%%nat %d%%nat)' % (
            fam, _cq(c['x'][0]), _cq(c['y'][0]), _cl(c['knots'][0]), c['deg'][0], _cl(c['knots'][1]), c['deg'][1],
            rows, c['der'][0], c['der'][1])
    return None


def coq_weight(c):
    """rough cost of a case inside vm_compute; None = not sampled"""
    if coq_term(c) is None or max(c.get('deg') or [3]) > 4:
        return None
    toks = list(c.get('x', [])) + list(c.get('y', [])) + [c.get('offset', '0/1')]
    if any(len(s) > 12 for s in toks):        # no 2^-50 points: Qc in vm_compute is slow on big numbers
        return None
    return npoints(c) * (4 if '_2d_' in c['ep'] else 1)


def coq_answer_matches(ans, model_ans):
    a = ans.replace('%nat', '').replace('%positive', '').replace('%Z', '')
    m = model_ans.split()
    if m[0] != 'ok':
        return False
    pairs = re.findall(r'\(\s*(-?\d+)\s*,\s*(\d+)\s*\)', a)
    if pairs:
        got = [F(int(n), int(d)) for n, d in pairs]
        return got == [qparse(t) for t in m[1:] if t != ';']
    mm = re.match(r'^SpOk\s+(\d+)$', a.strip())
    return bool(mm) and len(m) == 2 and int(mm.group(1)) == int(m[1])


# ------------------------------------------------------------------------------------------------

def site_of(c):
    return '%s.%s' % (SITE[c['ep'][:2]], c['ep'])


def family_of(c):
    return c['stratum'].split(':')[0]


def validate_make_knots(chk, spaces):
    """the exact rebuild of make_knots against the real one on every dyadic space of this run"""
    from pygyro.splines.splines import make_knots
    n = 0
    for sp in spaces:
        if not sp['dyadic']:
            continue
        n += 1
        try:
            T = make_knots(np.array([float(b) for b in sp['breaks']]), sp['p'], sp['periodic'])
            got = [qlift.frac_of_float(t) for t in T]
        except Exception as e:
            _no_timeout(e)
            got = 'exception %s' % type(e).__name__
        if got != sp['knots']:
            chk.violation('splines.make_knots:exact-rebuild',
                          'make_knots(breaks=%s, degree=%d, periodic=%r) is not the clamped / periodic extension'
                          % ([str(b) for b in sp['breaks']], sp['p'], sp['periodic']),
                          {'kind': 'make_knots', 'breaks': qs(sp['breaks']), 'degree': sp['p'], 'periodic': sp['periodic'],
                           'observed': got if isinstance(got, str) else qs(got), 'expected': qs(sp['knots'])})
    return n


def nontrivial(c):
    if c.get('const'):
        return False
    co = c.get('coeffs')
    return co is None or len(set(co)) > 1



# ------------------------------------------------------------------------------------------------
# binary64 execution next to the end points: the REAL float kernels and classes against the Coq model evaluated on the
# exact rational reading of the same float inputs.  In exact arithmetic a point one ulp inside the domain never reaches
# the end-point branch, in floating point (x - xmin)/dx may round to ncells: both branches must still return the value
# of the spline at that point up to rounding (the spline is continuous).  Spaces whose cell size is not a dyadic
# rational are essential here (e.g. [-1, 1] with 23 cells).
def end_point_float_stage(chk):
    import numpy as np
    from pygyro.splines.splines import make_knots, BSplines
    rnu, rcu = real_modules()
    rng = random.Random(chk.seed + 77)
    quick = chk.tier == 'quick'
    doms = [(-1.0, 1.0, 23), (0.1, 14.5, 67), (0.0, 1.0, 7), (-7.0, 7.0, 30), (0.0, 2 * math.pi, 8), (0.0, 1506.0, 31)]
    for _ in range(4 if quick else 40):
        lo = rng.uniform(-10, 10)
        doms.append((lo, lo + rng.uniform(0.3, 30), rng.randint(4, 70)))
    lines = []
    meta = []
    for (lo, hi, nc) in doms:
        for periodic in (False, True):
            br = np.linspace(lo, hi, nc + 1)
            kn_true = make_knots(br, 3, periodic)
            bs = BSplines(kn_true, 3, periodic, True)
            k4 = np.array(bs.knots, dtype=float)
            nb = len(kn_true) - 4
            co = np.array([rng.uniform(-2, 2) for _ in range(nb)])
            if periodic:
                co[nb - 3:] = co[:3]
            xs = [hi, lo]
            x = hi
            for k in range(16):
                x = float(np.nextafter(x, lo))
                xs.append(x)
            x = lo
            for k in range(4):
                x = float(np.nextafter(x, hi))
                xs.append(x)
            xs += [float(b) for b in br[1:-1][:3]] + [float(np.nextafter(br[nc // 2], lo))]
            sabs = float(np.abs(co).sum())
            dx = float(k4[2])
            for der in (0, 1):
                for x in xs:
                    fv = float(rcu['cu_eval_spline_1d_scalar'](x, k4, 3, co, der))
                    fg = float(rnu['nu_eval_spline_1d_scalar'](x, np.asarray(kn_true, dtype=float), 3, co, der))
                    lines.append('sp.cu1s 3 %d %s | %s | %s' % (der, qstr(qlift.frac_of_float(x)), ' '.join(qstr(qlift.frac_of_float(v)) for v in k4),
                                                             ' '.join(qstr(qlift.frac_of_float(v)) for v in co)))
                    tol = 64.0 * (nc + 8) * U * 2 * sabs * (1.0 if der == 0 else 4.0 / dx)
                    meta.append(('cu', (lo, hi, nc, periodic), x, der, fv, tol))
                    lines.append('sp.nu1s 3 %d %s | %s | %s' % (der, qstr(qlift.frac_of_float(x)), ' '.join(qstr(qlift.frac_of_float(float(v))) for v in kn_true),
                                                                 ' '.join(qstr(qlift.frac_of_float(v)) for v in co)))
                    meta.append(('nu', (lo, hi, nc, periodic), x, der, fg, tol))
    ans = model_par(lines)
    worst = 0.0
    for (fam, sp, x, der, fv, tol), a in zip(meta, ans):
        inside = 'right-end' if x == sp[1] else 'left-end' if x == sp[0] else 'ulps-inside-right' if x > sp[1] - (sp[1] - sp[0]) / (2 * sp[2]) else 'other'
        chk.count((fam, sp, x, der), stratum='float-end:%s:%s:der%d' % (fam, inside, der),
                  sample={'path': fam, 'domain': [sp[0], sp[1]], 'ncells': sp[2], 'periodic': sp[3], 'x': repr(x), 'der': der, 'float': fv})
        if not a.startswith('ok '):
            raise core.BrokenCheck('model answers %r on the closed domain (%s x=%r)' % (a, fam, x))
        ev = qparse(a[3:])
        d = abs(float(F(fv) - ev))
        worst = max(worst, d / tol)
        if not (d <= tol):
            chk.violation('%s:float-near-end-point' % SITE[fam],
                          '%s path, domain [%r, %r] with %d cells (%s), der=%d: at x=%r (%s) the float kernel returns %r, the spline is %.17g there (|diff| %.3e > %.1e)'
                          % (fam, sp[0], sp[1], sp[2], 'periodic' if sp[3] else 'clamped', der, x, inside, fv, float(ev), d, tol),
                          {'kind': 'impl', 'stage': 'end-point-float', 'path': fam, 'domain': list(sp), 'x': repr(x), 'der': der, 'float': fv, 'exact': qstr(ev)})
    return len(meta), worst

def basis_object_stage(chk):
    """BSplines.__getitem__: basis[i] is the spline with the unit coefficient vector e_i.  Objects handed out earlier
    must stay what they were: all basis functions of a space are requested first and evaluated afterwards (value and
    derivative, scalar and array entry points) and compared bitwise with the kernel run directly on e_i."""
    import numpy as np
    from pygyro.splines.splines import make_knots, BSplines
    rnu, rcu = real_modules()
    rng = random.Random(chk.seed + 99)
    quick = chk.tier == 'quick'
    n = 0
    for periodic in (False, True):
        for p in (1, 2, 3, 4, 5):
            for uniform in (True, False):
                for rep in range(1 if quick else 3):
                    nc = rng.randint(max(p + 1, 3), 9)
                    lo = rng.choice([0.0, -1.25, 0.1])
                    if uniform:
                        br = np.linspace(lo, lo + rng.choice([1.0, 2 * math.pi, 14.4]), nc + 1)
                    else:
                        br = lo + np.concatenate([[0.0], np.cumsum([rng.choice([0.5, 1.0, 1.5]) for _ in range(nc)])])
                    bs = BSplines(make_knots(br, p, periodic), p, periodic, uniform)
                    cu = bool(bs.cubic_uniform)
                    kn = np.asarray(bs.knots, dtype=float)
                    ncoef = bs.ncells + p
                    held = [bs[i] for i in range(bs.nbasis)]                  # all requested before any is used
                    xs = np.array(sorted([float(br[0]), float(br[-1])] + [rng.uniform(float(br[0]), float(br[-1])) for _ in range(5)]))
                    tag = '%s:%s:p%d' % ('periodic' if periodic else 'clamped', 'cubic' if cu else 'uniform' if uniform else 'nonuniform', p)
                    # out-parameter aliasing: the vector kernels read x[i] before they write y[i], so evaluating in place
                    # (output array = array of points) must give the same values as with a separate output array
                    co = np.array([rng.uniform(-2, 2) for _ in range(ncoef)])
                    if periodic:
                        co[bs.nbasis:] = co[:p]
                    for der in (0, 1):
                        kern = (rcu['cu_eval_spline_1d_vector'] if cu else rnu['nu_eval_spline_1d_vector'])
                        sep = np.empty(len(xs))
                        kern(xs.copy(), kn, p, co, sep, der)
                        inpl = xs.copy()
                        kern(inpl, kn, p, co, inpl, der)
                        longer = np.full(len(xs) + 3, 7.5)
                        kern(xs.copy(), kn, p, co, longer, der)
                        chk.count(('inplace', tag, nc, der), stratum='inplace-vector:%s:der%d' % (tag, der), sample={'space': tag, 'ncells': nc, 'der': der})
                        n += 1
                        if not (np.array_equal(inpl, sep) and np.array_equal(longer[:len(xs)], sep) and (longer[len(xs):] == 7.5).all()):
                            chk.violation('%s_eval_spline_1d_vector:out-parameter' % ('cu' if cu else 'nu'),
                                          'space %s with %d cells, der=%d: evaluating into the array of points itself gives %r, into a separate array %r; '
                                          'cells of a longer output array beyond len(x) %s' % (tag, nc, der, inpl.tolist()[:4], sep.tolist()[:4],
                                                                                                'kept' if (longer[len(xs):] == 7.5).all() else 'overwritten'),
                                          {'kind': 'impl', 'stage': 'inplace-vector', 'space': tag, 'breaks': [float(b) for b in br], 'degree': p,
                                           'periodic': periodic, 'uniform': uniform, 'der': der, 'x': xs.tolist(), 'coeffs': co.tolist()})
                    for i, B in enumerate(held):
                        e = np.zeros(ncoef)
                        e[i] = 1.0
                        if periodic and i < p:
                            e[bs.nbasis + i] = 1.0
                        for der in (0, 1):
                            ref = np.empty(len(xs))
                            (rcu['cu_eval_spline_1d_vector'] if cu else rnu['nu_eval_spline_1d_vector'])(xs, kn, p, e, ref, der)
                            got_v = np.asarray(B.eval(xs, der), dtype=float)
                            got_s = np.array([float(B.eval(float(x), der)) for x in xs])
                            chk.count(('basis-object', tag, nc, i, der), stratum='basis-object:%s:der%d' % (tag, der),
                                      sample={'space': tag, 'ncells': nc, 'i': i, 'der': der})
                            n += 1
                            if not (np.array_equal(got_v, ref) and np.allclose(got_s, ref, rtol=1e-13, atol=1e-13)):
                                chk.violation('splines.BSplines.__getitem__:held-basis-function',
                                              'space %s with %d cells: basis[%d] requested together with the other basis functions and evaluated '
                                              'afterwards (der=%d) gives %r, the kernel on the unit vector e_%d gives %r'
                                              % (tag, nc, i, der, got_v.tolist()[:4], i, ref.tolist()[:4]),
                                              {'kind': 'impl', 'stage': 'basis-object', 'space': tag, 'breaks': [float(b) for b in br], 'degree': p,
                                               'periodic': periodic, 'uniform': uniform, 'i': i, 'der': der})
                                break
    return n


def run():
    chk = core.Check('C07', 'proof')
    proof = core.proof_stage('C07')
    n_endf, endf_worst = end_point_float_stage(chk)
    n_basis_objects = basis_object_stage(chk)
    cases, spaces = gen_exact_cases(chk)
    n_knots_validated = validate_make_knots(chk, spaces)

    # dispatch through the classes: stage 1 builds the objects and evaluates on floats
    dcases = gen_dispatch_cases(chk)
    dres = implrun.run_cases('props.c07', 'dispatch_stage', dcases, tmo=20.0)
    n_dispatch = 0
    deferred = []        # reported after the kernel-level cases, which name the failing site more precisely
    for dc, dr in zip(dcases, dres):
        key = 'splines.%s' % dc['form']
        if isinstance(dr, tuple):
            what = 'timeout' if dr[0] == 'timeout' else 'raised %s: %s' % (dr[1], dr[2])
            deferred.append((key + ':exception', '%s on degree(s) %r: %s' % (dc['form'], [s['p'] for s in dc['spaces']], what),
                             {'kind': 'dispatch', 'case': dc, 'observed': what}))
            continue
        if 'bad' in dr:
            deferred.append((key + ':space', dr['bad'], {'kind': 'dispatch', 'case': dc, 'observed': dr['bad']}))
            continue
        for kc in dr['kcs']:
            kc['stratum'] = 'dispatch:%s:%s' % (dc['form'], kc['ep'][:2])
            kc['cls'] = 'dispatch'
            kc['dispatch_case'] = dc
            cases.append(kc)
            n_dispatch += 1

    missing = sorted(set(EPS_NU + EPS_CU) - {c['ep'] for c in cases})
    if missing:
        raise core.BrokenCheck('generator does not reach the entry points %r' % missing)
    res = implrun.run_cases('props.c07', 'exact_eval', cases, tmo=20.0)
    mod = model_par([model_line(c) for c in cases])

    # the uniform extension used by the cu== oracles is the model's sp_uniform_knots (the knot vector the theorem
    # cu_path_eq_general_path is stated on)
    k4s = sorted({tuple(k) for c in cases if c['ep'].startswith('cu_eval') for k in c['knots']})
    uk = core.model(['sp.uknots %s %s %d' % (k[0], k[2], int(qparse(k[3]))) for k in k4s])
    for k, a in zip(k4s, uk):
        if a != 'ok ' + ' '.join(qs(uniform_ext([qparse(t) for t in k]))):
            raise core.BrokenCheck('uniform extension of %r: harness and model disagree (%s)' % (k, a[:200]))

    flt_max = {}
    flt_n = 0
    flt_skipped = {}
    for i, (c, r, m) in enumerate(zip(cases, res, mod)):
        k = npoints(c)
        classes = c.get('classes') or [c['cls']] * k
        nt = nontrivial(c)
        line = model_line(c)
        for j in range(k):
            st = c['stratum'] + (':' + classes[j] if c.get('per_point') else '')
            chk.count((line, j), nontrivial=nt, stratum=st, sample={'request': line[:400], 'model': m[:200]})
        if not (m.startswith('ok ') or m == 'ok'):
            raise core.BrokenCheck('model answers %r inside the domain of the property: %s' % (m, model_line(c)[:300]))
        site = site_of(c)
        rep = {'kind': 'impl', 'case': {k2: v for k2, v in c.items() if k2 != 'dispatch_case'}, 'model': m}
        if c.get('dispatch_case') is not None:
            rep['dispatch_case'] = c['dispatch_case']
        if isinstance(r, tuple):
            if r[0] == 'timeout':
                chk.violation('%s:%s:timeout' % (site, c['cls']), '%s does not terminate: %s' % (c['ep'], model_line(c)[:200]),
                              dict(rep, observed='timeout'))
                continue
            raise core.BrokenCheck('harness worker raised %r on %s' % (r, model_line(c)[:300]))
        impl = r['impl']
        rep['observed'] = impl
        rep['oracles_failed'] = r['orc']
        chk.cov['certificates_checked'] += r['n_or']
        if impl != m:
            chk.cov['disagreements_checked'] += 1
            if r['orc'] or not impl.startswith('ok'):
                chk.violation('%s:%s' % (site, c['cls'].split(':')[0] if c['cls'] != 'dispatch' else 'value'),
                              '%s: code gives %s, the B-spline (model) %s; failing oracles: %s; request %s'
                              % (c['ep'], impl[:80], m[:80], ','.join(r['orc']) or 'exception', model_line(c)[:160]), rep)
            else:
                chk.violation('%s:model-mismatch' % site,
                              '%s: exact run of the code %s differs from the model %s although every direct oracle passes - '
                              'correspondence SplineModel.sp_%s no longer checks; request %s'
                              % (c['ep'], impl[:80], m[:80], c['ep'], model_line(c)[:160]),
                              dict(rep, kind='correspondence', theorem='SplineModel.sp_' + c['ep']), no_input=True)
        elif r['orc']:
            chk.violation('%s:%s' % (site, r['orc'][0]),
                          '%s: direct oracle(s) %s fail on the exact output %s; request %s'
                          % (c['ep'], ','.join(r['orc']), impl[:80], model_line(c)[:160]), rep)
        fl = r.get('flt')
        if fl is not None:
            fam = family_of(c)
            if fl['skipped']:
                flt_skipped[fl['skipped']] = flt_skipped.get(fl['skipped'], 0) + 1
            else:
                flt_n += 1
                flt_max[fam] = max(flt_max.get(fam, 0.0), fl['ratio'])
            if fl.get('dispatch_fail') and impl == m:
                chk.violation('splines.%s:value' % c['form'],
                              '%s does not return the value of %s on its knots and coefficients: %s; request %s'
                              % (c['form'], c['ep'], fl['dispatch_fail'], line[:160]),
                              dict(rep, kind='impl', why=fl['dispatch_fail']))
            if not fl['ok'] and impl == m:
                chk.violation('float-sanity:%s' % fam,
                              '%s: binary64 run outside the bound %g * running error (absolute-value shadow run): %s; request %s'
                              % (c['ep'], SAFETY, fl['why'], model_line(c)[:160]),
                              dict(rep, kind='float-sanity', bound='SAFETY=%g * running error of the lifted statements' % SAFETY,
                                   why=fl['why']), no_input=True)

    for key, what, rep in deferred:
        chk.violation(key, what, rep)

    # cross-check of the extraction inside Coq (vm_compute on the Qc instance)
    rng = random.Random(chk.seed + 1)
    budget = 900 if chk.tier == 'quick' else 4500
    cand = [i for i, c in enumerate(cases) if coq_weight(c) is not None and mod[i].startswith('ok')]
    rng.shuffle(cand)
    want = max(40, int(0.015 * chk.cov['evaluations']))
    samp = []
    seen_ep = set()
    for i in cand:       # one of every entry point first
        if cases[i]['ep'] not in seen_ep:
            seen_ep.add(cases[i]['ep'])
            samp.append(i)
    for i in cand:
        if len(samp) >= want:
            break
        if i not in samp:
            samp.append(i)
    cost = 0
    keep = []
    for i in samp:
        w = coq_weight(cases[i])
        if cost + w > budget:
            continue
        cost += w
        keep.append(i)
    vals = core.coq_eval([coq_term(cases[i]) for i in keep], COQ_IMPORTS, tag='c07')
    xfail = [i for i, v in zip(keep, vals) if not coq_answer_matches(v, mod[i])]
    if xfail:
        raise core.BrokenCheck('extracted model and vm_compute disagree on %d of %d sampled cases, e.g. %s'
                               % (len(xfail), len(keep), model_line(cases[xfail[0]])[:300]))
    coq_points = sum(npoints(cases[i]) for i in keep)

    chk.assumptions += [
        'float sanity link: CPython / numpy binary64 arithmetic is IEEE 754 round-to-nearest without fused operations, '
        'no underflow; the link is a sanity check, the gate is the exact comparison',
        'qlift executes the statements of the current source on fractions.Fraction (harness/qlift.py is trusted)',
        'knot vectors are those make_knots builds (breakpoints strictly increasing, interior knots simple); '
        'evaluation points lie in the closed domain [a, b]',
        'dispatch cases whose float run could legitimately take the neighbouring branch of int() are compared exactly only',
    ]
    return chk.finish(
        proof,
        rule='one evaluation = one point through one entry point (a vector / cross call with k points counts k); '
             'distinct = distinct (entry point, degrees, derivative orders, knot vector, coefficients, point); '
             'non-trivial = the coefficient vector is not constant (constant splines have value c and slope 0 by the '
             'partition of unity alone); spans / bases are always non-trivial',
        extra={'float_link_cases': flt_n, 'float_link_skipped': flt_skipped,
               'float_link_max_error_over_bound': {k: round(v, 4) for k, v in sorted(flt_max.items())},
               'float_link_bound': 'SAFETY=%g * running error bound (absolute-value shadow run of the lifted statements)' % SAFETY,
               'dispatch_kernel_requests': n_dispatch, 'make_knots_spaces_validated': n_knots_validated,
               'coq_vm_compute_crosschecked': len(keep), 'coq_vm_compute_points': coq_points,
               'exact_cases': len(cases), 'uniform_extensions_checked': len(k4s)},
        uncovered=[
            'the formal derivative (product rule through the Cox-de Boor recursion / D of coefficient lists, characterised '
            'algebraically by S(x+h) = S(x) + h*S\'(x) + h^2*R: c07_ders_eq_formal_derivative, c07_basis_taylor, c07_eval_taylor, '
            'c07_cu_ders_eq_D) is not connected to a derivative over the real numbers (no analysis in the development)',
            'numpy-level code is outside the Coq model: the dispatch of Spline1D / Spline2D / BSplines and make_knots are tied '
            'by the float sanity link and the exact rebuild only (the theorems take the shape of the knot vector - sorted, '
            'strictly increasing, periodic with wrapped coefficients - as hypotheses); floating-point rounding is bounded '
            'a posteriori, not proved'])


def replay(path):
    core.setup_paths()
    body = json.load(open(path))
    rp = body['replay']
    if rp.get('kind') == 'make_knots':
        from pygyro.splines.splines import make_knots
        T = make_knots(np.array([float(qparse(b)) for b in rp['breaks']]), rp['degree'], rp['periodic'])
        got = qs([qlift.frac_of_float(t) for t in T])
        print('make_knots', got, 'expected', rp['expected'])
        return 0 if got == rp['expected'] else 1
    if rp.get('kind') == 'dispatch':
        r = implrun.run_cases('props.c07', 'dispatch_stage', [rp['case']], tmo=60.0)[0]
        print('dispatch', rp['case']['form'], '->', r if isinstance(r, tuple) else r.get('bad', 'ok'))
        return 1 if isinstance(r, tuple) or 'bad' in r else 0
    c = rp['case']
    if rp.get('dispatch_case') is not None:      # evaluate through the classes again, then the kernel request
        d = implrun.run_cases('props.c07', 'dispatch_stage', [rp['dispatch_case']], tmo=60.0)[0]
        if isinstance(d, tuple) or 'bad' in d:
            print('dispatch', rp['dispatch_case']['form'], '->', d)
            return 1
        fresh = [k for k in d['kcs'] if k.get('part') == c.get('part')][0]
        c = dict(c, dispatch_out=fresh['dispatch_out'], knots=fresh['knots'], ep=fresh['ep'])
    r = implrun.run_cases('props.c07', 'exact_eval', [c], tmo=20.0)[0]
    m = core.model([model_line(c)])[0]
    print('request       ', model_line(c))
    print('model         ', m)
    if isinstance(r, tuple):
        print('implementation', r)
        return 1
    print('implementation', r['impl'])
    print('oracles failed', r['orc'])
    if r.get('flt') is not None:
        print('float link    ', r['flt'])
    ok = r['impl'] == m and not r['orc'] and (r.get('flt') is None or (r['flt']['ok'] and not r['flt'].get('dispatch_fail')))
    return 0 if ok else 1
