"""
C14 - the elliptic solver DiffEqSolver returns the per-mode Galerkin solution of the radial equation.

Proof: Props/C14.v (GalerkinModel.v, GalerkinTheory.v, GalerkinQc.v on top of the spline model of C07).

Tie.  poisson_solver.py is numpy/scipy code and cannot be lifted; every solver object is built from the
CURRENT source and its float tables are read back and converted to the exact rationals they are:
knots, quadrature points of every cell, weights, multFactor (passed to the model as one factor per cell), the values of A, B, C, D, E at the points.

 The function path applies rhoFactor since the repair c0d120c of /repo (theorems c14_rhs_func_spec,
 c14_func_path_eq_discrete_path); a recurrence is reported under DiffEqSolver._solveModeFunc:rhoFactor.

 (1) exact oracle (independent of the Coq model): a dense assembly on fractions.Fraction with its own
     Cox-de Boor recursion from degree 0 over ALL basis functions, all cells, no overlap restriction, of
       mass[a,b] = sum w E B_b B_a x,  k2 = sum w D B_b B_a x,  PhiPsi = sum w C B_b B_a x,
       dPhidPsi[a,b] = sum w (-A) B_b' (B_a' x + B_a),  dPhiPsi[a,b] = sum w B B_b' B_a x,
     and an exact Gaussian elimination.  Code vs oracle: the five band matrices (.toarray()) under the
     rounding bound TOLF * (nq (p+1) + 8 p + 16) * 2^-53 * sum |terms| (derivatives enter with the sum of the
     absolute values of their two terms), entries outside the band exactly 0, ranges, quadrature rule
     (integrates x^j, j < 2n, on every cell), residual of the code's solution in the exact Galerkin system,
     forward error under a condition-number-scaled bound, Dirichlet values, mode independence (bitwise),
     symmetry m -> -m (bitwise), linearity, refusal, manufactured polynomial solutions.
 (2) Coq model (extracted, Qc) vs oracle: EXACT equality of the five matrices, of the solution coefficients
     and of the values at the radial nodes, on the code's own float tables, for the small configurations
     (the extracted arithmetic on inductive positives is slow), plus exactness for manufactured polynomial
     solutions with an exact rational open Newton-Cotes rule of sufficient degree as the quadrature input.
 (3) a small sample is re-evaluated inside Coq (vm_compute) to cross-check the extraction.
"""
import json
import math
import random
import warnings
from fractions import Fraction as F

import numpy as np

import core
import implrun
import qlift
from qlift import qstr, qparse, frac_of_float as ff

EPS = 2.0 ** -53
TOLF = 64.0
KINDS = ['mass', 'k2', 'phipsi', 'dd', 'd1']
ATTR = {'mass': '_massMatrix', 'k2': '_k2PhiPsi', 'phipsi': '_PhiPsi', 'dd': '_dPhidPsi', 'd1': '_dPhiPsi'}
COQ_IMPORTS = ('From Coq Require Import List ZArith QArith Qcanon.\nImport ListNotations.\n'
               'From PGV Require Import SplineModel SplineQc GalerkinModel GalerkinQc.\n')

# coefficient functions by name (a replay file names them); 'default' = the argument is not passed
FUNCS = {
    'A': {'default': None, 'm1': lambda r: -1.0, 'm25': lambda r: -2.5},
    'B': {'default': None, 'inv': lambda r: 1 / r, 'lin': lambda r: 0.5 - 0.25 * r, 'minv': lambda r: -(1 / r + 0.3)},
    'C': {'default': None, 'zero': lambda r: 0.0, 'c': lambda r: 0.75, 'lin': lambda r: 1.0 + 0.5 * r, 'inv': lambda r: 2.0 / r},
    'D': {'default': None, 'minv2': lambda r: -1 / r ** 2, 'zero': lambda r: 0.0, 'lin': lambda r: -0.5 * r},
    'E': {'default': None, 'two': lambda r: 2.0, 'lin': lambda r: 1.0 + r, 'inv': lambda r: 1.0 / (1.0 + r)},
}
DEFAULTS = {'A': lambda r: -1, 'B': lambda r: 0, 'C': lambda r: 0, 'D': lambda r: -1, 'E': lambda r: 1}
KW = {'A': 'ddrFactor', 'B': 'drFactor', 'C': 'rFactor', 'D': 'ddThetaFactor', 'E': 'rhoFactor'}
# right-hand sides given as functions (numpy element-wise, so that the same doubles are reproduced here)
RHOF = {'one': lambda x: np.ones_like(x), 'quad': lambda x: 1.0 + 0.5 * x * x, 'cub': lambda x: x * (x - 2.0) * (0.25 * x + 1.0)}


def fn_of(c, name):
    f = FUNCS[name][c['funcs'][name]]
    return DEFAULTS[name] if f is None else f


def qs(a):
    return ' '.join(qstr(x) for x in a)


def fr(a):
    return [ff(x) for x in np.asarray(a, dtype=float).ravel()]


# ------------------------------------------------------------------------------------------------
# the real objects

class FakeGrid:
    """duck-typed stand-in of pygyro.model.grid.Grid in the layout 'mode_solve' (theta/mode, z, r): exactly the
    methods solveEquation / _solveMode call.  `modes` is the list of global mode indices held (any order)."""

    class _L:
        dims_order = (1, 2, 0)

    def __init__(self, modes, nz, r, dtype=np.complex128):
        self.modes = list(modes)
        self.r = np.array(r, dtype=float)
        self.data = np.zeros((len(self.modes), nz, len(self.r)), dtype=dtype)
        self.nz = nz
        self.currentLayout = 'mode_solve'

    def getLayout(self, name):
        return FakeGrid._L

    def getGlobalIdxVals(self, i):
        assert i == 0
        return list(self.modes)

    def getCoords(self, i):
        assert i == 1
        return enumerate(np.arange(self.nz, dtype=float))

    def getCoordVals(self, i):
        assert i == 2
        return self.r

    def get1DSlice(self, i, j):
        return self.data[i, j]


def build(c):
    from pygyro import splines as spl
    from pygyro.poisson.poisson_solver import DiffEqSolver
    breaks = np.array([float(qparse(b)) for b in c['breaks']])
    kn = spl.make_knots(breaks, c['p'], False)
    bs = spl.BSplines(kn, c['p'], False, bool(c['uniform_flag']))
    kw = {}
    for name in 'ABCDE':
        f = FUNCS[name][c['funcs'][name]]
        if f is not None:
            kw[KW[name]] = f
    ps = DiffEqSolver(c['qdeg'], bs, bs.nbasis, c['ntheta'], lNeumannIdx=list(c['lN']), uNeumannIdx=list(c['uN']), **kw)
    return ps, bs


def int_modes(ntheta):
    """the mode value of index I: numpy's fftfreq ordering, as integers"""
    return [I if I < (ntheta + 1) // 2 else I - ntheta for I in range(ntheta)]


def cell_factors(ps, nc):
    """the factor that multiplies the weights of [-1,1] in every cell: today one _multFactor for all cells; a solver that
    keeps per-cell half-widths (attribute _halfWidths, or _cellWeights = weights x half-widths) is read accordingly"""
    if hasattr(ps, '_halfWidths'):
        return fr(ps._halfWidths)
    if hasattr(ps, '_cellWeights'):
        br = np.asarray(ps._rspline.breaks, dtype=float)
        return fr((br[1:] - br[:-1]) * 0.5)
    return [ff(ps._multFactor)] * nc


def tables(c, ps):
    """exact copies of the float tables of the solver"""
    P = np.array(ps._evalPts, dtype=float)
    nc, nq = P.shape
    t = {'p': int(ps._rspline.degree), 'nc': int(nc), 'nq': int(nq), 'nb': int(ps._rspline.nbasis),
         'T': fr(ps._rspline.knots), 'pts': [[ff(x) for x in row] for row in P], 'w': fr(ps._weights),
         'mf': cell_factors(ps, nc)}
    with warnings.catch_warnings():
        warnings.simplefilter('ignore')
        for name in 'ABCDE':
            v = np.vectorize(fn_of(c, name))(P)
            t[name] = [[ff(x) for x in row] for row in np.asarray(v, dtype=float)]
    return t


def model_head(t):
    tab = lambda M: qs([x for row in M for x in row])
    return ' | '.join([qs(t['T']), tab(t['pts']), qs(t['w']), qs(t['mf'])] + [tab(t[n]) for n in 'ABCDE'])


# ------------------------------------------------------------------------------------------------
# the exact oracle

def cdb_all(T, p, x):
    """Cox - de Boor from degree 0 (half-open intervals, the last non-empty one closed at the right):
    N_{i,p}(x), N'_{i,p}(x) and the magnitude |term1| + |term2| of the derivative formula, i = 0 .. len(T)-p-2"""
    n0 = len(T) - 1
    last = max(i for i in range(n0) if T[i] < T[i + 1])
    N = [F(1) if (T[i] <= x < T[i + 1]) or (i == last and x == T[i + 1]) else F(0) for i in range(n0)]
    prev = N
    for k in range(1, p + 1):
        prev = N
        nxt = []
        for i in range(n0 - k):
            v = F(0)
            d1 = T[i + k] - T[i]
            if d1 != 0:
                v += (x - T[i]) / d1 * N[i]
            d2 = T[i + k + 1] - T[i + 1]
            if d2 != 0:
                v += (T[i + k + 1] - x) / d2 * N[i + 1]
            nxt.append(v)
        N = nxt
    dN, aN = [], []
    for i in range(len(N)):
        a = b = F(0)
        d1 = T[i + p] - T[i]
        if d1 != 0:
            a = p * prev[i] / d1
        d2 = T[i + p + 1] - T[i + 1]
        if d2 != 0:
            b = p * prev[i + 1] / d2
        dN.append(a - b)
        aN.append(abs(a) + abs(b))
    return N, dN, aN


def oracle_nodes(t):
    nodes = []
    for c in range(t['nc']):
        for q in range(t['nq']):
            x = t['pts'][c][q]
            N, dN, aN = cdb_all(t['T'], t['p'], x)
            nodes.append((c, q, x, N, dN, aN))
    return nodes


def oracle_mats(t, nodes):
    """dense exact Galerkin matrices and the float scale sum |terms| of every entry"""
    nb = t['nb']
    M = {k: [[F(0)] * nb for _ in range(nb)] for k in KINDS}
    S = {k: np.zeros((nb, nb)) for k in KINDS}
    support_ok = True
    for (c, q, x, N, dN, aN) in nodes:
        W = t['w'][q] * t['mf'][c]
        nz = [a for a in range(nb) if N[a] != 0 or dN[a] != 0]
        if any(a < c or a > c + t['p'] for a in nz):
            support_ok = False
        fW, fx = abs(float(W)), abs(float(x))
        cA, cB, cC, cD, cE = (t[n][c][q] for n in 'ABCDE')
        wE, wD, wC, wA, wB = W * cE * x, W * cD * x, W * cC * x, W * (-cA), W * cB * x
        for a in nz:
            for b in nz:
                nn = N[b] * N[a]
                M['mass'][a][b] += wE * nn
                M['k2'][a][b] += wD * nn
                M['phipsi'][a][b] += wC * nn
                M['dd'][a][b] += wA * dN[b] * (dN[a] * x + N[a])
                M['d1'][a][b] += wB * dN[b] * N[a]
                fnn = abs(float(nn))
                S['mass'][a, b] += fW * abs(float(cE)) * fx * fnn
                S['k2'][a, b] += fW * abs(float(cD)) * fx * fnn
                S['phipsi'][a, b] += fW * abs(float(cC)) * fx * fnn
                S['dd'][a, b] += fW * abs(float(cA)) * float(aN[b]) * (float(aN[a]) * fx + abs(float(N[a])))
                S['d1'][a, b] += fW * abs(float(cB)) * fx * float(aN[b]) * abs(float(N[a]))
    return M, S, support_ok


def solve_exact(A, b):
    """Gaussian elimination on Fractions; None if singular"""
    n = len(A)
    M = [list(A[i]) + [b[i]] for i in range(n)]
    for col in range(n):
        piv = next((r for r in range(col, n) if M[r][col] != 0), None)
        if piv is None:
            return None
        M[col], M[piv] = M[piv], M[col]
        pv = M[col][col]
        M[col] = [v / pv for v in M[col]]
        for r in range(n):
            if r != col and M[r][col] != 0:
                f = M[r][col]
                M[r] = [vr - f * vc for vr, vc in zip(M[r], M[col])]
    return [M[i][n] for i in range(n)]


def bc_range(nb, lN, uN, m):
    return (0 if m in lN else 1), nb - (0 if m in uN else 1)


def oracle_system(M, nb, lN, uN, m):
    lo, hi = bc_range(nb, lN, uN, m)
    A = [[M['dd'][a][b] + M['d1'][a][b] + M['phipsi'][a][b] - m * m * M['k2'][a][b] for b in range(lo, hi)] for a in range(lo, hi)]
    return lo, hi, A


def oracle_rhs_discrete(M, nb, lo, hi, rho):
    return [sum((M['mass'][a][b] * rho[b] for b in range(nb)), F(0)) for a in range(lo, hi)]


def oracle_rhs_func(t, nodes, lo, hi, rhot):
    out = []
    for a in range(lo, hi):
        s = F(0)
        for (c, q, x, N, dN, aN) in nodes:
            if N[a] != 0:
                s += t['w'][q] * t['mf'][c] * N[a] * x * t['E'][c][q] * rhot[c][q]
        out.append(s)
    return out


def oracle_eval(T, p, coeffs, rs):
    out = []
    for x in rs:
        N, _, _ = cdb_all(T, p, x)
        out.append(sum((cf * v for cf, v in zip(coeffs, N) if v != 0), F(0)))
    return out


def pad(nb, lo, sol):
    return [F(0)] * lo + list(sol) + [F(0)] * (nb - lo - len(sol))


# ------------------------------------------------------------------------------------------------
# one case in a worker process

def _fail(out, key, what):
    out['fails'].append((key, what))


def check_space(c, ps, t, out):
    """hypotheses of c14_dirichlet_value_zero on the object: the solver's own radial space is the GENERAL clamped space
    (never the uniform-cubic fast path, where S(xmin) = (c_0 + 4 c_1 + c_2)/6), phi is evaluated on it"""
    T, p = t['T'], t['p']
    out['n_or'] += 1
    ok = (not ps._rspline.cubic_uniform) and (ps._real_spline.basis is ps._rspline) and (ps._spline.basis is ps._rspline) \
        and len(T) == t['nc'] + 2 * p + 1 and t['nb'] == len(T) - p - 1 \
        and all(T[j] == T[p] for j in range(p + 1)) and all(T[j] == T[-1] for j in range(len(T) - 1 - p, len(T))) \
        and all(T[j] < T[j + 1] for j in range(p, len(T) - 1 - p))
    if not ok:
        _fail(out, 'DiffEqSolver.__init__:radial-space', 'the radial space of the solver is not the general clamped space on its breaks '
              '(cubic_uniform %r, knots %s)' % (ps._rspline.cubic_uniform, [float(x) for x in T]))


def check_quadrature(c, ps, t, out):
    """the rule of every cell integrates x^j, j < 2 n, over the cell (n = degree//2 + 1)"""
    br = fr(ps._rspline.breaks)
    n = t['nq']
    # the exactness is the REQUESTED one (the constructor's degree argument): polynomials up to degree 2 (degree//2 + 1) - 1,
    # whatever number of points the constructor chose to store
    nreq = max(n, c['qdeg'] // 2 + 1) if 'qdeg' in c else n
    worst = 0.0
    for cell in range(t['nc']):
        a, b = br[cell], br[cell + 1]
        for j in range(2 * nreq):
            ex = (b ** (j + 1) - a ** (j + 1)) / (j + 1)
            got = sum(t['w'][q] * t['mf'][cell] * t['pts'][cell][q] ** j for q in range(n))
            scale = sum(abs(t['w'][q] * t['mf'][cell] * t['pts'][cell][q] ** j) for q in range(n))
            err = abs(float(got - ex)) / max(float(scale), 1e-300)
            worst = max(worst, err)
            out['n_or'] += 1
    out['quad_err'] = worst
    if worst > 1e-12:
        kind = 'nonuniform-breaks' if c['bkind'] == 'nonuniform' else 'rule'
        _fail(out, 'DiffEqSolver.__init__:%s' % kind,
              'the quadrature rule stored by the constructor (points _evalPts, weights _weights*_multFactor) does not '
              'integrate x^j, j < %d (requested exactness %s, %d points stored), over every cell: relative defect %.3g (breaks %s)'
              % (2 * nreq, c.get('qdeg'), n, worst, [float(x) for x in br]))


def check_ranges(c, ps, t, out):
    nb = t['nb']
    exp = []
    for m in int_modes(c['ntheta']):
        lo, hi = bc_range(nb, c['lN'], c['uN'], m)
        exp.append((lo, hi))
    sr = 1 if len(c['lN']) == 0 else 0
    er = nb - 1 if len(c['uN']) == 0 else nb
    got = [(s.start, s.stop) for s in ps._coeff_range]
    gots = [(s.start + sr, s.stop + sr) for s in ps._stiffness_range]
    out['n_or'] += 2 * len(exp)
    cls = 'modes'
    if got != exp:
        _fail(out, 'DiffEqSolver.__init__:coeff_range:%s' % cls,
              '_coeff_range %r differs from the Dirichlet/Neumann choice per mode value %r (nTheta %d, lNeumannIdx %r, uNeumannIdx %r)'
              % (got, exp, c['ntheta'], c['lN'], c['uN']))
    if gots != exp:
        _fail(out, 'DiffEqSolver.__init__:stiffness_range:%s' % cls,
              'range_slice + _stiffness_range %r does not select the unknowns %r' % (gots, exp))
    if ps._nUnknowns != er - sr or ps._massMatrix.shape != (er - sr, nb) or ps._stiffnessMatrix.shape != (er - sr, er - sr):
        _fail(out, 'DiffEqSolver.__init__:shapes', 'nUnknowns / matrix shapes differ from range_slice %d:%d' % (sr, er))
    msq = [float(m * m) for m in int_modes(c['ntheta'])]
    if cls == 'modes' and [float(v) for v in ps._mVals] != msq:
        _fail(out, 'DiffEqSolver.__init__:mVals', '_mVals %r is not m^2' % (list(ps._mVals),))
    return sr, er


def code_matrix(ps, kind, sr, er, nb):
    """the stored (cut) matrix put back at its global position"""
    A = np.zeros((nb, nb))
    M = getattr(ps, ATTR[kind]).toarray()
    if kind == 'mass':
        A[sr:er, :] = M
    else:
        A[sr:er, sr:er] = M
    return A


def check_matrices(c, ps, t, M, S, sr, er, out):
    nb, p = t['nb'], t['p']
    tol = TOLF * (t['nq'] * (p + 1) + 8 * p + 16) * EPS
    worst = 0.0
    for kind in KINDS:
        A = code_matrix(ps, kind, sr, er, nb)
        rows = range(sr, er)
        cols = range(nb) if kind == 'mass' else range(sr, er)
        for a in rows:
            for b in cols:
                out['n_or'] += 1
                ex = M[kind][a][b]
                if abs(a - b) > p:
                    if A[a, b] != 0.0 or ex != 0:
                        _fail(out, 'DiffEqSolver.__init__:%s:outside-band' % kind, 'entry (%d,%d) outside the band: code %r exact %s' % (a, b, A[a, b], ex))
                    continue
                err = abs(float(ff(A[a, b]) - ex))
                bound = tol * S[kind][a, b] + 1e-300
                worst = max(worst, err / bound)
                if err > bound:
                    cls = 'diagonal' if a == b else ('upper' if b > a else 'lower')
                    _fail(out, 'DiffEqSolver.__init__:%s:%s' % (kind, cls),
                          '%s[%d,%d] = %r, exact Galerkin value on the same tables %.17g (error %.3g > bound %.3g)'
                          % (ATTR[kind], a, b, A[a, b], float(ex), err, bound))
    st = ps._stiffnessMatrix.toarray()
    sm = (code_matrix(ps, 'dd', sr, er, nb) + code_matrix(ps, 'd1', sr, er, nb) + code_matrix(ps, 'phipsi', sr, er, nb))[sr:er, sr:er]
    out['n_or'] += 1
    if not np.allclose(st, sm, rtol=1e-13, atol=1e-300 + 1e-13 * np.max(np.abs(sm) + 1e-300)):
        _fail(out, 'DiffEqSolver.__init__:stiffnessMatrix', '_stiffnessMatrix is not _dPhidPsi + _dPhiPsi + _PhiPsi')
    out['mat_err_over_bound'] = worst


def code_solve_one(ps, I, rho_vals, r, func=None):
    """one mode, one z through the real solveEquation / solveEquationForFunction"""
    phi = FakeGrid([I], 1, r)
    phi.data[:] = complex(np.nan, np.nan)          # phi is an out-parameter: whatever it held before must be overwritten
    if func is None:
        rho = FakeGrid([I], 1, r)
        rho.data[0, 0, :] = rho_vals
        ps.solveEquation(phi, rho)
        rc = np.array(ps._spline.coeffs, copy=True)
    else:
        ps.solveEquationForFunction(phi, func)
        rc = None
    return np.array(ps._coeffs, copy=True), np.array(phi.data[0, 0], copy=True), rc


def cnum(v):
    return [complex(x) for x in v]


def check_solves(c, ps, bs, t, nodes, M, out):
    nb, p = t['nb'], t['p']
    rng = random.Random(c['seed'])
    r = np.array(bs.greville, dtype=float)
    rs = fr(r)
    modes = int_modes(c['ntheta'])
    items = []           # for the model: (kind, m, data) in the order solved
    exp_parts = []
    picks = c['solve_modes']
    first = {}
    for I in picks:
        m = modes[I]
        lo, hi, A = oracle_system(M, nb, c['lN'], c['uN'], m)
        Af = np.array([[float(v) for v in row] for row in A])
        kappa = float(np.linalg.cond(Af, np.inf)) if hi > lo else 1.0
        for kind in c['rhs_kinds']:
            if kind == 'd':
                rho_vals = np.array([rng.randint(-8, 8) / 8.0 for _ in range(nb)]) + 1j * np.array([rng.randint(-8, 8) / 8.0 for _ in range(nb)])
                try:
                    cf, ph, rc = code_solve_one(ps, I, rho_vals, r)
                except Exception as e:
                    _fail(out, 'DiffEqSolver.solveEquation:exception', 'mode %d: %s: %s' % (m, type(e).__name__, str(e)[:150]))
                    continue
                parts = [(np.real(rc), np.real(cf), np.real(ph)), (np.imag(rc), np.imag(cf), np.imag(ph))]
                rhs_of = lambda rc_part: oracle_rhs_discrete(M, nb, lo, hi, fr(rc_part))
                rhs_abs_of = lambda rc_part: [float(sum((abs(M['mass'][a][b] * x) for b, x in enumerate(fr(rc_part))), F(0))) for a in range(lo, hi)]
                # the right-hand side the solve uses is the spline interpolating the (complex) nodal values of rho:
                # both parts must be reproduced at the Greville points (the exact oracle above starts from these coefficients)
                if 'colloc' not in first:
                    first['colloc'] = np.array([np.asarray(ps._rspline[j].eval(np.asarray(ps._rspline.greville, dtype=float)), dtype=float) for j in range(nb)]).T     # the solver's own space and points
                resid = float(np.max(np.abs(first['colloc'] @ np.asarray(rc) - rho_vals)))
                out['n_or'] = out.get('n_or', 0) + 1
                if not resid <= 1e-10 * max(1.0, float(np.max(np.abs(rho_vals)))):
                    _fail(out, 'DiffEqSolver._solveMode:rho-interpolant', 'mode %d: the spline the solve takes as right-hand side misses the nodal values of rho by %.3g '
                          '(real part off by %.3g, imaginary part off by %.3g)' % (m, resid, float(np.max(np.abs((first['colloc'] @ np.asarray(rc) - rho_vals).real))),
                                                                                    float(np.max(np.abs((first['colloc'] @ np.asarray(rc) - rho_vals).imag)))))
            else:
                f = RHOF[kind]
                try:
                    cf, ph, _ = code_solve_one(ps, I, None, r, func=f)
                except Exception as e:
                    _fail(out, 'DiffEqSolver.solveEquationForFunction:exception', 'mode %d: %s: %s' % (m, type(e).__name__, str(e)[:150]))
                    continue
                rt = np.asarray(f(np.array(ps._evalPts, dtype=float).flatten()), dtype=float).reshape(t['nc'], t['nq'])
                rhot = [[ff(x) for x in row] for row in rt]
                parts = [(rhot, np.real(cf), np.real(ph))]
                rhs_of = lambda rt_part: oracle_rhs_func(t, nodes, lo, hi, rt_part)
                rhs_abs_of = lambda rt_part: [float(sum((abs(t['w'][q] * t['mf'][cc] * N[a] * x * t['E'][cc][q] * rt_part[cc][q]) for (cc, q, x, N, dN, aN) in nodes), F(0)))
                                              for a in range(lo, hi)]
                if np.max(np.abs(np.imag(cf))) != 0.0:
                    _fail(out, 'DiffEqSolver._solveModeFunc:imaginary', 'real right-hand side gives a complex solution')
            for pi, (src, cfp, php) in enumerate(parts):
                rhs = rhs_of(src)
                sol = solve_exact(A, rhs)
                if sol is None:
                    out['singular'] = out.get('singular', 0) + 1
                    continue
                xs = pad(nb, lo, sol)
                if not (np.isfinite(kappa) and kappa < 1e12):
                    # an under-integrated system that is singular up to the rounding of its tables (condition number beyond 1e12):
                    # the exact solve goes through, a binary64 sparse factorisation of a numerically singular matrix may break
                    # down or return anything - the Galerkin solution is not determined to working precision, nothing is claimed
                    out['singular'] = out.get('singular', 0) + 1
                    continue
                if not (np.all(np.isfinite(cfp)) and np.all(np.isfinite(php))):
                    _fail(out, 'DiffEqSolver.solve:%s:nonfinite' % ('discrete' if kind == 'd' else 'function'),
                          'mode %d: the exact Galerkin system has a solution, the code returns non-finite coefficients / values' % m)
                    continue
                cfe = fr(cfp)
                out['n_or'] += 3
                # residual of the code's coefficients in the exact Galerkin system
                res = [sum((A[i][j] * cfe[lo + j] for j in range(hi - lo)), F(0)) - rhs[i] for i in range(hi - lo)]
                # (scales without cancellation: a right-hand side whose terms cancel to rounding level has a solution at rounding level)
                rabs = rhs_abs_of(src)
                scale = max([float(sum(abs(A[i][j] * cfe[lo + j]) for j in range(hi - lo))) + rabs[i] for i in range(hi - lo)] + [1e-300])
                rmax = max([abs(float(v)) for v in res] + [0.0])
                cls = 'discrete' if kind == 'd' else 'function'
                if rmax > 1e-10 * scale:
                    _fail(out, 'DiffEqSolver.solve:%s:residual' % cls,
                          'mode %d: the coefficients returned do not satisfy the exact Galerkin system (stiffness - m^2 k2PhiPsi) c = rhs '
                          'assembled from the same tables: max residual %.3g, scale %.3g' % (m, rmax, scale))
                # forward error, condition-number scaled
                xmax = max([abs(float(v)) for v in xs] + [1e-300])
                xmax = max(xmax, max(rabs + [0.0]) / max([abs(float(v)) for row in A for v in row] + [1e-300]))
                ferr = max(abs(float(a - b)) for a, b in zip(cfe, xs))
                if ferr > 1e-12 * max(kappa, 1.0) * xmax + 1e-300:
                    _fail(out, 'DiffEqSolver.solve:%s:forward' % cls,
                          'mode %d: coefficients differ from the exact solution of the exact system by %.3g (cond %.3g, |x| %.3g)' % (m, ferr, kappa, xmax))
                # Dirichlet coefficients and values; values are the spline of the coefficients
                if (m not in c['lN'] and (cfp[0] != 0.0 or abs(php[0]) > 1e-13 * xmax)) or \
                   (m not in c['uN'] and (cfp[-1] != 0.0 or abs(php[-1]) > 1e-13 * xmax)):
                    _fail(out, 'DiffEqSolver.solve:%s:dirichlet' % cls, 'mode %d: Dirichlet side: c0 %r c_last %r phi(rmin) %r phi(rmax) %r'
                          % (m, cfp[0], cfp[-1], php[0], php[-1]))
                ev = oracle_eval(t['T'], p, cfe, rs)
                verr = max(abs(float(ff(a) - b)) for a, b in zip(php, ev))
                if verr > 64 * (p + 2) * EPS * max(abs(float(v)) for v in cfe + [F(1, 10 ** 300)]):
                    _fail(out, 'DiffEqSolver.solve:%s:evaluation' % cls, 'mode %d: phi at the nodes is not the spline of the coefficients (error %.3g)' % (m, verr))
                if c['tier_model'] and c.get('model_solve') and pi == 0 and I == picks[0]:
                    items.append(('d %d %s' % (m, qs(fr(src)))) if kind == 'd' else ('f %d %s' % (m, qs([x for row in src for x in row]))))
                    exp_parts.append(qs(xs) + ' ; ' + qs(oracle_eval(t['T'], p, xs, rs)))
            first.setdefault((m, kind), (cf, ph))
    out['solve_items'] = items
    out['solve_expect'] = exp_parts
    out['rs'] = qs(rs)
    return r, first


def check_batch(c, ps, bs, t, r, first, out):
    """mode independence (batch, shuffled order, several z), symmetry m -> -m, linearity - on the real code"""
    nb = t['nb']
    rng = random.Random(c['seed'] + 7)
    modes = int_modes(c['ntheta'])
    order = list(range(c['ntheta']))
    rng.shuffle(order)
    nz = 2
    rho = FakeGrid(order, nz, r)
    vals = {}
    for I in range(c['ntheta']):
        vals[I] = [np.array([rng.randint(-8, 8) / 8.0 for _ in range(nb)]) + 1j * np.array([rng.randint(-8, 8) / 8.0 for _ in range(nb)])
                   for _ in range(nz)]
    # the same rho for m and -m on plane 1, to observe the symmetry
    for I in range(c['ntheta']):
        J = modes.index(-modes[I]) if -modes[I] in modes else I
        if J > I:
            vals[J][1] = vals[I][1]
    for k, I in enumerate(order):
        for z in range(nz):
            rho.data[k, z, :] = vals[I][z]
    phi = FakeGrid(order, nz, r)
    try:
        ps.solveEquation(phi, rho)
    except Exception as e:
        _fail(out, 'DiffEqSolver.solveEquation:exception', 'batch: %s: %s' % (type(e).__name__, str(e)[:150]))
        return
    batch = {(I, z): np.array(phi.data[k, z], copy=True) for k, I in enumerate(order) for z in range(nz)}
    for I in c['solve_modes'][:3]:
        for z in range(nz):
            out['n_or'] += 1
            _, ph, _ = code_solve_one(ps, I, vals[I][z], r)
            if not np.array_equal(ph, batch[(I, z)], equal_nan=True):
                _fail(out, 'DiffEqSolver.solveEquation:mode-independence',
                      'mode index %d (m=%d), plane %d: solved alone differs from solved in a batch (max diff %.3g)'
                      % (I, modes[I], z, float(np.max(np.abs(ph - batch[(I, z)])))))
    for I in range(c['ntheta']):
        m = modes[I]
        if m > 0 and -m in modes and (m in c['lN']) == (-m in c['lN']) and (m in c['uN']) == (-m in c['uN']):
            J = modes.index(-m)
            out['n_or'] += 1
            if not np.array_equal(batch[(I, 1)], batch[(J, 1)], equal_nan=True):
                _fail(out, 'DiffEqSolver.solveEquation:m-symmetry', 'modes %d and %d with the same rho and boundary conditions differ' % (m, -m))
    # linearity
    I = c['solve_modes'][0]
    al, be = 0.5, -1.25
    _, p1, _ = code_solve_one(ps, I, vals[I][0], r)
    _, p2, _ = code_solve_one(ps, I, vals[I][1], r)
    _, p3, _ = code_solve_one(ps, I, al * vals[I][0] + be * vals[I][1], r)
    lo, hi, A = oracle_system(first['M'], nb, c['lN'], c['uN'], modes[I])
    kappa = float(np.linalg.cond(np.array([[float(v) for v in row] for row in A]), np.inf)) if hi > lo else 1.0
    out['n_or'] += 1
    d = float(np.max(np.abs(p3 - (al * p1 + be * p2))))
    sc = float(np.max(np.abs(p1)) + np.max(np.abs(p2)) + 1e-300)
    if np.isfinite(kappa) and kappa < 1e11 and d > 1e-12 * max(kappa, 1.0) * sc:
        _fail(out, 'DiffEqSolver.solveEquation:linearity', 'mode %d: solve(a rho1 + b rho2) differs from a solve(rho1) + b solve(rho2) by %.3g' % (modes[I], d))


def check_func_E(c, ps, bs, t, r, M, out):
    """rho = 1 as a spline (values 1 at the nodes) and as a function must give the same potential"""
    I = c['solve_modes'][0]
    lo, hi, A = oracle_system(M, t['nb'], c['lN'], c['uN'], int_modes(c['ntheta'])[I])
    if solve_exact(A, [F(0)] * (hi - lo)) is None:
        return                   # under-integrated: the exact system is singular, the code's output is arbitrary
    _, pd, _ = code_solve_one(ps, I, np.ones(t['nb'], dtype=complex), r)
    _, pf, _ = code_solve_one(ps, I, None, r, func=RHOF['one'])
    out['n_or'] += 1
    sc = float(np.max(np.abs(pd)) + np.max(np.abs(pf)) + 1e-300)
    if float(np.max(np.abs(pd - pf))) > 1e-7 * sc:
        _fail(out, 'DiffEqSolver._solveModeFunc:rhoFactor',
              'rhoFactor %s: solveEquation(rho = 1) and solveEquationForFunction(rho = 1) differ by %.3g (of %.3g): the two paths do not '
              'solve the same equation ... = E rho (theorem c14_func_path_eq_discrete_path)' % (c['funcs']['E'], float(np.max(np.abs(pd - pf))), sc))


def case_stage(c):
    core.setup_paths()
    warnings.simplefilter('ignore')
    out = {'fails': [], 'n_or': 0}
    if c['kind'] == 'refuse':
        return refuse_stage(c, out)
    if c['kind'] == 'manufactured':
        return manufactured_stage(c, out)
    if c['kind'] == 'grid':
        return grid_stage(c, out)
    try:
        ps, bs = build(c)
    except Exception as e:
        _fail(out, 'DiffEqSolver.__init__:exception', '%s: %s' % (type(e).__name__, str(e)[:200]))
        return out
    t = tables(c, ps)
    if not c['uniform_flag']:
        from pygyro.splines import make_knots
        if t['T'] != fr(make_knots(np.array([float(qparse(b)) for b in c['breaks']]), c['p'], False)):
            _fail(out, 'DiffEqSolver.__init__:knots', 'the radial space of the solver is not the one passed')
    check_space(c, ps, t, out)
    check_quadrature(c, ps, t, out)
    sr, er = check_ranges(c, ps, t, out)
    nodes = oracle_nodes(t)
    M, S, sup = oracle_mats(t, nodes)
    if not sup:
        # a quadrature point of cell c lies outside cell c (the sums restricted to the overlap of the supports are then wrong)
        if c['bkind'] == 'nonuniform':
            _fail(out, 'DiffEqSolver.__init__:nonuniform-breaks', 'quadrature points of a cell lie outside the cell (breaks %s)'
                  % [float(qparse(b)) for b in c['breaks']])
            return out
        raise core.BrokenCheck('oracle: a quadrature point of cell c is outside cell c on uniform breaks')
    check_matrices(c, ps, t, M, S, sr, er, out)
    blocking = [k for k, _ in out['fails'] if ':coeff_range' in k or ':stiffness_range' in k]
    if not blocking:
        r, first = check_solves(c, ps, bs, t, nodes, M, out)
        first['M'] = M
        for flag, fn, args in (('batch', check_batch, (c, ps, bs, t, r, first, out)), ('func_E', check_func_E, (c, ps, bs, t, r, M, out))):
            if c.get(flag):
                try:
                    fn(*args)
                except core.BrokenCheck:
                    raise
                except Exception as e:      # raised inside solveEquation / solveEquationForFunction: an outcome of the code
                    _fail(out, 'DiffEqSolver.solveEquation:exception', '%s: %s: %s' % (flag, type(e).__name__, str(e)[:150]))
    if c['tier_model']:
        out['model_line'] = ('gk.case %d %d %d | %s | %s | ' % (t['p'], t['nc'], t['nq'], ' '.join(map(str, c['lN'])), ' '.join(map(str, c['uN'])))
                             + model_head(t) + ' |  | ' + out.get('rs', '') + ''.join(' | ' + it for it in out.get('solve_items', [])))
        mats = ' ; '.join(qs([M[k][a][b] for a in range(t['nb']) for b in range(t['nb'])]) for k in KINDS)
        out['model_expect'] = 'ok ' + ' ;; '.join([mats] + out.get('solve_expect', []))
        if c.get('dense'):
            out['dense_line'] = 'gk.dense %d %d %d | ' % (t['p'], t['nc'], t['nq']) + model_head(t)
            out['dense_expect'] = 'ok ' + mats
    out.pop('solve_items', None)
    out.pop('solve_expect', None)
    return out


# ------------------------------------------------------------------------------------------------
# refusal

def refuse_stage(c, out):
    raised = None
    try:
        build(c)
        raised = False
    except ValueError as e:
        raised = 'poorly defined' in str(e)
        if not raised:
            _fail(out, 'DiffEqSolver.__init__:exception', 'ValueError: %s' % str(e)[:200])
    except Exception as e:
        _fail(out, 'DiffEqSolver.__init__:exception', '%s: %s' % (type(e).__name__, str(e)[:200]))
    out['raised'] = raised
    # the values of C at (a replica of) the points: only zero / non-zero matters
    br = np.array([float(qparse(b)) for b in c['breaks']])
    g, _ = np.polynomial.legendre.leggauss(c['qdeg'] // 2 + 1)
    P = ((br[1:] + br[:-1]) * 0.5)[:, None] + g[None, :] * (br[1] - br[0]) * 0.5
    with warnings.catch_warnings():
        warnings.simplefilter('ignore')
        Cv = np.asarray(np.vectorize(fn_of(c, 'C'))(P), dtype=float)
    out['model_line'] = 'gk.refuses | %s | %s | %s' % (' '.join(map(str, c['lN'])), ' '.join(map(str, c['uN'])), qs(fr(Cv)))
    out['oracle'] = bool(set(c['lN']) & set(c['uN'])) and bool(np.all(Cv == 0))
    out['n_or'] += 1
    return out


# ------------------------------------------------------------------------------------------------
# manufactured polynomial solutions

def poly_eval(cs, x):
    v = 0 * x
    for k in reversed(cs):
        v = v * x + k
    return v


def poly_der(cs):
    return [k * cs[k] for k in range(1, len(cs))] or [0]


def poly_mul(a, b):
    o = [0] * (len(a) + len(b) - 1)
    for i, x in enumerate(a):
        for j, y in enumerate(b):
            o[i + j] += x * y
    return o


def poly_add(a, b, sb=1):
    n = max(len(a), len(b))
    return [(a[i] if i < len(a) else 0) + sb * (b[i] if i < len(b) else 0) for i in range(n)]


def manufactured(c):
    """phi* = polynomial of degree <= p with phi*(Dirichlet end) = 0, phi*'(Neumann end) = 0; A = -1, B = b0 + b1 r,
    C = c0, D = d1 r, E = 2, rho = f / 2; f = A phi*'' + B phi*' + C phi* - m^2 D phi*  (all coefficients small dyadic rationals)"""
    p, a, b = c['p'], F(qparse(c['breaks'][0])), F(qparse(c['breaks'][-1]))
    lneu, uneu = c['m'] in c['lN'], c['m'] in c['uN']
    # factors: (r-a) or (r-a)^2-free ... build phi* = u(r) with the required end conditions
    base = [F(1)]
    deg = 0
    if not lneu:
        base = poly_mul(base, [-a, F(1)]); deg += 1
    if not uneu:
        base = poly_mul(base, [-b, F(1)]); deg += 1
    if deg > p:
        return None
    phi = base
    if lneu or uneu:
        # add g(r) with g' vanishing at the Neumann ends: g = integral of prod (r - end) -> needs degree deg_g <= p
        if lneu and uneu:
            if p < 3:
                phi = [F(3, 4)]                      # constant: phi' = 0 everywhere
            else:
                dg = poly_mul([-a, F(1)], [-b, F(1)])
                phi = [F(1, 2)] + [dg[k] / (k + 1) for k in range(3)]
        else:
            e = a if lneu else b
            o = b if lneu else a
            if p < 2:
                return None
            # phi = (r - o) * q(r) with phi'(e) = 0: q = 1 + s (r - e), phi' = q + (r-o) q' -> at e: 1 + (e - o) s = 0
            s = -1 / (e - o)
            phi = poly_mul([-o, F(1)], poly_add([F(1)], [s * (-e), s]))
    if len(phi) - 1 > p:
        return None
    B, C, D = [F(1, 2), F(-1, 4)], [F(3, 4)], [F(0), F(-1, 2)]
    m = c['m']
    d1, d2 = poly_der(phi), poly_der(poly_der(phi))
    f = poly_add(poly_add(poly_add([-x for x in d2], poly_mul(B, d1)), poly_mul(C, phi)), poly_mul([m * m * x for x in D], phi), -1)
    return phi, B, C, D, f


def open_newton_cotes(n):
    """n equispaced interior points t_k = (2k+1)/n - 1 of [-1,1] with the weights exact for degree n-1 (symmetric: n)"""
    ts = [F(2 * k + 1, n) - 1 for k in range(n)]
    A = [[tk ** j for tk in ts] for j in range(n)]
    b = [(F(1) - F(-1) ** (j + 1)) / (j + 1) for j in range(n)]
    return ts, solve_exact(A, b)


def manufactured_stage(c, out):
    mf = manufactured(c)
    if mf is None:
        out['skipped'] = True
        return out
    phi, B, C, D, f = mf
    p = c['p']
    fl = lambda cs: [float(x) for x in cs]
    from pygyro import splines as spl
    from pygyro.poisson.poisson_solver import DiffEqSolver
    breaks = np.array([float(qparse(b)) for b in c['breaks']])
    bs = spl.BSplines(spl.make_knots(breaks, p, False), p, False, False)
    need = max(2 * p + 2, len(f) + p + 1)          # highest degree of an integrand
    qdeg = need + 1
    fh = [x / 2 for x in f]                         # E = 2, rho = f / 2
    Bf, Cf, Df, ff_ = fl(B), fl(C), fl(D), fl(fh)
    try:
        ps = DiffEqSolver(qdeg, bs, bs.nbasis, c['ntheta'], lNeumannIdx=list(c['lN']), uNeumannIdx=list(c['uN']),
                          drFactor=lambda r: Bf[0] + Bf[1] * r, rFactor=lambda r: Cf[0], ddThetaFactor=lambda r: Df[1] * r,
                          rhoFactor=lambda r: 2.0)
    except Exception as e:
        _fail(out, 'DiffEqSolver.__init__:exception', 'manufactured: %s: %s' % (type(e).__name__, str(e)[:200]))
        out['skipped'] = True
        return out
    r = np.array(bs.greville, dtype=float)
    I = int_modes(c['ntheta']).index(c['m'])
    try:
        cf, ph, _ = code_solve_one(ps, I, None, r, func=lambda x: poly_eval(ff_, x))
    except Exception as e:
        _fail(out, 'DiffEqSolver.solveEquationForFunction:exception', 'manufactured: %s: %s' % (type(e).__name__, str(e)[:150]))
        out['skipped'] = True
        return out
    exact = np.array([float(poly_eval(phi, ff(x))) for x in r])
    t = tables(dict(c, funcs={'A': 'default', 'B': 'default', 'C': 'default', 'D': 'default', 'E': 'default'}), ps)
    nodes = oracle_nodes(t)
    for name, cs in (('B', B), ('C', C), ('D', D)):
        t[name] = [[poly_eval(cs, x) for x in row] for row in t['pts']]
    M, S, _ = oracle_mats(t, nodes)
    lo, hi, A = oracle_system(M, t['nb'], c['lN'], c['uN'], c['m'])
    kappa = float(np.linalg.cond(np.array([[float(v) for v in row] for row in A]), np.inf)) if hi > lo else 1.0
    err = float(np.max(np.abs(np.real(ph) - exact)))
    sc = float(np.max(np.abs(exact)) + 1e-300)
    out['n_or'] += 1
    out['manufactured_err'] = err / sc
    if err > 1e-11 * max(kappa, 1.0) * sc:
        _fail(out, 'DiffEqSolver.solveEquationForFunction:manufactured',
              'degree %d, %d cells, mode %d, lN %r uN %r: manufactured polynomial solution %s is not reproduced: error %.3g (cond %.3g)'
              % (p, len(breaks) - 1, c['m'], c['lN'], c['uN'], [str(x) for x in phi], err, kappa))
    # the model with an exact rational rule of sufficient degree: exactly the polynomial
    n = need + 1
    ts, ws = open_newton_cotes(n)
    brk = [qparse(b) for b in c['breaks']]
    h = (brk[1] - brk[0]) / 2
    pts = [[(brk[k] + brk[k + 1]) / 2 + tk * (brk[k + 1] - brk[k]) / 2 for tk in ts] for k in range(len(brk) - 1)]
    tab = lambda cs: qs([poly_eval(cs, x) for row in pts for x in row])
    T = [brk[0]] * p + brk + [brk[-1]] * p
    rs = [ff(x) for x in r]
    out['model_line'] = ('gk.case %d %d %d | %s | %s | %s | %s | %s | %s | %s | %s | %s | %s | %s |  | %s | f %d %s'
                         % (p, len(brk) - 1, n, ' '.join(map(str, c['lN'])), ' '.join(map(str, c['uN'])), qs(T),
                            qs([x for row in pts for x in row]), qs(ws), qs([h] * (len(brk) - 1)), tab([F(-1)]), tab(B), tab(C), tab(D), tab([F(2)]),
                            qs(rs), c['m'], tab(fh)))
    out['model_values'] = qs([poly_eval(phi, x) for x in rs])
    if len({brk[k + 1] - brk[k] for k in range(len(brk) - 1)}) != 1:
        raise core.BrokenCheck('manufactured cases use uniform breaks')
    return out


# ------------------------------------------------------------------------------------------------
# the real Grid objects under the simulated MPI (one rank)

def grid_stage(c, out):
    from mpi4py import MPI
    from pygyro import splines as spl
    from pygyro.model.layout import getLayoutHandler
    from pygyro.model.grid import Grid
    from pygyro.poisson.poisson_solver import DiffEqSolver
    p = c['p']
    npts = [c['nc'] + p, c['ntheta'], 3]
    degree = [p, 3, 2]
    period = [False, True, False]
    domain = [[float(qparse(c['breaks'][0])), float(qparse(c['breaks'][-1]))], [0, 2 * math.pi], [0, 1]]
    nkts = [n + 1 + d * (int(pp) - 1) for (n, d, pp) in zip(npts, degree, period)]
    breaks = [np.linspace(*lims, num=num) for (lims, num) in zip(domain, nkts)]
    knots = [spl.make_knots(b, d, pp) for (b, d, pp) in zip(breaks, degree, period)]
    bsplines = [spl.BSplines(k, d, pp, True) for (k, d, pp) in zip(knots, degree, period)]
    eta_grid = [b.greville for b in bsplines]
    res = {}

    def work(comm):
        remapper = getLayoutHandler(comm, {'mode_solve': [1, 2, 0]}, [comm.Get_size()], eta_grid)
        kw = {KW[n]: FUNCS[n][c['funcs'][n]] for n in 'ABCDE' if FUNCS[n][c['funcs'][n]] is not None}
        ps = DiffEqSolver(c['qdeg'], bsplines[0], npts[0], npts[1], lNeumannIdx=list(c['lN']), uNeumannIdx=list(c['uN']), **kw)
        phi = Grid(eta_grid, bsplines, remapper, 'mode_solve', comm, dtype=np.complex128)
        rho = Grid(eta_grid, bsplines, remapper, 'mode_solve', comm, dtype=np.complex128)
        rng = random.Random(c['seed'])
        vals = {}
        for i, _ in rho.getCoords(0):
            for j, _ in rho.getCoords(1):
                v = np.array([rng.randint(-8, 8) / 8.0 for _ in range(npts[0])]) + 1j * np.array([rng.randint(-8, 8) / 8.0 for _ in range(npts[0])])
                if (i + j) % 3 == 1:
                    v = v * 0.0            # an empty (mode, z) line: the solution is zero, and it has to be written
                rho.get1DSlice(i, j)[:] = v
                vals[(i, j)] = v
        phi.getAllData()[:] = 7.5 - 2.5j           # phi is reused from step to step: it holds the previous potential
        ps.solveEquation(phi, rho)
        got = {(i, j): np.array(phi.get1DSlice(i, j), copy=True) for i, _ in phi.getCoords(0) for j, _ in phi.getCoords(1)}
        res['idx'] = list(rho.getGlobalIdxVals(0))
        r = np.array(eta_grid[0], dtype=float)
        bad = 0
        for k, I in enumerate(res['idx']):
            for j in range(npts[2]):
                _, ph, _ = code_solve_one(ps, int(I), vals[(k, j)], r)
                if not np.array_equal(ph, got[(k, j)], equal_nan=True):
                    bad += 1
        res['bad'] = bad
        res['n'] = len(got)
        return 0

    R = MPI.run(1, work, seed=c['seed'], timeout=100)
    out['n_or'] += 1
    if not R.ok():
        _fail(out, 'DiffEqSolver.solveEquation:grid:exception', 'real Grid objects, one rank: %s %s %r' % (R.outcome, R.detail, R.errors))
    elif res.get('bad'):
        _fail(out, 'DiffEqSolver.solveEquation:grid:value', '%d of %d (mode, z) lines of the Grid-level call differ from the same solve through the '
              'single-line driver' % (res['bad'], res['n']))
    out['grid_lines'] = res.get('n', 0)
    return out


# ------------------------------------------------------------------------------------------------
# generators

def dy(x):
    return qstr(F(x))


def gen_breaks(rng, nc, bkind):
    if bkind == 'dyadic':
        a = F(rng.choice([1, 2, 3]), rng.choice([1, 2]))
        h = F(1, rng.choice([1, 2, 4]))
        return [qstr(a + k * h) for k in range(nc + 1)]
    if bkind == 'linspace':
        a, b = rng.choice([(1.0, 5.0), (0.5, 2.0), (0.1, 14.5), (1.0, 9.0)])
        return [qstr(ff(x)) for x in np.linspace(a, b, nc + 1)]
    a = F(rng.choice([1, 2]), 2)
    xs = [a]
    for _ in range(nc):
        xs.append(xs[-1] + F(rng.choice([1, 2, 3, 5]), 4))
    if len({xs[k + 1] - xs[k] for k in range(nc)}) == 1:
        xs[-1] += F(1, 4)
    return [qstr(x) for x in xs]


def gen_bc(rng, ntheta, style):
    modes = int_modes(ntheta)
    if style == 'dirichlet':
        return [], []
    if style == 'lneu0':
        return [0], []
    if style == 'all-l':
        return list(modes), []
    if style == 'all-u':
        return [], list(modes)
    lN = sorted(rng.sample(modes, rng.randint(1, max(1, len(modes) // 2))))
    uN = sorted(rng.sample(modes, rng.randint(0, max(1, len(modes) // 2))))
    return lN, uN


def gen_funcs(rng, style, both_neumann):
    if style == 'default':
        f = {n: 'default' for n in 'ABCDE'}
    elif style == 'qn':
        f = {'A': 'default', 'B': 'minv', 'C': rng.choice(['inv', 'lin']), 'D': 'minv2', 'E': rng.choice(['inv', 'lin'])}
    else:
        f = {n: rng.choice(sorted(FUNCS[n])) for n in 'ABCDE'}
        f['A'] = rng.choice(['default', 'm1', 'm25'])
    if both_neumann and f['C'] in ('default', 'zero'):
        f['C'] = rng.choice(['c', 'lin', 'inv'])
    return f


def gen_cases(chk):
    rng = random.Random(chk.seed)
    quick = chk.tier == 'quick'
    cases = []

    def mk(p, nc, bkind, qdeg, ntheta, bcstyle, fstyle, tier_model, uniform_flag=False, **kw):
        lN, uN = gen_bc(rng, ntheta, bcstyle)
        both = bool(set(lN) & set(uN))
        modes = int_modes(ntheta)
        want = sorted(set([0, rng.randrange(ntheta)] + ([modes.index(lN[0])] if lN else []) + ([modes.index(uN[-1])] if uN else [])))
        c = {'kind': 'solver', 'p': p, 'nc': nc, 'bkind': bkind, 'breaks': gen_breaks(rng, nc, bkind), 'qdeg': qdeg, 'ntheta': ntheta,
             'lN': lN, 'uN': uN, 'funcs': gen_funcs(rng, fstyle, both), 'uniform_flag': uniform_flag, 'tier_model': tier_model,
             'solve_modes': want[:2] if tier_model else want[:3], 'rhs_kinds': ['d', rng.choice(['quad', 'cub'])],
             'seed': rng.randrange(10 ** 9), 'bc': bcstyle, 'fstyle': fstyle, 'model_solve': bool(tier_model and nc + p <= 4)}
        c.update(kw)
        c['stratum'] = 'solver:%s:p%d:%s:%s%s' % (bkind, p, bcstyle, fstyle, ':model' if tier_model else '')
        cases.append(c)

    bcs = ['dirichlet', 'lneu0', 'all-l', 'all-u', 'mixed']
    # (a) small configurations: code vs oracle vs Coq model, exactly
    small = [(1, 2, 2), (1, 3, 2), (1, 4, 3), (2, 2, 2), (2, 3, 4), (2, 4, 2), (3, 2, 3), (3, 3, 2), (3, 3, 4), (4, 2, 2), (5, 2, 1)]
    if not quick:
        small += [(3, 4, 6), (4, 3, 4), (5, 2, 4), (5, 3, 3), (2, 5, 4), (1, 6, 2)]
    for k, (p, nc, qdeg) in enumerate(small):
        for rep in range(2 if quick else 3):
            mk(p, nc, 'dyadic', qdeg, rng.choice([4, 5, 6]), bcs[(k + rep) % 5], ['random', 'qn', 'default'][(k + rep) % 3], True,
               dense=(rep == 0 and p <= 2), batch=(rep == 0), func_E=(rep == 1))
    mk(2, 3, 'nonuniform', 2, 4, 'lneu0', 'random', True)
    # (b) all sizes: code vs oracle
    nbig = 40 if quick else 220
    for k in range(nbig):
        p = 1 + k % 5
        nc = rng.randint(2, 12)
        bkind = ['linspace', 'dyadic', 'linspace', 'linspace'][k % 4]
        qdeg = rng.choice([max(2, 2 * p - 1), 2 * p, 2 * p + 1, 2 * p + 2])
        mk(p, nc, bkind, qdeg, rng.choice([4, 6, 8, 7]), bcs[k % 5], ['random', 'qn', 'random', 'default'][k % 4], False,
           uniform_flag=(p == 3 and bkind == 'linspace' and k % 2 == 0), batch=(k % 3 == 0), func_E=(k % 4 == 1))
    for k in range(2 if quick else 6):
        mk(1 + k % 5, rng.randint(2, 6), 'nonuniform', 2 * (1 + k % 5), 4, bcs[k % 5], 'random', False)
    # (c) a mode count for which numpy's fftfreq(n, 1/n) is not integral
    mk(2, 3, 'dyadic', 4, 49, 'mixed', 'random', False, lN_force=True)
    cases[-1]['lN'], cases[-1]['uN'] = [1, -3], [2]
    cases[-1]['solve_modes'] = [0, 1]
    # (d) refusal
    for k in range(24 if quick else 80):
        ntheta = rng.choice([4, 6, 8])
        modes = int_modes(ntheta)
        lN = sorted(rng.sample(modes, rng.randint(0, 3)))
        uN = sorted(rng.sample(modes, rng.randint(0, 3)))
        if k % 3 == 0 and lN:
            uN = sorted(set(uN + [lN[0]]))
        if k % 7 == 0:
            lN, uN = [9], [9]                      # a value that is not a mode of the grid
        fC = ['default', 'zero', 'c', 'lin', 'inv'][k % 5]
        p = 1 + k % 5
        nc = rng.randint(2, 6)
        cases.append({'kind': 'refuse', 'p': p, 'nc': nc, 'bkind': 'dyadic', 'breaks': gen_breaks(rng, nc, 'dyadic'), 'qdeg': rng.choice([0, 2, 4]),
                      'ntheta': ntheta, 'lN': lN, 'uN': uN, 'funcs': {'A': 'default', 'B': 'default', 'C': fC, 'D': 'default', 'E': 'default'},
                      'uniform_flag': False, 'stratum': 'refuse:%s:%s' % ('both' if set(lN) & set(uN) else 'none', 'C0' if fC in ('default', 'zero') else 'C'),
                      'seed': 0})
    # (e) manufactured polynomial solutions
    for k in range(20 if quick else 60):
        p = 1 + k % 5
        nc = rng.randint(2, (5 if p <= 3 else 3) if quick else (8 if p <= 3 else 4))
        ntheta = 4
        m = [0, 1, -1, 2][k % 4] if k % 4 != 3 else -2
        style = ['dirichlet', 'lneu', 'uneu', 'both'][(k // 5) % 4]
        lN = [m] if style in ('lneu', 'both') else []
        uN = [m] if style in ('uneu', 'both') else []
        a = F(rng.choice([1, 2]), 1)
        h = F(1, rng.choice([1, 2]))
        cases.append({'kind': 'manufactured', 'p': p, 'nc': nc, 'breaks': [qstr(a + j * h) for j in range(nc + 1)], 'ntheta': ntheta, 'm': m,
                      'lN': lN, 'uN': uN, 'stratum': 'manufactured:p%d:%s' % (p, style), 'seed': 0})
    # (f) real Grid objects, one simulated rank
    for k in range(3 if quick else 8):
        p = [3, 2, 1, 4, 5][k % 5]
        cases.append({'kind': 'grid', 'p': p, 'nc': rng.randint(3, 6), 'breaks': [dy(1), dy(5)], 'ntheta': [4, 8][k % 2], 'qdeg': 2 * p,
                      'lN': [0] if k % 2 == 0 else [], 'uN': [], 'funcs': gen_funcs(rng, ['qn', 'default', 'random'][k % 3], False),
                      'seed': rng.randrange(10 ** 6), 'stratum': 'grid:p%d' % p})
    return cases


# ------------------------------------------------------------------------------------------------

def run_model(lines, nproc=16):
    from concurrent.futures import ThreadPoolExecutor
    if not lines:
        return []
    with ThreadPoolExecutor(nproc) as ex:
        return list(ex.map(lambda l: core.model([l], timeout=900)[0], lines))


def first_diff(a, b):
    pa, pb = a.split(' ;; '), b.split(' ;; ')
    if len(pa) != len(pb):
        return 'number of parts %d vs %d' % (len(pa), len(pb))
    for k, (x, y) in enumerate(zip(pa, pb)):
        if x != y:
            if k == 0:
                for j, (u, v) in enumerate(zip(x.split(' ; '), y.split(' ; '))):
                    if u != v:
                        return 'matrix %s' % KINDS[j]
            return 'solution of work item %d' % k
    return 'none'


def coq_q(s):
    q = qparse(s)
    return '(spq_of (%d)%%Z %d%%positive)' % (q.numerator, q.denominator)


def coq_list(toks):
    return '[' + '; '.join(coq_q(x) for x in toks) + ']'


def coq_tab(toks, nq):
    return '[' + '; '.join(coq_list(toks[i:i + nq]) for i in range(0, len(toks), nq)) + ']'


def coq_term_band(line):
    g = [x.split() for x in line[len('gk.dense '):].split('|')]
    p, nc, nq = map(int, g[0])
    return ('gkq_show_mats (gkq_dense %s %d %d %d %s %s %s %s)'
            % (coq_list(g[1]), p, nc, nq, coq_tab(g[2], nq), coq_list(g[3]), coq_list(g[4]), ' '.join(coq_tab(g[k], nq) for k in range(5, 10))))


def coq_matches(val, ans):
    import re
    nums = re.findall(r'\(\s*\(?\s*(-?\d+)\s*\)?(?:%Z)?\s*,\s*(\d+)(?:%positive)?\s*\)', val)
    got = [F(int(a), int(b)) for a, b in nums]
    exp = [qparse(x) for part in ans[3:].split(' ; ') for x in part.split()]
    return got == exp


def nontrivial(c):
    return c['kind'] != 'solver' or c['funcs']['B'] != 'default' or c['funcs']['C'] not in ('default', 'zero') or bool(c['lN'] or c['uN'])


def run():
    chk = core.Check('C14', 'proof')
    proof = core.proof_stage('C14')
    cases = gen_cases(chk)
    res = implrun.run_cases('props.c14', 'case_stage', cases, tmo=300.0, chunk=1)
    lines, owners = [], []
    for i, (c, r) in enumerate(zip(cases, res)):
        if isinstance(r, tuple):
            continue
        for key in ('model_line', 'dense_line'):
            if r.get(key):
                lines.append(r[key])
                owners.append((i, key))
    answers = run_model(lines)
    ans = {}
    for (i, key), a in zip(owners, answers):
        ans[(i, key)] = a
    n_model = n_dense = n_manu = 0
    worst_mat = worst_quad = worst_manu = 0.0
    dense_samples = []
    for i, (c, r) in enumerate(zip(cases, res)):
        rep = {'case': c}
        if isinstance(r, tuple):
            if r[0] == 'timeout':
                chk.count(('timeout', i), stratum=c['stratum'])
                chk.violation('DiffEqSolver:%s:timeout' % c['kind'], 'case does not terminate within 300 s: %s' % json.dumps(c)[:300], rep)
                continue
            if r[1] == 'BrokenCheck':
                raise core.BrokenCheck('worker: %s on %s' % (r[2], json.dumps(c)[:300]))
            raise core.BrokenCheck('harness worker raised %r on %s' % (r, json.dumps(c)[:300]))
        chk.count(json.dumps(c, sort_keys=True), nontrivial=nontrivial(c), stratum=c['stratum'],
                  sample={k: c[k] for k in ('kind', 'p', 'nc', 'breaks', 'lN', 'uN', 'ntheta') if k in c})
        chk.cov['certificates_checked'] += r.get('n_or', 0)
        worst_mat = max(worst_mat, r.get('mat_err_over_bound', 0.0))
        if c.get('bkind') != 'nonuniform':
            worst_quad = max(worst_quad, r.get('quad_err', 0.0))
        worst_manu = max(worst_manu, r.get('manufactured_err', 0.0))
        for key, what in r['fails']:
            chk.violation(key, what, dict(rep, observed=what))
        if c['kind'] == 'refuse':
            m = ans[(i, 'model_line')]
            n_model += 1
            if m not in ('ok 0', 'ok 1'):
                raise core.BrokenCheck('gk.refuses answers %r' % m)
            if r['raised'] is not None and r['raised'] != (m == 'ok 1'):
                chk.cov['disagreements_checked'] += 1
                if r['oracle'] == (m == 'ok 1'):
                    chk.violation('DiffEqSolver.__init__:refuses:%s' % ('not-raised' if m == 'ok 1' else 'raised'),
                                  'lNeumannIdx %r uNeumannIdx %r rFactor %s: constructor %s, the test (model gk_refuses and direct oracle) says %s'
                                  % (c['lN'], c['uN'], c['funcs']['C'], 'raised' if r['raised'] else 'did not raise', m), dict(rep, model=m))
                else:
                    chk.violation('refuses:model-mismatch', 'gk_refuses disagrees with the code although the direct oracle agrees with the code: '
                                  'correspondence gk_refuses no longer checks', dict(rep, model=m, kind='correspondence', theorem='c14_refuses_iff'), no_input=True)
            elif r['oracle'] != (m == 'ok 1'):
                raise core.BrokenCheck('refusal oracle and model disagree on %s' % json.dumps(c)[:200])
            continue
        if c['kind'] == 'manufactured':
            if r.get('skipped'):
                continue
            m = ans[(i, 'model_line')]
            n_manu += 1
            ok = m.startswith('ok ') and m.split(' ;; ')[1].split(' ; ')[1] == r['model_values']
            if not ok:
                raise core.BrokenCheck('the model with an exact rule does not reproduce the manufactured polynomial solution (%s): %s'
                                       % (m[:60], json.dumps(c)[:300]))
            continue
        if c['kind'] == 'solver' and c['tier_model'] and 'model_line' in r:
            m = ans[(i, 'model_line')]
            n_model += 1
            if m != r['model_expect']:
                chk.cov['disagreements_checked'] += 1
                where = first_diff(m, r['model_expect']) if m.startswith('ok') else m
                if r['fails']:
                    continue       # the code already fails its direct oracles on this case; reported above
                chk.violation('galerkin:model-mismatch',
                              'the Coq model and the independent exact oracle disagree (%s) on the tables of a solver whose float matrices agree '
                              'with the oracle: correspondence GalerkinModel.gk_assemble / gk_solve_all no longer checks' % where,
                              dict(rep, kind='correspondence', theorem='c14_band_eq_dense / c14_solution_is_galerkin', request=r['model_line'][:2000]),
                              no_input=True)
            if 'dense_line' in r:
                d = ans[(i, 'dense_line')]
                n_dense += 1
                if d != r['dense_expect']:
                    raise core.BrokenCheck('gkq_dense differs from the oracle / from gkq_band (theorem c14_band_eq_dense) on %s' % json.dumps(c)[:200])
                if c['p'] == 1 and c['nc'] <= 3:
                    dense_samples.append((r['dense_line'], d))

    # cross-check of the extraction inside Coq
    dense_samples = dense_samples[:2]
    if dense_samples:
        vals = core.coq_eval([coq_term_band(l) for l, _ in dense_samples], COQ_IMPORTS, tag='c14', timeout=900)
        for v, (l, a) in zip(vals, dense_samples):
            if not coq_matches(v, a):
                raise core.BrokenCheck('extracted model and vm_compute disagree on %s' % l[:200])

    chk.assumptions += [
        'numpy / scipy binary64 arithmetic is IEEE 754 round-to-nearest; scipy.sparse.linalg.spsolve is backward stable on these '
        'banded systems (residual bound 1e-10 * (|A||x| + |b|), forward bound 1e-12 * cond_inf)',
        'the coefficient functions are evaluated by the harness with the same numpy.vectorize call as the constructor (same doubles)',
        'the solver is driven through a duck-typed stand-in of Grid (layout mode_solve) and, on a few cases, through real Grid objects '
        'under the simulated MPI on one rank',
        'the extracted Qc arithmetic is slow: the exact model comparison of the matrices runs on the small configurations (degree <= 5, '
        '<= 6 cells), the exact model solves on the code\'s float tables for nbasis <= 4 and on short rationals (manufactured solutions, '
        'all degrees); all other sizes are tied to the independent exact oracle, which equals the model exactly on the small ones',
    ]
    return chk.finish(
        proof,
        rule='one evaluation = one solver object (assembly of five matrices, ranges, quadrature rule, 2-3 modes x discrete and function '
             'right-hand sides, optional batch / symmetry / linearity runs), one constructor call (refusal), one manufactured solution or one '
             'Grid-level call; distinct = distinct case description; non-trivial = a coefficient function or a boundary condition differs '
             'from the default',
        extra={'model_exact_comparisons': n_model, 'dense_vs_band_model_runs': n_dense, 'manufactured_exact_model_runs': n_manu,
               'max_matrix_error_over_bound': round(worst_mat, 4), 'max_quadrature_defect_uniform': worst_quad,
               'max_manufactured_relative_error_code': worst_manu, 'coq_vm_compute_crosschecked': len(dense_samples),
               'matrix_bound': 'TOLF=%g * (nq (p+1) + 8 p + 16) * 2^-53 * sum|terms|' % TOLF},
        uncovered=['manufactured polynomial solutions: proved is the algebraic core (c14_manufactured_core: a coefficient vector whose spline '
                   'satisfies the strong equation at the quadrature points and the quadrature-level integration by parts IS the vector '
                   'returned; c14_poly_at_nodes: the Marsden coefficients of a polynomial of degree <= p give its values at the points). '
                   'Hypotheses not discharged in Coq: the quadrature-level integration by parts (exactness of the rule for the degree of the '
                   'integrands + continuity of B_a + vanishing boundary term) and that the derivative basis applied to the Marsden '
                   'coefficients gives u\' at the points; both are tested (exactly on the model with a rational rule, under a '
                   'condition-scaled bound on the code)',
                   'that the Gauss-Legendre tables of numpy are the Gauss-Legendre rule is tested (moments of every cell), not proved',
                   'the uniform-cubic evaluator is not interpolatory at the ends (S(xmin) = (c_0+4c_1+c_2)/6, c08_cubic_end_eval): '
                   'c14_dirichlet_value_zero is about the general clamped space, which is the one DiffEqSolver always builds and evaluates on '
                   '(checked on every object: check_space)',
                   'gk_phi = value of self._rspline[a].eval (unit coefficient vector through nu_eval_spline_1d) is tied by the exact '
                   'comparison of the matrices, not by a Coq lemma'])


def replay(path):
    core.setup_paths()
    body = json.load(open(path))
    c = body['replay']['case']
    r = implrun.run_cases('props.c14', 'case_stage', [c], tmo=600.0)[0]
    if isinstance(r, tuple):
        print('implementation', r)
        return 1
    for key, what in r['fails']:
        print('FAIL', key, what)
    bad = bool(r['fails'])
    for key in ('model_line', 'dense_line'):
        if r.get(key):
            m = core.model([r[key]])[0]
            exp = r.get('model_expect' if key == 'model_line' else 'dense_expect')
            if c['kind'] == 'refuse':
                print('model', m, 'raised', r['raised'])
                bad = bad or (r['raised'] is not None and r['raised'] != (m == 'ok 1'))
            elif exp is not None:
                print(key, 'model == oracle:', m == exp)
                bad = bad or m != exp
    return 1 if bad else 0
