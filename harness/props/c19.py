"""
C19 - accelerated kernels compute the same results as the pure-Python reference.
Level: translation validation (no semantics of pyccel/gfortran output is available to Coq).
 1. the documented build (make ACC=pycc LANGUAGE=fortran) is run on a scratch copy of the CURRENT
    working tree outside /repo and /verif; failure of the build is a violation;
 2. every exported kernel of the five accelerated modules is run compiled and interpreted on identical
    seeded inputs (harness/c19_runner.py); all outputs and in-place updates are compared up to
    floating-point re-association (tolerance 1e-11 * (1 + max |reference|); cases whose characteristic
    foot lies within 1e-9 of a boundary are excluded, as the property states);
 3. the numba / pythran source copies are executed EXACTLY (qlift: the real statements on rationals) against
    the pyccel source on the same inputs: same functions defined, identical results.
Coq part (Props/C19.v): the index arithmetic that differs between Python and C/Fortran (negative modulo
and floor division) is not exercised by the kernels' index expressions, see Kernels.v.
"""
import json
import os
import pickle
import random
import shutil
import subprocess
import tempfile
from fractions import Fraction as F

import numpy as np

import core
import qlift

MODS = ['pygyro.splines.spline_eval_funcs', 'pygyro.splines.cubic_uniform_spline_eval_funcs',
        'pygyro.advection.accelerated_advection_steps', 'pygyro.poisson.poisson_tools', 'pygyro.initialisation.initialiser_funcs']
VARIANTS = [('pygyro/splines/spline_eval_funcs.py', ['pygyro/splines/numba_spline_eval_funcs.py', 'pygyro/splines/pythran_spline_eval_funcs.py',
                                                      'pygyro/advection/pythran_deps/pythran_spline_eval_funcs.py']),
            ('pygyro/splines/cubic_uniform_spline_eval_funcs.py', ['pygyro/splines/numba_cubic_uniform_spline_eval_funcs.py',
                                                                    'pygyro/splines/pythran_cubic_uniform_spline_eval_funcs.py',
                                                                    'pygyro/advection/pythran_deps/pythran_cubic_uniform_spline_eval_funcs.py'])]


def build_scratch():
    tmp = tempfile.mkdtemp(dir='/var/tmp', prefix='pgv_c19_')
    rc, out, err = core.sh(['rsync', '-a', '--exclude', '.git', '--exclude', '*.egg-info', '--exclude', '__pycache__', core.REPO + '/', tmp + '/'], 300)
    if rc != 0:
        shutil.rmtree(tmp, ignore_errors=True)
        raise core.BrokenCheck('rsync failed: ' + err[-300:])
    # stale build products of the tree must not be mistaken for the result of this build
    for root, _, files in os.walk(tmp):
        for f in files:
            if f.endswith('.so') or f.endswith('.mod') or f.endswith('.o'):
                os.remove(os.path.join(root, f))
    env = dict(os.environ)
    env.pop('PYTHONPATH', None)
    rc, out, err = core.sh(['make', 'ACC=pycc', 'LANGUAGE=fortran', 'PYTHON=/venv/bin/python', 'TOOL=/venv/bin/pyccel'], 900, cwd=tmp, env=env)
    return tmp, rc, (out + err)[-1500:]


def run_runner(root, seed, n, outp):
    env = dict(os.environ)
    env.pop('PYTHONPATH', None)
    env['PYTHONDONTWRITEBYTECODE'] = '1'
    rc, out, err = core.sh([core.PY, os.path.join(core.VERIF, 'harness', 'c19_runner.py'), root, core.SHIMS, str(seed), str(n), outp], 1800, env=env)
    if rc != 0:
        return None, (out + err)[-1500:]
    return pickle.load(open(outp, 'rb')), ''


# ------------------------------------------------------------------------------ variants, exactly
def variant_check(chk, rng, ncase):
    nviol = 0
    stub = {'CC': lambda *a, **k: None, 'njit': lambda f: f}
    for base, variants in VARIANTS:
        ref = qlift.load(base)
        for vpath in variants:
            if not os.path.exists(os.path.join(core.REPO, vpath)):
                continue
            try:
                var = qlift.load(vpath, extra=stub)
            except Exception as e:   # a copy that no longer parses/executes defines nothing
                chk.violation('variants:%s:does-not-load' % os.path.basename(vpath), '%s cannot be executed: %r' % (vpath, e), {'kind': 'impl', 'file': vpath})
                continue
            pub = [k for k, v in ref.items() if callable(v) and (k.startswith('nu_') or k.startswith('cu_'))]
            missing = [k for k in pub if k not in var]
            if missing:
                chk.violation('variants:%s:missing-function' % os.path.basename(vpath), '%s does not define %r' % (vpath, missing), {'kind': 'impl', 'file': vpath, 'missing': missing})
            cu = 'cubic_uniform' in base
            for _ in range(ncase):
                if cu:
                    ncells = rng.randint(3, 8)
                    lo = F(rng.randint(-8, 8), 4)
                    dx = F(rng.randint(1, 9), 8)
                    kn = [lo, lo + dx * ncells, dx, F(ncells)]      # [xmin, xmax, dx, ncells] as BSplines stores it
                    deg = 3
                    xs = [lo + dx * ncells * F(rng.randint(0, 64), 64) for _ in range(4)] + [lo, lo + dx * ncells, lo + dx * rng.randint(0, ncells)]
                else:
                    deg = rng.randint(1, 5)
                    ncells = rng.randint(1, 5)
                    br = sorted(set([F(0), F(3)] + [F(rng.randint(1, 47), 16) for _ in range(ncells - 1)]))
                    kn = [br[0]] * deg + br + [br[-1]] * deg
                    xs = [F(rng.randint(0, 48), 16) for _ in range(4)] + br
                nb = (ncells + 3) if cu else (len(kn) - deg - 1)
                c = [F(rng.randint(-20, 20), 7) for _ in range(nb)]
                C = [[F(rng.randint(-9, 9), 5) for _ in range(nb)] for _ in range(nb)]
                pre = 'cu_' if cu else 'nu_'
                for x in xs:
                    for der in (0, 1):
                        a = ref[pre + 'eval_spline_1d_scalar'](x, qlift.arr(kn), deg, qlift.arr(c), der)
                        b = var[pre + 'eval_spline_1d_scalar'](x, qlift.arr(kn), deg, qlift.arr(c), der)
                        chk.count((vpath, '1d', str(x), der, tuple(map(str, kn))), stratum='variant:' + os.path.basename(vpath),
                                  sample={'file': vpath, 'fn': pre + 'eval_spline_1d_scalar', 'x': str(x), 'degree': deg, 'der': der})
                        if a != b:
                            nviol += 1
                            chk.violation('variants:%s:1d-differs' % os.path.basename(vpath), '%s: %seval_spline_1d_scalar(x=%s, der=%d) = %s, pyccel source gives %s'
                                          % (vpath, pre, x, der, b, a), {'kind': 'impl', 'file': vpath, 'x': str(x), 'knots': list(map(str, kn)), 'coeffs': list(map(str, c)), 'der': der})
                X = qlift.arr(xs[:3])
                Y = qlift.arr(xs[2:5])
                for d1 in (0, 1):
                    for d2 in (0, 1):
                        za = qlift._empty((3, 3))
                        zb = qlift._empty((3, 3))
                        ref[pre + 'eval_spline_2d_cross'](X, Y, qlift.arr(kn), deg, qlift.arr(kn), deg, qlift.arr(C), za, d1, d2)
                        var[pre + 'eval_spline_2d_cross'](X, Y, qlift.arr(kn), deg, qlift.arr(kn), deg, qlift.arr(C), zb, d1, d2)
                        va = qlift._empty(3)
                        vb = qlift._empty(3)
                        ref[pre + 'eval_spline_2d_vector'](X, Y, qlift.arr(kn), deg, qlift.arr(kn), deg, qlift.arr(C), va, d1, d2)
                        var[pre + 'eval_spline_2d_vector'](X, Y, qlift.arr(kn), deg, qlift.arr(kn), deg, qlift.arr(C), vb, d1, d2)
                        chk.count((vpath, '2d', tuple(map(str, xs[:5])), d1, d2, tuple(map(str, kn))), stratum='variant:' + os.path.basename(vpath))
                        if (za != zb).any() or (va != vb).any():
                            nviol += 1
                            chk.violation('variants:%s:2d-differs' % os.path.basename(vpath), '%s: 2-D entry points differ from the pyccel source for der=(%d,%d)' % (vpath, d1, d2),
                                          {'kind': 'impl', 'file': vpath, 'ders': [d1, d2], 'knots': list(map(str, kn))})
    return nviol


def run():
    chk = core.Check('C19', 'translation_validation')
    rng = random.Random(chk.seed)
    quick = chk.tier == 'quick'
    proof = None
    if os.path.exists(os.path.join(core.COQ, 'theories', 'Props', 'C19.v')):
        proof = core.proof_stage('C19')
    n = 12 if quick else 60
    tmp, rc, log = build_scratch()
    programs = 0
    try:
        if rc != 0:
            chk.count('build', stratum='build', sample={'build': 'make ACC=pycc LANGUAGE=fortran', 'rc': rc})
            chk.violation('build:documented-build-fails', 'make ACC=pycc LANGUAGE=fortran fails on the current tree: %s' % log[-400:],
                          {'kind': 'impl', 'what': 'documented build', 'log': log})
        else:
            seeds = [rng.randrange(10 ** 6) for _ in range(1 if quick else 4)]
            for sd in seeds:
                comp, e1 = run_runner(tmp, sd, n, os.path.join(tmp, 'comp.pkl'))
                intr, e2 = run_runner(core.REPO, sd, n, os.path.join(tmp, 'intr.pkl'))
                if comp is None or intr is None:
                    which = 'compiled' if comp is None else 'interpreted'
                    chk.violation('kernels:%s-run-fails' % which, '%s kernels fail on the seeded inputs: %s' % (which, (e1 or e2)[-500:]),
                                  {'kind': 'impl', 'seed': sd, 'stderr': (e1 or e2)})
                    continue
                notso = [m for m, f in comp['files'].items() if not f.endswith('.so')]
                notpy = [m for m, f in intr['files'].items() if not f.endswith('.py')]
                if notso:
                    chk.violation('build:module-not-compiled', 'after the documented build these modules are still imported from source: %r' % notso, {'kind': 'impl', 'modules': notso})
                if notpy:
                    raise core.BrokenCheck('/repo contains compiled kernels %r: the interpreted reference would not be interpreted' % notpy)
                for name in sorted(intr['results']):
                    programs += 1
                    ra = intr['results'][name]
                    rb = comp['results'].get(name)
                    kind = name.split('_')[0]
                    worst = 0.0
                    bad = None
                    if rb is None or len(rb) != len(ra):
                        bad = 'compiled run has no result (foot within rounding distance of a boundary in one run only)' if rb is None else 'different number of outputs'
                        if rb is None and (name.startswith('pol_') or name.startswith('vpar_')):
                            chk.count((name, sd), stratum='kernel:' + kind + ':skipped-boundary')
                            continue
                    else:
                        for a, b in zip(ra, rb):
                            if a.shape != b.shape:
                                bad = 'shape %r vs %r' % (a.shape, b.shape)
                                break
                            if a.dtype.kind in 'iu':
                                if not np.array_equal(a, b):
                                    bad = 'integer outputs differ'
                                    break
                                continue
                            tol = 1e-11 * (1.0 + float(np.abs(a).max() if a.size else 0.0))
                            dd = float(np.abs(a - b).max()) if a.size else 0.0
                            worst = max(worst, dd)
                            if not (dd <= tol):
                                bad = 'max |compiled - interpreted| = %.3e exceeds %.1e' % (dd, tol)
                                break
                    chk.count((name, sd), stratum='kernel:' + kind, sample={'case': name, 'seed': sd, 'arrays': len(ra), 'max_abs_diff': worst})
                    chk.cov['disagreements_checked'] += 1
                    if bad:
                        chk.violation('kernels:%s:compiled-differs' % kind, 'kernel case %s (seed %d): %s' % (name, sd, bad),
                                      {'kind': 'impl', 'case': name, 'seed': sd, 'n': n, 'what': bad})
                for k in set(comp['skipped']) | set(intr['skipped']):
                    chk.cov.setdefault('skipped_boundary_cases', {})[k] = intr['skipped'].get(k, 0)
    finally:
        shutil.rmtree(tmp, ignore_errors=True)
    nv = variant_check(chk, rng, 3 if quick else 20)
    chk.assumptions += ['pyccel 2.0.1 + gfortran as installed; the comparison is per input (validation), not a proof about the compiler',
                        'numba / pythran variants are validated as source (exact execution with decorators removed); their own compilers are not installed']
    extra = {'programs': max(programs, 1), 'explanation': 'documented pyccel build of a scratch copy of the working tree; compiled vs interpreted kernels on seeded inputs; '
             'numba/pythran source copies executed exactly against the pyccel source'}
    return chk.finish(proof, rule='every exported kernel of the five accelerated modules on seeded boundary/random arguments (degrees 1-5, clamped/periodic, uniform/non-uniform, '
                                  'x on knots / ends / one ulp inside, three v-boundary modes, both time schemes, both fill rules); non-trivial = every case; '
                                  'distinct = (case name, seed) or (variant file, inputs)',
                      extra=extra,
                      uncovered=['equality of compiled and interpreted outputs is validated per input, not proved'])


def replay(path):
    body = json.load(open(path))
    print(json.dumps(body['replay'])[:2000])
    print('re-run: bin/check C19 (the scratch build is repeated on the current tree)')
    return 1
