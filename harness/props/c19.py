"""
C19 - accelerated kernels compute the same results as the pure-Python reference.
Level: translation validation (no semantics of pyccel/gfortran output is available to Coq).
 1. the documented build (make ACC=pycc LANGUAGE=fortran) is run on a scratch copy of the CURRENT
    working tree outside /repo and /verif; failure of the build is a violation;
 2. every exported kernel of the five accelerated modules is run compiled and interpreted on identical
    seeded inputs (harness/c19_runner.py); all outputs and in-place updates are compared up to
    floating-point re-association (tolerance 1e-11 * (1 + max |reference|); cases whose characteristic
    foot lies within 1e-9 of a boundary are excluded, as the property states);
 3. the numba / pythran source copies are executed EXACTLY (qlift: the real statements on rationals) against
    the pyccel source on the same inputs: same functions defined, identical results.
Coq part (Props/C19.v): the index arithmetic that differs between Python and C/Fortran (negative modulo
and floor division) is not exercised by the kernels' index expressions, see Kernels.v.
"""
import json
import os
import pickle
import random
import shutil
import subprocess
import tempfile
from fractions import Fraction as F

import numpy as np

import core
import qlift

MODS = ['pygyro.splines.spline_eval_funcs', 'pygyro.splines.cubic_uniform_spline_eval_funcs',
        'pygyro.advection.accelerated_advection_steps', 'pygyro.poisson.poisson_tools', 'pygyro.initialisation.initialiser_funcs']
VARIANTS = [('pygyro/splines/spline_eval_funcs.py', ['pygyro/splines/numba_spline_eval_funcs.py', 'pygyro/splines/pythran_spline_eval_funcs.py',
                                                      'pygyro/advection/pythran_deps/pythran_spline_eval_funcs.py']),
            ('pygyro/splines/cubic_uniform_spline_eval_funcs.py', ['pygyro/splines/numba_cubic_uniform_spline_eval_funcs.py',
                                                                    'pygyro/splines/pythran_cubic_uniform_spline_eval_funcs.py',
                                                                    'pygyro/advection/pythran_deps/pythran_cubic_uniform_spline_eval_funcs.py'])]


def build_scratch():
    tmp = tempfile.mkdtemp(dir='/var/tmp', prefix='pgv_c19_')
    rc, out, err = core.sh(['rsync', '-a', '--exclude', '.git', '--exclude', '*.egg-info', '--exclude', '__pycache__', core.REPO + '/', tmp + '/'], 300)
    if rc != 0:
        shutil.rmtree(tmp, ignore_errors=True)
        raise core.BrokenCheck('rsync failed: ' + err[-300:])
    # stale build products of the tree must not be mistaken for the result of this build
    for root, _, files in os.walk(tmp):
        for f in files:
            if f.endswith('.so') or f.endswith('.mod') or f.endswith('.o'):
                os.remove(os.path.join(root, f))
    env = dict(os.environ)
    env.pop('PYTHONPATH', None)
    rc, out, err = core.sh(['make', 'ACC=pycc', 'LANGUAGE=fortran', 'PYTHON=/venv/bin/python', 'TOOL=/venv/bin/pyccel'], 900, cwd=tmp, env=env)
    return tmp, rc, (out + err)[-1500:]


KERNEL_SOURCES = ['pygyro/splines/spline_eval_funcs.py', 'pygyro/splines/cubic_uniform_spline_eval_funcs.py',
                  'pygyro/initialisation/initialiser_funcs.py', 'pygyro/poisson/poisson_tools.py',
                  'pygyro/advection/accelerated_advection_steps.py']


def _imports_of(root, rel):
    """kernel sources a kernel source imports from (pyccel compiles them into the module: a static copy)"""
    import ast
    out = set()
    tree = ast.parse(open(os.path.join(root, rel)).read())
    for node in ast.walk(tree):
        if isinstance(node, ast.ImportFrom) and node.module:
            last = node.module.split('.')[-1] + '.py'
            for k in KERNEL_SOURCES:
                if k.endswith('/' + last) and k != rel:
                    out.add(k)
    return out


def incremental_stage(chk, tmp):
    """the documented build, repeated after a kernel source was edited, must leave no compiled module older than
    a source it was compiled from (own file or a kernel file it imports): otherwise the compiled kernels are those
    of the previous sources.  Edits are mtime bumps; `make -n` tells which compile commands the second make runs."""
    import re
    import time
    env = dict(os.environ)
    env.pop('PYTHONPATH', None)
    mk = ['make', 'ACC=pycc', 'LANGUAGE=fortran', 'PYTHON=/venv/bin/python', 'TOOL=/venv/bin/pyccel']
    rc, out, err = core.sh(mk + ['-n'], 120, cwd=tmp, env=env)
    chk.count(('incremental', 'nothing-edited'), stratum='build:incremental', sample={'edited': None, 'make -n': (out + err)[-200:]})
    deps = {k: _imports_of(tmp, k) for k in KERNEL_SOURCES if os.path.exists(os.path.join(tmp, k))}
    for src in sorted(deps):
        need = sorted([src] + [k for k, d in deps.items() if src in d])
        path = os.path.join(tmp, src)
        st = os.stat(path)
        os.utime(path, (time.time() + 5, time.time() + 5))
        try:
            rc, out, err = core.sh(mk + ['-n'], 120, cwd=tmp, env=env)
        finally:
            os.utime(path, (st.st_atime, st.st_mtime))
        rebuilt = set()
        cwd = tmp
        for line in (out + err).splitlines():
            m = re.search(r"Entering directory '([^']+)'", line)
            if m:
                cwd = m.group(1)
            m = re.search(r'pyccel\s+(\S+\.py)', line)
            if m:
                rebuilt.add(os.path.relpath(os.path.normpath(os.path.join(cwd, m.group(1))), tmp))
        chk.count(('incremental', src), stratum='build:incremental', sample={'edited': src, 'recompiled': sorted(rebuilt), 'required': need})
        stale = [k for k in need if k not in rebuilt]
        if rc != 0:
            chk.violation('build:incremental-make-fails', 'make -n after editing %s fails: %s' % (src, (out + err)[-300:]), {'kind': 'impl', 'edited': src})
        elif stale:
            chk.violation('build:stale-after-edit:%s' % os.path.basename(src),
                          'history: make ACC=pycc; edit %s; make ACC=pycc -- the second make does not recompile %r, whose compiled code contains a copy of the edited kernels '
                          '(recompiled: %r): the compiled module keeps computing with the previous source' % (src, stale, sorted(rebuilt)),
                          {'kind': 'impl', 'history': ['make ACC=pycc LANGUAGE=fortran', 'edit ' + src, 'make ACC=pycc LANGUAGE=fortran'], 'stale': stale, 'recompiled': sorted(rebuilt)})


def run_runner(root, seed, n, outp):
    """two invocations: the implicit poloidal iteration (a compiled loop that cannot be interrupted if it does not
    converge) runs separately under a short limit; a timeout is an outcome of the compiled/interpreted program"""
    a, ea = _run_runner(root, seed, n, outp, 'main', 400)
    if a is None:
        return None, ea
    b, eb = _run_runner(root, seed, n, outp + '.impl', 'impl', 150)
    if b is None:
        a['impl_error'] = 'implicit poloidal step: ' + eb
        return a, ''
    a['results'].update(b['results'])
    for k, v in b.get('modified', {}).items():
        a.setdefault('modified', {})[k] = sorted(set(a.get('modified', {}).get(k, [])) | set(v))
    for k, v in b['skipped'].items():
        a['skipped'][k] = a['skipped'].get(k, 0) + v
    return a, ''


def _run_runner(root, seed, n, outp, part, tmo):
    env = dict(os.environ)
    env.pop('PYTHONPATH', None)
    env['PYTHONDONTWRITEBYTECODE'] = '1'
    rc, out, err = core.sh([core.PY, os.path.join(core.VERIF, 'harness', 'c19_runner.py'), root, core.SHIMS, str(seed), str(n), outp, part], tmo, env=env)
    if rc != 0:
        return None, ('TIMEOUT after %ds (a kernel does not terminate) ' % tmo if rc == 124 else '') + (out + err)[-1500:]
    return pickle.load(open(outp, 'rb')), ''


# ------------------------------------------------------------------------------ variants, exactly
def variant_check(chk, rng, ncase):
    nviol = 0
    stub = {'CC': lambda *a, **k: None, 'njit': lambda f: f}
    for base, variants in VARIANTS:
        ref = qlift.load(base)
        for vpath in variants:
            if not os.path.exists(os.path.join(core.REPO, vpath)):
                continue
            try:
                var = qlift.load(vpath, extra=stub)
            except Exception as e:   # a copy that no longer parses/executes defines nothing
                chk.violation('variants:%s:does-not-load' % os.path.basename(vpath), '%s cannot be executed: %r' % (vpath, e), {'kind': 'impl', 'file': vpath})
                continue
            pub = [k for k, v in ref.items() if callable(v) and (k.startswith('nu_') or k.startswith('cu_'))]
            missing = [k for k in pub if k not in var]
            if missing:
                chk.violation('variants:%s:missing-function' % os.path.basename(vpath), '%s does not define %r' % (vpath, missing), {'kind': 'impl', 'file': vpath, 'missing': missing})
            cu = 'cubic_uniform' in base
            for _ in range(ncase):
                if cu:
                    ncells = rng.randint(3, 8)
                    lo = F(rng.randint(-8, 8), 4)
                    dx = F(rng.randint(1, 9), 8)
                    kn = [lo, lo + dx * ncells, dx, F(ncells)]      # [xmin, xmax, dx, ncells] as BSplines stores it
                    deg = 3
                    xs = [lo + dx * ncells * F(rng.randint(0, 64), 64) for _ in range(4)] + [lo, lo + dx * ncells, lo + dx * rng.randint(0, ncells)]
                else:
                    deg = rng.randint(1, 5)
                    ncells = rng.randint(1, 5)
                    br = sorted(set([F(0), F(3)] + [F(rng.randint(1, 47), 16) for _ in range(ncells - 1)]))
                    kn = [br[0]] * deg + br + [br[-1]] * deg
                    xs = [F(rng.randint(0, 48), 16) for _ in range(4)] + br
                nb = (ncells + 3) if cu else (len(kn) - deg - 1)
                c = [F(rng.randint(-20, 20), 7) for _ in range(nb)]
                C = [[F(rng.randint(-9, 9), 5) for _ in range(nb)] for _ in range(nb)]
                pre = 'cu_' if cu else 'nu_'
                for x in xs:
                    for der in (0, 1):
                        a = ref[pre + 'eval_spline_1d_scalar'](x, qlift.arr(kn), deg, qlift.arr(c), der)
                        b = var[pre + 'eval_spline_1d_scalar'](x, qlift.arr(kn), deg, qlift.arr(c), der)
                        chk.count((vpath, '1d', str(x), der, tuple(map(str, kn))), stratum='variant:' + os.path.basename(vpath),
                                  sample={'file': vpath, 'fn': pre + 'eval_spline_1d_scalar', 'x': str(x), 'degree': deg, 'der': der})
                        if a != b:
                            nviol += 1
                            chk.violation('variants:%s:1d-differs' % os.path.basename(vpath), '%s: %seval_spline_1d_scalar(x=%s, der=%d) = %s, pyccel source gives %s'
                                          % (vpath, pre, x, der, b, a), {'kind': 'impl', 'file': vpath, 'x': str(x), 'knots': list(map(str, kn)), 'coeffs': list(map(str, c)), 'der': der})
                X = qlift.arr(xs[:3])
                Y = qlift.arr(xs[2:5])
                for d1 in (0, 1):
                    for d2 in (0, 1):
                        za = qlift._empty((3, 3))
                        zb = qlift._empty((3, 3))
                        ref[pre + 'eval_spline_2d_cross'](X, Y, qlift.arr(kn), deg, qlift.arr(kn), deg, qlift.arr(C), za, d1, d2)
                        var[pre + 'eval_spline_2d_cross'](X, Y, qlift.arr(kn), deg, qlift.arr(kn), deg, qlift.arr(C), zb, d1, d2)
                        va = qlift._empty(3)
                        vb = qlift._empty(3)
                        ref[pre + 'eval_spline_2d_vector'](X, Y, qlift.arr(kn), deg, qlift.arr(kn), deg, qlift.arr(C), va, d1, d2)
                        var[pre + 'eval_spline_2d_vector'](X, Y, qlift.arr(kn), deg, qlift.arr(kn), deg, qlift.arr(C), vb, d1, d2)
                        chk.count((vpath, '2d', tuple(map(str, xs[:5])), d1, d2, tuple(map(str, kn))), stratum='variant:' + os.path.basename(vpath))
                        if (za != zb).any() or (va != vb).any():
                            nviol += 1
                            chk.violation('variants:%s:2d-differs' % os.path.basename(vpath), '%s: 2-D entry points differ from the pyccel source for der=(%d,%d)' % (vpath, d1, d2),
                                          {'kind': 'impl', 'file': vpath, 'ders': [d1, d2], 'knots': list(map(str, kn))})
    return nviol


# ------------------------------------------------------------------------------ the other variant files, exactly
OTHER_VARIANTS = {
    'poisson': ('pygyro/poisson/poisson_tools.py', ['pygyro/poisson/numba_poisson_tools.py', 'pygyro/poisson/pythran_poisson_tools.py']),
    'init': ('pygyro/initialisation/initialiser_funcs.py', ['pygyro/initialisation/numba_initialiser_funcs.py',
                                                            'pygyro/initialisation/pythran_initialiser_funcs.py',
                                                            'pygyro/advection/pythran_deps/pythran_initialiser_funcs.py']),
    'adv': ('pygyro/advection/accelerated_advection_steps.py', ['pygyro/advection/numba_accelerated_advection_steps.py',
                                                                'pygyro/advection/pythran_deps/pythran_accelerated_advection_steps.py']),
}


def _stubs():
    # rational stand-ins for the transcendental functions; the same ones on both sides
    return {'CC': lambda *a, **k: None, 'njit': lambda f: f, 'f8': None, 'i4': None, 'b1': None,
            'exp': lambda x: 1 + x + x * x / 2, 'tanh': lambda x: x / (1 + abs(x)), 'sqrt': lambda x: (1 + x) / 2,
            'cos': lambda x: 1 - x * x / 2, 'pi': F(355, 113), 'np_abs': abs, 'abs': abs, 'real': lambda x: x}


def _own_functions(ns, relpath):
    import inspect
    return {n: v for n, v in ns.items() if inspect.isfunction(v) and v.__code__.co_filename.endswith(relpath)}


def _rq(rng, lo=-9, hi=9, den=8):
    return F(rng.randint(lo * den, hi * den), den)


def _same(a, b):
    if isinstance(a, np.ndarray) or isinstance(b, np.ndarray):
        return np.shape(a) == np.shape(b) and bool(np.all(np.asarray(a, dtype=object) == np.asarray(b, dtype=object)))
    return a == b


def other_variant_cases(kind, rng, fns):
    """yields (function name, args builder) -- the builder returns fresh argument lists (in-place outputs)"""
    PR = dict(CN0=F(1, 7), kN0=F(1, 18), deltaRN0=F(4), rp=F(29, 4), CTi=F(1), kTi=F(8, 29), deltaRTi=F(3, 2), deltaR=F(13), R0=F(240), eps=F(1, 1000))
    if kind == 'poisson':
        g = qlift.arr([[[[_rq(rng) for _ in range(4)] for _ in range(3)] for _ in range(2)] for _ in range(3)])
        feq = qlift.arr([[_rq(rng) for _ in range(4)] for _ in range(3)])
        q = qlift.arr([_rq(rng, 0, 3) for _ in range(4)])
        yield 'get_perturbed_rho', lambda: [qlift._zeros((3, 2, 3)), feq, g, q], [0]
        yield 'get_rho', lambda: [qlift._zeros((3, 2, 3)), g, q], [0]
    elif kind == 'init':
        r, v, th, z = _rq(rng, 1, 14), _rq(rng, -7, 7), _rq(rng, 0, 6), _rq(rng, 0, 100)
        yield 'n0', lambda: [r, PR['CN0'], PR['kN0'], PR['deltaRN0'], PR['rp']], []
        yield 'Ti', lambda: [r, PR['CTi'], PR['kTi'], PR['deltaRTi'], PR['rp']], []
        yield 'Te', lambda: [r, PR['CTi'], PR['kTi'], PR['deltaRTi'], PR['rp']], []
        yield 'perturbation', lambda: [r, th, z, 3, 1, PR['rp'], PR['deltaR'], PR['R0']], []
        yield 'f_eq', lambda: [r, v, PR['CN0'], PR['kN0'], PR['deltaRN0'], PR['rp'], PR['CTi'], PR['kTi'], PR['deltaRTi']], []
        yield 'n0deriv_normalised', lambda: [r, PR['kN0'], PR['rp'], PR['deltaRN0']], []
        tail = [3, 1, PR['eps'], PR['CN0'], PR['kN0'], PR['deltaRN0'], PR['rp'], PR['CTi'], PR['kTi'], PR['deltaRTi'], PR['deltaR'], PR['R0']]
        yield 'init_f', lambda: [r, th, z, v] + tail, []
        thv = qlift.arr([_rq(rng, 0, 6) for _ in range(3)])
        zv = qlift.arr([_rq(rng, 0, 50) for _ in range(2)])
        rv = qlift.arr([_rq(rng, 1, 14) for _ in range(3)])
        vv = qlift.arr([_rq(rng, -7, 7) for _ in range(4)])
        yield 'init_f_flux', lambda: [qlift._zeros((3, 2)), r, thv, zv, v] + tail, [0]
        yield 'init_f_pol', lambda: [qlift._zeros((3, 3)), rv, thv, z, v] + tail, [0]
        yield 'init_f_vpar', lambda: [qlift._zeros((3, 4)), r, thv, z, vv] + tail, [0]
        yield 'feq_vector', lambda: [qlift._zeros((3, 4)), rv, vv, PR['CN0'], PR['kN0'], PR['deltaRN0'], PR['rp'], PR['CTi'], PR['kTi'], PR['deltaRTi']], [0]
    elif kind == 'adv':
        twopi = 2 * F(355, 113)
        nth, nr = 4, 5
        for cubic in (False, True):
            # theta: periodic cubic on nth cells of [0, 2pi); r: clamped cubic on nr-3+... cells
            dth = twopi / nth
            if cubic:
                kq = [F(0), twopi, dth, F(nth)]
                nbq = nth + 3
                rlo, rhi, ncr = F(1), F(5), 4
                kr = [rlo, rhi, (rhi - rlo) / ncr, F(ncr)]
                nbr = ncr + 3
            else:
                kq = [dth * (i - 3) for i in range(nth + 7)]
                nbq = nth + 3
                br = [F(1), F(2), F(7, 2), F(4), F(5)]
                kr = [br[0]] * 3 + br + [br[-1]] * 3
                nbr = len(kr) - 4
            qpts = [dth * i for i in range(nth)]
            rpts = [F(1), F(2), F(3), F(4), F(5)][:nr]
            cphi0 = [[F(rng.randint(-8, 8), 64) for _ in range(nbr)] for _ in range(nth)]
            cphi = [cphi0[i % nth] for i in range(nbq)]                       # periodic wrap of the coefficients
            cpol0 = [[_rq(rng, 0, 4) for _ in range(nbr)] for _ in range(nth)]
            cpol = [cpol0[i % nth] for i in range(nbq)]
            PRv = [F(1, 7), F(1, 18), F(4), F(3), F(1), F(8, 29), F(3, 2)]

            def polargs(dt, nul, impl, cubic=cubic, kq=kq, kr=kr, cphi=cphi, cpol=cpol):
                f = qlift._zeros((nth, nr))
                scr = [qlift._zeros((nth, nr)) for _ in range(8)]
                a = [f, dt, F(1, 3), qlift.arr(rpts), qlift.arr(qpts)] + scr + \
                    [qlift.arr(kq), qlift.arr(kr), qlift.arr(cphi), 3, 3, qlift.arr(kq), qlift.arr(kr), qlift.arr(cpol), 3, 3] + PRv + [F(2)]
                if impl:
                    a += [F(1, 50)]
                return a + [cubic, nul]
            for dt in (F(1, 2), F(-3, 4)):
                for nul in (False, True):
                    yield 'poloidal_advection_step_expl', (lambda dt=dt, nul=nul: polargs(dt, nul, False)), [0, 11, 12]
                    yield 'poloidal_advection_step_impl', (lambda dt=dt, nul=nul: polargs(dt, nul, True)), [0, 11, 12]
            # v-parallel
            if cubic:
                kv = [F(-4), F(4), F(2), F(4)]
                nbv = 7
            else:
                bv = [F(-4), F(-1), F(1, 2), F(4)]
                kv = [bv[0]] * 3 + bv + [bv[-1]] * 3
                nbv = len(kv) - 4
            cv = [_rq(rng, 0, 3) for _ in range(nbv)]
            vp = [F(-4), F(-3, 2), F(0), F(5, 2), F(4)]
            for bound in (0, 1, 2):
                for cdt in (F(0), F(3, 8), F(-17, 2), F(-8), F(8), F(-16), F(24)):      # the last four: exact multiples of the domain width
                    yield 'v_parallel_advection_eval_step', (lambda bound=bound, cdt=cdt, kv=kv, cv=cv, cubic=cubic:
                                                             [qlift._zeros(5), qlift.arr([x - cdt for x in vp]), F(3), F(-4), F(4), qlift.arr(kv), 3, qlift.arr(cv)]
                                                             + PRv + [bound, cubic]), [0]
            # flux: theta spline coefficients, shifts
            ct0 = [_rq(rng, 0, 3) for _ in range(nth)]
            ct = [ct0[i % nth] for i in range(nbq)]
            sh = [k + rng.randint(-7, 7) for k in (-2, -1, 0, 1, 2, 3)]
            tsh = [_rq(rng, -2, 2) for _ in range(6)]
            nz = 7

            def lagargs(i, kq=kq, ct=ct, sh=sh, tsh=tsh, cubic=cubic):
                return [i, np.array(sh), qlift._zeros((nz, nth, 6)), qlift.arr(qpts), qlift.arr(tsh), qlift.arr(kq), 3, qlift.arr(ct), cubic]
            for i in (0, 3, 6):
                yield 'get_lagrange_vals', (lambda i=i: lagargs(i)), [2]
            vals = qlift.arr([[[_rq(rng) for _ in range(6)] for _ in range(nth)] for _ in range(nz)])
            lc = qlift.arr([_rq(rng, -1, 1) for _ in range(6)])
            yield 'flux_advection', (lambda vals=vals, lc=lc: [nth, nz, qlift._zeros((nth, nz)), lc, vals]), [2]


def other_variants_check(chk, rng, reps):
    stubs = _stubs()
    se = qlift.load('pygyro/splines/spline_eval_funcs.py')
    cu = qlift.load('pygyro/splines/cubic_uniform_spline_eval_funcs.py')
    ini = qlift.load('pygyro/initialisation/initialiser_funcs.py', extra=stubs)
    for kind, (base, variants) in OTHER_VARIANTS.items():
        ref = qlift.load(base, extra=stubs, prior=[se, cu, ini])
        rfun = _own_functions(ref, base)
        for vpath in variants:
            if not os.path.exists(os.path.join(core.REPO, vpath)):
                continue
            vname = os.path.basename(vpath)
            try:
                var = qlift.load(vpath, extra=stubs, prior=[se, cu, ini])
            except Exception as e:
                chk.violation('variants:%s:does-not-load' % vname, '%s cannot be executed: %r' % (vpath, e), {'kind': 'impl', 'file': vpath})
                continue
            vfun = _own_functions(var, vpath)
            missing = sorted(n for n in rfun if n not in vfun)
            if missing:
                chk.violation('variants:%s:missing-function' % vname, '%s does not define %r which %s defines' % (vpath, missing, base),
                              {'kind': 'impl', 'file': vpath, 'missing': missing})
            for _ in range(reps):
                for fn, build, outs in other_variant_cases(kind, rng, rfun):
                    if fn not in vfun or fn not in rfun:
                        continue
                    a1 = build()
                    a2 = build()
                    ncase = chk.cov['evaluations']
                    try:
                        r1 = implrun_call(rfun[fn], a1)
                        r2 = implrun_call(vfun[fn], a2)
                    except Exception as e:
                        chk.violation('variants:%s:%s-raises' % (vname, fn), '%s: %s raises %r on arguments the pyccel source accepts' % (vpath, fn, e),
                                      {'kind': 'impl', 'file': vpath, 'fn': fn})
                        continue
                    chk.count((vpath, fn, ncase), stratum='variant:' + vname, sample={'file': vpath, 'fn': fn})
                    same = _same(r1, r2) and all(_same(a1[k], a2[k]) for k in outs)
                    chk.cov['disagreements_checked'] += 1
                    if not same:
                        chk.violation('variants:%s:%s-differs' % (vname, fn), '%s: %s gives a different result than %s on exact inputs' % (vpath, fn, base),
                                      {'kind': 'impl', 'file': vpath, 'fn': fn, 'seed': chk.seed})


def implrun_call(f, args):
    """call with an alarm: the implicit poloidal iteration may not terminate"""
    import signal

    def _al(s, fr):
        raise TimeoutError('no termination within 20 s')
    old = signal.signal(signal.SIGALRM, _al)
    signal.setitimer(signal.ITIMER_REAL, 20.0)
    try:
        return f(*args)
    finally:
        signal.setitimer(signal.ITIMER_REAL, 0)
        signal.signal(signal.SIGALRM, old)


def run():
    chk = core.Check('C19', 'translation_validation')
    rng = random.Random(chk.seed)
    quick = chk.tier == 'quick'
    proof = None
    if os.path.exists(os.path.join(core.COQ, 'theories', 'Props', 'C19.v')):
        proof = core.proof_stage('C19')
    n = 12 if quick else 60
    tmp, rc, log = build_scratch()
    programs = 0
    try:
        if rc != 0:
            chk.count('build', stratum='build', sample={'build': 'make ACC=pycc LANGUAGE=fortran', 'rc': rc})
            chk.violation('build:documented-build-fails', 'make ACC=pycc LANGUAGE=fortran fails on the current tree: %s' % log[-400:],
                          {'kind': 'impl', 'what': 'documented build', 'log': log})
        else:
            incremental_stage(chk, tmp)
            seeds = [rng.randrange(10 ** 6) for _ in range(1 if quick else 4)]
            for sd in seeds:
                comp, e1 = run_runner(tmp, sd, n, os.path.join(tmp, 'comp.pkl'))
                intr, e2 = run_runner(core.REPO, sd, n, os.path.join(tmp, 'intr.pkl'))
                if comp is None or intr is None:
                    which = 'compiled' if comp is None else 'interpreted'
                    chk.violation('kernels:%s-run-fails' % which, '%s kernels fail on the seeded inputs: %s' % (which, (e1 or e2)[-500:]),
                                  {'kind': 'impl', 'seed': sd, 'stderr': (e1 or e2)})
                    continue
                for which, d in (('compiled', comp), ('interpreted', intr)):
                    if d.get('impl_error'):
                        chk.violation('kernels:%s-implicit-step-fails' % which, '%s kernels: %s' % (which, d['impl_error'][-400:]),
                                      {'kind': 'impl', 'seed': sd, 'stderr': d['impl_error']})
                notso = [m for m, f in comp['files'].items() if not f.endswith('.so')]
                notpy = [m for m, f in intr['files'].items() if not f.endswith('.py')]
                if notso:
                    chk.violation('build:module-not-compiled', 'after the documented build these modules are still imported from source: %r' % notso, {'kind': 'impl', 'modules': notso})
                if notpy:
                    raise core.BrokenCheck('/repo contains compiled kernels %r: the interpreted reference would not be interpreted' % notpy)
                # array arguments written by the kernels: the same ones in both runs
                mc, mi = comp.get('modified', {}), intr.get('modified', {})
                for fn_ in sorted(set(mc) | set(mi)):
                    chk.count(('written-arguments', fn_, sd), stratum='kernel:written-arguments', sample={'kernel': fn_, 'written': mi.get(fn_, [])})
                    if sorted(mc.get(fn_, [])) != sorted(mi.get(fn_, [])):
                        chk.violation('kernels:%s:written-arguments' % fn_.split('.')[-1],
                                      'kernel %s (seed %d): the compiled kernel writes to array arguments %r, the interpreted source to %r (positions in the call)'
                                      % (fn_, sd, mc.get(fn_, []), mi.get(fn_, [])), {'kind': 'impl', 'kernel': fn_, 'seed': sd, 'compiled': mc.get(fn_, []), 'interpreted': mi.get(fn_, [])})
                for name in sorted(intr['results']):
                    programs += 1
                    ra = intr['results'][name]
                    rb = comp['results'].get(name)
                    kind = name.split('_')[0]
                    worst = 0.0
                    bad = None
                    if rb is None or len(rb) != len(ra):
                        bad = 'compiled run has no result (foot within rounding distance of a boundary in one run only)' if rb is None else 'different number of outputs'
                        if rb is None and (name.startswith('pol_') or name.startswith('vpar_')):
                            chk.count((name, sd), stratum='kernel:' + kind + ':skipped-boundary')
                            continue
                    else:
                        for a, b in zip(ra, rb):
                            if a.shape != b.shape:
                                bad = 'shape %r vs %r' % (a.shape, b.shape)
                                break
                            if a.dtype.kind in 'iu':
                                if not np.array_equal(a, b):
                                    bad = 'integer outputs differ'
                                    break
                                continue
                            tol = 1e-11 * (1.0 + float(np.abs(a).max() if a.size else 0.0))
                            dd = float(np.abs(a - b).max()) if a.size else 0.0
                            worst = max(worst, dd)
                            if not (dd <= tol):
                                bad = 'max |compiled - interpreted| = %.3e exceeds %.1e' % (dd, tol)
                                break
                    chk.count((name, sd), stratum='kernel:' + kind, sample={'case': name, 'seed': sd, 'arrays': len(ra), 'max_abs_diff': worst})
                    chk.cov['disagreements_checked'] += 1
                    if bad:
                        chk.violation('kernels:%s:compiled-differs' % kind, 'kernel case %s (seed %d): %s' % (name, sd, bad),
                                      {'kind': 'impl', 'case': name, 'seed': sd, 'n': n, 'what': bad})
                for k in set(comp['skipped']) | set(intr['skipped']):
                    chk.cov.setdefault('skipped_boundary_cases', {})[k] = intr['skipped'].get(k, 0)
    finally:
        shutil.rmtree(tmp, ignore_errors=True)
    nv = variant_check(chk, rng, 3 if quick else 20)
    other_variants_check(chk, rng, 1 if quick else 4)
    chk.assumptions += ['pyccel 2.0.1 + gfortran as installed; the comparison is per input (validation), not a proof about the compiler',
                        'numba / pythran variants are validated as source (exact execution with decorators removed); their own compilers are not installed']
    extra = {'programs': max(programs, 1), 'explanation': 'documented pyccel build of a scratch copy of the working tree; compiled vs interpreted kernels on seeded inputs; '
             'numba/pythran source copies executed exactly against the pyccel source'}
    return chk.finish(proof, rule='every exported kernel of the five accelerated modules on seeded boundary/random arguments (degrees 1-5, clamped/periodic, uniform/non-uniform, '
                                  'x on knots / ends / one ulp inside, three v-boundary modes, both time schemes, both fill rules); non-trivial = every case; '
                                  'distinct = (case name, seed) or (variant file, inputs)',
                      extra=extra,
                      uncovered=['equality of compiled and interpreted outputs is validated per input, not proved'])


def replay(path):
    body = json.load(open(path))
    print(json.dumps(body['replay'])[:2000])
    print('re-run: bin/check C19 (the scratch build is repeated on the current tree)')
    return 1
