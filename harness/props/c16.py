"""
C16 - density is the exact velocity integral of the interpolated distribution.

Proof: Props/C16.v (Density.v; Sums.weights_dual, GridSteps.resolve, Blocks).

Tie, re-established on the current /repo tree on every run:
 (a) pygyro/poisson/poisson_tools.py (get_perturbed_rho, get_rho) is executed EXACTLY (qlift: the real source
     on fractions.Fraction) on seeded, stratified shapes (zero extents, oversized and undersized feq / grid ->
     IndexError) and compared as strings of reduced rationals with the extracted Qc model.  Direct oracles on
     the exact output of the code, independent of the model: the closed formula, linearity,
     equilibrium -> 0, perturbed = rho(f) - rho(feq).  The un-lifted functions are run on float64 and on
     complex128 storage: same bits in the real part, imaginary part exactly 0, and within
     (nc+2) * 2^-52 * sum_l |q_l| (|g_l| + |e_l|) of the exact value of the same binary64 inputs.
 (b) DensityFinder.getPerturbedRho under simulated MPI on several process grids with a spy in place of the
     kernel: the equilibrium rows passed must be the rows of the slices' own GLOBAL radii (decoded from the
     contents of the distribution), bit for bit, and the table itself must be f_eq at (r_R, v_l) for the
     global grids; the model's row lookup (dn.rows = self._fEq[rIndices]) must select the same rows.
     The real kernel is then run on the same grids: the assembled density is bitwise the serial one and is
     the exact value (model, fed the binary64 tables as rationals) to the rounding bound above.
 (c) the hypotheses of c16_rho_exact on the real quadrature coefficients: C^T q = I for the collocation matrix
     rebuilt from basis evaluations, and sum_l q_l S(v_l) = sum_j I_j c_j for random splines S, under
     64 nc eps cond(C) scale; polynomials up to the spline degree are integrated to the same bound.
     The composed theorems (c16_rho_is_integral_of_interpolant, c16_rho_exact_polynomial, c16_rho_const_*) speak of the
     weights of the C09 model: the finder's real coefficients are compared with the exact weights ip_quadrature returns
     on the finder's own v space (binary64 knots / Greville points read as rationals) under the same bound; the exact
     weights integrate constants to ncells*dx exactly (uniform-cubic path) and, on the general path over the same break
     points, every v^d with d <= degree to (b^(d+1) - a^(d+1))/(d+1) exactly.
 (d) a sample of (a) is re-evaluated inside Coq (vm_compute on Qc).
"""
import json
import random
import warnings
from fractions import Fraction as F

import numpy as np

import core
import implrun
import qlift
from qlift import qstr, qparse

MOD = 'pygyro/poisson/poisson_tools.py'
EPS = 2.0 ** -52
_NS = {}


def lifted():
    if 'm' not in _NS:
        _NS['m'] = qlift.load(MOD)
    return _NS['m']


def rnd_q(rng):
    k = rng.random()
    if k < 0.15:
        return F(0)
    if k < 0.6:
        return F(rng.randint(-9, 9), rng.randint(1, 7))
    return qlift.frac_of_float(rng.uniform(-2, 2))


def rnd_arr(rng, shape):
    a = np.empty(shape, dtype=object)
    for idx in np.ndindex(*shape):
        a[idx] = rnd_q(rng)
    return a


def flat(a):
    return ' '.join(qstr(x) for x in np.asarray(a, dtype=object).reshape(-1))


def run_exact(fn, rho_shape, args):
    """the real loops on Fractions; rho is an object array of the requested shape"""
    rho = np.empty(rho_shape, dtype=object)
    rho[...] = F(12345, 67)      # poison: every cell must be overwritten
    # the kernels write rho only: they get copies of the other arguments, and the copies must come back unchanged
    mine = [np.array(a, copy=True) if isinstance(a, np.ndarray) else a for a in args]
    try:
        fn(rho, *mine)
    except IndexError:
        return 'err index', None
    for a, b in zip(args, mine):
        if isinstance(a, np.ndarray) and not (a.shape == b.shape and all(x == y for x, y in zip(a.reshape(-1), b.reshape(-1)))):
            return 'err input-modified', None
    return 'ok ' + flat(rho) if rho.size else 'ok ', rho


def gen_exact_cases(chk):
    rng = random.Random(chk.seed)
    n_cases = 260 if chk.tier == 'quick' else 3000
    cases = []
    for t in range(n_cases):
        k = rng.random()
        n, m, p = rng.randint(1, 4), rng.randint(1, 4), rng.randint(1, 4)
        nc = rng.randint(1, 7)
        if k < 0.12:       # a zero extent somewhere
            z = rng.randrange(4)
            n, m, p, nc = [0 if z == i else v for i, v in enumerate((n, m, p, nc))]
            st = 'zero-extent'
        else:
            st = 'regular'
        fr, fc = n, nc
        g = [n, m, p, nc]
        k2 = rng.random()
        if k2 < 0.18:      # arrays larger than what the loops read: the excess is ignored
            fr += rng.randint(0, 2)
            fc += rng.randint(0, 2)
            g = [x + rng.randint(0, 1) for x in g]
            st = st + '+oversized'
        elif k2 < 0.36:    # arrays too small: IndexError
            which = rng.randrange(6)
            if which == 0 and fr > 0:
                fr -= 1
            elif which == 1 and fc > 0:
                fc -= 1
            elif g[which - 2 if which >= 2 else 0] > 0:
                g[which - 2 if which >= 2 else 0] -= 1
            st = st + '+undersized'
        kind = 'prho' if rng.random() < 0.7 else 'rho'
        cases.append({'kind': kind, 'rho': [n, m, p], 'feq': [fr, fc], 'grid': g, 'nc': nc, 'stratum': kind + ':' + st,
                      'seed': rng.randrange(10 ** 9)})
    return cases


def materialise(c):
    rng = random.Random(c['seed'])
    feq = rnd_arr(rng, c['feq'])
    grid = rnd_arr(rng, c['grid'])
    q = rnd_arr(rng, [c['nc']])
    return feq, grid, q


def model_line(c, feq, grid, q):
    n, m, p = c['rho']
    if c['kind'] == 'prho':
        return 'dn.prho %d %d %d %d %d %d %d %d %d | %s | %s | %s' % (n, m, p, c['feq'][0], c['feq'][1], *c['grid'], flat(feq), flat(grid), flat(q))
    return 'dn.rho %d %d %d %d %d %d %d | %s | %s' % (n, m, p, *c['grid'], flat(grid), flat(q))


def oracle_formula(c, feq, grid, q):
    """closed formula, evaluated independently (None when some index the loops read does not exist)"""
    n, m, p = c['rho']
    nc = c['nc']
    out = np.empty([n, m, p], dtype=object)
    for i in range(n):
        for j in range(m):
            for k in range(p):
                s = F(0)
                for l in range(nc):
                    if i >= grid.shape[0] or j >= grid.shape[1] or k >= grid.shape[2] or l >= grid.shape[3]:
                        return None
                    if c['kind'] == 'prho':
                        if i >= feq.shape[0] or l >= feq.shape[1]:
                            return None
                        s += q[l] * (grid[i, j, k, l] - feq[i, l])
                    else:
                        s += q[l] * grid[i, j, k, l]
                out[i, j, k] = s
    return out


# ------------------------------------------------------------------------------------------------
# (b) simulated MPI: spy on the kernel inside DensityFinder.getPerturbedRho, then the real kernel

def _unravel(g, npts):
    out = []
    for n in reversed(npts):
        out.append(int(g % n))
        g //= n
    return tuple(reversed(out))


def mpi_case(c):
    """c = (mode, npts, nprocs, seed): mode 'spy' | 'real'"""
    from mpi4py import MPI
    import simdriver
    import threading
    import pygyro.poisson.poisson_solver as ps
    mode, npts, nprocs, seed = c
    nranks = nprocs[0] * nprocs[1]
    tl = threading.local()

    def spy(rho_arr, feq, grid_arr, quad):
        Lf = tl.f.getLayout(tl.f.currentLayout)
        rec = {'start': int(Lf.starts[0]), 'n': int(grid_arr.shape[0]), 'rho_shape': [int(x) for x in rho_arr.shape],
               'feq_shape': [int(x) for x in np.shape(feq)], 'radii': [], 'rows': np.array(feq, copy=True),
               'quad_is_table': bool(quad is tl.S.density._quad_coeffs)}
        for i in range(grid_arr.shape[0]):
            R, Th, Z, V = _unravel(int(grid_arr[i, 0, 0, 0]), npts)
            rec['radii'].append(R)
            # every cell of slice i carries radius R
            ok = True
            for (j, k, l) in ((0, 0, 0), (grid_arr.shape[1] - 1, grid_arr.shape[2] - 1, grid_arr.shape[3] - 1)):
                ok = ok and _unravel(int(grid_arr[i, j, k, l]), npts)[0] == R
            rec['coherent'] = rec.get('coherent', True) and ok
        tl.rec.append(rec)
        rho_arr[:] = 0

    def work(comm):
        warnings.simplefilter('ignore')
        # every other case runs with constants in which ion / electron / density profile constants all differ
        ex = dict(simdriver.DISTINCT_CONSTANTS) if (npts[0] + npts[3]) % 2 else None
        S = simdriver.Sim(comm, npts, nprocs, extra=ex)
        f, rho = S.f, S.rho
        tl.S = S
        tl.f = f
        tl.rec = []
        f.setLayout('v_parallel')
        L = f.getLayout(f.currentLayout)
        out = {}
        if mode == 'spy':
            f.getAllData()[:] = simdriver.global_index(L, npts).astype(float)
            S.density.getPerturbedRho(f, rho)
            out['rec'] = tl.rec
        else:
            # f = f_eq table (exactly) + a dyadic perturbation identical for every decomposition
            gi = simdriver.global_index(L, npts)
            R = gi // (npts[1] * npts[2] * npts[3])
            V = gi % npts[3]
            f.getAllData()[:] = S.density._fEq[R, V] * (1.0 + simdriver.exact_field(gi, seed) / 8.0)
            out['f'] = simdriver.block_info(f)
            S.density.getPerturbedRho(f, rho)
            out['prho'] = simdriver.block_info(rho)
            first = np.array(rho.getAllData(), copy=True)
            S.density.getPerturbedRho(f, rho)              # the time loop calls the same finder at every step
            S.density.getPerturbedRho(f, rho)
            out['repeat'] = bool(np.array_equal(first, rho.getAllData()))
            S.density.getRho(f, rho)
            out['rho'] = simdriver.block_info(rho)
            # the finder is a function of its arguments: used again on a distribution that lives on ANOTHER process grid
            # (other radial blocks on the same ranks) it must give what a fresh finder gives there
            g2 = (nprocs[1], nprocs[0])
            if g2 != tuple(nprocs) and g2[0] <= min(npts[0], npts[3], npts[1]) and g2[1] <= min(npts[2], npts[3]):
                comm.Barrier()
                S2 = simdriver.Sim(comm, npts, g2, extra=ex)
                comm.Barrier()
                f2, rho2 = S2.f, S2.rho
                f2.setLayout('v_parallel')
                L2 = f2.getLayout(f2.currentLayout)
                gi2 = simdriver.global_index(L2, npts)
                f2.getAllData()[:] = S2.density._fEq[gi2 // (npts[1] * npts[2] * npts[3]), gi2 % npts[3]] * (1.0 + simdriver.exact_field(gi2, seed) / 8.0)
                S2.density.getPerturbedRho(f2, rho2)
                fresh = np.array(rho2.getAllData(), copy=True)
                try:
                    S.density.getPerturbedRho(f2, rho2)
                    out['reuse'] = bool(np.array_equal(fresh, rho2.getAllData()))
                except Exception as e:
                    out['reuse'] = 'raised %s: %s' % (type(e).__name__, str(e)[:100])
        if mode == 'real':
            # a second simulation in the same process with the same number of v points on another v extent (and other
            # radii): its finder must carry the weights and the table of ITS spaces, whatever was built before it
            comm.Barrier()
            ex3 = dict(ex or {}, vMax=5.0, vMin=-5.0, rMax=12.0)
            S3 = simdriver.Sim(comm, npts, nprocs, extra=ex3)
            comm.Barrier()
            from pygyro.splines.spline_interpolators import SplineInterpolator1D
            from pygyro.initialisation import initialiser_funcs as init3
            c3 = S3.constants
            w3 = SplineInterpolator1D(S3.f.getSpline(3)).get_quadrature_coefficients()
            t3 = np.array([[init3.f_eq(r, v, c3.CN0, c3.kN0, c3.deltaRN0, c3.rp, c3.CTi, c3.kTi, c3.deltaRTi)
                            for v in S3.f.eta_grid[3]] for r in S3.f.eta_grid[0]])
            out['second'] = [bool(np.array_equal(np.asarray(S3.density._quad_coeffs), np.asarray(w3))),
                             bool(np.array_equal(np.asarray(S3.density._fEq), t3)),
                             float(np.abs(np.asarray(S3.density._quad_coeffs)).sum()), float(np.abs(np.asarray(w3)).sum())]
        if comm.Get_rank() == 0:
            c0 = S.constants
            out['table'] = np.array(S.density._fEq, copy=True)
            out['quad'] = np.array(S.density._quad_coeffs, copy=True)
            out['eta0'] = np.array(f.eta_grid[0], copy=True)
            out['eta3'] = np.array(f.eta_grid[3], copy=True)
            from pygyro.initialisation import initialiser_funcs as init
            out['table_direct'] = np.array([[init.f_eq(r, v, c0.CN0, c0.kN0, c0.deltaRN0, c0.rp, c0.CTi, c0.kTi, c0.deltaRTi)
                                             for v in f.eta_grid[3]] for r in f.eta_grid[0]])
            # the quadrature hypotheses
            bs = f.getSpline(3)
            nb = bs.nbasis
            C = np.zeros((nb, nb))
            for j in range(nb):
                C[:, j] = bs[j].eval(bs.greville)
            out['colloc'] = C
            out['integrals'] = np.array(bs.integrals, copy=True)
            out['degree'] = int(bs.degree)
            out['periodic'] = bool(bs.periodic)
            out['vlims'] = (float(bs.breaks[0]), float(bs.breaks[-1]))
            # the v space as the C08 / C09 model sees it (BSplines.knots is the 4-vector [xmin, xmax, dx, ncells] on the uniform cubic path)
            out['vknots'] = [float(x) for x in bs.knots]
            out['vcubic'] = bool(bs.cubic_uniform)
            out['vgreville'] = [float(x) for x in bs.greville]
        return out

    saved = ps.get_perturbed_rho
    try:
        if mode == 'spy':
            ps.get_perturbed_rho = spy
        Rr = MPI.run(nranks, work, seed=seed, timeout=600)
    finally:
        ps.get_perturbed_rho = saved
    if Rr.outcome != 'ok':
        return ('fail', Rr.outcome, Rr.detail[:600])
    return ('ok', Rr.results)


def exact_density(table, quad, farr, perturbed):
    """exact value of the density of binary64 inputs (global arrays, eta order r,theta,z,v)"""
    tq = [[qlift.frac_of_float(x) for x in row] for row in table]
    qq = [qlift.frac_of_float(x) for x in quad]
    out = np.empty(farr.shape[:3], dtype=object)
    scale = np.zeros(farr.shape[:3])
    for idx in np.ndindex(*farr.shape[:3]):
        s = F(0)
        a = 0.0
        for l in range(farr.shape[3]):
            g = qlift.frac_of_float(farr[idx + (l,)])
            if perturbed:
                s += qq[l] * (g - tq[idx[0]][l])
                a += abs(quad[l]) * (abs(farr[idx + (l,)]) + abs(table[idx[0]][l]))
            else:
                s += qq[l] * g
                a += abs(quad[l]) * abs(farr[idx + (l,)])
        out[idx] = s
        scale[idx] = a
    return out, scale


def run():
    chk = core.Check('C16', 'proof')
    proof = core.proof_stage('C16')
    quick = chk.tier == 'quick'
    ns = lifted()
    rng = random.Random(chk.seed + 7)

    # ---------------- (a) exact differential of the kernels
    cases = gen_exact_cases(chk)
    lines, mats, impl = [], [], []
    for c in cases:
        feq, grid, q = materialise(c)
        mats.append((feq, grid, q))
        lines.append(model_line(c, feq, grid, q))
        if c['kind'] == 'prho':
            impl.append(run_exact(ns['get_perturbed_rho'], c['rho'], (feq, grid, q)))
        else:
            impl.append(run_exact(ns['get_rho'], c['rho'], (grid, q)))
    mod = core.model_parallel(lines)
    for c, (feq, grid, q), (rs, rho), m in zip(cases, mats, impl, mod):
        nontriv = c['nc'] > 0 and all(x > 0 for x in c['rho'])
        chk.count((c['kind'], tuple(c['rho']), tuple(c['feq']), tuple(c['grid']), c['seed']), nontrivial=nontriv, stratum=c['stratum'],
                  sample={k: c[k] for k in ('kind', 'rho', 'feq', 'grid', 'nc', 'seed')})
        orc = oracle_formula(c, feq, grid, q)
        exp = 'err index' if orc is None else ('ok ' + flat(orc) if orc.size else 'ok ')
        site = 'poisson_tools.get_perturbed_rho' if c['kind'] == 'prho' else 'poisson_tools.get_rho'
        if rs != exp:
            chk.violation('%s:%s' % (site, c['stratum'].split(':')[1]),
                          '%s shapes rho=%r feq=%r grid=%r nc=%d: the code gives %s, the closed formula %s (model %s)'
                          % (site, c['rho'], c['feq'], c['grid'], c['nc'], rs[:120], exp[:120], m[:120]),
                          {'kind': 'impl', 'case': c, 'observed': rs, 'expected': exp, 'model': m},
                          no_input=(rs == 'err input-modified'))      # a kernel that scribbles on its inputs breaks the correspondence; the
                                                                      # failing input, if any, is a second call that sees the changed table
        elif rs != m:
            chk.cov['disagreements_checked'] += 1
            chk.violation('%s:model-mismatch' % site, '%s %r: code and closed formula agree (%s) but the model says %s: correspondence Density.dn_get_%s no longer checks'
                          % (site, c, rs[:100], m[:100], 'perturbed_rho' if c['kind'] == 'prho' else 'rho'),
                          {'kind': 'correspondence', 'theorem': 'c16_rho_formula', 'case': c, 'observed': rs, 'model': m}, no_input=True)
    # algebraic oracles on the code itself (exact): linearity, equilibrium, difference
    n_alg = 60 if quick else 600
    alg_fail = 0
    for t in range(n_alg):
        n, m_, p, nc = rng.randint(1, 3), rng.randint(1, 3), rng.randint(1, 3), rng.randint(1, 6)
        q = rnd_arr(rng, [nc])
        g1, g2 = rnd_arr(rng, [n, m_, p, nc]), rnd_arr(rng, [n, m_, p, nc])
        e1, e2 = rnd_arr(rng, [n, nc]), rnd_arr(rng, [n, nc])
        a, b = rnd_q(rng), rnd_q(rng)
        r1 = run_exact(ns['get_perturbed_rho'], [n, m_, p], (e1, g1, q))[1]
        r2 = run_exact(ns['get_perturbed_rho'], [n, m_, p], (e2, g2, q))[1]
        r12 = run_exact(ns['get_perturbed_rho'], [n, m_, p], (a * e1 + b * e2, a * g1 + b * g2, q))[1]
        geq = np.empty([n, m_, p, nc], dtype=object)
        geq[...] = e1[:, None, None, :]
        req = run_exact(ns['get_perturbed_rho'], [n, m_, p], (e1, geq, q))[1]
        d1 = run_exact(ns['get_rho'], [n, m_, p], (g1, q))[1]
        d2 = run_exact(ns['get_rho'], [n, m_, p], (geq, q))[1]
        chk.count(('alg', n, m_, p, nc, t), stratum='algebraic-oracles', sample={'n': n, 'm': m_, 'p': p, 'nc': nc})
        bad = None
        if any(x is None for x in (r1, r2, r12, req, d1, d2)):
            continue                      # reported by the exact stage above
        elif not (r12 == a * r1 + b * r2).all():
            bad = 'linearity'
        elif not (req == 0).all():
            bad = 'equilibrium-not-zero'
        elif not (r1 == d1 - d2).all():
            bad = 'perturbed-is-not-difference'
        if bad:
            alg_fail += 1
            chk.violation('poisson_tools.get_perturbed_rho:' + bad, 'exact run violates %s for shapes %r' % (bad, (n, m_, p, nc)),
                          {'kind': 'impl', 'oracle': bad, 'q': [str(x) for x in q], 'e1': [[str(x) for x in r] for r in e1]})
    # float / complex storage of the un-lifted functions
    from pygyro.poisson import poisson_tools as pt
    n_flt = 60 if quick else 600
    worst = 0.0
    for t in range(n_flt):
        n, m_, p, nc = rng.randint(1, 4), rng.randint(1, 4), rng.randint(1, 4), rng.randint(1, 9)
        nrng = np.random.RandomState(rng.randrange(2 ** 31))
        q = nrng.uniform(-1, 1, nc)
        g = nrng.uniform(-3, 3, [n, m_, p, nc])
        e = nrng.uniform(-3, 3, [n, nc])
        for fn, args, pert in ((pt.get_perturbed_rho, (e, g, q), True), (pt.get_rho, (g, q), False)):
            rf = np.full([n, m_, p], np.nan)
            rc = np.full([n, m_, p], np.nan + 1j * np.nan, dtype=np.complex128)
            fn(rf, *args)
            fn(rc, *args)
            chk.count(('storage', fn.__name__, n, m_, p, nc, t), stratum='float-complex-storage', sample={'fn': fn.__name__, 'shape': [n, m_, p, nc]})
            tab = e if pert else np.zeros([n, nc])
            ex, sc = exact_density(tab, q, g, pert)
            bad = None
            if not (rc.imag == 0).all():
                bad = 'complex storage: imaginary part not exactly 0'
            elif rc.real.tobytes() != rf.tobytes():
                bad = 'complex and float storage give different real parts'
            else:
                for idx in np.ndindex(n, m_, p):
                    err = abs(qlift.frac_of_float(rf[idx]) - ex[idx])
                    bound = (nc + 2) * EPS * sc[idx]
                    if sc[idx] > 0:
                        worst = max(worst, float(err) / (EPS * sc[idx]))
                    if err > bound:
                        bad = 'binary64 result %r differs from the exact value %s by %.3g > bound %.3g' % (rf[idx], float(ex[idx]), float(err), bound)
                        break
            if bad:
                chk.violation('poisson_tools.%s:storage' % fn.__name__, '%s on shape %r: %s' % (fn.__name__, (n, m_, p, nc), bad),
                              {'kind': 'impl', 'q': q.tolist(), 'grid': g.tolist(), 'feq': e.tolist()})

    # ---------------- (b) simulated MPI
    # (v grids of 4 and 5 points are the uniform-cubic clamped spaces with 1 and 2 cells, where a spline is cut at both ends)
    shapes = [[8, 8, 8, 8], [9, 7, 10, 8], [6, 8, 8, 4], [6, 8, 8, 5]] if quick else [[8, 8, 8, 8], [9, 7, 10, 8], [7, 9, 8, 11], [12, 8, 9, 10], [6, 8, 8, 4], [6, 8, 8, 5], [8, 8, 8, 6]]
    grids = [(1, 1), (1, 2), (2, 1), (2, 2), (3, 2), (2, 3), (1, 4), (4, 1)] if quick else \
            [(1, 1), (1, 2), (2, 1), (2, 2), (3, 2), (2, 3), (1, 4), (4, 1), (3, 1), (1, 3), (3, 3), (4, 2), (2, 4), (5, 1), (6, 1), (7, 1)]
    mcases = []
    for npts in shapes:
        for g in grids:
            if g[0] <= min(npts[0], npts[3]) and g[1] <= min(npts[2], npts[3]) and g[0] <= npts[1]:
                for mode in ('spy', 'real'):
                    mcases.append((mode, npts, g, chk.seed % 1000))
    res = implrun.run_cases('props.c16', 'mpi_case', mcases, tmo=600.0, chunk=1)
    serial = {}
    rows_lines, rows_meta = [], []
    finder_lines, finder_meta = [], []
    rows_checked = 0
    quad_info = {}
    for c, r in zip(mcases, res):
        mode, npts, g, seed = c
        key = 'poisson_solver.DensityFinder.getPerturbedRho'
        chk.count((mode, tuple(npts), g), nontrivial=(g != (1, 1)), stratum='mpi-%s:%s' % (mode, 'serial' if g == (1, 1) else ('r-split' if g[0] > 1 else 'z-split-only')),
                  sample={'mode': mode, 'npts': npts, 'process_grid': list(g), 'constants': 'siblings-distinct' if (npts[0] + npts[3]) % 2 else 'defaults'})
        if r[0] != 'ok':
            chk.violation('%s:run-%s' % (key, r[1] if len(r) > 1 else r[0]), '%s npts=%r grid=%r: run ends in %r' % (mode, npts, g, r[1:3]),
                          {'kind': 'impl', 'case': [mode, npts, list(g), seed], 'outcome': list(r[1:3])})
            continue
        ranks = r[1]
        table = ranks[0]['table']
        quad = ranks[0]['quad']
        if tuple(npts) not in quad_info:
            quad_info[tuple(npts)] = ranks[0]
        # the table is f_eq at the GLOBAL grid points, whatever the decomposition
        if table.shape != (npts[0], npts[3]) or table.tobytes() != ranks[0]['table_direct'].tobytes():
            chk.violation(key + ':table', 'npts=%r grid=%r: DensityFinder._fEq is not f_eq(r_R, v_l) on the global grids (shape %r)' % (npts, g, table.shape),
                          {'kind': 'impl', 'case': [mode, npts, list(g), seed]})
        if mode == 'spy':
            seen = set()
            for rk in ranks:
                for rec in rk['rec']:
                    rows_checked += rec['n']
                    bad = None
                    if not rec.get('coherent', True):
                        bad = 'a slice mixes radii'
                    elif rec['radii'] != list(range(rec['start'], rec['start'] + rec['n'])):
                        bad = 'slices are not the block of radii starting at starts[0]'
                    elif rec['feq_shape'][0] < rec['n'] or rec['feq_shape'][1] < npts[3]:
                        bad = 'equilibrium rows passed have shape %r for %d radii x %d velocities' % (rec['feq_shape'], rec['n'], npts[3])
                    else:
                        wrong = [(i, R) for i, R in enumerate(rec['radii']) if rec['rows'][i].tobytes() != table[R].tobytes()]
                        if wrong:
                            i, R = wrong[0]
                            same = [int(k) for k in range(table.shape[0]) if table[k].tobytes() == rec['rows'][i].tobytes()]
                            bad = ('%d of %d slices receive the equilibrium row of another radius (e.g. local radius %d = global radius %d receives row %r)'
                                   % (len(wrong), rec['n'], i, R, same))
                    if not rec['quad_is_table']:
                        bad = bad or 'the quadrature coefficients passed are not DensityFinder._quad_coeffs'
                    if bad:
                        chk.violation(key + (':rows-on-block-not-starting-at-0' if rec['start'] > 0 else ':rows'),
                                      'npts=%r grid=%r, rank block of radii [%d,%d): %s' % (npts, g, rec['start'], rec['start'] + rec['n'], bad),
                                      {'kind': 'impl', 'case': ['spy', npts, list(g), seed], 'block_start': rec['start'], 'what': bad})
                    seen.update(rec['radii'])
                    # the model's lookup on the same table / block
                    ksel = (tuple(npts), rec['start'], rec['n'])
                    if ksel not in [m[0] for m in rows_meta]:
                        idxtab = ' '.join(format(k, 'x') for k in range(npts[0]))   # a table whose row R holds R
                        rows_lines.append('dn.rows %d %d %d 1 | %s' % (rec['start'], rec['n'], npts[0], idxtab))
                        rows_meta.append((ksel, rec['radii']))
            if seen != set(range(npts[0])):
                chk.violation(key + ':coverage', 'npts=%r grid=%r: radii handled %r' % (npts, g, sorted(seen)), {'kind': 'impl', 'case': ['spy', npts, list(g), seed]})
            chk.cov['certificates_checked'] += 1
        else:
            import simdriver
            out = {}
            for fld, n_ in (('f', npts), ('prho', npts[:3]), ('rho', npts[:3])):
                arr, cnt = simdriver.assemble([rk[fld] for rk in ranks], n_)
                out[fld] = arr
                if cnt.min() != 1 or cnt.max() != 1:
                    chk.violation(key + ':coverage', 'npts=%r grid=%r: blocks of %s cover cells %d..%d times' % (npts, g, fld, cnt.min(), cnt.max()), {'kind': 'impl'})
            if g == (1, 1):
                serial[tuple(npts)] = out
                # exact value of the same binary64 inputs, and through the model on a sub-block
                for fld, pert in (('prho', True), ('rho', False)):
                    ex, sc = exact_density(table, quad, out['f'], pert)
                    got = out[fld]
                    if not (got.imag == 0).all():
                        chk.violation(key + ':imag', 'npts=%r: density has a non-zero imaginary part' % (npts,), {'kind': 'impl'})
                    nbad = 0
                    for idx in np.ndindex(*got.shape):
                        if abs(qlift.frac_of_float(got[idx].real) - ex[idx]) > (npts[3] + 2) * EPS * sc[idx]:
                            nbad += 1
                    if nbad:
                        chk.violation(key + ':value', 'npts=%r: %d cells of %s differ from the exact sum over v of the binary64 inputs by more than the rounding bound' % (npts, nbad, fld),
                                      {'kind': 'impl', 'case': ['real', npts, [1, 1], seed], 'field': fld})
                # a rank-like sub-block through the model: radii [s, s+2), theta 0..1, z 0..1
                s = npts[0] // 2
                sub = out['f'][s:s + 2, 0:2, 0:2, :]
                # v_parallel layout order is (r, z, theta, v): the kernel sees grid[i, j=z, k=theta, l]
                subk = np.transpose(sub, (0, 2, 1, 3))
                finder_lines.append('dn.finder %d 2 2 2 %d %d 2 2 2 %d | %s | %s | %s' % (
                    s, npts[0], npts[3], npts[3], ' '.join(qstr(qlift.frac_of_float(x)) for x in table.reshape(-1)),
                    ' '.join(qstr(qlift.frac_of_float(x)) for x in subk.reshape(-1)), ' '.join(qstr(qlift.frac_of_float(x)) for x in quad)))
                ex, sc = exact_density(table[s:s + 2], quad, sub, True)
                finder_meta.append((npts, s, np.transpose(ex, (0, 2, 1)), np.transpose(out['prho'][s:s + 2, 0:2, 0:2], (0, 2, 1)), np.transpose(sc, (0, 2, 1))))
            else:
                if not all(x.get('repeat', True) for x in ranks):
                    chk.violation(key + ':repeated-call', 'npts=%r grid=%r: the second and third getPerturbedRho on the same finder and the same distribution do not '
                                  'return the density of the first call' % (npts, g), {'kind': 'impl', 'case': ['real', npts, list(g), seed]})
                bad2 = [(rk, x['second']) for rk, x in enumerate(ranks) if 'second' in x and not (x['second'][0] and x['second'][1])]
                if bad2:
                    chk.violation('poisson_solver.DensityFinder.__init__:second-object-in-process', 'npts=%r grid=%r: a DensityFinder built after another one with the same number '
                                  'of v points on another v extent (vMax 5 after 7.32) and other radii carries %s that are not those of its own spaces '
                                  '(sum |w| %r, fresh weights %r)' % (npts, g, 'weights' if not bad2[0][1][0] else 'an equilibrium table', bad2[0][1][2], bad2[0][1][3]),
                                  {'kind': 'impl', 'case': ['real', npts, list(g), seed], 'ranks': [b[0] for b in bad2]})
                bad_reuse = [(rk, x.get('reuse')) for rk, x in enumerate(ranks) if x.get('reuse', True) is not True]
                if bad_reuse:
                    chk.violation(key + ':finder-reused-on-another-process-grid', 'npts=%r: a DensityFinder first used on grid %r and then on a distribution living on grid %r '
                                  'does not give what a fresh finder gives there (ranks %r)' % (npts, g, (g[1], g[0]), bad_reuse[:4]),
                                  {'kind': 'impl', 'case': ['real', npts, list(g), seed], 'reuse': bad_reuse[:8]})
                ref = serial.get(tuple(npts))
                if ref is not None:
                    for fld in ('f', 'prho', 'rho'):
                        if ref[fld].tobytes() != out[fld].tobytes():
                            dmax = float(np.abs(ref[fld] - out[fld]).max())
                            chk.violation(key + ':%s-differs-from-serial' % fld, 'npts=%r grid=%r: assembled %s is not bitwise the serial one (max abs diff %g)' % (npts, g, fld, dmax),
                                          {'kind': 'impl', 'case': ['real', npts, list(g), seed], 'field': fld, 'max_abs_diff': dmax})
    for (ksel, radii), ans in zip(rows_meta, core.model(rows_lines)):
        exp = 'ok ' + ' ; '.join(format(R, 'x') + '/1' for R in radii)
        if ans != exp:
            chk.violation('density:model-row-lookup', 'model dn_feq_rows on block %r selects %s, the code handles radii %r' % (ksel, ans, radii),
                          {'kind': 'correspondence', 'theorem': 'c16_rho_global_r', 'block': list(ksel[1:])}, no_input=True)
    for (npts, s, ex, got, sc), ans in zip(finder_meta, core.model(finder_lines)):
        exs = 'ok ' + ' '.join(qstr(x) for x in ex.reshape(-1))
        if ans != exs:
            chk.violation('density:model-finder', 'npts=%r block at radius %d: model dn_finder_perturbed_rho differs from the exact sum with the rows of the global radii' % (npts, s),
                          {'kind': 'correspondence', 'theorem': 'c16_rho_formula / c16_rho_global_r'}, no_input=True)
        else:
            mv = [qparse(t) for t in ans.split()[1:]]
            for v, gq, sq in zip(mv, got.reshape(-1), sc.reshape(-1)):
                if abs(qlift.frac_of_float(gq.real) - v) > (npts[3] + 2) * EPS * sq:
                    chk.violation('poisson_solver.DensityFinder.getPerturbedRho:value-vs-model', 'npts=%r radius block %d: binary64 density differs from the model value beyond the rounding bound' % (npts, s), {'kind': 'impl'})
                    break

    # ---------------- (c) hypotheses of rho_exact on the real quadrature coefficients
    quad_rel = 0.0
    for npts, info in quad_info.items():
        C, I, q, deg = info['colloc'], info['integrals'], info['quad'], info['degree']
        nb = C.shape[0]
        chk.count(('quad', npts), stratum='quadrature-hypotheses', sample={'npts': list(npts), 'nbasis': nb, 'degree': deg})
        cond = float(np.linalg.cond(C))
        In = I[:nb]
        res = np.abs(C.T @ q - In).max()
        bound = 64 * nb * EPS * cond * float(np.abs(In).max())
        quad_rel = max(quad_rel, res / bound)
        if info['periodic'] or res > bound:
            chk.violation('spline_interpolators.get_quadrature_coefficients:transposed-system', 'npts=%r: |C^T q - I| = %.3g exceeds %.3g (cond %.3g)' % (npts, res, bound, cond),
                          {'kind': 'impl', 'npts': list(npts)})
        nrng = np.random.RandomState(chk.seed % 1000 + nb)
        for t in range(20):
            cc = nrng.uniform(-1, 1, nb)
            gvals = C @ cc
            lhs = float(q @ gvals)
            rhs = float(In @ cc)
            b2 = 64 * nb * EPS * cond * float(np.abs(In) @ np.abs(cc))
            quad_rel = max(quad_rel, abs(lhs - rhs) / b2)
            if abs(lhs - rhs) > b2:
                chk.violation('poisson_solver.DensityFinder:not-exact-on-spline-space', 'npts=%r: sum q_l S(v_l) = %r but sum I_j c_j = %r (bound %.3g)' % (npts, lhs, rhs, b2),
                              {'kind': 'impl', 'coeffs': cc.tolist()})
                break
        # the weights are those of the C09 model on the finder's own v space (hypothesis of c16_rho_is_integral_of_interpolant /
        # c16_rho_exact_polynomial: w = ip_quadrature): exact rational weights from the binary64 knots and Greville points
        qline = 'ip.quad %d 0 %d | %s | %s' % (deg, 1 if info['vcubic'] else 0, ' '.join(qstr(qlift.frac_of_float(x)) for x in info['vknots']),
                                               ' '.join(qstr(qlift.frac_of_float(x)) for x in info['vgreville']))
        mans = core.model([qline])[0]
        chk.count(('quad-model', npts), stratum='quadrature-weights-vs-C09-model:%s' % ('uniform-cubic' if info['vcubic'] else 'general'),
                  sample={'npts': list(npts), 'nbasis': nb, 'cubic_uniform': info['vcubic']})
        if not mans.startswith('ok '):
            chk.violation('density:model-quadrature', 'npts=%r: the C09 model ip_quadrature answers %s on the v space of the finder' % (npts, mans[:80]),
                          {'kind': 'correspondence', 'theorem': 'c16_rho_is_integral_of_interpolant'}, no_input=True)
        else:
            mw = [qparse(t) for t in mans.split()[1:]]
            bw = 64 * nb * EPS * cond * float(np.abs(q).max())
            dw = max(abs(qlift.frac_of_float(x) - y) for x, y in zip(q, mw)) if len(mw) == nb else float('inf')
            quad_rel = max(quad_rel, float(dw) / bw)
            if len(mw) != nb or dw > bw:
                chk.violation('spline_interpolators.get_quadrature_coefficients:weights-vs-model', 'npts=%r: quadrature coefficients differ from the exact weights of the model by %.3g (bound %.3g)' % (npts, float(dw), bw),
                              {'kind': 'impl', 'npts': list(npts)})
            else:
                # with the model's exact weights (every double read as the rational it is):
                vq = [qlift.frac_of_float(x) for x in info['vgreville']]
                kq = [qlift.frac_of_float(x) for x in info['vknots']]
                if info['vcubic']:
                    # uniform-cubic path, c16_rho_const_cubic: data constant in v integrate to the constant times ncells*dx, exactly
                    lo, hi = kq[0], kq[0] + int(kq[3]) * kq[2]
                    dmax = 0
                else:
                    lo, hi = kq[deg], kq[len(kq) - 1 - deg]
                    dmax = deg
                for d in range(dmax + 1):
                    lhs = sum(w_ * x ** d for w_, x in zip(mw, vq))
                    rhs = (hi ** (d + 1) - lo ** (d + 1)) / (d + 1)
                    if lhs != rhs:
                        chk.violation('density:model-polynomial-exactness', 'npts=%r: model weights integrate v^%d to %s, exact %s' % (npts, d, lhs, rhs),
                                      {'kind': 'correspondence', 'theorem': 'c16_rho_exact_polynomial / c16_rho_const_cubic', 'degree': d}, no_input=True)
                # c16_rho_exact_polynomial through the extracted model: the GENERAL path on the same break points (clamped knot vector with
                # repeated end knots), the same (binary64, hence not exactly Greville) interpolation points: v^d, d <= degree, exactly
                br = [kq[0] + i * kq[2] for i in range(int(kq[3]) + 1)] if info['vcubic'] else None
                if br is not None:
                    gk = [br[0]] * deg + br + [br[-1]] * deg
                    xs2 = [min(max(x, br[0]), br[-1]) for x in vq]
                    g2 = core.model(['ip.quad %d 0 0 | %s | %s' % (deg, ' '.join(qstr(x) for x in gk), ' '.join(qstr(x) for x in xs2))])[0]
                    chk.count(('quad-model-general', npts), stratum='polynomial-exactness-through-model:general-path', sample={'npts': list(npts), 'degree': deg})
                    if not g2.startswith('ok '):
                        chk.violation('density:model-quadrature', 'npts=%r: ip_quadrature (general path) answers %s' % (npts, g2[:80]),
                                      {'kind': 'correspondence', 'theorem': 'c16_rho_exact_polynomial'}, no_input=True)
                    else:
                        w2 = [qparse(t) for t in g2.split()[1:]]
                        for d in range(deg + 1):
                            lhs = sum(w_ * x ** d for w_, x in zip(w2, xs2))
                            rhs = (br[-1] ** (d + 1) - br[0] ** (d + 1)) / (d + 1)
                            if lhs != rhs:
                                chk.violation('density:model-polynomial-exactness', 'npts=%r general path: model weights integrate v^%d to %s, exact %s' % (npts, d, lhs, rhs),
                                              {'kind': 'correspondence', 'theorem': 'c16_rho_exact_polynomial', 'degree': d}, no_input=True)
        # polynomials of degree <= spline degree lie in the (clamped) spline space: exact integrals
        a, b = info['vlims']
        v = info['eta3']
        for d in range(deg + 1):
            lhs = float(q @ (v ** d))
            rhs = (b ** (d + 1) - a ** (d + 1)) / (d + 1)
            b3 = 64 * nb * EPS * cond * float(np.abs(q) @ np.abs(v ** d)) + 1e-300
            quad_rel = max(quad_rel, abs(lhs - rhs) / b3)
            if abs(lhs - rhs) > b3:
                chk.violation('poisson_solver.DensityFinder:polynomial-degree-%d' % d, 'npts=%r: integral of v^%d over [%g,%g] is %r, quadrature gives %r' % (npts, d, a, b, rhs, lhs),
                              {'kind': 'impl', 'degree': d})

    # ---------------- (d) cross-check of the extraction inside Coq
    samp = [i for i, c in enumerate(cases) if c['kind'] == 'prho' and 0 < c['nc'] <= 3 and np.prod(c['grid']) <= 16][:6]

    def qc(x):
        return '(dnq_of (%d) %d)' % (x.numerator, x.denominator)

    def lst(a):
        if isinstance(a, np.ndarray) and a.ndim > 1:
            return '[' + '; '.join(lst(x) for x in a) + ']'
        return '[' + '; '.join(qc(x) for x in a) + ']'
    terms = ['dnq_show3 (dnq_get_perturbed_rho %d %d %d %s %s %s)' % (*cases[i]['rho'], lst(mats[i][0]), lst(mats[i][1]), lst(mats[i][2])) for i in samp]
    if terms:
        vals = core.coq_eval(terms, 'From Coq Require Import List ZArith. Import ListNotations. From PGV Require Import Density DensityQc. Open Scope Z_scope.', tag='c16')
        for i, v in zip(samp, vals):
            nums = [int(x) for x in __import__('re').findall(r'-?\d+', v.replace('%positive', '').replace('%Z', ''))]
            if mod[i].startswith('err'):
                ok = v.strip() == 'None'
            else:
                mq = [qparse(t) for t in mod[i].split()[1:]]
                ok = len(nums) == 2 * len(mq) and all(F(nums[2 * k], nums[2 * k + 1]) == mq[k] for k in range(len(mq)))
            if not ok:
                raise core.BrokenCheck('extracted model and vm_compute disagree on %r: %s vs %s' % (cases[i], v[:200], mod[i][:200]))
    chk.assumptions += ['the stored value (t_{j+p+1} - t_j)/(p+1) is the integral of B_j (classical identity, cited in C09)',
                        'simulated MPI; compute_2d_process_grid overridden to reach every admissible grid',
                        'binary64 rounding is not modelled: float results are compared with the exact value of the same inputs under (nc+2) eps sum|q|(|g|+|e|)']
    return chk.finish(proof,
                      rule='(a) %d seeded shape/value cases of the exact kernels (strata: regular, zero extent, oversized, undersized), %d exact algebraic-oracle cases, %d float/complex '
                           'storage cases; (b) spy + real run of DensityFinder on %d grid sizes x %d process grids under simulated MPI; (c) quadrature hypotheses per size; '
                           'non-trivial = all extents positive (a) / a non-serial process grid (b); distinct = distinct (kind, shapes, seed) or (mode, size, grid)'
                           % (len(cases), n_alg, n_flt, len(shapes), len(grids)),
                      extra={'equilibrium_rows_checked': rows_checked, 'worst_float_error_in_eps_scale_units': round(worst, 3),
                             'quadrature_worst_fraction_of_bound': round(quad_rel, 4), 'coq_vm_compute_crosschecked': len(samp)},
                      uncovered=['the classical identity that (t_{j+p+1} - t_j)/(p+1) is the integral of B_j (cited in C09); with the weights of the C09 model the density is proved to be sum_j I_j c_j for the '
                                 'v-interpolant c (c16_rho_is_integral_of_interpolant) and the exact integral for polynomials of degree <= p on clamped general spaces (c16_rho_exact_polynomial); the '
                                 'uniform-cubic path is proved for data constant in v only (c16_rho_const_cubic), higher degrees are checked numerically and with the exact model weights',
                                 'that LAPACK / SuperLU realise the exact transposed solve of the model: the real coefficients are compared with the exact weights of the C09 model on the finder\'s own '
                                 'v space under a conditioning-based bound',
                                 'binary64 rounding of the accumulation (bounded a posteriori, not proved)',
                                 'the tie of DensityFinder (numpy level) to the model is by spied arguments and read-back tables, not by a source translator'])


def replay(path):
    core.setup_paths()
    body = json.load(open(path))
    rp = body['replay']
    c = rp.get('case')
    if isinstance(c, dict):
        feq, grid, q = materialise(c)
        ns = lifted()
        rs = run_exact(ns['get_perturbed_rho'], c['rho'], (feq, grid, q))[0] if c['kind'] == 'prho' else run_exact(ns['get_rho'], c['rho'], (grid, q))[0]
        m = core.model([model_line(c, feq, grid, q)])[0]
        print('code :', rs[:300])
        print('model:', m[:300])
        return 0 if rs == m else 1
    if isinstance(c, list) and c and c[0] in ('spy', 'real'):
        mode, npts, g, seed = c
        a = mpi_case((mode, npts, tuple(g), seed))
        if a[0] != 'ok':
            print(a)
            return 1
        if mode == 'spy':
            table = a[1][0]['table']
            bad = 0
            for rk in a[1]:
                for rec in rk['rec']:
                    for i, R in enumerate(rec['radii']):
                        if rec['rows'][i].tobytes() != table[R].tobytes():
                            bad += 1
            print('slices receiving the equilibrium row of another radius:', bad)
            return 1 if bad else 0
        import simdriver
        b = mpi_case((mode, npts, (1, 1), seed))
        bad = 0
        for fld, n_ in (('prho', npts[:3]), ('rho', npts[:3])):
            x = simdriver.assemble([rk[fld] for rk in a[1]], n_)[0]
            y = simdriver.assemble([rk[fld] for rk in b[1]], n_)[0]
            same = x.tobytes() == y.tobytes()
            print(fld, 'bitwise equal to serial:', same)
            bad += (not same)
        return 1 if bad else 0
    print('nothing to replay mechanically; see', path)
    return 1
