"""
Common machinery of every check: proof stage (coqc + Print Assumptions parsing),
model runner (extracted OCaml), violation / known-finding reporting, evidence writer.
"""
import json
import os
import re
import subprocess
import sys
import time
import hashlib

VERIF = os.path.dirname(os.path.dirname(os.path.abspath(__file__)))
REPO = os.environ.get('PGV_REPO', '/repo')
COQ = os.path.join(VERIF, 'coq')
MODELRUN = os.path.join(VERIF, 'ocaml', 'modelrun')
SHIMS = os.path.join(VERIF, 'harness', 'shims')
PY = '/venv/bin/python'

FORBIDDEN = re.compile(r'\b(Admitted|admit|Axiom|Axioms|Parameter|Parameters|Conjecture|Abort All)\b|'
                       r'Unset Guard|bypass_check|type-in-type|impredicative-set|Admit Obligations|'
                       r'Unset Positivity|Unset Universe')

# axioms the standard library declares that a property file may depend on (named in the trusted base)
STDLIB_AXIOMS = {
    'ClassicalDedekindReals.sig_forall_dec', 'ClassicalDedekindReals.sig_not_dec',
    'FunctionalExtensionality.functional_extensionality_dep',
    'Classical_Prop.classic', 'Eqdep.Eq_rect_eq.eq_rect_eq', 'JMeq.JMeq_eq',
    'ProofIrrelevance.proof_irrelevance',
}
# primitive int / float operations are part of the kernel, not axioms of ours
PRIMITIVE_PREFIXES = ('PrimFloat.', 'Uint63.', 'PrimInt63.', 'Float64', 'FloatOps.', 'PrimFloat', 'Sint63.',
                      'FloatAxioms.', 'Uint63Axioms.', 'PrimString')


def setup_paths():
    """make /repo's current tree and the shims importable in this interpreter"""
    for p in (REPO, SHIMS):
        if p in sys.path:
            sys.path.remove(p)
    sys.path.insert(0, REPO)
    sys.path.insert(0, SHIMS)


def _big_stack():
    import resource
    try:
        soft, hard = resource.getrlimit(resource.RLIMIT_STACK)
        resource.setrlimit(resource.RLIMIT_STACK, (hard, hard))
    except Exception:
        pass


def sh(cmd, timeout, cwd=None, env=None, inp=None):
    try:
        p = subprocess.run(cmd, cwd=cwd, env=env, input=inp, capture_output=True, text=True, timeout=timeout,
                           preexec_fn=_big_stack)
        return p.returncode, p.stdout, p.stderr
    except subprocess.TimeoutExpired as e:
        return 124, (e.stdout or b'').decode() if isinstance(e.stdout, bytes) else (e.stdout or ''), 'TIMEOUT after %ss' % timeout


class BrokenCheck(Exception):
    pass


def ensure_built():
    """incremental build of the Coq development and of the extracted driver"""
    rc, out, err = sh(['flock', os.path.join(VERIF, '.build.lock'), 'make', '-C', VERIF, 'build'], 3600)
    if rc != 0:
        time.sleep(2.0)
        rc, out, err = sh(['flock', os.path.join(VERIF, '.build.lock'), 'make', '-C', VERIF, 'build'], 3600)
    if rc != 0:
        raise BrokenCheck('build failed:\n' + out[-3000:] + err[-3000:])


def grep_forbidden():
    bad = []
    for root, _, files in os.walk(COQ):
        for f in files:
            if f.endswith('.v'):
                p = os.path.join(root, f)
                for i, line in enumerate(open(p, encoding='utf-8'), 1):
                    code = re.sub(r'\(\*.*?\*\)', '', line)
                    if FORBIDDEN.search(code):
                        bad.append('%s:%d: %s' % (os.path.relpath(p, VERIF), i, line.strip()))
    return bad


def parse_assumptions(out):
    """split coqc output into one block per Print Assumptions; returns list of axiom-name lists"""
    blocks = []
    cur = None
    for line in out.splitlines():
        if line.startswith('Closed under the global context'):
            blocks.append([])
            cur = None
        elif line.startswith('Axioms:'):
            cur = []
            blocks.append(cur)
        elif cur is not None:
            m = re.match(r'^([A-Za-z_][\w\.\']*)\s*:', line)
            if m:
                cur.append(m.group(1))
            elif line and not line.startswith(' '):
                cur = None
    return blocks


def proof_stage(prop, extra_files=()):
    """compile Props/<prop>.v afresh; returns dict(obligations, discharged, axioms, theorems, log)"""
    ensure_built()
    bad = grep_forbidden()
    if bad:
        raise BrokenCheck('forbidden tokens in the Coq development:\n' + '\n'.join(bad))
    res = {'obligations': 0, 'discharged': 0, 'axioms': [], 'theorems': [], 'files': []}
    files = [os.path.join('theories', 'Props', prop + '.v')] + list(extra_files)
    for rel in files:
        path = os.path.join(COQ, rel)
        src = open(path).read()
        names = re.findall(r'^Print Assumptions\s+([\w\.\']+)\s*\.', src, re.M)
        # fresh compilation into a private output file: nothing is removed from or written to the shared build tree
        # (another check's incremental `make build` would otherwise recompile the same .vo at the same time)
        t0 = time.time()
        import tempfile
        import shutil
        tmpd = tempfile.mkdtemp(dir='/var/tmp', prefix='pgv_props_')
        try:
            cmd = ['coqc', '-Q', 'theories', 'PGV', '-w', '-deprecated', '-o', os.path.join(tmpd, os.path.basename(rel) + 'o'), rel]
            rc, out, err = sh(cmd, 1800, cwd=COQ)
            if rc not in (0, 1):
                # abnormal end (anomaly, signal): once more, serialised with the builds
                time.sleep(2.0)
                rc, out, err = sh(['flock', os.path.join(VERIF, '.build.lock')] + cmd, 1800, cwd=COQ)
        finally:
            shutil.rmtree(tmpd, ignore_errors=True)
        if rc != 0:
            raise BrokenCheck('coqc %s failed (rc=%d):\n%s\n%s' % (rel, rc, out[-2000:], err[-3000:]))
        blocks = parse_assumptions(out)
        if len(blocks) != len(names):
            raise BrokenCheck('%s: %d Print Assumptions commands but %d answers' % (rel, len(names), len(blocks)))
        res['obligations'] += len(names)
        for nm, ax in zip(names, blocks):
            foreign = [a for a in ax if a not in STDLIB_AXIOMS and not a.startswith(PRIMITIVE_PREFIXES)]
            if foreign:
                raise BrokenCheck('%s depends on undeclared axioms %r' % (nm, foreign))
            res['discharged'] += 1
            res['theorems'].append(nm)
            for a in ax:
                if a not in res['axioms']:
                    res['axioms'].append(a)
        res['files'].append({'file': rel, 'theorems': len(names), 'coqc_s': round(time.time() - t0, 1)})
    if os.environ.get('VERIF_TIER') == 'thorough' and not extra_files:
        # independent re-check of the compiled property file and everything it depends on
        t0 = time.time()
        rc, out, err = sh(['coqchk', '-silent', '-o', '-Q', 'theories', 'PGV', 'PGV.Props.' + prop], 2400, cwd=COQ)
        if rc != 0:
            raise BrokenCheck('coqchk PGV.Props.%s failed (rc=%d): %s' % (prop, rc, (out + err)[-1500:]))
        ax = []
        sect = None
        for line in (out + '\n' + err).splitlines():          # coqchk prints its context summary on stderr
            if line.startswith('* '):
                sect = line
            elif sect and sect.startswith('* Axioms') and line.strip() and line.strip() != '<none>':
                ax.append(line.strip())
            elif sect and not sect.startswith('* Axioms') and line.strip() and line.strip() != '<none>' and not line.startswith('CONTEXT'):
                raise BrokenCheck('coqchk reports %s %s' % (sect, line.strip()))
        own = [a for a in ax if not a.startswith('Coq.')]
        if own:
            raise BrokenCheck('coqchk: axioms outside the standard library: %r' % own)
        res['coqchk'] = {'ok': True, 'seconds': round(time.time() - t0, 1), 'stdlib_axioms_in_closure': len(ax),
                         'non_primitive': [a for a in ax if 'PrimInt63' not in a and 'PrimFloat' not in a and 'Uint63' not in a
                                           and 'Floats' not in a and 'Sint63' not in a][:40]}
    return res


def model(lines, timeout=1800):
    """run the extracted model on request lines; returns the answer lines"""
    if not lines:
        return []
    rc, out, err = sh([MODELRUN], timeout, inp='\n'.join(lines) + '\n')
    if rc != 0:
        raise BrokenCheck('modelrun failed rc=%d: %s' % (rc, err[-2000:]))
    ans = out.split('\n')
    if ans and ans[-1] == '':
        ans.pop()
    if len(ans) != len(lines):
        raise BrokenCheck('modelrun answered %d lines for %d requests' % (len(ans), len(lines)))
    return ans


def model_parallel(lines, nproc=16, timeout=1800):
    if len(lines) < 2000:
        return model(lines, timeout)
    from concurrent.futures import ThreadPoolExecutor
    k = (len(lines) + nproc - 1) // nproc
    chunks = [lines[i:i + k] for i in range(0, len(lines), k)]
    with ThreadPoolExecutor(nproc) as ex:
        outs = list(ex.map(lambda c: model(c, timeout), chunks))
    return [a for o in outs for a in o]


def coq_eval(defs_and_terms, imports, timeout=900, tag='cases'):
    """evaluate terms inside Coq with vm_compute (cross-check of the extraction).
    defs_and_terms: list of Coq terms (strings); returns list of printed results (strings)"""
    gen = os.path.join(COQ, 'gen')
    os.makedirs(gen, exist_ok=True)
    path = os.path.join(gen, '%s_%d.v' % (tag, os.getpid()))
    with open(path, 'w') as f:
        f.write(imports + '\n')
        for t in defs_and_terms:
            f.write('Eval vm_compute in (%s).\n' % t)
    rc, out, err = sh(['coqc', '-Q', 'theories', 'PGV', '-w', '-deprecated', os.path.relpath(path, COQ)], timeout, cwd=COQ)
    for ext in ('.v', '.vo', '.vok', '.vos', '.glob'):
        try:
            os.remove(path[:-2] + ext)
        except OSError:
            pass
    try:
        os.remove(os.path.join(gen, '.%s_%d.aux' % (tag, os.getpid())))
    except OSError:
        pass
    if rc != 0:
        raise BrokenCheck('coq_eval failed: ' + err[-2000:])
    # each answer is "     = value\n     : type"
    vals = re.findall(r'^\s*=\s*(.*?)\n\s*:\s', out, re.M | re.S)
    if len(vals) != len(defs_and_terms):
        raise BrokenCheck('coq_eval: %d answers for %d terms' % (len(vals), len(defs_and_terms)))
    return [re.sub(r'\s+', ' ', v.strip()) for v in vals]


def load_known_findings():
    path = os.path.join(VERIF, 'KNOWN_FINDINGS.txt')
    out = []
    if os.path.exists(path):
        for line in open(path):
            line = line.strip()
            m = re.match(r'^finding:\s+property=(\S+)\s+key=(\S+)\s+(.*)$', line)
            if m:
                out.append({'property': m.group(1), 'key': m.group(2), 'what': m.group(3)})
    return out


class Check:
    def __init__(self, prop, level='proof'):
        self.prop = prop
        self.level = level
        self.tier = os.environ.get('VERIF_TIER', 'quick')
        self.seed = int(os.environ.get('VERIF_SEED', '20260925'))
        self.t0 = time.time()
        self.cov = {'evaluations': 0, 'distinct_nontrivial': 0, 'samples': [], 'strata': {},
                    'disagreements_checked': 0, 'certificates_checked': 0}
        self.assumptions = []
        self.violations = []       # unlisted
        self.known_hits = {}       # key -> count
        self.known = [k for k in load_known_findings() if k['property'] == prop]
        self._distinct = set()
        self.broken = None

    # ---- bookkeeping ---------------------------------------------------------
    def count(self, case_key, nontrivial=True, stratum=None, sample=None, max_samples=6):
        self.cov['evaluations'] += 1
        if nontrivial:
            h = hashlib.sha1(repr(case_key).encode()).digest()[:8]
            if h not in self._distinct:
                self._distinct.add(h)
        if stratum is not None:
            self.cov['strata'][stratum] = self.cov['strata'].get(stratum, 0) + 1
            if sample is not None:
                n = sum(1 for s in self.cov['samples'] if isinstance(s, dict) and s.get('stratum') == stratum)
                if n < 1 and len(self.cov['samples']) < 40:
                    self.cov['samples'].append({'stratum': stratum, 'case': sample})
        elif sample is not None and len(self.cov['samples']) < max_samples:
            self.cov['samples'].append(sample)

    def violation(self, key, what, replay, no_input=False):
        """report a failure; key identifies site + input class (matched against KNOWN_FINDINGS)"""
        for k in self.known:
            if k['key'] == key:
                self.known_hits[key] = self.known_hits.get(key, 0) + 1
                return 'known'
        self._per_key = getattr(self, '_per_key', {})
        self._per_key[key] = self._per_key.get(key, 0) + 1
        # at most 3 reports per key; at most 12 reports with a failing input and 12 without (every key and its count is
        # listed in the evidence whatever the caps)
        shown = [v for v in self.violations if v is not None]
        if self._per_key[key] > 3 or len([v for v in shown if bool(v[1]) == bool(no_input)]) >= 12:
            self.violations.append(None)
            return 'violation'
        os.makedirs(os.path.join(VERIF, 'replays'), exist_ok=True)
        body = {'property': self.prop, 'key': key, 'what': what, 'seed': self.seed, 'tier': self.tier,
                'no_failing_input_found': bool(no_input), 'replay': replay,
                'how_to_replay': 'bin/check %s --replay <this file>' % self.prop}
        h = hashlib.sha1(json.dumps(body, sort_keys=True, default=str).encode()).hexdigest()[:10]
        path = os.path.join(VERIF, 'replays', '%s-%s.json' % (self.prop, h))
        with open(path, 'w') as f:
            json.dump(body, f, indent=1, default=str)
        self.violations.append((path, no_input, what))
        return 'violation'

    # ---- finish --------------------------------------------------------------
    def finish(self, proof=None, rule='', extra=None, uncovered=None, checker_cmd=None):
        cov = self.cov
        cov['distinct_nontrivial'] = len(self._distinct)
        cov['rule'] = rule
        if proof is not None:
            cov['obligations'] = proof['obligations']
            cov['discharged'] = proof['discharged']
            cov['theorems'] = proof['theorems']
            cov['checker_cmd'] = checker_cmd or ('cd /verif/coq && coqc -Q theories PGV theories/Props/%s.v '
                                                 '(after make -C /verif build); axioms parsed from Print Assumptions'
                                                 % self.prop)
            tb = ['Coq 8.16.1 kernel (coqc; vm_compute where a theorem is a finite sweep)',
                  'extraction: ExtrOcamlBasic only; ocaml/modelrun.ml text<->datatype conversion',
                  'harness: simulated MPI / HDF5 shims, generators, comparators (harness/)']
            if proof['axioms']:
                tb.append('axioms reported by Print Assumptions: ' + ', '.join(proof['axioms']))
            else:
                tb.append('axioms reported by Print Assumptions: none (closed under the global context)')
            cov['trusted_base'] = tb
            cov['proof_files'] = proof['files']
            if 'coqchk' in proof:
                cov['coqchk'] = proof['coqchk']
                tb.append('coqchk -o re-checked PGV.Props.%s and its dependencies (%d standard-library axioms/primitives in the loaded closure)'
                          % (self.prop, proof['coqchk']['stdlib_axioms_in_closure']))
        if uncovered:
            cov['uncovered_clauses'] = uncovered
        if extra:
            cov.update(extra)
        real = [v for v in self.violations if v is not None]
        cov['known_findings_hit'] = self.known_hits
        if getattr(self, '_per_key', None):
            cov['violation_keys'] = dict(self._per_key)
        ev = {'property_id': self.prop, 'tier': self.tier if self.tier in ('quick', 'thorough') else 'quick',
              'seed': self.seed, 'level': self.level, 'coverage': cov, 'assumptions': self.assumptions,
              'wall_s': round(time.time() - self.t0, 2), 'violations': len(self.violations)}
        evdir = os.environ.get('PGV_EVIDENCE_DIR') or os.path.join(VERIF, 'evidence')   # bin/seeded redirects it
        os.makedirs(evdir, exist_ok=True)
        with open(os.path.join(evdir, self.prop + '.json'), 'w') as f:
            json.dump(ev, f, indent=1, default=str)
        for k in self.known:
            if k['key'] in self.known_hits:
                print('KNOWN-FINDING: property=%s %s (%d cases this run) %s'
                      % (self.prop, k['key'], self.known_hits[k['key']], k['what']))
        for path, no_input, what in real:
            print('  ' + what[:300])
            print('VIOLATION property=%s replay=%s%s' % (self.prop, path, ' no-failing-input-found' if no_input else ''))
        print('%s %s: %d evaluations, %d distinct non-trivial, %d violations, %.1fs'
              % (self.prop, self.tier, cov['evaluations'], cov['distinct_nontrivial'], len(self.violations),
                 time.time() - self.t0))
        return 1 if real else 0
