"""
Run the implementation on many cases in worker processes, each case under an alarm so that
a non-terminating implementation is an outcome ('timeout'), not a hang of the check.
"""
import multiprocessing as mp
import signal
import os
import sys


class CaseTimeout(Exception):
    pass


def _alarm(signum, frame):
    raise CaseTimeout()


def _worker(args):
    modname, funcname, cases, tmo = args
    import importlib
    import warnings
    import core
    warnings.simplefilter('ignore')
    core.setup_paths()
    mod = importlib.import_module(modname)
    f = getattr(mod, funcname)
    out = []
    signal.signal(signal.SIGALRM, _alarm)
    for c in cases:
        signal.setitimer(signal.ITIMER_REAL, tmo)
        try:
            r = f(c)
        except CaseTimeout:
            r = ('timeout',)
        except Exception as e:  # the implementation raised: an outcome
            r = ('exc', type(e).__name__, str(e)[:200])
        finally:
            signal.setitimer(signal.ITIMER_REAL, 0)
        out.append(r)
    return out


def run_cases(modname, funcname, cases, tmo=10.0, nproc=16, chunk=None):
    """f = modname.funcname is applied to every case in fresh worker processes"""
    if not cases:
        return []
    if chunk is None:
        chunk = max(1, min(500, (len(cases) + nproc * 4 - 1) // (nproc * 4)))
    chunks = [cases[i:i + chunk] for i in range(0, len(cases), chunk)]
    ctx = mp.get_context('fork')
    with ctx.Pool(min(nproc, len(chunks)), maxtasksperchild=20) as pool:
        res = pool.map(_worker, [(modname, funcname, c, tmo) for c in chunks])
    return [r for rs in res for r in rs]
