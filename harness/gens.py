"""Seeded generators of layout-handler configurations accepted by LayoutHandler (used by C01, C02, C04, C06)."""


EMPTY_BLOCKS = True      # extents smaller than the process count (ranks with an empty block) are legal inputs


def _ok(N, nprocs, dims):
    if EMPTY_BLOCKS:
        return all(N[dims[a]] >= 1 for a in range(len(nprocs)))
    return all(nprocs[a] <= N[dims[a]] for a in range(len(nprocs)))


def neighbours(N, nprocs, dims):
    """layouts reachable from dims in one compatible step (at most one distributed axis changes its dimension)"""
    d = len(dims)
    nd = len(nprocs)
    out = []
    for a in range(d):
        for b in range(a + 1, d):
            da = a < nd and nprocs[a] > 1
            db = b < nd and nprocs[b] > 1
            if da and db:
                continue
            l = list(dims)
            l[a], l[b] = l[b], l[a]
            if _ok(N, nprocs, l):
                out.append(l)
    return out


def handler_config(rng, max_ranks=6, max_extent=7, dmin=2, dmax=4, nlayouts=None):
    """returns (N, nprocs, layouts): global shape, process grid, list of dims orders forming a connected set"""
    while True:
        d = rng.randint(dmin, dmax)
        N = [rng.randint(1, max_extent) for _ in range(d)]
        nd = rng.randint(1, min(d, 3)) if rng.random() < 0.85 else d
        nprocs = []
        prod = 1
        for a in range(nd):
            cand = [p for p in (1, 1, 2, 2, 3, 3, 4, 5, 6, 7, 8) if prod * p <= max_ranks]
            p = rng.choice(cand)
            nprocs.append(p)
            prod *= p
        first = list(range(d))
        rng.shuffle(first)
        # make extents equal to the process count now and then
        for a in range(nd):
            if rng.random() < 0.25:
                N[first[a]] = nprocs[a]
        if not _ok(N, nprocs, first):
            continue
        layouts = [first]
        want = nlayouts or rng.randint(2, 5)
        tries = 0
        while len(layouts) < want and tries < 40:
            tries += 1
            base = layouts[-1] if rng.random() < 0.6 else rng.choice(layouts)
            nb = [l for l in neighbours(N, nprocs, base) if l not in layouts]
            if not nb:
                continue
            # prefer steps that move a distributed axis
            mv = [l for l in nb if any(a < nd and nprocs[a] > 1 and l[a] != base[a] for a in range(d))]
            layouts.append(rng.choice(mv if mv and rng.random() < 0.8 else nb))
        if len(layouts) >= 2:
            return N, nprocs, layouts
