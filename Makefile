# /verif build: full .vo build of the Coq development, extraction, OCaml driver.
SHELL := /bin/bash
COQFILES := $(shell find coq/theories -name '*.v' | sort)

.PHONY: setup build coq modelrun clean

setup: build

build: coq modelrun

coq/_CoqProject: $(COQFILES) Makefile
	@( echo "-Q theories PGV"; echo "-arg -w -arg -deprecated"; cd coq && find theories -name '*.v' | sort ) > coq/_CoqProject.new
	@cmp -s coq/_CoqProject.new coq/_CoqProject || mv coq/_CoqProject.new coq/_CoqProject
	@rm -f coq/_CoqProject.new

coq/Makefile.coq: coq/_CoqProject
	cd coq && coq_makefile -f _CoqProject -o Makefile.coq > /dev/null

coq: coq/Makefile.coq
	cd coq && timeout 3000 $(MAKE) --no-print-directory -f Makefile.coq -j16 2>&1 | grep -v '^COQDEP\|^COQC' ; exit $${PIPESTATUS[0]}

EXTRACT_PARTS := $(wildcard coq/extract/parts/*.txt)
HANDLERS := $(sort $(wildcard ocaml/handlers/*.ml))

coq/extract/Extract.v: $(EXTRACT_PARTS) coq/extract/gen_extract.py
	python3 coq/extract/gen_extract.py

ocaml/model.ml: coq/extract/Extract.v $(COQFILES) | coq
	cd coq/extract && timeout 900 coqc -Q ../theories PGV -w -deprecated Extract.v > /dev/null
	cp coq/extract/model.ml coq/extract/model.mli ocaml/

ocaml/modelrun: ocaml/model.ml ocaml/mr.ml ocaml/main.ml $(HANDLERS)
	cd ocaml && timeout 900 ocamlfind ocamlopt -w -a -I handlers -package str model.mli model.ml mr.ml $(patsubst ocaml/%,%,$(HANDLERS)) main.ml -o modelrun

modelrun: ocaml/modelrun

clean:
	-cd coq && $(MAKE) -f Makefile.coq clean
	rm -f coq/Makefile.coq coq/Makefile.coq.conf coq/_CoqProject ocaml/model.ml ocaml/model.mli ocaml/modelrun ocaml/*.cm* ocaml/*.o ocaml/handlers/*.cm* ocaml/handlers/*.o coq/extract/Extract.v
