(* C04: run an operation history on the concrete Grid state machine and on the single-array spec.
   gridsm <hasSave 0/1> <g0> <l0> <ops...>   ops: L<k> (setLayout k)  W<g> (write field g)  S  R  F
   answer per op: D|X:<layout>:<field or ->   (concrete trace) then " / " and the spec trace *)
open Model
open Mr

let parse_op s =
  match s.[0] with
  | 'L' -> SetLayout (int_of_string (String.sub s 1 (String.length s - 1)))
  | 'W' -> Write (int_of_string (String.sub s 1 (String.length s - 1)))
  | 'S' -> Save | 'R' -> Restore | 'F' -> Free
  | _ -> failwith "op"
let show tr = String.concat " " (List.map (fun (o, (l, f)) ->
  (match o with Done -> "D" | Refused -> "X") ^ ":" ^ string_of_int l ^ ":" ^
  (match f with Some g -> string_of_int g | None -> "-")) tr)

let () =
  register "gridsm" (fun t -> match t with
    | hs :: g0 :: l0 :: ops ->
        let hs = (hs = "1") and g0 = int_of_string g0 and l0 = int_of_string l0 in
        let ops = List.map parse_op ops in
        show (ctrace hs (-1) (cinit g0 l0) ops) ^ " / " ^ show (atrace hs (ainit g0 l0) ops)
    | _ -> "?args")
