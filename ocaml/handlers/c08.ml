(* C08 / C09 commands: the Qc instance of InterpModel.v.  Rationals travel as hexnum/hexden, groups of
   tokens are separated by "|", matrices are row-major with rows joined by ";" in answers.
   Flags: <periodic> <cubic> are 0/1.  Answers "ok ..." or "err index|fuel|div|arg" (C07.show).
   Nothing is computed here. *)
open Model
open Mr

let flag s = (int_of_string s <> 0)
let str_mat m = String.concat " ; " (List.map C07.str_qs m)
let ntok = C07.nat_tok

let () =
  (* ip.shape <degree> <periodic> <cubic> | knots  ->  nbasis ncoeffs *)
  register "ip.shape" (fun t -> match split_on "|" t with
    | [[deg; per; cub]; kn] ->
        let k = C07.qs kn in
        Printf.sprintf "ok %d %d" (int_of_nat (ipq_nbasis k (ntok deg) (flag per) (flag cub)))
          (int_of_nat (ipq_ncoeffs k (ntok deg) (flag cub)))
    | _ -> "?args");
  (* ip.colloc <degree> <periodic> <cubic> | knots | xs *)
  register "ip.colloc" (fun t -> match split_on "|" t with
    | [[deg; per; cub]; kn; xs] ->
        let k = C07.qs kn in
        C07.show str_mat (ipq_colloc (ipq_nbasis k (ntok deg) (flag per) (flag cub)) k (ntok deg) (flag per) (flag cub) (C07.qs xs))
    | _ -> "?args");
  (* ip.inverse <degree> <periodic> <cubic> | knots | xs  : the inverse of the collocation matrix, computed and checked *)
  register "ip.inverse" (fun t -> match split_on "|" t with
    | [[deg; per; cub]; kn; xs] ->
        let k = C07.qs kn in
        let nb = ipq_nbasis k (ntok deg) (flag per) (flag cub) in
        C07.show str_mat (match ipq_colloc nb k (ntok deg) (flag per) (flag cub) (C07.qs xs) with
                          | SpOk a -> ipq_inverse nb a
                          | SpIndexErr -> SpIndexErr | SpFuelErr -> SpFuelErr | SpDivErr -> SpDivErr | SpArgErr -> SpArgErr)
    | _ -> "?args");
  (* ip.invok <degree> <periodic> <cubic> | knots | xs | candidate inverse row-major : the certificate checker *)
  register "ip.invok" (fun t -> match split_on "|" t with
    | [[deg; per; cub]; kn; xs; inv] ->
        let k = C07.qs kn in
        let nb = ipq_nbasis k (ntok deg) (flag per) (flag cub) in
        C07.show (fun b -> if b then "true" else "false")
          (match ipq_colloc nb k (ntok deg) (flag per) (flag cub) (C07.qs xs) with
           | SpOk a -> SpOk (ipq_inverse_ok nb a (C07.rows (int_of_nat nb) (C07.qs inv)))
           | SpIndexErr -> SpIndexErr | SpFuelErr -> SpFuelErr | SpDivErr -> SpDivErr | SpArgErr -> SpArgErr)
    | _ -> "?args");
  (* ip.interp1d <degree> <periodic> <cubic> | knots | xs | u *)
  register "ip.interp1d" (fun t -> match split_on "|" t with
    | [[deg; per; cub]; kn; xs; u] ->
        C07.show C07.str_qs (ipq_interp1d (C07.qs kn) (ntok deg) (flag per) (flag cub) (C07.qs xs) (C07.qs u))
    | _ -> "?args");
  (* ip.interpm <degree> <periodic> <cubic> <ncols> | knots | xs | data vectors, row-major, ncols each *)
  register "ip.interpm" (fun t -> match split_on "|" t with
    | [[deg; per; cub; nc]; kn; xs; us] ->
        C07.show str_mat (ipq_interp_many (C07.qs kn) (ntok deg) (flag per) (flag cub) (C07.qs xs)
                            (C07.rows (int_of_string nc) (C07.qs us)))
    | _ -> "?args");
  (* ip.interp2d <d1> <per1> <d2> <per2> <cubic> <ncols> | knots1 | xs1 | knots2 | xs2 | ug row-major *)
  register "ip.interp2d" (fun t -> match split_on "|" t with
    | [[d1; p1; d2; p2; cub; nc]; k1; x1; k2; x2; ug] ->
        C07.show str_mat (ipq_interp2d (C07.qs k1) (ntok d1) (flag p1) (C07.qs x1) (C07.qs k2) (ntok d2) (flag p2) (C07.qs x2)
                            (flag cub) (C07.rows (int_of_string nc) (C07.qs ug)))
    | _ -> "?args");
  (* ip.eval1d <degree> <cubic> <x> | knots | coeffs *)
  register "ip.eval1d" (fun t -> match split_on "|" t with
    | [[deg; cub; x]; kn; co] ->
        C07.show C07.tok_of_q (ipq_eval1d (C07.qs kn) (ntok deg) (flag cub) (C07.qs co) (C07.q_of_tok x))
    | _ -> "?args");
  (* ip.eval2d <d1> <d2> <cubic> <ncols> <x> <y> | knots1 | knots2 | coeffs row-major *)
  register "ip.eval2d" (fun t -> match split_on "|" t with
    | [[d1; d2; cub; nc; x; y]; k1; k2; co] ->
        C07.show C07.tok_of_q (ipq_eval2d (C07.qs k1) (ntok d1) (C07.qs k2) (ntok d2) (flag cub)
                                 (C07.rows (int_of_string nc) (C07.qs co)) (C07.q_of_tok x) (C07.q_of_tok y))
    | _ -> "?args");
  (* ip.integrals <degree> <periodic> <cubic> | knots *)
  register "ip.integrals" (fun t -> match split_on "|" t with
    | [[deg; per; cub]; kn] ->
        C07.show C07.str_qs (ipq_integrals (C07.qs kn) (ntok deg) (flag per) (flag cub))
    | _ -> "?args");
  (* ip.quadfrom <degree> <periodic> <cubic> | knots | xs | integrals *)
  register "ip.quadfrom" (fun t -> match split_on "|" t with
    | [[deg; per; cub]; kn; xs; ii] ->
        C07.show C07.str_qs (ipq_quad_from (C07.qs kn) (ntok deg) (flag per) (flag cub) (C07.qs xs) (C07.qs ii))
    | _ -> "?args");
  (* ip.quad <degree> <periodic> <cubic> | knots | xs *)
  register "ip.quad" (fun t -> match split_on "|" t with
    | [[deg; per; cub]; kn; xs] ->
        C07.show C07.str_qs (ipq_quadrature (C07.qs kn) (ntok deg) (flag per) (flag cub) (C07.qs xs))
    | _ -> "?args")
