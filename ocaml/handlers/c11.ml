(* C11 commands: the Qc instance of VParAdv.v (rational stand-ins for exp/tanh/sqrt/pi, AdvQc.v).
   Nothing is computed here. *)
open Model
open Mr

let q = C07.q_of_tok

let () =
  (* vp.feq r v CN0 kN0 dRN0 rp CTi kTi dRTi *)
  register "vp.feq" (fun t -> match t with
    | [r; v; a; b; c; d; e; f; g] -> C07.show C07.tok_of_q (vpq_f_eq (q r) (q v) (q a) (q b) (q c) (q d) (q e) (q f) (q g))
    | _ -> "?args");
  (* vp.wrap v vMin vMax *)
  register "vp.wrap" (fun t -> match t with
    | [v; a; b] -> C07.show C07.tok_of_q (vpq_wrap (q v) (q a) (q b))
    | _ -> "?args");
  (* vp.eval <bound> <deg> <cu> rPos vMin vMax CN0 kN0 dRN0 rp CTi kTi dRTi | f | vPts | knots | coeffs *)
  register "vp.eval" (fun t -> match split_on "|" t with
    | [[bound; deg; cu; r; vmin; vmax; a; b; c; d; e; f; g]; fl; vp; kn; co] ->
        C07.show C07.str_qs
          (vpq_eval_step (C07.qs fl) (C07.qs vp) (q r) (q vmin) (q vmax) (C07.qs kn) (C07.nat_tok deg) (C07.qs co)
             (q a) (q b) (q c) (q d) (q e) (q f) (q g) (z_of_int (int_of_string bound)) (cu = "1"))
    | _ -> "?args");
  (* vp.step <bound> <deg> <cu> dt c rPos CN0 kN0 dRN0 rp CTi kTi dRTi | f | points | knots | coeffs *)
  register "vp.step" (fun t -> match split_on "|" t with
    | [[bound; deg; cu; dt; c0; r; a; b; c; d; e; f; g]; fl; pts; kn; co] ->
        C07.show C07.str_qs
          (vpq_step (C07.qs fl) (C07.qs pts) (q dt) (q c0) (q r) (C07.qs kn) (C07.nat_tok deg) (C07.qs co)
             (q a) (q b) (q c) (q d) (q e) (q f) (q g) (z_of_int (int_of_string bound)) (cu = "1"))
    | _ -> "?args")
