(* C01 / C03 whole-memory commands: a transpose on complete arrays (source ; dest ; buf of every rank).
   Sections separated by "|", layouts of a route by "/", the three memories by ";;", per-rank arrays by ";".
   Handlers only convert text <-> datatypes. *)
open Model
open Mr

let fm_nats toks = List.map (fun s -> nat_of_int (int_of_string s)) toks
let fm_show m = String.concat " ; " (List.map (fun b -> str_ints b) m)
let fm_mems toks = List.map (fun g -> List.map ints (split_on ";" g)) (split_on ";;" toks)
(* per-rank bound E given as one number per rank *)
let fm_bound toks = let l = fm_nats toks in (fun r -> try List.nth l (int_of_nat r) with _ -> O)
let fm_route toks = match split_on "/" toks with [[]] -> [] | l -> l

let fm_node toks =
  match split_on "," toks with
  | [h; dims; ax] -> (nat_of_int (int_of_string (List.hd h)), (fm_nats dims, fm_nats ax))
  | _ -> failwith "node"

let () =
  (* mtr N | nprocs | cur | l1 / l2 ... | use_buf E ; src arrays ;; dest arrays ;; buf arrays  ->  the three memories afterwards *)
  register "mtr" (fun t ->
    match split_on ";" t with
    | head :: _ ->
        let rest = (let rec drop n l = if n = 0 then l else drop (n - 1) (List.tl l) in drop (List.length head + 1) t) in
        (match split_on "|" head, fm_mems rest with
         | [n; np; cur; route; [ub; _]], [src; dst; buf] ->
             let n = fm_nats n in
             let d' = nat_of_int (List.length n - 1) in
             let ((s, d), b) = mh_transpose (-1) n (fm_nats np) d' (fm_nats cur) (List.map fm_nats (fm_route route)) (ub = "1") src dst buf in
             fm_show s ^ " ;; " ^ fm_show d ^ " ;; " ^ fm_show b
         | _ -> failwith "mtr args")
    | _ -> failwith "mtr");
  (* mok N | nprocs | cur | l1 / l2 ... | E_0 E_1 ... (one bound per rank) : every step acceptable (step_ok_b) and its extent <= E on every rank *)
  register "mok" (fun t ->
    match split_on "|" t with
    | [n; np; cur; route; e] ->
        let n = fm_nats n in
        let d' = nat_of_int (List.length n - 1) in
        if mh_route_ok n (fm_nats np) d' (fm_bound e) (fm_nats cur) (List.map fm_nats (fm_route route)) then "1" else "0"
    | _ -> failwith "mok");
  (* smtr N | topology | cur / n1 / n2 ... | use_buf E ; src ;; dest ;; buf   (nodes = handler id , dims , axes) *)
  register "smtr" (fun t ->
    match split_on ";" t with
    | head :: _ ->
        let rest = (let rec drop n l = if n = 0 then l else drop (n - 1) (List.tl l) in drop (List.length head + 1) t) in
        (match split_on "|" head, fm_mems rest with
         | [n; np; nodes; [ub; _]], [src; dst; buf] ->
             let n = fm_nats n in
             let d' = nat_of_int (List.length n - 1) in
             (match List.map fm_node (split_on "/" nodes) with
              | cur :: route ->
                  let ((s, d), b) = sw_m_transpose (-1) n (fm_nats np) d' cur route (ub = "1") src dst buf in
                  fm_show s ^ " ;; " ^ fm_show d ^ " ;; " ^ fm_show b
              | [] -> failwith "smtr route")
         | _ -> failwith "smtr args")
    | _ -> failwith "smtr");
  register "smok" (fun t ->
    match split_on "|" t with
    | [n; np; nodes; e] ->
        let n = fm_nats n in
        let d' = nat_of_int (List.length n - 1) in
        (match List.map fm_node (split_on "/" nodes) with
         | cur :: route -> if sw_m_route_ok n (fm_nats np) d' (fm_bound e) cur route then "1" else "0"
         | [] -> failwith "smok route")
    | _ -> failwith "smok");
  (* renum nprocs | layout / layout / ... (constructor order) | cur | l1 / l2 ... : does every step of the route join two
     layouts the constructor paired (route_enum_b, hypothesis of c01_route_within_buffer)? *)
  register "renum" (fun t ->
    match split_on "|" t with
    | [np; lays; cur; route] ->
        if route_enum_b (fm_nats np) (List.map fm_nats (split_on "/" lays)) (fm_nats cur) (List.map fm_nats (fm_route route)) then "1" else "0"
    | _ -> failwith "renum");
  (* hbuf N | nprocs | layout / layout ... | r : handler_bufsize on rank r *)
  register "hbuf" (fun t ->
    match split_on "|" t with
    | [n; np; lays; [r]] -> string_of_int (int_of_nat (hbuf (fm_nats n) (fm_nats np) (List.map fm_nats (split_on "/" lays)) (nat_of_int (int_of_string r))))
    | _ -> failwith "hbuf");
  (* swbuf N | topology | w | handler sizes | L1 ~ L2 / L1 ~ L2 ... : LayoutSwapper._buffer_size on world rank w from the
     handlers' sizes and the enumerated cross-handler pairs (L = h , dims , axes), or "none" where the constructor raises *)
  register "swbuf" (fun t ->
    match split_on "|" t with
    | [n; np; [w]; hs; pairs] ->
        let n = fm_nats n in
        let d' = nat_of_int (List.length n - 1) in
        let pr = (match pairs with [] -> [] | _ -> List.map (fun p -> match split_on "~" p with
                    | [a; b] -> (snd (fm_node a), snd (fm_node b)) | _ -> failwith "pair") (split_on "/" pairs)) in
        (match sw_bufsize n (fm_nats np) d' (fm_nats hs) pr (nat_of_int (int_of_string w)) with
         | None -> "none" | Some x -> string_of_int (int_of_nat x))
    | _ -> failwith "swbuf")

