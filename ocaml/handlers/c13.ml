(* C13 commands: the Qc instance of ParGrad.v.  Nothing is computed here. *)
open Model
open Mr

let q = C07.q_of_tok
let zs toks = List.map (fun s -> z_of_int (int_of_string s)) toks
let str_rows z = String.concat " ; " (List.map C07.str_qs z)

let () =
  (* pgr.steps <n> -> ok shifts | fwd bkwd *)
  register "pgr.steps" (fun t -> match t with
    | [n] -> let ((sh, fwd), bkwd) = pgrq_steps (C07.nat_tok n) in
        "ok " ^ String.concat " " (List.map (fun z -> string_of_int (int_of_z z)) sh) ^ " | "
        ^ string_of_int (int_of_nat fwd) ^ " " ^ string_of_int (int_of_nat bkwd)
    | _ -> "?args");
  (* pgr.moments | shifts | coeffs -> ok 1/0 *)
  register "pgr.moments" (fun t -> match split_on "|" t with
    | [[]; sh; co] -> "ok " ^ (if pgrq_moments_ok (zs sh) (C07.qs co) then "1" else "0")
    | _ -> "?args");
  (* pgr.theta <nz> dz iota R0 pi | shifts | qVals -> ok rows (z-major, then stencil point) *)
  register "pgr.theta" (fun t -> match split_on "|" t with
    | [[nz; dz; iota; r0; pi]; sh; qv] ->
        C07.show (fun tv -> str_rows (List.concat tv))
          (pgrq_theta_vals (C07.nat_tok nz) (zs sh) (C07.qs qv) (q dz) (q iota) (q r0) (q pi))
    | _ -> "?args");
  (* pgr.grad <nz> <nq> <n> <deg> <cu> <ncoef> bz inv_dz | cs flat | thetaVals flat [nz][n][nq] | shifts | coeffs | knots *)
  register "pgr.grad" (fun t -> match split_on "|" t with
    | [[nz; nq; n; deg; cu; nc; bz; idz]; cs; tv; sh; co; kn] ->
        let tvs = C07.rows (int_of_string n) (C07.rows (int_of_string nq) (C07.qs tv)) in
        C07.show str_rows
          (pgrq_parallel_gradient (C07.nat_tok nz) (C07.nat_tok nq) (C07.nat_tok n)
             (C07.rows (int_of_string nc) (C07.qs cs)) tvs (zs sh) (C07.qs co) (q bz) (q idz)
             (C07.qs kn) (C07.nat_tok deg) (cu = "1"))
    | _ -> "?args")
