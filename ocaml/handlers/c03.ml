(* C03 commands: cross-handler steps / mixed routes of the list-level LayoutSwapper model for all world
   ranks (payload = OCaml int).  Sections separated by "|", nodes of a route by "/", the fields of a node
   (handler id , dims order , topology axes) by ",", per-rank buffers by ";". *)
open Model
open Mr

let sw_nats toks = List.map (fun s -> nat_of_int (int_of_string s)) toks
let sw_show_bufs bs = String.concat " ; " (List.map (fun b -> str_ints b) bs)

let sw_node toks =
  match split_on "," toks with
  | [h; dims; ax] -> (nat_of_int (int_of_string (List.hd h)), (sw_nats dims, sw_nats ax))
  | _ -> failwith "node"

let sw_parse toks =
  (* N | nprocsT | node / node / ... ; buf0 ; buf1 ...   (first node = current layout) *)
  match split_on ";" toks with
  | head :: bufs ->
      (match split_on "|" head with
       | [n; np; route] ->
           (match List.map sw_node (split_on "/" route) with
            | cur :: rest -> (sw_nats n, sw_nats np, cur, rest, List.map ints bufs)
            | [] -> failwith "route")
       | _ -> failwith "head")
  | _ -> failwith "args"

let () =
  (* swok N | nprocsT | cur / n1 / n2 ... : is every step acceptable to sw_route_correct? *)
  register "swok" (fun t ->
    let (n, np, cur, route, _) = sw_parse t in
    let d' = nat_of_int (List.length n - 1) in
    if sw_route_ok_b n np d' cur route then "1" else "0");
  (* swroute N | nprocsT | cur / n1 / ... ; buf0 ; buf1 ; ...  ->  destination prefix of every world rank *)
  register "swroute" (fun t ->
    let (n, np, cur, route, bufs) = sw_parse t in
    let d' = nat_of_int (List.length n - 1) in
    sw_show_bufs (sw_run_route (-1) n np d' cur route bufs));
  (* swwf N | nprocsT | src / dst : sw_step_wf_b of one cross-handler step (handler ids ignored) *)
  register "swwf" (fun t ->
    let (n, np, cur, route, _) = sw_parse t in
    let d' = nat_of_int (List.length n - 1) in
    match route with
    | [nxt] -> if sw_step_wf_b n np d' (snd cur) (snd nxt) then "1" else "0"
    | _ -> failwith "swwf: one step");
  (* swstep N | nprocsT | src / dst ; bufs : one cross-handler step (same / scatter / gather by dispatch) *)
  register "swstep" (fun t ->
    let (n, np, cur, route, bufs) = sw_parse t in
    let d' = nat_of_int (List.length n - 1) in
    match route with
    | [nxt] -> sw_show_bufs (sw_run_step (-1) n np d' (snd cur) (snd nxt) bufs)
    | _ -> failwith "swstep: one step");
  (* swkind nprocsT | src / dst : which branch the dispatch takes and the axis found by getAxes *)
  register "swkind" (fun t ->
    match split_on "|" t with
    | [np; route] ->
        (match List.map sw_node (split_on "/" route) with
         | [cur; nxt] ->
             let np = sw_nats np in
             let s = snd cur and d = snd nxt in
             let ns = int_of_nat (sw_nd np (snd s)) and nd = int_of_nat (sw_nd np (snd d)) in
             let show = function None -> "none" | Some a -> string_of_int (int_of_nat a) in
             if ns = nd then "same" else if ns < nd then "scatter " ^ show (sw_scatter_axis s d)
             else "gather " ^ show (sw_gather_axis s d)
         | _ -> failwith "swkind: two nodes")
    | _ -> failwith "swkind");
  (* swctor l , l / l / l | p p / p / p : the constructor's choice -> "mx | topology | ax / ax / ..." or "none" *)
  register "swctor" (fun t ->
    match split_on "|" t with
    | [lays; procs] ->
        let layouts = List.map (fun h -> List.map sw_nats (split_on "," h)) (split_on "/" lays) in
        let nprocs = List.map sw_nats (split_on "/" procs) in
        (match sw_ctor layouts nprocs with
         | None -> "none"
         | Some ((mx, topo), axes) ->
             let si l = String.concat " " (List.map (fun x -> string_of_int (int_of_nat x)) l) in
             string_of_int (int_of_nat mx) ^ " | " ^ si topo ^ " | " ^ String.concat " / " (List.map si axes))
    | _ -> failwith "swctor")
