(* C02 / C20 commands *)
open Model
open Mr

(* Python: max_proc/nprocs evaluated in binary64, ratio = max/min, new_ratio < ratio *)
let better_float m1 m2 new1 new2 n1 n2 =
  let r a b = let d1 = float_of_int m1 /. float_of_int a and d2 = float_of_int m2 /. float_of_int b in
    (if d1 < d2 then d2 else d1) /. (if d2 < d1 then d2 else d1) in
  r (int_of_z new1) (int_of_z new2) < r (int_of_z n1) (int_of_z n2)

let show_res = function
  | Ok (a, b) -> Printf.sprintf "ok %d %d" (int_of_z a) (int_of_z b)
  | Err -> "err"
  | OOF -> "oof"

let () =
  register "pg" (fun t -> match ints t with
    | [mpi; m1; m2] -> show_res (compute (z_of_int mpi) (z_of_int m1) (z_of_int m2) (better_float m1 m2))
    | _ -> "?args");
  register "pgx" (fun t -> match ints t with
    | [mpi; m1; m2] -> show_res (compute (z_of_int mpi) (z_of_int m1) (z_of_int m2) (better_exact (z_of_int m1) (z_of_int m2)))
    | _ -> "?args");
  register "starts" (fun t -> match ints t with
    | [n; p] -> str_ints (List.map int_of_nat (starts_table (nat_of_int n) (nat_of_int p)))
    | _ -> "?args");
  register "bmax" (fun t -> match ints t with
    | [n; p] -> string_of_int (int_of_nat (bmax (nat_of_int n) (nat_of_int p)))
    | _ -> "?args");
  register "owner" (fun t -> match ints t with
    | [n; p; g] -> string_of_int (int_of_nat (owner (nat_of_int n) (nat_of_int p) (nat_of_int g)))
    | _ -> "?args")
