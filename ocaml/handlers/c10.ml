(* C10 commands: the Qc instance of FluxAdv.v.  Rationals travel as hexnum/hexden, integers in
   decimal, an unwritten cell of vals as "_".  Groups of tokens are separated by "|".
   Answers: "ok <values>" or "err index|fuel|div|arg".  Nothing is computed here. *)
open Model
open Mr

let zs toks = List.map (fun s -> z_of_int (int_of_string s)) toks
let str_zs l = String.concat " " (List.map (fun z -> string_of_int (int_of_z z)) l)
let opt_of_tok s = if s = "_" then None else Some (C07.q_of_tok s)
let tok_of_opt = function None -> "_" | Some q -> C07.tok_of_q q
let bool_tok s = (s = "1")
(* flat (nz*nq*np) -> [nz][nq][np] *)
let tab3 nq np flat = if flat = [] then [] else C07.rows nq (C07.rows np flat)
let str_rows z = String.concat " ; " (List.map C07.str_qs z)

let () =
  (* fx.pts <n> <dz> <dtheta> <zDist> <z> -> ok shifts | thetaShifts | coeffs *)
  register "fx.pts" (fun t -> match t with
    | [n; dz; dth; zd; z] ->
        C07.show (fun ((sh, tss), lc) -> str_zs sh ^ " | " ^ C07.str_qs tss ^ " | " ^ C07.str_qs lc)
          (fxq_get_lagrange_pts (C07.nat_tok n) (C07.q_of_tok dz) (C07.q_of_tok dth) (C07.q_of_tok zd) (C07.q_of_tok z))
    | _ -> "?args");
  (* fx.lag <zPos> | zPts -> ok coeffs *)
  register "fx.lag" (fun t -> match split_on "|" t with
    | [[zpos]; zpts] -> "ok " ^ C07.str_qs (fxq_lag_coeffs (C07.qs zpts) (C07.q_of_tok zpos))
    | _ -> "?args");
  (* fx.glv <nz> <i> <deg> <cu> <pi> | shifts | qVals | thetaShifts | knots | coeffs | vals flat -> ok vals flat *)
  register "fx.glv" (fun t -> match split_on "|" t with
    | [[nz; i; deg; cu; pi]; sh; qv; tss; kn; co; tab] ->
        let shifts = zs sh and qvals = C07.qs qv in
        C07.show (fun v -> String.concat " " (List.map tok_of_opt (List.concat (List.concat v))))
          (fxq_get_lagrange_vals (C07.q_of_tok pi) (C07.nat_tok nz) (C07.nat_tok i) shifts
             (tab3 (List.length qvals) (List.length shifts) (List.map opt_of_tok tab))
             qvals (C07.qs tss) (C07.qs kn) (C07.nat_tok deg) (C07.qs co) (bool_tok cu))
    | _ -> "?args");
  (* fx.flux <nq> <nr> <np> | lagrange coeffs | vals flat ([nr][nq][np]) -> ok rows *)
  register "fx.flux" (fun t -> match split_on "|" t with
    | [[nq; nr; np]; lc; tab] ->
        C07.show str_rows
          (fxq_flux_advection (C07.nat_tok nq) (C07.nat_tok nr) (C07.qs lc)
             (tab3 (int_of_string nq) (int_of_string np) (List.map opt_of_tok tab)))
    | _ -> "?args");
  (* fx.step <nz> <deg> <cu> <ncoef> <pi> | qVals | cs flat | shifts | thetaShifts | lagrange coeffs | knots -> ok rows *)
  register "fx.step" (fun t -> match split_on "|" t with
    | [[nz; deg; cu; nc; pi]; qv; cs; sh; tss; lc; kn] ->
        C07.show str_rows
          (fxq_step (C07.q_of_tok pi) (C07.nat_tok nz) (C07.qs qv) (C07.rows (int_of_string nc) (C07.qs cs)) (zs sh)
             (C07.qs tss) (C07.qs lc) (C07.qs kn) (C07.nat_tok deg) (bool_tok cu))
    | _ -> "?args");
  (* fx.floor <y> ; fx.mod <x> <m> *)
  register "fx.floor" (fun t -> match t with
    | [y] -> "ok " ^ string_of_int (int_of_z (advq_floor (C07.q_of_tok y)))
    | _ -> "?args");
  register "fx.mod" (fun t -> match t with
    | [x; m] -> "ok " ^ C07.tok_of_q (advq_mod (C07.q_of_tok x) (C07.q_of_tok m))
    | _ -> "?args")
