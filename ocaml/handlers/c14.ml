(* C14 commands: the Qc instance of the Galerkin model (GalerkinModel.v / GalerkinQc.v).
   Rationals travel as hexnum/hexden (C07.q_of_tok); groups of tokens are separated by "|";
   tables (cell x point) are flat row-major with nq columns.  Nothing is computed here. *)
open Model
open Mr

let zs toks = List.map (fun s -> z_of_int (int_of_string s)) toks
let tab nq toks = if toks = [] then [] else C07.rows nq (C07.qs toks)
let mats l = String.concat " ; " (List.map (fun m -> C07.str_qs (List.concat m)) l)
let pair (c, v) = C07.str_qs c ^ " ; " ^ C07.str_qs v
let q1 = function [x] -> C07.q_of_tok x | _ -> failwith "one rational expected"

let () =
  (* gk.band <p> <nc> <nq> | knots | pts | wts | mf per cell | A | B | C | D | E
     -> ok mass ; k2PhiPsi ; PhiPsi ; dPhidPsi ; dPhiPsi   (nb x nb, row-major) *)
  let asm f t = match split_on "|" t with
    | [[p; nc; nq]; kn; pts; wts; mf; a; b; c; d; e] ->
        let n = int_of_string nq in
        C07.show mats (f (C07.qs kn) (C07.nat_tok p) (C07.nat_tok nc) (C07.nat_tok nq) (tab n pts) (C07.qs wts) (C07.qs mf)
                         (tab n a) (tab n b) (tab n c) (tab n d) (tab n e))
    | _ -> "?args" in
  register "gk.band" (asm gkq_band);
  register "gk.dense" (asm gkq_dense);
  (* gk.solve <p> <nc> <nq> <m> | lN | uN | knots | pts | wts | mf per cell | A | B | C | D | E | buf | rho | rs
     -> ok coefficients ; values at rs *)
  register "gk.solve" (fun t -> match split_on "|" t with
    | [[p; nc; nq; m]; ln; un; kn; pts; wts; mf; a; b; c; d; e; buf; rho; rs] ->
        let n = int_of_string nq in
        C07.show pair (gkq_solve (C07.qs kn) (C07.nat_tok p) (C07.nat_tok nc) (C07.nat_tok nq) (tab n pts) (C07.qs wts) (C07.qs mf)
                         (tab n a) (tab n b) (tab n c) (tab n d) (tab n e) (zs ln) (zs un) (z_of_int (int_of_string m))
                         (C07.qs buf) (C07.qs rho) (C07.qs rs))
    | _ -> "?args");
  (* gk.solvef: as gk.solve with the table of rho(x) at the points instead of the coefficients of rho *)
  register "gk.solvef" (fun t -> match split_on "|" t with
    | [[p; nc; nq; m]; ln; un; kn; pts; wts; mf; a; b; c; d; e; buf; rhot; rs] ->
        let n = int_of_string nq in
        C07.show pair (gkq_solve_func (C07.qs kn) (C07.nat_tok p) (C07.nat_tok nc) (C07.nat_tok nq) (tab n pts) (C07.qs wts) (C07.qs mf)
                         (tab n a) (tab n b) (tab n c) (tab n d) (tab n e) (zs ln) (zs un) (z_of_int (int_of_string m))
                         (C07.qs buf) (tab n rhot) (C07.qs rs))
    | _ -> "?args");
  (* gk.case <p> <nc> <nq> | lN | uN | knots | pts | wts | mf per cell | A | B | C | D | E | buf | rs | item | item ...
     item = d <m> <coefficients of rho>   or   f <m> <rho at the points>
     -> ok mass ; k2PhiPsi ; PhiPsi ; dPhidPsi ; dPhiPsi ;; coeffs ; values ;; coeffs ; values ... *)
  register "gk.case" (fun t -> match split_on "|" t with
    | [p; nc; nq] :: ln :: un :: kn :: pts :: wts :: mf :: a :: b :: c :: d :: e :: buf :: rs :: work ->
        let n = int_of_string nq in
        let w = List.map (function
          | "d" :: m :: rho -> (z_of_int (int_of_string m), Inl (C07.qs rho))
          | "f" :: m :: rhot -> (z_of_int (int_of_string m), Inr (tab n rhot))
          | _ -> failwith "work item") work in
        C07.show (fun (ms, sols) -> String.concat " ;; " (mats ms :: List.map pair sols))
          (gkq_case (C07.qs kn) (C07.nat_tok p) (C07.nat_tok nc) (C07.nat_tok nq) (tab n pts) (C07.qs wts) (C07.qs mf)
             (tab n a) (tab n b) (tab n c) (tab n d) (tab n e) (zs ln) (zs un) (C07.qs buf) (C07.qs rs) w)
    | _ -> "?args");
  (* gk.linsolve <n> | A row-major | b *)
  register "gk.linsolve" (fun t -> match split_on "|" t with
    | [[n]; a; b] -> C07.show C07.str_qs (gkq_lin_solve (C07.nat_tok n) (tab (int_of_string n) a) (C07.qs b))
    | _ -> "?args");
  (* gk.refuses | lN | uN | values of rFactor at the points *)
  register "gk.refuses" (fun t -> match split_on "|" t with
    | [[]; ln; un; c] -> (match gkq_refuses (zs ln) (zs un) [C07.qs c] with true -> "ok 1" | false -> "ok 0")
    | _ -> "?args");
  (* gk.ranges <nb> <m> | lN | uN -> start_range end_range nUnknowns coeff_lo coeff_hi stiff_lo stiff_hi *)
  register "gk.ranges" (fun t -> match split_on "|" t with
    | [[nb; m]; ln; un] ->
        "ok " ^ str_ints (List.map int_of_nat (gkq_ranges (C07.nat_tok nb) (zs ln) (zs un) (z_of_int (int_of_string m))))
    | _ -> "?args")
