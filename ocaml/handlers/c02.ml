(* C02 commands: layout tables, buffer size, accessors.  Lists are separated by "|", layouts by ";" *)
open Model
open Mr

let nats toks = List.map (fun s -> nat_of_int (int_of_string s)) toks
let show_nats l = str_ints (List.map int_of_nat l)

let () =
  (* layout N | nprocs | dims | coords  ->  starts | ends | shape | max_shape | size | max_size *)
  register "layout" (fun t -> match List.map nats (split_on "|" t) with
    | [n; np; dims; co] ->
        String.concat " | " [ show_nats (l_starts n np dims co); show_nats (l_ends n np dims co);
                              show_nats (l_shape n np dims co); show_nats (l_max_shape n np dims);
                              string_of_int (int_of_nat (l_size n np dims co));
                              string_of_int (int_of_nat (l_max_size n np dims));
                              show_nats (inv_dims dims) ]
    | _ -> "?args");
  (* bufsize N | nprocs | coords | dims1 ; dims2 ; ... *)
  register "bufsize" (fun t -> match split_on "|" t with
    | [n; np; co; ls] ->
        let layouts = List.map nats (split_on ";" ls) in
        string_of_int (int_of_nat (handler_bufsize (nats n) (nats np) (nats co) layouts))
    | _ -> "?args");
  register "swapaxes" (fun t -> match List.map nats (split_on "|" t) with
    | [np; a; b] -> show_nats (swap_axes np a b) ^ " ; " ^ (if compatible np a b then "1" else "0")
    | _ -> "?args");
  (* acc N | nprocs | dims | coords  ->  for every axis i: getCoordVals(i) as indices ; ... || for every dimension e: getEta(e) as k:index ... *)
  register "acc" (fun t -> match List.map nats (split_on "|" t) with
    | [n; np; dims; co] ->
        let d = List.length dims in
        let ax = List.init d (fun i -> show_nats (acc_coord_vals_idx n np dims co (nat_of_int i))) in
        let et = List.init d (fun e -> String.concat " " (List.map (fun (k, v) -> string_of_int (int_of_nat k) ^ ":" ^ string_of_int (int_of_nat v))
                                                           (acc_get_eta_idx n np dims co (nat_of_int e)))) in
        String.concat " ; " ax ^ " || " ^ String.concat " ; " et
    | _ -> "?args");
  (* ggi starts | dims | idx *)
  register "ggi" (fun t -> match List.map nats (split_on "|" t) with
    | [st; dims; idx] -> show_nats (global_indices st dims idx)
    | _ -> "?args")
