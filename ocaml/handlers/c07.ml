(* C07 commands: the Qc instance of the spline model (SplineModel.v / SplineQc.v).
   Rationals travel as hexnum/hexden.  Groups of tokens are separated by "|".
   Answers: "ok <values>" or "err index|fuel|div|arg".  Nothing is computed here. *)
open Model
open Mr

let q_of_tok s =
  match String.index_opt s '/' with
  | None -> spq_of (z_of_hex s) XH
  | Some i ->
      let n = String.sub s 0 i and d = String.sub s (i + 1) (String.length s - i - 1) in
      (match z_of_hex d with
       | Zpos p -> spq_of (z_of_hex n) p
       | _ -> failwith "denominator")
let tok_of_q (a : qc) = hex_of_z a.qnum ^ "/" ^ hex_of_z (Zpos a.qden)
let qs toks = List.map q_of_tok toks
let str_qs l = String.concat " " (List.map tok_of_q l)
let nat_tok s = nat_of_int (int_of_string s)

(* flat row-major list -> rows of length ncols *)
let rows ncols flat =
  let rec take n l acc = if n = 0 then (List.rev acc, l) else
    (match l with [] -> failwith "rows" | x :: r -> take (n - 1) r (x :: acc)) in
  let rec go l = if l = [] then [] else let (r, rest) = take ncols l [] in r :: go rest in
  if ncols <= 0 then failwith "ncols" else go flat

let show f = function
  | SpOk a -> "ok " ^ f a
  | SpIndexErr -> "err index"
  | SpFuelErr -> "err fuel"
  | SpDivErr -> "err div"
  | SpArgErr -> "err arg"

let () =
  (* sp.span <degree> <x> | knots *)
  register "sp.span" (fun t -> match split_on "|" t with
    | [[deg; x]; kn] -> show (fun s -> string_of_int (int_of_nat s)) (spq_nu_find_span (qs kn) (nat_tok deg) (q_of_tok x))
    | _ -> "?args");
  (* sp.basis <degree> <der> <x> <span> | knots *)
  register "sp.basis" (fun t -> match split_on "|" t with
    | [[deg; der; x; span]; kn] ->
        let f = (match int_of_string der with
                 | 0 -> spq_nu_basis_funs | 1 -> spq_nu_basis_funs_1st_der | _ -> failwith "der") in
        show str_qs (f (qs kn) (nat_tok deg) (q_of_tok x) (nat_tok span))
    | _ -> "?args");
  (* sp.nu1s <degree> <der> <x> | knots | coeffs *)
  register "sp.nu1s" (fun t -> match split_on "|" t with
    | [[deg; der; x]; kn; co] ->
        show tok_of_q (spq_nu_eval_1d_scalar (q_of_tok x) (qs kn) (nat_tok deg) (qs co) (nat_tok der))
    | _ -> "?args");
  (* sp.nu1v <degree> <der> | xs | knots | coeffs *)
  register "sp.nu1v" (fun t -> match split_on "|" t with
    | [[deg; der]; xs; kn; co] ->
        show str_qs (spq_nu_eval_1d_vector (qs xs) (qs kn) (nat_tok deg) (qs co) (nat_tok der))
    | _ -> "?args");
  (* sp.nu2s <deg1> <deg2> <der1> <der2> <ncols> <x> <y> | knots1 | knots2 | coeffs row-major *)
  register "sp.nu2s" (fun t -> match split_on "|" t with
    | [[d1; d2; e1; e2; nc; x; y]; k1; k2; co] ->
        show tok_of_q (spq_nu_eval_2d_scalar (q_of_tok x) (q_of_tok y) (qs k1) (nat_tok d1) (qs k2) (nat_tok d2)
                         (rows (int_of_string nc) (qs co)) (nat_tok e1) (nat_tok e2))
    | _ -> "?args");
  (* sp.nu2c <deg1> <deg2> <der1> <der2> <ncols> | X | Y | knots1 | knots2 | coeffs : rows joined by ";" *)
  register "sp.nu2c" (fun t -> match split_on "|" t with
    | [[d1; d2; e1; e2; nc]; xs; ys; k1; k2; co] ->
        show (fun z -> String.concat " ; " (List.map str_qs z))
          (spq_nu_eval_2d_cross (qs xs) (qs ys) (qs k1) (nat_tok d1) (qs k2) (nat_tok d2)
             (rows (int_of_string nc) (qs co)) (nat_tok e1) (nat_tok e2))
    | _ -> "?args");
  (* sp.nu2v <deg1> <deg2> <der1> <der2> <ncols> | xs | ys | knots1 | knots2 | coeffs *)
  register "sp.nu2v" (fun t -> match split_on "|" t with
    | [[d1; d2; e1; e2; nc]; xs; ys; k1; k2; co] ->
        show str_qs (spq_nu_eval_2d_vector (qs xs) (qs ys) (qs k1) (nat_tok d1) (qs k2) (nat_tok d2)
                       (rows (int_of_string nc) (qs co)) (nat_tok e1) (nat_tok e2))
    | _ -> "?args");
  (* sp.cuspan <x> | xmin xmax dx ncells(int) -> ok <span> <offset> *)
  register "sp.cuspan" (fun t -> match split_on "|" t with
    | [[x]; [xmin; xmax; dx; nc]] ->
        show (fun (s, o) -> string_of_int (int_of_z s) ^ " " ^ tok_of_q o)
          (spq_cu_find_span (q_of_tok xmin) (q_of_tok xmax) (q_of_tok dx) (q_of_tok x) (z_of_int (int_of_string nc)))
    | _ -> "?args");
  (* sp.cubasis <der> <offset> <dx> *)
  register "sp.cubasis" (fun t -> match t with
    | [der; o; dx] ->
        (match int_of_string der with
         | 0 -> "ok " ^ str_qs (spq_cu_basis_funs (q_of_tok o))
         | 1 -> "ok " ^ str_qs (spq_cu_basis_funs_1st_der (q_of_tok o) (q_of_tok dx))
         | _ -> "?args")
    | _ -> "?args");
  (* the cu_ entry points: same layout as the nu_ ones, knots = xmin xmax dx float(ncells) *)
  register "sp.cu1s" (fun t -> match split_on "|" t with
    | [[deg; der; x]; kn; co] ->
        show tok_of_q (spq_cu_eval_1d_scalar (q_of_tok x) (qs kn) (nat_tok deg) (qs co) (nat_tok der))
    | _ -> "?args");
  register "sp.cu1v" (fun t -> match split_on "|" t with
    | [[deg; der]; xs; kn; co] ->
        show str_qs (spq_cu_eval_1d_vector (qs xs) (qs kn) (nat_tok deg) (qs co) (nat_tok der))
    | _ -> "?args");
  register "sp.cu2s" (fun t -> match split_on "|" t with
    | [[d1; d2; e1; e2; nc; x; y]; k1; k2; co] ->
        show tok_of_q (spq_cu_eval_2d_scalar (q_of_tok x) (q_of_tok y) (qs k1) (nat_tok d1) (qs k2) (nat_tok d2)
                         (rows (int_of_string nc) (qs co)) (nat_tok e1) (nat_tok e2))
    | _ -> "?args");
  register "sp.cu2c" (fun t -> match split_on "|" t with
    | [[d1; d2; e1; e2; nc]; xs; ys; k1; k2; co] ->
        show (fun z -> String.concat " ; " (List.map str_qs z))
          (spq_cu_eval_2d_cross (qs xs) (qs ys) (qs k1) (nat_tok d1) (qs k2) (nat_tok d2)
             (rows (int_of_string nc) (qs co)) (nat_tok e1) (nat_tok e2))
    | _ -> "?args");
  register "sp.cu2v" (fun t -> match split_on "|" t with
    | [[d1; d2; e1; e2; nc]; xs; ys; k1; k2; co] ->
        show str_qs (spq_cu_eval_2d_vector (qs xs) (qs ys) (qs k1) (nat_tok d1) (qs k2) (nat_tok d2)
                       (rows (int_of_string nc) (qs co)) (nat_tok e1) (nat_tok e2))
    | _ -> "?args");
  (* sp.uknots <xmin> <dx> <ncells> : the uniform extension knot vector of the cubic fast path *)
  register "sp.uknots" (fun t -> match t with
    | [xmin; dx; nc] -> "ok " ^ str_qs (spq_uniform_knots (q_of_tok xmin) (q_of_tok dx) (nat_tok nc))
    | _ -> "?args")
