(* C18 commands: text <-> datatypes only *)
open Model
open Mr

let nats l = List.map nat_of_int l
let show_nats l = str_ints (List.map int_of_nat l)
let show_opt = function Some n -> string_of_int (int_of_nat n) | None -> "-"
(* N travels as decimal int (times stay far below 2^62) *)
let n_of_int n = if n = 0 then N0 else Npos (pos_of_int n)
let int_of_n = function N0 -> 0 | Npos p -> int_of_pos p
let stamp_of s =
  let v = int_of_string (String.sub s 1 (String.length s - 1)) in
  if s.[0] = 'f' then (n_of_int v, true) else (n_of_int (2 * v), false)

let () =
  (* ckslab | shape | grid | coords  ->  starts | lens *)
  register "ckslab" (fun t -> match split_on "|" t with
    | [[]; shp; grd; crd] ->
      let (s, l) = ck_slab (nats (ints shp)) (nats (ints grd)) (nats (ints crd)) in
      show_nats s ^ " | " ^ show_nats l
    | _ -> "?args");
  (* ckrt | shape | write grid | read grid | read coords | cells (global array, row-major)  -> local block read *)
  register "ckrt" (fun t -> match split_on "|" t with
    | [[]; shp; grd; grd'; crd'; cells] ->
      String.concat " " (List.map show_opt
        (ck_roundtrip (nats (ints shp)) (nats (ints grd)) (nats (ints grd')) (nats (ints crd')) (nats (ints cells))))
    | _ -> "?args");
  (* ckfile | shape | write grid | cells | rank coords ; rank coords ; ...  -> file content after these ranks wrote *)
  register "ckfile" (fun t -> match split_on "|" t with
    | [[]; shp; grd; cells; ranks] ->
      let rk = List.filter (fun l -> l <> []) (split_on ";" ranks) in
      String.concat " " (List.map show_opt
        (ck_file_cells (nats (ints shp)) (nats (ints grd)) (List.map (fun r -> nats (ints r)) rk) (nats (ints cells))))
    | _ -> "?args");
  (* ckrun saveStep tN start(-1 = new simulation) oracle-bits(string of 0/1, "-" = empty)
       -> ti fld nloops | file times | line time indices ("-" = zero row) *)
  register "ckrun" (fun t -> match t with
    | [s; tn; start; orc] ->
      let orc = if orc = "-" then [] else List.init (String.length orc) (fun i -> orc.[i] = '1') in
      let st = int_of_string start in
      let start = if st < 0 then None else Some (nat_of_int st) in
      let ((((ti, fld), nl), files), lines) = ck_run_nat (nat_of_int (int_of_string s)) (nat_of_int (int_of_string tn)) start orc in
      Printf.sprintf "%d %d %d | %s | %s" (int_of_nat ti) (int_of_nat fld) (int_of_nat nl)
        (String.concat " " (List.map (fun (k, f) -> Printf.sprintf "%d:%d" (int_of_nat k) (int_of_nat f)) files))
        (String.concat " " (List.map (function Some (k, _) -> string_of_int (int_of_nat k) | None -> "-") lines))
    | _ -> "?args");
  (* cknear dt t (exact integers in a common unit, hexadecimal) -> nearest step, floor step *)
  register "cknear" (fun t -> match t with
    | [dt; tm] -> hex_of_z (ck_nearest_step (z_of_hex dt) (z_of_hex tm)) ^ " " ^ hex_of_z (ck_floor_step (z_of_hex dt) (z_of_hex tm))
    | _ -> "?args");
  register "cktime" (fun t -> match ints t with
    | [dt; tm] -> string_of_int (int_of_nat (ck_ti_of_time (nat_of_int dt) (nat_of_int tm)))
    | _ -> "?args");
  (* ckname t -> character codes of grid_{t:06}.h5 *)
  register "ckname" (fun t -> match ints t with
    | [tm] -> str_ints (List.map int_of_n (ck_name (n_of_int tm)))
    | _ -> "?args");
  (* stamps: "i<t>" = int time t, "f<h>" = float time h/2 (h in half units) *)
  (* ckstamp s -> character codes of the checkpoint name of the stamp *)
  register "ckstamp" (fun t -> match t with
    | [s] -> str_ints (List.map int_of_n (ck_stamp_name (stamp_of s)))
    | _ -> "?args");
  (* cklatest s1 s2 ... -> character codes of the name chosen by max(names, key = time of the name) *)
  register "cklatest" (fun t ->
    match ck_latest_name (List.map (fun s -> ck_stamp_name (stamp_of s)) t) with
    | None -> "none"
    | Some nm -> str_ints (List.map int_of_n nm));
  (* cklexlatest t1 t2 ... -> the lexicographic max of the int names (behaviour of the pinned tree) *)
  register "cklexlatest" (fun t ->
    let names = List.map (fun x -> ck_name (n_of_int x)) (ints t) in
    match ck_pymax ck_lex_lt names with
    | None -> "none"
    | Some nm -> str_ints (List.map int_of_n nm));
  (* ckkey codes... -> the time (half units) read from a name *)
  register "ckkey" (fun t -> string_of_int (int_of_n (ck_key (List.map n_of_int (ints t)))));
  register "ckparse" (fun t -> match ints t with
    | [tm] -> string_of_int (int_of_n (ck_parse_time (ck_fmt06 (n_of_int tm))))
    | _ -> "?args")
