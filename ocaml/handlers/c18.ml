(* C18 commands: text <-> datatypes only *)
open Model
open Mr

let nats l = List.map nat_of_int l
let show_nats l = str_ints (List.map int_of_nat l)
let show_opt = function Some n -> string_of_int (int_of_nat n) | None -> "-"
(* N travels as decimal int (times stay far below 2^62) *)
let n_of_int n = if n = 0 then N0 else Npos (pos_of_int n)
let int_of_n = function N0 -> 0 | Npos p -> int_of_pos p
let stamp_of s =
  let v = int_of_string (String.sub s 1 (String.length s - 1)) in
  if s.[0] = 'f' then (n_of_int v, true) else (n_of_int (2 * v), false)

let () =
  (* ckslab | shape | grid | coords  ->  starts | lens *)
  register "ckslab" (fun t -> match split_on "|" t with
    | [[]; shp; grd; crd] ->
      let (s, l) = ck_slab (nats (ints shp)) (nats (ints grd)) (nats (ints crd)) in
      show_nats s ^ " | " ^ show_nats l
    | _ -> "?args");
  (* ckrt | shape | write grid | read grid | read coords | cells (global array, row-major)  -> local block read *)
  register "ckrt" (fun t -> match split_on "|" t with
    | [[]; shp; grd; grd'; crd'; cells] ->
      String.concat " " (List.map show_opt
        (ck_roundtrip (nats (ints shp)) (nats (ints grd)) (nats (ints grd')) (nats (ints crd')) (nats (ints cells))))
    | _ -> "?args");
  (* ckfile | shape | write grid | cells | rank coords ; rank coords ; ...  -> file content after these ranks wrote *)
  register "ckfile" (fun t -> match split_on "|" t with
    | [[]; shp; grd; cells; ranks] ->
      let rk = List.filter (fun l -> l <> []) (split_on ";" ranks) in
      String.concat " " (List.map show_opt
        (ck_file_cells (nats (ints shp)) (nats (ints grd)) (List.map (fun r -> nats (ints r)) rk) (nats (ints cells))))
    | _ -> "?args");
  (* ckrun saveStep tN start(-1 = new simulation) oracle-bits(string of 0/1, "-" = empty)
       -> ti fld nloops | file times | line time indices ("-" = zero row) *)
  register "ckrun" (fun t -> match t with
    | [s; tn; start; orc] ->
      let orc = if orc = "-" then [] else List.init (String.length orc) (fun i -> orc.[i] = '1') in
      let st = int_of_string start in
      let start = if st < 0 then None else Some (nat_of_int st) in
      let ((((ti, fld), nl), files), lines) = ck_run_nat (nat_of_int (int_of_string s)) (nat_of_int (int_of_string tn)) start orc in
      Printf.sprintf "%d %d %d | %s | %s" (int_of_nat ti) (int_of_nat fld) (int_of_nat nl)
        (String.concat " " (List.map (fun (k, f) -> Printf.sprintf "%d:%d" (int_of_nat k) (int_of_nat f)) files))
        (String.concat " " (List.map (function Some (k, _) -> string_of_int (int_of_nat k) | None -> "-") lines))
    | _ -> "?args");
  (* cknear dt t (exact integers in a common unit, hexadecimal) -> nearest step, floor step *)
  register "cknear" (fun t -> match t with
    | [dt; tm] -> hex_of_z (ck_nearest_step (z_of_hex dt) (z_of_hex tm)) ^ " " ^ hex_of_z (ck_floor_step (z_of_hex dt) (z_of_hex tm))
    | _ -> "?args");
  register "cktime" (fun t -> match ints t with
    | [dt; tm] -> string_of_int (int_of_nat (ck_ti_of_time (nat_of_int dt) (nat_of_int tm)))
    | _ -> "?args");
  (* ckname t -> character codes of grid_{t:06}.h5 *)
  register "ckname" (fun t -> match ints t with
    | [tm] -> str_ints (List.map int_of_n (ck_name (n_of_int tm)))
    | _ -> "?args");
  (* stamps: "i<t>" = int time t, "f<h>" = float time h/2 (h in half units) *)
  (* ckstamp s -> character codes of the checkpoint name of the stamp *)
  register "ckstamp" (fun t -> match t with
    | [s] -> str_ints (List.map int_of_n (ck_stamp_name (stamp_of s)))
    | _ -> "?args");
  (* cklatest s1 s2 ... -> character codes of the name chosen by max(names, key = time of the name) *)
  register "cklatest" (fun t ->
    match ck_latest_name (List.map (fun s -> ck_stamp_name (stamp_of s)) t) with
    | None -> "none"
    | Some nm -> str_ints (List.map int_of_n nm));
  (* cklexlatest t1 t2 ... -> the lexicographic max of the int names (behaviour of the pinned tree) *)
  register "cklexlatest" (fun t ->
    let names = List.map (fun x -> ck_name (n_of_int x)) (ints t) in
    match ck_pymax ck_lex_lt names with
    | None -> "none"
    | Some nm -> str_ints (List.map int_of_n nm));
  (* ckkey codes... -> the time (half units) read from a name *)
  register "ckkey" (fun t -> string_of_int (int_of_n (ck_key (List.map n_of_int (ints t)))));
  register "ckparsetime" (fun t -> match ints t with
    | [tm] -> string_of_int (int_of_n (ck_parse_time (ck_fmt06 (n_of_int tm))))
    | _ -> "?args");
  (* ckparse | nkeys kmin kmax krp | rank of key 0..nkeys-1 | defaults k:bits ... | entry ; entry ; ...
     entry = key N bits  |  key E <prefix expression: i<k> l<bits> n + - * />     (bits = binary64, hexadecimal)
     arithmetic = OCaml's IEEE binary64 (as the PrimFloat / CPython operations); mid a b = 0.5 * (a + b)
     -> "wf=<0|1> ok v0 v1 ..." (bits or "-")  |  "wf=.. alone" | "wf=.. noprogress" | "wf=.. fuel" *)
  register "ckparse" (fun t -> match split_on "|" t with
    | [[]; [nk; kmin; kmax; krp]; ranks; defs; ents] ->
      let fl s = Int64.float_of_bits (Int64.of_string ("0x" ^ s)) in
      let bits x = Printf.sprintf "%Lx" (Int64.bits_of_float x) in
      let rec expr toks = match toks with
        | tok :: r when tok.[0] = 'i' -> (EId (nat_of_int (int_of_string (String.sub tok 1 (String.length tok - 1)))), r)
        | tok :: r when tok.[0] = 'l' -> (ELit (fl (String.sub tok 1 (String.length tok - 1))), r)
        | "n" :: r -> let (a, r1) = expr r in (ENeg a, r1)
        | op :: r -> let (a, r1) = expr r in let (b, r2) = expr r1 in
            (EBin ((match op with "+" -> OAdd | "-" -> OSub | "*" -> OMul | "/" -> ODiv | _ -> failwith "op"), a, b), r2)
        | [] -> failwith "expr" in
      let entry toks = match toks with
        | k :: "N" :: [b] -> (nat_of_int (int_of_string k), CNum (fl b))
        | k :: "E" :: r -> (nat_of_int (int_of_string k), CExpr (fst (expr r)))
        | _ -> failwith "entry" in
      let entries = List.map entry (List.filter (fun l -> l <> []) (split_on ";" ents)) in
      let defaults = List.map (fun s -> match String.split_on_char ':' s with
        | [k; b] -> (nat_of_int (int_of_string k), fl b) | _ -> failwith "default") defs in
      let rk = Array.of_list (List.map int_of_string ranks) in
      let rank k = let i = int_of_nat k in nat_of_int (if i < Array.length rk then rk.(i) else 0) in
      let n = int_of_string nk in
      let kmin = nat_of_int (int_of_string kmin) and kmax = nat_of_int (int_of_string kmax)
      and krp = nat_of_int (int_of_string krp) in
      let wf = if cp_wfb krp rank entries then "wf=1" else "wf=0" in
      let mid a b = 0.5 *. (a +. b) in
      (match cp_parse ( +. ) ( -. ) ( *. ) ( /. ) (fun x -> -. x) mid kmin kmax krp entries with
       | CPOk _ ->
         (match cp_get_constants ( +. ) ( -. ) ( *. ) ( /. ) (fun x -> -. x) mid kmin kmax krp defaults entries with
          | Some st -> wf ^ " ok " ^ String.concat " " (List.init n (fun i ->
              match st (nat_of_int i) with Some v -> bits v | None -> "-"))
          | None -> wf ^ " ?")
       | CPAlone -> wf ^ " alone"
       | CPNoProgress -> wf ^ " noprogress"
       | CPFuel -> wf ^ " fuel")
    | _ -> "?args")
