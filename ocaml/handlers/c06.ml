(* C06 commands.
   tracesok m0 ; m1 ; ... || c s c s ... ; c s ... ; ...     (members of communicator ids 0..; per-rank traces as
                                                             pairs communicator-id signature-code)
   routes n | a b a b ... (edges, in the order LayoutHandler meets them) | alphabetical rank of node 0..n-1 | set iteration order *)
open Model
open Mr

let nats toks = List.map (fun s -> nat_of_int (int_of_string s)) toks
let rec pairs_of = function
  | a :: b :: r -> (nat_of_int (int_of_string a), nat_of_int (int_of_string b)) :: pairs_of r
  | [] -> []
  | _ -> failwith "odd"

let () =
  register "tracesok" (fun t -> match split_on "||" t with
    | [ms; ts] ->
        let mems = List.map nats (split_on ";" ms) in
        let traces = List.map pairs_of (split_on ";" ts) in
        if traces_ok mems traces then "1" else "0"
    | _ -> "?args");
  register "routes" (fun t -> match split_on "|" t with
    | [[n]; edges; names; order] ->
        let n = int_of_string n in
        let rk = Array.of_list (List.map int_of_string names) in
        let nrank x = nat_of_int rk.(int_of_nat x) in
        let tab = route_table (nat_of_int n) (conn_of (pairs_of edges)) nrank (nats order) in
        String.concat " ; " (List.map (fun row -> String.concat " , " (List.map (fun r -> str_ints (List.map int_of_nat r)) row)) tab)
    | _ -> "?args");
  (* routesweep n k m : the Coq function order_independent_slice n k m (graphs with index = k mod m) evaluated by the extracted code (all graphs on n layouts,
     all alphabetical orders of the names, all set iteration orders) *)
  register "routesweep" (fun t -> match t with
    | [n; k; m] -> if order_independent_slice (nat_of_int (int_of_string n)) (nat_of_int (int_of_string k)) (nat_of_int (int_of_string m)) then "1" else "0"
    | _ -> "?args")
