(* C12 commands: the Qc instance of the poloidal advection model (PolAdvModel.v / PolAdvQc.v).
   Rationals travel as hexnum/hexden (C07 helpers), groups of tokens are separated by "|".
   pol.expl cu nul d1phi d2phi ncphi d1pol d2pol ncpol pi dt v B0
            | consts(7) | rPts | qPts | k1phi | k2phi | cphi (row-major) | k1pol | k2pol | cpol
   pol.impl <same first group> tol fuel | <same groups>
   Answers: "ok [sweeps] ; f row-major ; foot theta ; foot r" | "err index|fuel|div|arg" | "outoffuel".
   Nothing is computed here. *)
open Model
open Mr

let b_tok s = (int_of_string s <> 0)
let grid3 g =
  let flat = List.concat g in
  String.concat " ; " [C07.str_qs (List.map (fun (a, _) -> a) flat);
                       C07.str_qs (List.map (fun (_, (q, _)) -> q) flat);
                       C07.str_qs (List.map (fun (_, (_, r)) -> r) flat)]

let () =
  register "pol.expl" (fun t -> match split_on "|" t with
    | [[cu; nul; d1p; d2p; ncp; d1f; d2f; ncf; pi; dt; v; b0]; consts; rp; qp; k1p; k2p; cp; k1f; k2f; cf] ->
        C07.show grid3
          (polq_step_expl (b_tok cu) (b_tok nul) (C07.q_of_tok pi) (C07.q_of_tok dt) (C07.q_of_tok v) (C07.q_of_tok b0)
             (C07.qs consts) (C07.qs rp) (C07.qs qp)
             (C07.qs k1p) (C07.nat_tok d1p) (C07.qs k2p) (C07.nat_tok d2p) (C07.rows (int_of_string ncp) (C07.qs cp))
             (C07.qs k1f) (C07.nat_tok d1f) (C07.qs k2f) (C07.nat_tok d2f) (C07.rows (int_of_string ncf) (C07.qs cf)))
    | _ -> "?args");
  register "pol.impl" (fun t -> match split_on "|" t with
    | [[cu; nul; d1p; d2p; ncp; d1f; d2f; ncf; pi; dt; v; b0; tol; fuel]; consts; rp; qp; k1p; k2p; cp; k1f; k2f; cf] ->
        (match polq_step_impl (b_tok cu) (b_tok nul) (C07.q_of_tok pi) (C07.q_of_tok dt) (C07.q_of_tok v) (C07.q_of_tok b0)
             (C07.qs consts) (C07.qs rp) (C07.qs qp)
             (C07.qs k1p) (C07.nat_tok d1p) (C07.qs k2p) (C07.nat_tok d2p) (C07.rows (int_of_string ncp) (C07.qs cp))
             (C07.qs k1f) (C07.nat_tok d1f) (C07.qs k2f) (C07.nat_tok d2f) (C07.rows (int_of_string ncf) (C07.qs cf))
             (C07.q_of_tok tol) (C07.nat_tok fuel) with
         | PolOutOfFuel -> "outoffuel"
         | PolRet r -> C07.show (fun (g, n) -> string_of_int (int_of_nat n) ^ " ; " ^ grid3 g) r)
    | _ -> "?args");
  (* pol.mod <x> <m> *)
  register "pol.mod" (fun t -> match t with
    | [x; m] -> C07.show C07.tok_of_q (polq_mod (C07.q_of_tok x) (C07.q_of_tok m))
    | _ -> "?args");
  (* pol.feq <pi> <r> <v> | consts *)
  register "pol.feq" (fun t -> match split_on "|" t with
    | [[pi; r; v]; consts] -> "ok " ^ C07.tok_of_q (polq_feq (C07.q_of_tok pi) (C07.qs consts) (C07.q_of_tok r) (C07.q_of_tok v))
    | _ -> "?args")
