(* C15 commands: mode bookkeeping of DiffEqSolver / QuasiNeutralitySolver (QnModes.v).
   Groups separated by "|".  Only text <-> datatype conversion here. *)
open Model
open Mr

let zs l = List.map z_of_int (ints l)
let sz z = string_of_int (int_of_z z)
let szs l = String.concat " " (List.map sz l)
let pair (a, b) = sz a ^ ":" ^ sz b
let pairs l = String.concat " " (List.map pair l)
let term = function QnDPhidPsi -> "dPhidPsi" | QnDPhiPsi -> "dPhiPsi" | QnPhiPsi -> "PhiPsi"
let sel = function QnStiff0 -> "stiffness0" | QnSliced (q, r) -> "sliced:" ^ sz q ^ ":" ^ pair r

let () =
  register "qn.freq" (fun t -> match t with [n] -> szs (qn_fftfreq (nat_of_int (int_of_string n))) | _ -> "?args");
  register "qn.msq" (fun t -> match t with [n] -> szs (qn_msq (nat_of_int (int_of_string n))) | _ -> "?args");
  register "qn.conj" (fun t -> match t with
    | [n] -> str_ints (List.map int_of_nat (qnx_conj_table (nat_of_int (int_of_string n)))) | _ -> "?args");
  (* qn.ranges nb n | lN | uN  ->  coeff ranges ; stiffness ranges *)
  register "qn.ranges" (fun t -> match split_on "|" t with
    | [[nb; n]; ln; un] ->
        let (c, s) = qnx_ranges (z_of_int (int_of_string nb)) (zs ln) (zs un) (nat_of_int (int_of_string n)) in
        pairs c ^ " ; " ^ pairs s
    | _ -> "?args");
  (* qn.scalars nb | lN | uN -> start_range end_range excluded_end_pts nUnknowns *)
  register "qn.scalars" (fun t -> match split_on "|" t with
    | [[nb]; ln; un] ->
        let (((a, b), c), d) = qnx_scalars (z_of_int (int_of_string nb)) (zs ln) (zs un) in szs [a; b; c; d]
    | _ -> "?args");
  register "qn.mode0full" (fun t -> match split_on "|" t with
    | [[nb]; ln; un] -> string_of_bool (qnx_mode0_full (z_of_int (int_of_string nb)) (zs ln) (zs un))
    | _ -> "?args");
  (* qn.params nb n | lN | uN -> per mode: matrix choice, mass rows, coefficient slice *)
  register "qn.params" (fun t -> match split_on "|" t with
    | [[nb; n]; ln; un] ->
        String.concat " " (List.map (fun p -> sel p.qp_sel ^ "," ^ pair p.qp_mass_rows ^ "," ^ pair p.qp_coeffs)
          (qn_params (z_of_int (int_of_string nb)) (zs ln) (zs un) (nat_of_int (int_of_string n))))
    | _ -> "?args");
  (* qn.chi adiabatic(0/1) chi -> the matrices summed into _stiffness0, or err value *)
  register "qn.chi" (fun t -> match t with
    | [ad; chi] ->
        (match qn_stiffness0_terms (ad = "1") (z_of_int (int_of_string chi)) with
         | None -> "err value"
         | Some l -> "ok " ^ String.concat " " (List.map term l))
    | _ -> "?args");
  register "qn.stiffness" (fun t -> "ok " ^ String.concat " " (List.map term qn_stiffness_terms))
