(* C05: opspec <k> -> lookup kinds of operator k (axis0 ; axis1);
        resolve <kind L|G|X> n p a i -> the global index selected in the identity table [0..n-1] *)
open Model
open Mr

let kind_of = function "L" -> LocalTab | "G" -> GlobalTab | "X" -> GlobalTabLocalIdx | _ -> failwith "kind"
let show_kind = function LocalTab -> "L" | GlobalTab -> "G" | GlobalTabLocalIdx -> "X"
let rec seqn a n = if n <= 0 then [] else a :: seqn (a + 1) (n - 1)

let () =
  register "opspec" (fun t -> match ints t with
    | [k] -> let o = List.nth all_ops k in
        String.concat " " (List.map show_kind o.axis0_lookups) ^ " ; " ^ String.concat " " (List.map show_kind o.axis1_lookups)
        ^ " ; " ^ (if op_sound o then "1" else "0")
    | _ -> "?args");
  register "resolve" (fun t -> match t with
    | [k; n; p; a; i] ->
        let n = int_of_string n and p = int_of_string p and a = int_of_string a and i = int_of_string i in
        let tab = List.map nat_of_int (seqn 0 n) in
        let s = bstart (nat_of_int n) (nat_of_int p) (nat_of_int a) and l = blen (nat_of_int n) (nat_of_int p) (nat_of_int a) in
        string_of_int (int_of_nat (resolve (nat_of_int 99999) (kind_of k) tab s l (nat_of_int i)))
    | _ -> "?args")
