(* C16 commands: the density kernels at Qc (Density.v / DensityQc.v).  Rationals travel as hexnum/hexden
   (C07.q_of_tok); arrays are flat row-major with their shape given in the head group; groups are separated by "|".
   Answers: "ok <flat row-major values>" or "err index".  Only text <-> datatype conversion here. *)
open Model
open Mr

(* n chunks of k consecutive elements *)
let chunk n k flat =
  let rec take k l acc = if k = 0 then (List.rev acc, l) else
    (match l with [] -> failwith "chunk: short" | x :: r -> take (k - 1) r (x :: acc)) in
  let rec go n l = if n = 0 then (if l = [] then [] else failwith "chunk: long") else
    let (c, rest) = take k l [] in c :: go (n - 1) rest in
  go n flat
let arr2 a b flat = chunk a b flat
let arr3 a b c flat = List.map (chunk b c) (chunk a (b * c) flat)
let arr4 a b c d flat = List.map (arr3 b c d) (chunk a (b * c * d) flat)
let n_ s = nat_of_int (int_of_string s)
let show3 = function
  | None -> "err index"
  | Some r -> "ok " ^ String.concat " " (List.map C07.tok_of_q (List.concat (List.concat r)))

let () =
  (* dn.prho n m p fr fc gi gj gk gl | feq (fr x fc) | grid (gi x gj x gk x gl) | q *)
  register "dn.prho" (fun t -> match split_on "|" t with
    | [[n; m; p; fr; fc; gi; gj; gk; gl]; feq; grid; q] ->
        let i = int_of_string in
        show3 (dnq_get_perturbed_rho (n_ n) (n_ m) (n_ p) (arr2 (i fr) (i fc) (C07.qs feq))
                 (arr4 (i gi) (i gj) (i gk) (i gl) (C07.qs grid)) (C07.qs q))
    | _ -> "?args");
  (* dn.rho n m p gi gj gk gl | grid | q *)
  register "dn.rho" (fun t -> match split_on "|" t with
    | [[n; m; p; gi; gj; gk; gl]; grid; q] ->
        let i = int_of_string in
        show3 (dnq_get_rho (n_ n) (n_ m) (n_ p) (arr4 (i gi) (i gj) (i gk) (i gl) (C07.qs grid)) (C07.qs q))
    | _ -> "?args");
  (* dn.finder s n m p fr fc gi gj gk gl | fEq (whole table fr x fc) | grid | q *)
  register "dn.finder" (fun t -> match split_on "|" t with
    | [[s; n; m; p; fr; fc; gi; gj; gk; gl]; feq; grid; q] ->
        let i = int_of_string in
        show3 (dnq_finder_perturbed_rho (arr2 (i fr) (i fc) (C07.qs feq)) (n_ s) (n_ n) (n_ m) (n_ p)
                 (arr4 (i gi) (i gj) (i gk) (i gl) (C07.qs grid)) (C07.qs q))
    | _ -> "?args");
  (* dn.rows s len fr fc | fEq -> the rows self._fEq[range(s, s+len)] *)
  register "dn.rows" (fun t -> match split_on "|" t with
    | [[s; len; fr; fc]; feq] ->
        (match dnq_feq_rows (arr2 (int_of_string fr) (int_of_string fc) (C07.qs feq)) (n_ s) (n_ len) with
         | None -> "err index"
         | Some r -> "ok " ^ String.concat " ; " (List.map C07.str_qs r))
    | _ -> "?args")
